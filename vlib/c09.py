"""C09: compiled code is structurally well-formed on every control-flow path.

The verified certificate checker (Verify/Check.v, soundness in Verify/Sound.v) is run on the REAL
compiler's output: every function of every skeleton program, of generated Core programs and of the
repository's corpus.  The VM model the soundness theorem talks about is validated against the real
interpreter on the same functions (T2 traces), and the labelling is compared with the real
(depth, operand length) observations of the trace hook."""
import os
import re
import shutil

from . import core, programs, vmtie, coregen, coretie

CONTROL = {"if_stmt", "while_loop", "else_stmt", "done", "jmp", "jmp_pop", "ret", "ret_mod", "store_skip", "jmp_not_nil"}


def register_definite_assignment(code, opname):
    """UNVERIFIED extra pass (a lint, not part of the proved certificate): on EVERY path a compiler temporary `#k` is
    written (store_fast / the fall-through of store_skip) before `load_fast #k` reads it, in a block frame that is still
    open at the read.  Must-analysis over the same edges as the certificate; the state at an instruction is the set of
    (register, depth of the frame holding it) pairs written on all paths.  Returns None or a description."""
    n = len(code)
    state = {0: (0, frozenset())}
    work = [0]

    def pop_to(regs, d):
        return frozenset((r, rd) for r, rd in regs if rd <= d)
    while work:
        ip = work.pop()
        if ip >= n:
            continue
        d, regs = state[ip]
        op, args = code[ip]
        name = opname.get(op, "?")
        try:
            if name == "load_fast" and args and args[0].startswith("#"):
                if not any(r == args[0] for r, _ in regs):
                    return "load_fast %s at instruction %d can be reached on a path that never wrote %s in an open frame" % (args[0], ip, args[0])
            if name in ("if_stmt", "while_loop"):
                succ = [(ip + 1, d + 1, regs), (ip + int(args[0]), d, regs)]
            elif name == "else_stmt":
                succ = [(ip + 1, d + 1, regs)]
            elif name == "done":
                succ = [(ip + 1, d - 1, pop_to(regs, d - 1))]
            elif name == "jmp":
                succ = [(ip + int(args[0]), d, regs)]
            elif name == "jmp_pop":
                k = int(args[1]) if len(args) > 1 else 1
                succ = [(ip + int(args[0]), d - k, pop_to(regs, d - k))]
            elif name == "store_skip":
                succ = [(ip + 1, d, regs | {(args[0], d)} if args[0].startswith("#") else regs), (ip + int(args[2]), d, regs)]
            elif name == "jmp_not_nil":
                succ = [(ip + 1, d, regs), (ip + int(args[0]), d, regs)]
            elif name in ("ret", "ret_mod"):
                succ = []
            elif name in ("store_fast", "store") and args and args[0].startswith("#"):
                succ = [(ip + 1, d, frozenset((r, rd) for r, rd in regs if r != args[0]) | {(args[0], d)})]
            elif name in ("delete_name_scoped", "delete_name_reference_scoped"):
                gone = set(a for a in args if a.startswith("#"))
                succ = [(ip + 1, d, frozenset((r, rd) for r, rd in regs if not (r in gone and rd == d)))]
            else:
                succ = [(ip + 1, d, regs)]
        except (ValueError, IndexError):
            return None          # malformed control instructions are the certificate's business
        for t, dd, rr in succ:
            if t < 0 or t >= n or dd < 0:
                continue
            if t not in state:
                state[t] = (dd, rr)
                work.append(t)
            else:
                d0, r0 = state[t]
                meet = r0 & rr
                if meet != r0:
                    state[t] = (d0, meet)
                    work.append(t)
    return None


def extended_structural_check(code, opname):
    """UNVERIFIED fallback for functions that use opcodes outside the modelled set: depth-only abstract
    interpretation over the control opcodes (every other opcode is taken to fall through without touching
    the block frames).  Returns None if fine, else a description of the defect."""
    n = len(code)
    depth = {0: 0}
    work = [0]
    while work:
        ip = work.pop()
        if ip == n:
            continue
        d = depth[ip]
        op, args = code[ip]
        name = opname.get(op, "?")
        succ = []
        try:
            if name in ("if_stmt", "while_loop"):
                succ = [(ip + 1, d + 1), (ip + int(args[0]), d)]
            elif name == "else_stmt":
                succ = [(ip + 1, d + 1)]
            elif name == "done":
                if d == 0:
                    return "done with no open block at %d" % ip
                succ = [(ip + 1, d - 1)]
            elif name == "jmp":
                succ = [(ip + int(args[0]), d)]
            elif name == "jmp_pop":
                k = int(args[1]) if len(args) > 1 else 1
                if k > d:
                    return "jmp_pop pops %d of %d frames at %d" % (k, d, ip)
                succ = [(ip + int(args[0]), d - k)]
            elif name == "store_skip":
                succ = [(ip + 1, d), (ip + int(args[2]), d)]
            elif name == "jmp_not_nil":
                succ = [(ip + 1, d), (ip + int(args[0]), d)]
            elif name in ("ret", "ret_mod"):
                succ = []
            else:
                succ = [(ip + 1, d)]
        except (ValueError, IndexError):
            return "malformed control instruction at %d: %r" % (ip, code[ip])
        for t, dd in succ:
            explicit = name in ("if_stmt", "while_loop", "jmp", "jmp_pop", "store_skip", "jmp_not_nil") and not (t == ip + 1 and name not in ("jmp", "jmp_pop"))
            if t < 0 or t > n or (t == n and (dd != 0)):
                return "edge %d -> %d (depth %d) leaves the function" % (ip, t, dd)
            if t == n and name in ("jmp", "jmp_pop"):
                return "jump %d -> %d targets the end of the function" % (ip, t)
            if t in depth:
                if depth[t] != dd:
                    return "instruction %d reached with block depths %d and %d" % (t, depth[t], dd)
            else:
                depth[t] = dd
                work.append(t)
    return None


def certify_dump(drv, dump_path):
    rc, out, err = core.sh([drv, dump_path, "--certify"], timeout=120)
    res = {}
    if rc != 0:
        return None
    for l in out.decode("utf8", "replace").split("\n"):
        if l.startswith("CERT "):
            p = l.split(" ")
            name = bytes.fromhex(p[1]).decode("utf8", "replace")
            lab = None
            if len(p) > 3 and p[2] == "true":
                lab = []
                for x in p[3].split(";"):
                    if x == "-" or x == "":
                        lab.append(None)
                    else:
                        d, s = x.split(":")
                        lab.append((int(d), set(int(y) for y in s.split(",") if y != "")))
            res[name] = (p[2] == "true", lab)
    return res


def check_trace_against_labelling(trace, certs):
    """every executed instruction's real (block depth, operand length) must be what the labelling says"""
    stack = []          # (fn, base depth)
    checked = 0
    for fn, ip, op, depth, oplen in trace:
        if fn not in certs or certs[fn][1] is None:
            continue
        lab = certs[fn][1]
        # locate the activation this record belongs to
        while stack and not (stack[-1][0] == fn and ip < len(lab) and lab[ip] is not None and stack[-1][1] + lab[ip][0] == depth):
            if ip == 0 and (not stack or depth > stack[-1][1]):
                break
            stack.pop()
        if not stack or stack[-1][0] != fn or ip == 0 and stack[-1][1] + (lab[0][0] if lab[0] else 0) != depth:
            if ip == 0:
                stack.append((fn, depth))
            else:
                # first record seen for an activation we did not see start (callee of an unmodelled function)
                if ip < len(lab) and lab[ip] is not None:
                    stack.append((fn, depth - lab[ip][0]))
        if ip >= len(lab) or lab[ip] is None:
            return "executed instruction %s#%d is not labelled reachable" % (fn, ip), checked
        d, s = lab[ip]
        if stack[-1][1] + d != depth:
            return "%s#%d: block depth %d in the real run, labelling says %d" % (fn, ip, depth - stack[-1][1], d), checked
        if oplen not in s:
            return "%s#%d: operand length %d in the real run, labelling says %s" % (fn, ip, oplen, sorted(s)), checked
        checked += 1
    return None, checked


CALL_LIKE = {"call", "call_self", "call_object", "call_lib", "mutate", "ret", "ret_mod", "module_entry", "load_self_export", "export_special", "make_object"}


def check_trace_edges(trace, dump, opname):
    """every step the interpreter REALLY took inside one function is an edge of that function's code: after the
    instruction at ip (not a call / return, which hand control to other code) comes ip+1, or the target its jump names.
    A jump that lands anywhere else is reported whatever the emitted code looks like.  -> (message or None, edges checked)"""
    code_of = {}
    for f, fns in dump.items():
        for name, code in fns.items():
            code_of["%s#%s" % (f, name)] = code
    checked = 0
    prev = None
    for rec in trace:
        fn, ip = rec[0], rec[1]
        if prev is not None and prev[0] == fn and fn in code_of:
            code = code_of[fn]
            pip = prev[1]
            if pip < len(code):
                op, args = code[pip]
                name = opname.get(op, "?")
                if name not in CALL_LIKE and not name.startswith("call"):
                    try:
                        if name in ("if_stmt", "while_loop"):
                            succ = {pip + 1, pip + int(args[0])}
                        elif name in ("jmp", "jmp_pop"):
                            succ = {pip + int(args[0])}
                        elif name == "store_skip":
                            succ = {pip + 1, pip + int(args[2])}
                        elif name == "jmp_not_nil":
                            succ = {pip + 1, pip + int(args[0])}
                        else:
                            succ = {pip + 1}
                    except (ValueError, IndexError):
                        succ = None
                    # a function may call itself through a value: the callee's first record has ip 0
                    if succ is not None and ip not in succ and ip != 0:
                        return "%s: after instruction %d (%s %s) the interpreter executed instruction %d; the code allows %s" % (fn, pip, name, " ".join(args), ip, sorted(succ)), checked
                    checked += 1
        prev = rec
    return None, checked


# ---- instructions complain about the operand stack / the frames they find with these words: no compiled program may
# ever make the interpreter say one of them (whatever else the program does)
SHAPE_COMPLAINT = re.compile(r"can only store a single item|requires a stack size of|requires only 2 items|requires one item on the local|requires two items in the local|"
                             r"the stack is empty|there is no item in the local stack|should have a clean operating stack|can only return a single item|"
                             r"can only operate on a single item|missing argument, and|require at least one entry in the local stack|could not get op items|"
                             r"has not been mapped at this scope|requires a primitive at the top|expected an item at the top of the operating stack|"
                             r"require only a single item on the operating stack|STACK MISMATCH")


def opassign_operand_programs():
    """(outside the Core AST: lists, maps, fields) compound assignment to every kind of target with every form of right
    operand -- the operand's own instructions run while the target is being worked on.  Fixed; Python oracle."""
    pre = ("n = 3\nrate = 2\nxs: [int...] = [10, 20, 30]\nm = map[str, int] { \"k\": 5 }\nclass Bx {\n  v: int\n  constructor(self) {\n    self.v = 7\n  }\n"
           "  fn fetch(self) -> int {\n    return self.v\n  }\n}\no = Bx()\nf = fn(x: int) -> int {\n  return x + 1\n}\ng = fn(x: int) -> int {\n  return x * 2\n}\nopt: int? = nil\ni = 1\n")
    targets = [("x", "x = 4\n", 4), ("xs[1]", "", 20), ("xs[i]", "", 20), ("xs[i + 1]", "", 30), ("m[\"k\"]", "", 5), ("o.v", "", 7)]
    rhss = [("rate * n", 6), ("f(n)", 4), ("f(n) + g(n)", 10), ("xs[0]", 10), ("xs[f(0) - 1]", 10), ("[1, 2][0]", 1), ("o.fetch()", 7), ("(opt) or 3", 3),
            ("-n", -3), ("f(f(n))", 5), ("m[\"k\"] + xs[0]", 15), ("n", 3), ("9", 9), ("(n + 1) * (rate - 5)", -12)]
    out = []
    for tgt, decl, init in targets:
        for op in ("+=", "-=", "*="):
            for rhs, rv in rhss:
                val = init + rv if op == "+=" else init - rv if op == "-=" else init * rv
                body = "%s%s %s %s\nprint %s\n" % (decl, tgt, op, rhs, tgt)
                for where in ("module", "function", "loop"):
                    if where == "module":
                        src = pre + body
                    elif where == "function":
                        src = pre + "run = fn() {\n" + "".join("  " + l + "\n" for l in body.split("\n")[:-1]) + "}\nrun()\n"
                    else:
                        if tgt == "x":
                            continue
                        src = pre + "from 0 to 1 {\n  if n == 3 {\n" + "".join("    " + l + "\n" for l in body.split("\n")[:-1]) + "  }\n}\n"
                    out.append({"name": "opassign %s %s %s (%s)" % (tgt, op, rhs, where), "files": {"main.ms": src}, "entry": "main.ms", "kind": "catalogue", "expect": [str(val)]})
    return out


def same_name_functions_projects():
    """several files whose functions have the SAME compiler-given names (`__fn0`, `__module__`) and jumps at the same
    instruction indexes with DIFFERENT offsets (the else-branches differ in length), and at different indexes (the
    if-branches differ), all run in one process; each function is run on both branch outcomes, in both orders"""
    def fn_text(export, tag, ip, ep):
        # no `return` inside the branches: the if-branch ends with the `jmp` over the else-branch, and that jump is executed
        ib = "".join("    print \"%s if-pad %d\"\n" % (tag, i) for i in range(ip))
        eb = "".join("    print \"%s else-pad %d\"\n" % (tag, i) for i in range(ep))
        return ("%sdescribe%s = fn(n: int) -> str {\n  r = \"%s none\"\n  if n > 10 {\n%s    r = \"%s big\"\n  } else {\n%s    r = \"%s small\"\n  }\n  print \"%s after\"\n  return r\n}\n"
                % ("export " if export else "", ": fn(int) -> str" if export else "", tag, ib, tag, eb, tag, tag))

    def lines(tag, ip, ep, n):
        if n > 10:
            return ["%s if-pad %d" % (tag, i) for i in range(ip)] + ["%s after" % tag, "%s big" % tag]
        return ["%s else-pad %d" % (tag, i) for i in range(ep)] + ["%s after" % tag, "%s small" % tag]
    out = []
    for (mi, me, li, le) in ((0, 0, 0, 2), (0, 2, 0, 0), (1, 0, 1, 3), (2, 1, 0, 1), (0, 1, 0, 4)):
        for order in ("main-first", "lib-first"):
            lib = "print \"lib init\"\n" + fn_text(True, "lib", li, le) + "k = 0\nwhile k < 2 {\n  k = k + 1\n  if k == 1 {\n    continue\n  }\n  print \"lib loop \" + k\n}\n"
            calls = [("main", 50), ("lib", 50), ("main", 5), ("lib", 5), ("lib", 11), ("main", 11), ("lib", 3)]
            if order == "lib-first":
                calls = [("lib", 5), ("main", 5), ("lib", 50), ("main", 50), ("main", 3), ("lib", 11)]
            main = "import lib\n" + fn_text(False, "main", mi, me) + "".join("print %sdescribe(%d)\n" % ("lib." if w == "lib" else "", n) for w, n in calls)
            main += "j = 0\nwhile j < 3 {\n  j = j + 1\n  if j == 2 {\n    continue\n  }\n  print \"main loop \" + j\n}\n"
            exp = ["lib init", "lib loop 2"]
            for w, n in calls:
                exp += lines(w, mi if w == "main" else li, me if w == "main" else le, n)
            exp += ["main loop 1", "main loop 3"]
            out.append({"name": "same-named functions in two files, branch lengths %d/%d vs %d/%d, %s" % (mi, me, li, le, order), "files": {"main.ms": main, "lib.ms": lib},
                        "entry": "main.ms", "kind": "catalogue", "expect": exp})
    return out


def run(ctx):
    ok = core.coq_props(ctx, "Props/C09.v")
    binary = core.build_repo()
    from gen import opcodes
    ops, _ = opcodes.parse(core.REPO)
    opname = {i: n for n, i in ops}
    drv = vmtie.driver()
    base = ctx.mktemp()

    # ---- programs: skeletons (exhaustive), generated Core programs, repository corpus
    depth = 2 if ctx.quick() else 3
    skel = coregen.skeleton_programs(depth)
    extra_skel = []
    if ctx.quick():
        d3 = coregen.skeleton_programs(3)
        ctx.rng.shuffle(d3)
        extra_skel = d3[:25]
    else:
        d4 = coregen.skeleton_programs(4)
        ctx.rng.shuffle(d4)
        extra_skel = d4[:400]
    projs = []
    for i, tree in enumerate(skel + extra_skel):
        tree = coregen.assign_spans(tree, "main.ms")
        projs.append({"name": "skeleton%d" % i, "files": {"main.ms": coregen.render_ms(tree)}, "entry": "main.ms", "kind": "skeleton"})
    for i, tree in enumerate(coregen.boolean_chain_programs() + coregen.precedence_programs()):
        tree = coregen.assign_spans([coregen.Gen.norm_s(s) for s in tree], "main.ms")
        projs.append({"name": "boolchain%d" % i, "files": {"main.ms": coregen.render_ms(tree)}, "entry": "main.ms", "kind": "skeleton"})
    for p in coretie.gen_programs(ctx, 60 if ctx.quick() else 600):
        p["kind"] = "generated"
        projs.append(p)
    for p in programs.corpus_from_tests() + programs.corpus_from_examples():
        p = dict(p)
        p["kind"] = "corpus"
        projs.append(p)
    projs += opassign_operand_programs()
    projs += same_name_functions_projects()
    # "all generated programs of the other properties": their fixed catalogues (sources only; their own checks judge the output)
    from . import c07, c15, c17
    others = [c[2] for c in c07.capture_position_cases()] + [c[1] for c in c07.MODIFY_ALIAS_CASES + c07.CLOSURE_FLAG_CASES + c07.OWNER_WRITE_CASES] + [c[2] for c in c07.SELF_CAPTURE_CASES]
    lg = "log = fn(k: int) -> int {\n  print k\n  return k\n}\n"
    others += [lg + c[0] for c in c15.fixed_cases()] + [lg + c[2] for c in c15.opassign_cases(ctx.rng, 30)] + [lg + c[0] for c in c15.extended_cases(ctx.rng, 30)]
    others += [c[1] for c in c17.completed_block_cases()[::3]]
    for i, src in enumerate(others):
        projs.append({"name": "other-catalogue%d" % i, "files": {"main.ms": src}, "entry": "main.ms", "kind": "catalogue"})

    def one(proj):
        real = vmtie.run_real(binary, proj, base, timeout=15)
        out = {"proj": proj, "real_rc": real["rc"], "certs": None, "dump": None, "t2": None, "trace_msg": None, "trace_checked": 0}
        if real["dump"] is not None:
            out["dump"] = programs.parse_dump(open(real["dump"], "rb").read())
            out["certs"] = certify_dump(drv, real["dump"])
            if out["certs"] is not None:
                msg, n = check_trace_against_labelling(real["trace"], out["certs"])
                out["trace_msg"], out["trace_checked"] = msg, n
            out["edge_msg"], out["edges_checked"] = check_trace_edges(real["trace"], out["dump"], opname)
            if proj["kind"] != "corpus" and len(real["trace"]) <= 2500:
                entry = proj["entry"][:-3] + ".mmm#__module__"
                model = vmtie.run_model(drv, real["dump"], entry)
                out["t2"] = vmtie.compare(proj, real, model)
        out["stderr"] = real["stderr"][-400:]
        m = SHAPE_COMPLAINT.search(real["stderr"])
        out["shape"] = m.group(0) if m else None
        out["stdout"] = real["stdout"]
        shutil.rmtree(real["dir"], ignore_errors=True)
        return out

    results = programs.pmap(one, projs)
    n_fn = n_cert = n_ext = n_rej = n_prog = 0
    t2_agree = trace_checked = edges_checked = 0
    distinct = set()
    for r in results:
        proj = r["proj"]
        if r.get("shape") and r["shape"] != "STACK MISMATCH":
            ctx.report("operand-shape-at-run-time", "running %s makes an instruction complain about the stack it finds (`%s`): %s" % (proj["name"], r["shape"], r["stderr"][-300:].replace("\n", " ")),
                       {"project": {k: v for k, v in proj.items() if k != "tree"}, "stderr": r["stderr"], "how": "mscript run main.ms -q"})
        elif proj.get("expect") is not None and r["dump"] is not None and (r["real_rc"] != 0 or r["stdout"].split("\n")[:-1] != proj["expect"]):
            ctx.report("catalogue-program-fails", "%s: exit %s, printed %r, expected %r: %s" % (proj["name"], r["real_rc"], r["stdout"].split("\n")[:-1], proj["expect"], r["stderr"][-300:].replace("\n", " ")),
                       {"project": proj, "stderr": r["stderr"], "how": "mscript run main.ms -q"})
        if r["dump"] is None:
            if proj["kind"] in ("skeleton", "catalogue") and proj.get("expect") is not None or proj["kind"] == "skeleton":
                ctx.report("skeleton-rejected", "a skeleton program was rejected by the compiler: %s" % r["stderr"][-300:],
                           {"project": proj}, found_input=False)
            n_rej += 1
            continue
        n_prog += 1
        certs = r["certs"] or {}
        for f, fns in r["dump"].items():
            for name, code in fns.items():
                q = "%s#%s" % (f, name)
                n_fn += 1
                lint = register_definite_assignment(code, opname)
                if lint:
                    ctx.report("register-read-before-write", "function %s of %s: %s" % (q, proj["name"], lint),
                               {"project": {k: v for k, v in proj.items() if k != "tree"}, "function": q, "code": code[:200],
                                "pass": "unverified definite-assignment analysis of compiler temporaries"})
                key = tuple((op, tuple(a) if opname.get(op) in CONTROL else ()) for op, a in code)
                okc = certs.get(q, (False, None))[0]
                if okc:
                    n_cert += 1
                    if any(opname.get(op) in ("jmp_pop", "while_loop", "if_stmt") for op, _ in code):
                        distinct.add(key)
                    continue
                modelled = all(opname.get(op) in MODELLED for op, _ in code)
                if modelled:
                    # the verified checker rejects a function made only of modelled instructions: a defect of the
                    # emitted code (or of the unverified labelling inference): report with the listing
                    why = extended_structural_check(code, opname)
                    ctx.report("rejected-function" if why else "rejected-function:operand-shape",
                               "the certificate checker rejects %s of %s%s" % (q, proj["name"], (": " + why) if why else " (operand-stack shape)"),
                               {"project": {k: v for k, v in proj.items() if k != "tree"}, "function": q,
                                "listing": ["%d %s %s" % (i, opname.get(op, op), " ".join(a)) for i, (op, a) in enumerate(code)],
                                "structural_defect": why,
                                "note": "the program above is the failing input: the compiler emits this function for it"}, found_input=True)
                else:
                    n_ext += 1
                    why = extended_structural_check(code, opname)
                    if why:
                        ctx.report("extended-structural", "function %s of %s is structurally malformed: %s" % (q, proj["name"], why),
                                   {"project": {k: v for k, v in proj.items() if k != "tree"}, "function": q,
                                    "listing": ["%d %s %s" % (i, opname.get(op, op), " ".join(a)) for i, (op, a) in enumerate(code)], "defect": why})
        if r["trace_msg"]:
            ctx.report("labelling-vs-trace", "real execution disagrees with the certificate on %s: %s" % (proj["name"], r["trace_msg"]),
                       {"project": {k: v for k, v in proj.items() if k != "tree"}, "detail": r["trace_msg"],
                        "correspondence": "labelling (Verify/Check.v) vs trace hook H1"}, found_input=False)
        trace_checked += r["trace_checked"]
        edges_checked += r.get("edges_checked") or 0
        if r.get("edge_msg"):
            ctx.report("executed-edge-not-in-code", "running %s: %s" % (proj["name"], r["edge_msg"]),
                       {"project": {k: v for k, v in proj.items() if k != "tree"}, "detail": r["edge_msg"], "how": "mscript run <entry> -q with the trace hook H1; compare successive records with the dumped code (hook H3)"})
        if "STACK MISMATCH" in r.get("stderr", ""):
            ctx.report("stack-mismatch", "program %s ended normally with a non-empty call stack" % proj["name"],
                       {"project": {k: v for k, v in proj.items() if k != "tree"}, "stderr": r["stderr"]})
        if r["t2"] is not None:
            st, detail = r["t2"]
            if st == "agree":
                t2_agree += 1
            elif st.startswith("DISAGREE"):
                ctx.report("correspondence:vm-model:" + st.split(":", 1)[1],
                           "VM model and interpreter disagree (%s) on %s: %s" % (st, proj["name"], str(detail)[:300]),
                           {"project": {k: v for k, v in proj.items() if k != "tree"}, "status": st, "detail": detail,
                            "correspondence": "T2 VM model (Vm/Model.v) vs bytecode interpreter"}, found_input=False)
    ctx.cov["evaluations"] = n_fn
    ctx.cov["distinct_nontrivial"] = len(distinct)
    ctx.cov["rule"] = ("one evaluation = one emitted function checked by the verified certificate checker; distinct non-trivial = "
                       "distinct control skeletons (opcode sequence + arguments of control instructions) among certified functions "
                       "containing an if/while/jmp_pop")
    ctx.cov["functions_certified_by_verified_checker"] = n_cert
    ctx.cov["functions_outside_modelled_opcodes_checked_by_unverified_depth_analysis"] = n_ext
    ctx.cov["programs"] = n_prog
    ctx.cov["programs_rejected_by_compiler"] = n_rej
    ctx.cov["skeleton_depth_exhaustive"] = depth
    ctx.cov["exhaustive"] = True
    ctx.cov["traces_validated_against_impl"] = t2_agree
    ctx.cov["trace_records_matching_labelling"] = trace_checked
    ctx.cov["executed_edges_found_in_the_code"] = edges_checked
    ctx.sample({"skeleton_program": projs[3]["files"]["main.ms"][:600]})
    ctx.cov["trusted_base"] = ["Coq 8.16.1 kernel; no axioms (Print Assumptions: closed under the global context)",
                               "the labelling inference (Verify/Check.v infer) is unverified: a wrong labelling can only make the checker reject",
                               "extraction (ExtrOcamlBasic only) + extract/vm_driver.ml glue (dump parser)",
                               "hooks H1 (trace) and H3 (dump); VM model hand-written, tied by T2 traces on the same functions"]
    ctx.assumptions = ["operand-shape theorem assumes every call delivers the arity its call site expects (C02)",
                       "functions using opcodes outside Vm/Model.v are covered only by the unverified depth analysis (counted separately)"]
    core.proof_or_search(ctx, ok, ["C09_frames_safe", "C09_shapes_safe", "C09_execute_done_empty"], False)


MODELLED = {"make_int", "make_bool", "make_str", "reserve_primitive", "void", "pop", "printn", "bin_op", "neg", "not", "equ", "neq",
            "fast_rev2", "store", "store_fast", "store_object", "load", "load_fast", "load_callback", "delete_name_scoped",
            "delete_name_reference_scoped", "arg", "if_stmt", "while_loop", "else_stmt", "done", "jmp", "jmp_pop", "store_skip",
            "assert", "unwrap", "unwrap_into", "jmp_not_nil", "make_function", "call", "call_self", "ret", "ret_mod", "bin_op_assign"}
