"""C02: static typing is sound -- accepted programs never hit a dynamic type error, and every non-nil value observed
at run time has the kind of the static type the compiler reports for the expression that produced it.

  (a) operator tables        Coq: Types/OpTable.v   op_table_sound / op_assign_keeps_kind / un_table_sound  (PROOF, all 900+12 cells)
                             tie: every cell x 2 operand variants through the real compiler + interpreter    (exhaustive)
  (b) compatibility relation Coq: Types/Compat.v + CompatProofs.v + CompatLit.v   eq_complex_same_skeleton / eq_complex_compat /
                             eq_complex_literal(_swapped)                                    (PROOF, all depths, all flags, both orders)
                             tie: pairs of types up to constructor depth 2 x 7 typed positions               (accept/reject vs model)
  (c) whole programs         Coq: Types/Core0.v core0_sound (PARTIAL PROOF: native kinds, all operators at any depth, declaration /
                             re-binding / op-assign / if / while: a checked program never reaches a type error, any oracle, any fuel)
                             type-directed generator (well-typed stream + one-fault-per-program stream) + boundary catalogue,
                             judged against the property itself                                               (SEARCH, no model)
"""
import time

from . import core, programs
from . import c02_common as cc
from . import c02_optable, c02_compat, c02_gen, c02_check, c02_catalogue, c02_core0

THEOREMS = ["C02_op_table_sound", "C02_op_assign_keeps_kind", "C02_un_table_sound", "C02_eq_complex_same_skeleton",
            "C02_eq_complex_compat", "C02_eq_complex_literal", "C02_eq_complex_literal_swapped", "C02_type_soundness_partial"]


def run_generated(ctx, binary, n_programs, size, fault=False):
    import random
    base = ctx.mktemp()
    jobs = []
    for i in range(n_programs):
        seed = ctx.rng.getrandbits(48)
        src, meta = c02_gen.generate(random.Random(seed), size, fault=fault)
        jobs.append((seed, src, meta))
    results = programs.pmap(lambda j: cc.run_src(binary, j[1], base, timeout=60), jobs)
    st = {"programs": len(jobs), "accepted": 0, "rejected": 0, "completed": 0, "allowed_failures": {}, "compiler_panics": 0,
          "observations": 0, "violating_programs": 0, "timeouts": 0, "faults_placed": 0, "faulty_rejected": 0, "faulty_accepted": 0}
    dist = {}
    reject_reasons = {}
    labels = set()
    for (seed, src, meta), res in zip(jobs, results):
        for k, v in meta["dist"].items():
            dist[k] = dist.get(k, 0) + v
        if meta.get("fault"):
            st["faults_placed"] += 1
            st["faulty_rejected" if res.verdict == "rejected" else "faulty_accepted"] += 1
        if res.verdict == "rejected":
            st["rejected"] += 1
            d = cc.canon_msg(res.diag)
            reject_reasons[d] = reject_reasons.get(d, 0) + 1
            continue
        if res.verdict == "compiler-panic":
            st["compiler_panics"] += 1      # C16's subject; nothing was accepted
            continue
        if res.verdict == "timeout":
            st["timeouts"] += 1
            continue
        st["accepted"] += 1
        if res.verdict == "ok":
            st["completed"] += 1
        else:
            allowed, fcls = cc.failure_class(res)
            if allowed:
                st["allowed_failures"][fcls] = st["allowed_failures"].get(fcls, 0) + 1
        finds, nobs, nids = c02_check.judge_program(res, meta)
        st["observations"] += nobs
        for oid in range(1, len(meta["obs"]) + 1):
            labels.add(meta["obs"][oid][0])
        if finds:
            st["violating_programs"] += 1
        for cls, what in finds:
            ctx.report(cls, what, {"generator_seed": seed, "size": size, "fault_injected": meta.get("fault"), "program": src, "observed": res.brief(),
                                   "how": "write `program` to m.ms in an empty directory; MSCRIPT_VERIF_TYPED_PRINT=1 mscript run m.ms -q"})
    if len(ctx.cov["samples"]) < 6 and jobs:
        ctx.sample({"generated_program_head": jobs[0][1][:600], "verdict": results[0].verdict})
    st["reject_reasons"] = dict(sorted(reject_reasons.items(), key=lambda kv: -kv[1])[:8])
    st["observation_labels"] = len(labels)
    return st, dist


def run_catalogue(ctx, binary):
    base = ctx.mktemp()
    ents = c02_catalogue.entries()
    results = programs.pmap(lambda e: cc.run_src(binary, e["src"], base, extra_files=e.get("files") or None, timeout=60), ents)
    verdicts = {}
    changed = []
    nobs = 0
    for e, res in zip(ents, results):
        if res.verdict == "rejected":
            acc = "reject"
        elif res.verdict in ("ok", "rt-error", "panic"):
            acc = "accept"
        else:
            acc = res.verdict
        verdicts[e["name"]] = acc
        if acc != e["expect"]:
            changed.append("%s: %s (expected %s)" % (e["name"], acc, e["expect"]))
        if acc != "accept":
            continue
        finds, n, _ = c02_check.judge_program(res, e["meta"])
        nobs += n
        if e.get("cls") == c02_catalogue.UNASSIGNED_FIELD_FINDING and res.verdict == "rt-error" and cc.failure_class(res)[1] == "use-of-nil":
            # the only optional-free expression of the entry is the read of a field whose declared type is PLAIN: the nil
            # it meets is the field the constructor never assigned (nil is otherwise admissible: the general judge is silent)
            finds = finds + [("plain-field-is-nil", "a field declared with a non-optional type was never assigned by the constructor and reads as nil: %s" % res.msg[:120])]
        if e.get("cls") in c02_catalogue.PLAIN_OBSERVATIONS:
            for oid, ts in c02_check.plain_nil_observations(res):
                finds = finds + [("plain-type-holds-nil", "observation o%d: typeof reports the plain type `%s` but the value is nil" % (oid, ts))]
        for cls, what in finds:
            ctx.report(e.get("cls") or "catalogue:" + e["name"], "boundary case `%s`: %s" % (e["name"], what),
                       {"entry": e["name"], "program": e["src"], "other_files": e.get("files") or {}, "observed": res.brief(),
                        "how": "write `program` to m.ms (and `other_files` next to it) in an empty directory; MSCRIPT_VERIF_TYPED_PRINT=1 mscript run m.ms -q"})
    return {"entries": len(ents), "accepted": sum(1 for v in verdicts.values() if v == "accept"),
            "rejected": sum(1 for v in verdicts.values() if v == "reject"), "observations": nobs,
            "verdict_differs_from_expectation": changed}


def run(ctx):
    ok = core.coq_props(ctx, "Props/C02.v")
    binary = core.build_repo()
    t0 = time.time()
    n_a, st_a = c02_optable.run(ctx, binary)
    t1 = time.time()
    n_b, st_b = c02_compat.run(ctx, binary)
    t2 = time.time()
    st_0 = c02_core0.run(ctx, binary, *ctx.c02_tables)
    ctx.cov["core0_tie"] = st_0
    cat = run_catalogue(ctx, binary)
    st_c, dist = run_generated(ctx, binary, 1500 if ctx.quick() else 12000, 40 if ctx.quick() else 60)
    # the same generator with ONE typed position per program given an expression of another kind: a compiler that
    # lost a check accepts it, and the wrong kind is then observed (programs a correct compiler rejects say nothing)
    st_f, dist_f = run_generated(ctx, binary, 1500 if ctx.quick() else 12000, 40, fault=True)
    t3 = time.time()
    ctx.cov["catalogue"] = cat
    ctx.cov["generator"] = st_c
    ctx.cov["generator_fault_injection"] = st_f
    ctx.cov["generator_distribution"] = dict(sorted(dist.items()))
    ctx.cov["wall_parts_s"] = {"optable": round(t1 - t0, 1), "compat": round(t2 - t1, 1), "programs": round(t3 - t2, 1)}
    ctx.cov["evaluations"] = n_a + n_b + st_0["programs"] + cat["entries"] + st_c["programs"] + st_f["programs"]
    ctx.cov["distinct_nontrivial"] = st_a["accepted"] + st_b["accepted"] + st_c["completed"] + cat["accepted"]
    ctx.cov["traces_validated_against_impl"] = n_a + n_b + st_0["programs"]
    ctx.cov["exhaustive"] = True
    ctx.cov["exhaustive_part"] = ("layer (a): all %d operator cells (25 binary operators x 6 x 6 kinds + 2 unary x 6), each with 2 operand-value variants; "
                                  "layers (b), (c) are not exhaustive" % ctx.cov["optable_cells"])
    ctx.cov["rule"] = ("evaluations = programs compiled (and, when accepted, run) by the real binary: operator cells + (expected, supplied, position) "
                       "compatibility cases + catalogue entries + generated programs; distinct_nontrivial = those the compiler ACCEPTED (only they say "
                       "anything about soundness): accepted cells, accepted compatibility cases, accepted catalogue entries, generated programs that ran to completion; "
                       "generator.observations = (typeof, kind tag) pairs compared")
    ctx.cov["proof_vs_search"] = {"proof": "(a) operator tables and (b) compatibility relation: Coq theorems over models tied to the code by the exhaustive / depth-2 runs of this check",
                                  "partial_proof": "(c) Core-0 fragment only (Types/Core0.v core0_sound): native kinds, every operator at every depth, declaration / re-binding / op-assign / if / while",
                                  "search": "(c) everything else -- lists, maps, optionals, functions, classes, aliases, from-loops, and checker + code generator + interpreter together: type-directed generation (well-typed and one-fault streams) and a boundary catalogue, no Coq model"}
    ctx.cov["trusted_base"] = ["Coq 8.16.1 kernel (coqc; vm_compute for the finite table and the examples)", "no axioms (Print Assumptions: closed under the global context)",
                               "hand-written models Types/OpTable.v, Types/Compat.v, Types/Core0.v, tied to get_output_type / run-time ops / eq_complex / the checker's verdict on Core-0 programs by this run",
                               "hook H2 (MSCRIPT_VERIF_TYPED_PRINT kind tags), the parser of `typeof` strings and the run-time error classifier in vlib/c02_common.py, c02_check.py",
                               "the program generator (vlib/c02_gen.py): its own typing rules only decide which programs are tried, not the verdict"]
    ctx.assumptions = ["`nil` is admissible for every static type (the property speaks of values other than nil; use of nil is a dynamic failure the language defines)",
                       "elements of lists / maps / objects are observed through the access paths the programs take, not by walking values",
                       "an annotation cannot spell the type of the literal `nil` nor (after fix 1164471) the empty fixed-shape list: hypothesis `clean` of the compatibility theorems"]
    spec_fail = st_a["spec_fail"] > 0 or st_c["violating_programs"] > 0 or st_f["violating_programs"] > 0 or any(v[3] for v in ctx.viol)
    core.proof_or_search(ctx, ok, THEOREMS, spec_fail)
