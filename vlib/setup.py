"""setup_cmd: build everything from files on disk (offline)."""
import os, sys, time
from . import core


def run():
    t0 = time.time()
    os.makedirs(core.CACHE, exist_ok=True)
    from gen import opcodes
    opcodes.main(core.REPO, os.path.join(core.COQ, "Gen", "OpcodeTable.v"))
    try:
        from gen import pest2coq
        pest2coq.main(core.REPO, os.path.join(core.COQ, "Gen", "Grammar.v"))
    except ImportError:
        pass
    core.coq_makefile()
    # -k: one family that fails to build must not take the others down; each check re-checks its own target
    rc, out, err = core.sh("timeout 3000 make -k -j%d" % core.NCPU, cwd=core.COQ, timeout=3100)
    sys.stdout.write(out.decode("utf8", "replace")[-3000:])
    if rc != 0:
        sys.stdout.write(err.decode("utf8", "replace")[-5000:])
        print("setup: WARNING some Coq targets failed to build (the affected checks will report it)")
    print("setup: coq built in %.0fs" % (time.time() - t0))
    core.build_repo()
    print("setup: repo (debug, hooks on) built %.0fs" % (time.time() - t0))
    core.build_repo(release=True)
    print("setup: repo (release, hooks on) built %.0fs" % (time.time() - t0))
    hdir = os.path.join(core.VERIF, "harness")
    for h in sorted(os.listdir(hdir)):
        if os.path.exists(os.path.join(hdir, h, "Cargo.toml")):
            core.build_harness(h)
            print("setup: harness %s built %.0fs" % (h, time.time() - t0))
    from . import extract
    exd = os.path.join(core.VERIF, "extract")
    found = []
    for f in sorted(os.listdir(exd)):
        if f.endswith("Extract.v"):
            nm = f[:-len("Extract.v")].lower()
            if os.path.exists(os.path.join(exd, nm + "_driver.ml")):
                found.append((nm, f, nm + "_driver.ml"))
    for name, v, drv in found:
        try:
            extract.build(name, v, drv)
        except core.BuildError as ex:
            print("setup: WARNING extraction %s failed: %s" % (name, str(ex)[-500:]))
            continue
        print("setup: extraction %s built %.0fs" % (name, time.time() - t0))
    print("setup: done in %.0fs" % (time.time() - t0))
    return 0

