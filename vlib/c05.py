"""C05: numeric operators yield the exact value and the promoted kind, or fail.

 1. Coq: Props/C05.v (impl-model of the operator macros meets the Z / Flocq specification for ALL operands)
 2. correspondence: the real operator code (harness/num, built in debug AND release) vs the extracted
    impl-model on a boundary-value matrix + random operands  (model != impl -> correspondence broken)
 3. the property itself: the real code vs the specification (extracted Coq spec; cross-checked against an
    independent Python oracle), same inputs -> concrete failing input
 4. ~200 cases per run through the real CLI (`mscript run`, typed print): make_*, bin_op, equ/neq, neg, not
 5. compound assignment (`+= -= *= /= %=`) on a variable, a list element, an object field (from outside and through
    `self`), a map value: a fixed family of ~1000 programs per build against the Python oracle (bin_op_assign, both branches)
"""
import itertools
import os

from . import core, programs, num_common as nc

KINDS = ["I", "B", "Y", "F"]


# ----------------------------------------------------------------------------- case generation
def gen_cases(ctx):
    rng = ctx.rng
    quick = ctx.quick()
    bset = {k: nc.boundary_values(k) for k in KINDS}
    cases, strata = [], {}
    n_matrix_total = 0
    for op in nc.BINOPS:
        for k1 in KINDS:
            for k2 in KINDS:
                pairs = list(itertools.product(bset[k1], bset[k2]))
                n_matrix_total += len(pairs)
                if quick:
                    # every pair with a zero / extreme operand on both sides, every pair whose right operand
                    # is zero (divisors) + a 6% sample of the remaining pairs of this (op, k1, k2) stratum
                    keep = [p for p in pairs if (nc.is_extreme(p[0]) and nc.is_extreme(p[1]))]
                    rest = [p for p in pairs if not (nc.is_extreme(p[0]) and nc.is_extreme(p[1]))]
                    keep += rng.sample(rest, max(8, len(rest) * 6 // 100))
                    pairs = keep
                strata[(op, k1, k2)] = len(pairs)
                cases += [(op, a, b) for a, b in pairs]
    n_matrix = len(cases)
    # unary minus on every boundary value of every kind
    for k in KINDS:
        cases += [("neg", a) for a in bset[k]]
    n_unary = len(cases) - n_matrix
    # random operands
    n_rand = 10000 if quick else 120000
    for _ in range(n_rand):
        op = rng.choice(nc.BINOPS + ["neg"])
        a = nc.random_value(rng, rng.choice(KINDS))
        if op == "neg":
            cases.append((op, a))
            continue
        b = nc.random_value(rng, rng.choice(KINDS))
        if op in nc.SHIFTS and rng.random() < 0.7 and b[0] != "F":
            b = nc.mkval(b[0], rng.randint(0, 130) if b[0] != "Y" else rng.randint(0, 140))
        if op in ("div", "rem") and rng.random() < 0.1:
            b = {"I": "I0", "B": "B0", "Y": "Y0", "F": rng.choice(["F0000000000000000", "F8000000000000000"])}[b[0]]
        cases.append((op, a, b))
    dist = {"matrix": n_matrix, "matrix_total_pairs": n_matrix_total, "unary_boundary": n_unary, "random": n_rand,
            "boundary_set_sizes": {nc.KIND_NAME[k]: len(bset[k]) for k in KINDS}}
    return cases, dist, not quick


# ----------------------------------------------------------------------------- classification of a spec failure
def failure_class(case, spec, got, build):
    op = case[0]
    kinds = "-".join(nc.KIND_NAME[x[0]] for x in case[1:])
    if spec == "UNDEF":
        b = case[2] if len(case) > 2 else None
        if op in ("div", "rem") and b is not None and (b in ("I0", "B0", "Y0") or (b[0] == "F" and nc.bits2f(b) == 0.0)):
            return "zero-divisor-yields-value:%s-by-%s-zero" % (nc.KIND_NAME[case[1][0]], nc.KIND_NAME[b[0]])
        if op in nc.SHIFTS:
            if op == "shl" and b is not None and b[0] != "F" and case[1][0] != "F" and \
                    0 <= nc.ival(b) < nc.WIDTH[nc.promote(case[1][0], b[0])]:
                # admissible amount, but x * 2^n does not fit the result kind: the high bits were dropped
                return "shl-overflow-yields-truncated-value"
            return "shift-amount-out-of-range-yields-value:%s" % kinds
        if op in ("add", "sub", "mul", "div", "neg") and got[0] in "IBY":
            return "integer-overflow-yields-wrapped-value:%s" % build
        return "undefined-yields-value:%s:%s" % (op, kinds)
    if got in ("ERR", "PANIC"):
        if op == "rem" and len(case) > 2 and case[2][0] != "F" and nc.ival(case[2]) == -1:
            return "spurious-failure:rem-min-by-minus-one"
        return "spurious-failure:%s:%s" % (op, kinds)
    if got[0] != spec[0]:
        return "wrong-kind:%s:%s" % (op, kinds)
    return "wrong-value:%s:%s" % (op, kinds)


def ok_against_spec(spec, got):
    return got in ("ERR", "PANIC") if spec == "UNDEF" else got == spec


# ----------------------------------------------------------------------------- CLI cases
DECL = {"I": "int", "B": "bigint", "Y": "byte", "F": "float", "T": "bool"}


def cli_program(case, inline=False):
    """inline: the operands are written as literals inside the expression (what the compiler may evaluate itself);
    otherwise they reach the operator through typed variables"""
    op = case[0]
    la = nc.literal(case[1])
    if la is None:
        return None
    if inline:
        if op == "neg":
            return "print -(%s)\n" % la
        if op == "not":
            return "print !%s\n" % la
        lb = nc.literal(case[2])
        if lb is None:
            return None
        return "print (%s) %s (%s)\n" % (la, nc.SYMBOL[op], lb)
    src = "a: %s = %s\n" % (DECL[case[1][0]], la)
    if op == "neg":
        return src + "print -a\n"
    if op == "not":
        return src + "print !a\n"
    lb = nc.literal(case[2])
    if lb is None:
        return None
    return src + "b: %s = %s\nprint a %s b\n" % (DECL[case[2][0]], lb, nc.SYMBOL[op])


# cases written BOTH ways (operands through variables, and as literals inside the expression) whatever the seed: the
# sign rules of / and %, the extremes, mixed kinds
BOTH_WAYS = [("rem", "I-7", "I3"), ("rem", "I-7", "I-3"), ("rem", "I7", "I-3"), ("div", "I-7", "I2"), ("div", "I7", "I-2"),
             ("rem", "B-7", "I3"), ("rem", "I-7", "B3"), ("rem", "I-2147483648", "I10"), ("div", "B-7", "B2"), ("rem", "Y7", "Y3"),
             ("mul", "I-3", "I-4"), ("sub", "I-3", "I-4"), ("rem", "F" + "c01c000000000000", "I3"), ("shr", "I-8", "I1"), ("shl", "I-1", "I3"),
             ("and", "I-1", "I255"), ("or", "I-8", "I1"), ("lt", "I-1", "B0"), ("eq", "I3", "F4008000000000000")]


# ... and every (operator, left kind, right kind) triple on small operands: the kind of the result (the promotion table) must
# not depend on who evaluates the expression (the compiler's constant folder has a table of its own)
KIND_SAMPLE = {"I": "I6", "B": "B3", "Y": "Y2", "F": "F3ff8000000000000"}
BOTH_WAYS += [(op, KIND_SAMPLE[k1], KIND_SAMPLE[k2]) for op in nc.BINOPS for k1 in "IBYF" for k2 in "IBYF"]


def is_inline(i):
    if i < 2 * len(BOTH_WAYS):
        return i % 2 == 1
    return i % 3 == 2


def run_cli(ctx, binary, cases):
    """-> list of outcome tokens: value | ERR (mscript run-time error) | PANIC | REJECT (compile error) | ?<text>"""
    base = ctx.mktemp()

    def one(ic):
        i, case = ic
        src = cli_program(case, is_inline(i))
        if src is None:
            return None
        d = programs.materialize({"files": {"m.ms": src}}, base)
        rc, out, err = programs.run_bin(binary, ["run", "m.ms", "-q"], d, {"MSCRIPT_VERIF_TYPED_PRINT": "1"})
        if "Did not compile successfully" in err:
            return "REJECT"
        if rc == 101 or "panicked at" in err:
            return "PANIC"
        if rc != 0:
            return "ERR"
        lines = [l for l in out.split("\n") if l.strip()]
        tok = nc.parse_typed(lines[-1]) if len(lines) == 1 else None
        return tok if tok else "?" + out[:200]

    return programs.pmap(one, list(enumerate(cases)))


def cli_cases(ctx, n):
    rng = ctx.rng
    bset = {k: [v for v in nc.boundary_values(k) if nc.literal(v) is not None] for k in KINDS}
    out = [c for c in BOTH_WAYS if c[0] in nc.BINOPS for _ in (0, 1)]
    assert len(out) == 2 * len(BOTH_WAYS), [c for c in BOTH_WAYS if c[0] not in nc.BINOPS]
    out += [("add", "I2147483647", "I1"), ("div", "F3ff8000000000000", "Y0"), ("rem", "I-2147483648", "I-1"),
           ("neg", "I-2147483648"), ("mul", "B%d" % nc.I128_MAX, "Y2"), ("sub", "Y0", "Y1"), ("div", "I7", "Y0"),
           ("not", "Ttrue"), ("not", "Tfalse"), ("shl", "I1", "I32"), ("shl", "Y255", "Y1"), ("ne", "F7ff8000000000000", "I1"),
           ("shl", "I1", "I31"), ("shl", "I3", "I31"), ("shl", "I1", "I31"), ("shl", "B3", "I127"), ("shl", "I-1", "I31"), ("shl", "Y128", "Y1")]
    while len(out) < n:
        op = rng.choice(nc.BINOPS + ["neg"])
        k1, k2 = rng.choice(KINDS), rng.choice(KINDS)
        pick = lambda k: rng.choice(bset[k]) if rng.random() < 0.7 else nc.random_value(rng, k)
        out.append((op, pick(k1)) if op == "neg" else (op, pick(k1), pick(k2)))
    return out


# ----------------------------------------------------------------------------- compound assignment, every target form
# `x op= y` is the operator `op` applied to the value stored in x and to y (then stored in x): the promotion table and the
# exact value are those of `x op y`, whatever x is: a variable, a list element, an object field (from outside the class and
# through `self`), a map value.  Fixed family (the same for every seed): every compound operator x every kind pair whose
# promoted kind is the kind of the target x sign / extreme / zero-divisor operand pairs x the five target forms, the right
# operand written both as a literal and through a typed variable.  Expected value: nc.oracle (Python integers / doubles).
COMPOUND_OPS = ["add", "sub", "mul", "div", "rem"]
COMPOUND_KINDS = [(k1, k2) for k1 in "IBYF" for k2 in "IBYF" if nc.promote(k1, k2) == k1]
COMPOUND_TARGETS = ["variable", "element", "field", "self-field", "map-value"]


def _compound_pairs(k1, k2):
    f = nc.f2bits
    if k1 == "F":
        lefts = [f(7.5), f(-7.5), f(1e308)]
        rights = {"F": [f(2.0), f(-2.5), f(0.0)], "I": ["I2", "I-3", "I0"], "B": ["B2", "B-3", "B0"], "Y": ["Y2", "Y0"]}[k2]
        return [(a, b) for a in lefts for b in rights if not (a == f(1e308) and b not in (rights[0], rights[-1]))]
    lo, hi = nc.RANGE[k1]
    if k1 == "Y":
        vals = [(30, 7), (7, 3), (200, 100), (255, 1), (0, 1), (3, 7), (17, 0)]
    else:
        vals = [(30, 7), (-7, 3), (7, -3), (-8, -2), (hi, 2), (hi, 1), (lo, -1), (lo, 1), (-17, 0)]
    out = []
    for x, y in vals:
        if k2 == "Y" and y < 0:
            y = -y
        if (nc.mkval(k1, x), nc.mkval(k2, y)) not in out:
            out.append((nc.mkval(k1, x), nc.mkval(k2, y)))
    return out


def _compound_snippet(target, uid, k1, la, sym, rhs, k2=None):
    """-> (class declarations, statements): applies `<target> sym= rhs` to a target holding la and prints the slot through a
    temporary (the typed print shows the kind of a plain value only), then - for containers - the untouched neighbour"""
    t1 = DECL[k1]
    if target == "variable":
        return "", "v%s: %s = %s\nv%s %s= %s\nprint v%s\n" % (uid, t1, la, uid, sym, rhs, uid)
    if target == "element":
        return "", ("l%s: [%s...] = [%s, %s]\nl%s[1] %s= %s\nr%s = l%s[1]\nprint r%s\nq%s = l%s[0]\nprint q%s\n"
                    % (uid, t1, la, la, uid, sym, rhs, uid, uid, uid, uid, uid, uid))
    if target == "field":
        return ("class Box%s {\n\tv: %s\n\tw: %s\n\tconstructor(self) {\n\t\tself.v = %s\n\t\tself.w = %s\n\t}\n}\n" % (uid, t1, t1, la, la),
                "o%s = Box%s()\no%s.v %s= %s\nr%s = o%s.v\nprint r%s\nq%s = o%s.w\nprint q%s\n" % (uid, uid, uid, sym, rhs, uid, uid, uid, uid, uid, uid))
    if target == "self-field":
        # the right operand reaches the method as a parameter of its kind (or is written as a literal in the method)
        par, arg, use = ("", "", rhs) if k2 is None else (", n: %s" % DECL[k2], rhs, "n")
        return ("class Cell%s {\n\tv: %s\n\tw: %s\n\tconstructor(self) {\n\t\tself.v = %s\n\t\tself.w = %s\n\t}\n\tfn apply(self%s) {\n\t\tself.v %s= %s\n\t}\n}\n"
                % (uid, t1, t1, la, la, par, sym, use),
                "o%s = Cell%s()\no%s.apply(%s)\nr%s = o%s.v\nprint r%s\nq%s = o%s.w\nprint q%s\n" % (uid, uid, uid, arg, uid, uid, uid, uid, uid, uid))
    assert target == "map-value"
    return "", ("m%s = map[str, %s]\nm%s[\"k\"] = %s\nm%s[\"j\"] = %s\nm%s[\"k\"] %s= %s\nr%s = m%s[\"k\"]\nprint r%s\nq%s = m%s[\"j\"]\nprint q%s\n"
                % (uid, t1, uid, la, uid, la, uid, sym, rhs, uid, uid, uid, uid, uid, uid))


def compound_cases():
    """-> [(id, case, program, expected tokens or None when the program must stop with a failure)]"""
    out = []
    for op in COMPOUND_OPS:
        sym = nc.SYMBOL[op]
        for k1, k2 in COMPOUND_KINDS:
            for a, b in _compound_pairs(k1, k2):
                spec = nc.oracle(op, a, b)
                la, lb = nc.literal(a), nc.literal(b)
                forms = [(t, inline) for t in COMPOUND_TARGETS for inline in (False, True)]
                # a defined result: all target forms in one program; an undefined one stops the program: one target each
                groups = [forms] if spec != "UNDEF" else [[fm] for fm in forms]
                for g in groups:
                    classes, body, exp = "", "b: %s = %s\n" % (DECL[k2], lb), []
                    for j, (t, inline) in enumerate(g):
                        c, s = _compound_snippet(t, "%d" % j, k1, la, sym, lb if inline else "b", None if inline else k2)
                        classes += c
                        body += s
                        exp += [spec] + ([] if t == "variable" else [a])
                    cid = "%s:%s-%s:%s:%s:%s" % (op, nc.KIND_NAME[k1], nc.KIND_NAME[k2], a, b,
                                                 "all-targets" if len(g) > 1 else "%s/%s" % (g[0][0], "literal" if g[0][1] else "variable"))
                    out.append((cid, (op, a, b), classes + body, exp if spec != "UNDEF" else None))
    return out


def run_compound(ctx, binary, bname):
    """the compound-assignment family through `mscript run`; returns (#programs compared, #spec failures)"""
    base = ctx.mktemp()
    cases = compound_cases()

    def one(c):
        d = programs.materialize({"files": {"m.ms": c[2]}}, base)
        r = programs.run_bin(binary, ["run", "m.ms", "-q"], d, {"MSCRIPT_VERIF_TYPED_PRINT": "1"})
        import shutil
        shutil.rmtree(d, ignore_errors=True)
        return r
    n = bad = 0
    for (cid, case, src, exp), (rc, out, err) in zip(cases, programs.pmap(one, cases)):
        n += 1
        how = {"case": cid, "build": bname, "program": src, "how": "MSCRIPT_VERIF_TYPED_PRINT=1 mscript run m.ms -q", "rc": rc, "stdout": out[-600:], "stderr": err[-400:]}
        if "Did not compile successfully" in err:
            # a rejected fixed case checks nothing: say so
            ctx.report("generator:rejected:compound-assignment", "compound assignment case %s is rejected by the compiler: %s"
                       % (cid, [l.strip() for l in (out + err).splitlines() if l.strip().startswith("=")][:1]), how, found_input=False)
            continue
        lines = [l for l in out.split("\n") if l.strip()]
        got = [nc.parse_typed(l) or "?" + l[:60] for l in lines]
        if exp is None:
            if rc == 0 or got:
                bad += 1
                ctx.report("cli:compound:" + failure_class(case, "UNDEF", got[0] if got else "I0", bname),
                           "%s `mscript run`: `x %s= y` with x = %s, y = %s (%s) must stop with a failure (undefined / not representable); it printed %s, exit %d"
                           % (bname, nc.SYMBOL[case[0]], case[1], case[2], cid, got[:3], rc), dict(how, spec="UNDEF"))
            continue
        if rc != 0 or got != exp:
            bad += 1
            k = next((i for i, (g, e) in enumerate(zip(got, exp)) if g != e), min(len(got), len(exp)))
            g = got[k] if k < len(got) else ("PANIC" if rc == 101 else "ERR")
            neighbour = k < len(exp) and exp[k] == case[1] and exp[k] != nc.oracle(*case)
            if g.startswith("?"):
                cls = "cli:compound:unparsable-output"
            else:
                cls = "cli:compound:neighbour-slot-changed" if neighbour and g not in ("ERR", "PANIC") else "cli:compound:" + failure_class(case, exp[k] if k < len(exp) else exp[-1], g, bname)
            ctx.report(cls, "%s `mscript run`: compound assignment `x %s= y` with x = %s, y = %s (%s): printed line %d is %s, the specification says %s (all lines: %s, exit %d)"
                       % (bname, nc.SYMBOL[case[0]], case[1], case[2], cid, k + 1, g, exp[k] if k < len(exp) else "nothing more", got, rc), dict(how, spec=exp))
    ctx.cov["compound_assignment_cases"] = {"programs": n, "operators": [nc.SYMBOL[o] + "=" for o in COMPOUND_OPS], "kind_pairs": ["%s-%s" % (nc.KIND_NAME[a], nc.KIND_NAME[b]) for a, b in COMPOUND_KINDS],
                                            "targets": COMPOUND_TARGETS, "right_operand": ["typed variable", "literal"]}
    return n, bad


# ----------------------------------------------------------------------------- the check
def run(ctx):
    ok = core.coq_props(ctx, "Props/C05.v")
    binary = core.build_repo()
    cases, dist, exhaustive = gen_cases(ctx)
    impl = {"debug": nc.run_harness(ctx, cases, release=False), "release": nc.run_harness(ctx, cases, release=True)}
    model = nc.run_model(ctx, cases)
    spec_fail = dis = oracle_dis = 0
    nontrivial = set()
    per_op = {}
    for i, c in enumerate(cases):
        m = model[i]
        spec = m["spec"]
        per_op[c[0]] = per_op.get(c[0], 0) + 1
        # third opinion on the specification itself
        orc = nc.oracle(*c)
        if orc != spec:
            oracle_dis += 1
            ctx.report("oracle-disagreement:" + c[0], "Coq specification and Python oracle disagree on %s: coq=%s python=%s" % (" ".join(c), spec, orc),
                       {"case": c, "coq_spec": spec, "python_oracle": orc}, found_input=False)
        # non-trivial: the case exercises promotion, a failure, or a non-finite / rounded float
        if spec == "UNDEF" or len(set(x[0] for x in c[1:])) > 1 or (spec[0] == "F" and c[0] in nc.ARITH):
            nontrivial.add(c)
        for build in ("debug", "release"):
            got = impl[build][i]
            good = ok_against_spec(spec, got)
            if not good:
                spec_fail += 1
                cls = failure_class(c, spec, got, build)
                ctx.report(cls, "%s build: `%s` yields %s, the specification says %s" % (build, " ".join(c), got, spec if spec != "UNDEF" else "failure (undefined / not representable)"),
                           {"case": c, "build": build, "impl": got, "spec": spec, "model": m,
                            "how": "echo '%s' > c; .cache/htarget/num/%s/num_harness c out; cat out" % (" ".join(c), build)})
            if got != m[build]:
                dis += 1
                if good:
                    hint = ""
                    if nc.MODEL_VERSION == "fixed" and got == m["trap" if build == "debug" else "wrap"]:
                        hint = " (the implementation behaves like the ORIGINAL code model: are the fixes/num-*.diff applied?)"
                    ctx.report("correspondence:%s:%s" % (c[0], build), "impl-model (NumImpl.binop_eval, %s) and the %s build disagree on `%s`: impl=%s model=%s%s" % (nc.MODEL_VERSION, build, " ".join(c), got, m[build], hint),
                               {"case": c, "build": build, "impl": got, "model": m, "correspondence": "T4 num (Num/NumImpl.v vs bytecode/src/variables/ops*)"},
                               found_input=False)
    # CLI
    n_cli = (2 * len(BOTH_WAYS) + 160) if ctx.quick() else 2500
    ccases = cli_cases(ctx, n_cli)
    cmodel = nc.run_model(ctx, ccases, shards=4)
    cli_cmp = cli_reject = 0
    for bname, bpath in (("debug", binary), ("release", core.build_repo(release=True))):
        sub = ccases if bname == "debug" else ccases[:max(60, n_cli // 4)]
        res = run_cli(ctx, bpath, sub)
        for ci, (c, got, m) in enumerate(zip(sub, res, cmodel)):
            if got is None:
                continue
            if got == "REJECT":
                cli_reject += 1      # statically rejected operator / operand kinds: outside this property (C02)
                continue
            cli_cmp += 1
            spec = m["spec"]
            if got.startswith("?") or not ok_against_spec(spec, got):
                spec_fail += 1
                cls = "cli:" + failure_class(c, spec, got, bname) if not got.startswith("?") else "cli:unparsable-output"
                ctx.report(cls, "%s `mscript run`: `%s` prints %s, the specification says %s" % (bname, " ".join(c), got, spec),
                           {"case": c, "build": bname, "program": cli_program(c, is_inline(ci)), "observed": got, "spec": spec,
                            "how": "MSCRIPT_VERIF_TYPED_PRINT=1 mscript run m.ms -q"})
            elif got != m[bname]:
                dis += 1
                ctx.report("correspondence:cli:%s:%s" % (c[0], bname), "impl-model and `mscript run` (%s) disagree on `%s`: observed=%s model=%s" % (bname, " ".join(c), got, m[bname]),
                           {"case": c, "program": cli_program(c, is_inline(ci)), "observed": got, "model": m}, found_input=False)
    # compound assignment on every target form (fixed family)
    n_compound = 0
    for bname, bpath in (("debug", binary), ("release", core.build_repo(release=True))):
        n, bad = run_compound(ctx, bpath, bname)
        n_compound += n
        spec_fail += bad
    cli_cmp += n_compound
    ctx.cov["evaluations"] = 2 * len(cases) + cli_cmp
    ctx.cov["distinct_nontrivial"] = len(nontrivial)
    ctx.cov["exhaustive"] = exhaustive
    ctx.cov["exhaustive_part"] = ("all (operator, left kind, right kind) triples x all pairs of the boundary sets: %d cases" % dist["matrix"]) if exhaustive else \
        ("quick tier: per (operator, kind, kind) stratum all zero/extreme pairs + 6%% sample: %d of %d matrix cases" % (dist["matrix"], dist["matrix_total_pairs"]))
    ctx.cov["distribution"] = dist
    ctx.cov["cases_per_operator"] = per_op
    ctx.cov["rule"] = ("evaluations = harness cases x 2 builds (debug, release) + CLI cases compared; non-trivial = distinct case with mixed operand "
                       "kinds, or an undefined / unrepresentable result, or a float arithmetic result")
    ctx.cov["model_impl_disagreements"] = dis
    ctx.cov["model_version"] = nc.MODEL_VERSION
    ctx.cov["spec_failures"] = spec_fail
    ctx.cov["oracle_disagreements"] = oracle_dis
    ctx.cov["cli_cases_compared"] = cli_cmp
    ctx.cov["cli_cases_statically_rejected"] = cli_reject
    ctx.cov["traces_validated_against_impl"] = 2 * len(cases) + cli_cmp
    for j in (3, len(cases) // 3, len(cases) // 2, len(cases) - 5):
        ctx.sample({"case": " ".join(cases[j]), "debug": impl["debug"][j], "release": impl["release"][j], "model": model[j]["debug"], "spec": model[j]["spec"]})
    ctx.cov["trusted_base"] = ["Coq 8.16.1 kernel (coqc; vm_compute in Examples / witness lemmas)",
                               "Flocq 4.1.0 IEEE754.BinarySingleNaN as the definition of IEEE-754 binary64 arithmetic; its library axioms as printed by Print Assumptions",
                               "F_rem (fmod on mantissa/exponent pairs) is defined by this development and proved to be the exact real fmod (C05_float_rem_is_fmod); that Rust's f64 % computes fmod is tied by the correspondence",
                               "extraction: ExtrOcamlBasic only; extract/num_driver.ml glue (decimal / bit-pattern I/O)",
                               "harness/num (operator impls of bytecode::BytecodePrimitive, catch_unwind), built with the repository's lock file in debug and release",
                               "the hardware's IEEE-754 double arithmetic and Rust's `as f64` (this is what the code runs on)"]
    ctx.assumptions = ["models Num/NumImpl.v are hand-written; tied to the code by this run's differential comparison (debug and release builds)",
                       "a Rust panic and an anyhow error both count as 'execution stops with a failure' for C05 (C17 separates them); the failure class is part of the correspondence",
                       "`x << n` is specified as the exact value x * 2^n (failure when it does not fit the result kind, like + - *), `x >> n` as floor(x / 2^n) (DESIGN 5.5)",
                       "every NaN is one NaN (payload and sign of NaN are not compared)"]
    if ok and not ctx.quick():
        nc.coqchk(ctx, ["MS.Props.C05"])
    core.proof_or_search(ctx, ok, ["C05_binop_exact", "C05_binop_kind", "C05_neg_exact", "C05_not_exact", "C05_float_rem_is_fmod", "C05_int_to_double_rounds"], spec_fail > 0)
