"""C02 layer (a): the operator tables.  Every (operator, kind, kind) cell goes through the real compiler and
interpreter and is compared with Types/OpTable.v (`out_type`, `rt_kind`) and with the property itself."""
import re

from . import core, programs
from . import c02_common as cc

OPS = [("Add", "+"), ("Sub", "-"), ("Mul", "*"), ("Div", "/"), ("Mod", "%"), ("Lt", "<"), ("Gt", ">"), ("Lte", "<="),
       ("Gte", ">="), ("Eq", "=="), ("Neq", "!="), ("And", "&&"), ("Or", "||"), ("Xor", "^"), ("BXor", "xor"),
       ("BOr", "|"), ("BAnd", "&"), ("Ls", "<<"), ("Rs", ">>"), ("AddA", "+="), ("SubA", "-="), ("MulA", "*="),
       ("DivA", "/="), ("ModA", "%="), ("Is", "is")]
ASSIGN = {"AddA", "SubA", "MulA", "DivA", "ModA"}
UNOPS = [("Neg", "-"), ("Not", "!")]
KINDS = cc.KINDS

# operand literals per kind; two variants (values must avoid the language's own dynamic failures:
# no zero divisor, small shift amounts and repeat counts, no overflow)
LITS = [
    {"int": "7", "bigint": "B9", "float": "2.5", "byte": "0b11", "bool": "true", "str": '"ab"'},
    {"int": "3", "bigint": "B100", "float": "0.5", "byte": "0b1", "bool": "false", "str": '"z"'},
]
RHS_SMALL = [{"int": "2", "bigint": "B1", "byte": "0b1"}, {"int": "1", "bigint": "B2", "byte": "0b10"}]


def model_tables():
    """evaluate the Coq tables: {(op,k1,k2): (static kind|None, rt kind|'err'|'panic')}, same for unary"""
    body = """
Set Printing Depth 1000000.
Definition kcode (k : kind) : nat := match k with KInt => 1 | KBigInt => 2 | KFloat => 3 | KByte => 4 | KBool => 5 | KStr => 6 end.
Definition ocode (x : option kind) : nat := match x with None => 0 | Some k => kcode k end.
Definition rcode (x : rt) : nat := match x with ROk k => kcode k | RErr => 0 | RPanic => 7 end.
Eval vm_compute in (map (fun c => match c with (o, a, b) => (ocode (out_type o a b), rcode (rt_kind o a b)) end) cells).
Eval vm_compute in (flat_map (fun o => map (fun k => (ocode (out_un o k), rcode (rt_un o k))) all_kinds) all_unops).
Eval vm_compute in (length all_ops, length all_kinds, length all_unops).
"""
    rc, out, err = core.coq_eval("c02_optable", body, ["Coq.Lists.List", "MS.Types.OpTable"])
    if rc != 0:
        raise RuntimeError("coq_eval of the operator tables failed: " + (err or out)[-800:])
    chunks = re.split(r"^\s*=", out, flags=re.M)
    pairs = [[(int(a), int(b)) for a, b in re.findall(r"\(\s*(\d+),\s*(\d+)\s*\)", ch)] for ch in chunks[1:3]]
    dims = [int(x) for x in re.findall(r"\d+", chunks[3].split(":")[0])]
    if dims != [len(OPS), len(KINDS), len(UNOPS)] or len(pairs[0]) != len(OPS) * 36 or len(pairs[1]) != len(UNOPS) * 6:
        raise RuntimeError("operator table shape of the Coq model differs from the Python enumeration: %r" % (dims,))
    dec_s = lambda n: None if n == 0 else KINDS[n - 1]
    dec_r = lambda n: "err" if n == 0 else ("panic" if n == 7 else KINDS[n - 1])
    tab, i = {}, 0
    for o, _ in OPS:
        for a in KINDS:
            for b in KINDS:
                tab[(o, a, b)] = (dec_s(pairs[0][i][0]), dec_r(pairs[0][i][1]))
                i += 1
    un, i = {}, 0
    for o, _ in UNOPS:
        for k in KINDS:
            un[(o, k)] = (dec_s(pairs[1][i][0]), dec_r(pairs[1][i][1]))
            i += 1
    return tab, un


def cell_program(o, sym, a, b, variant):
    la = LITS[variant][a]
    lb = LITS[variant][b]
    if o in ("Ls", "Rs") and b in RHS_SMALL[variant]:
        lb = RHS_SMALL[variant][b]
    if o in ("Mul", "MulA") and "str" in (a, b):
        # a repeat count stays small
        if a != "str" and a in RHS_SMALL[variant]:
            la = RHS_SMALL[variant][a]
        if b != "str" and b in RHS_SMALL[variant]:
            lb = RHS_SMALL[variant][b]
    src = "a: %s = %s\nb: %s = %s\n" % (a, la, b, lb)
    if o in ASSIGN:
        # the expression has a static type of its own; the variable keeps its declared one
        src += "c = a %s b\nprint typeof c\nprint c\nprint typeof a\nprint a\n" % sym
    else:
        src += "c = a %s b\nprint typeof c\nprint c\n" % sym
    return src


def un_program(o, sym, k, variant):
    return "a: %s = %s\nc = %sa\nprint typeof c\nprint c\n" % (k, LITS[variant][k], sym)


def check_cell(ctx, key, src, res, static, rtk, stats):
    """compare one executed cell with the model (correspondence) and with the property (specification)"""
    cls = "optable:" + ":".join(k.lower() for k in key)
    replay = {"cell": key, "program": src, "observed": res.brief(), "model": {"out_type": static, "rt_kind": rtk},
              "how": "write `program` to m.ms in an empty directory; MSCRIPT_VERIF_TYPED_PRINT=1 mscript run m.ms -q"}
    if res.verdict in ("timeout", "compiler-panic"):
        stats["skipped"] += 1
        return
    accepted = res.verdict != "rejected"
    spec_bad = None
    if accepted:
        stats["accepted"] += 1
        # ---- the property: an accepted program has no type-error-like failure and kinds agree with typeof
        if res.verdict in ("rt-error", "panic"):
            allowed, fcls = cc.failure_class(res)
            if not allowed:
                spec_bad = "accepted `%s` fails at run time: %s" % (src.splitlines()[2], res.msg)
        else:
            pairs = list(zip(res.lines[0::2], res.lines[1::2]))
            for (ttags, ttext), (vtags, vtext) in pairs:
                want = cc.TAG_OF.get(ttext)
                if ttags != ("Str",) or want is None or vtags != (want,):
                    spec_bad = "`%s`: typeof says `%s` but the value printed is %s%s" % (
                        src.splitlines()[2], ttext, "".join("<%s>" % t for t in vtags), vtext)
                    break
        if spec_bad:
            stats["spec_fail"] += 1
            ctx.report(cls, spec_bad, replay)
    # ---- correspondence with Types/OpTable.v
    model_accepts = static is not None
    bad = None
    if accepted != model_accepts:
        bad = "compiler %s the cell, model out_type = %s" % ("accepts" if accepted else "rejects", static)
    elif accepted and res.verdict == "ok":
        ttext = res.lines[0][1] if res.lines else None
        vt = res.lines[1][0] if len(res.lines) > 1 else ()
        if ttext != static:
            bad = "typeof = %s, model out_type = %s" % (ttext, static)
        elif rtk in ("err", "panic") or vt != (cc.TAG_OF[rtk],):
            bad = "run-time kind %s, model rt_kind = %s" % (vt, rtk)
    elif accepted and res.verdict in ("rt-error", "panic"):
        allowed, _ = cc.failure_class(res)
        if allowed:
            stats["skipped"] += 1      # a value-dependent dynamic failure: says nothing about kinds
        elif (rtk == "err" and res.verdict != "rt-error") or (rtk == "panic" and res.verdict != "panic") or rtk not in ("err", "panic"):
            bad = "run fails (%s: %s), model rt_kind = %s" % (res.verdict, res.msg, rtk)
    if bad:
        stats["disagree"] += 1
        if not spec_bad:
            replay = dict(replay, correspondence="T5 operator tables (Types/OpTable.v out_type/rt_kind vs get_output_type / run-time ops)")
            ctx.report("correspondence:" + cls, "operator-table model and implementation disagree on %s: %s" % (key, bad), replay, found_input=False)


def run(ctx, binary):
    tab, un = model_tables()
    ctx.c02_tables = (tab, un)
    base = ctx.mktemp()
    jobs = []
    for variant in (0, 1):
        for o, sym in OPS:
            for a in KINDS:
                for b in KINDS:
                    jobs.append(((o, a, b), cell_program(o, sym, a, b, variant)))
        for o, sym in UNOPS:
            for k in KINDS:
                jobs.append(((o, k), un_program(o, sym, k, variant)))
    results = programs.pmap(lambda j: cc.run_src(binary, j[1], base), jobs)
    stats = {"accepted": 0, "spec_fail": 0, "disagree": 0, "skipped": 0}
    for (key, src), res in zip(jobs, results):
        static, rtk = tab[key] if len(key) == 3 else un[key]
        check_cell(ctx, key, src, res, static, rtk, stats)
    ctx.cov["optable_cells"] = len(tab) + len(un)
    ctx.cov["optable_runs"] = len(jobs)
    ctx.cov["optable_accepted_runs"] = stats["accepted"]
    ctx.cov["optable_model_impl_disagreements"] = stats["disagree"]
    ctx.cov["optable_spec_failures"] = stats["spec_fail"]
    ctx.cov["optable_skipped"] = stats["skipped"]
    k = ("Add", "byte", "float")
    ctx.sample({"cell": k, "program": cell_program("Add", "+", "byte", "float", 0), "model": tab[k]})
    return len(jobs), stats
