"""Shared machinery for the mscript verification checks.

Every check (vlib/cXX.py) gets a Ctx and
  1. re-checks its Coq obligations (coq_props),
  2. rebuilds /repo's working tree with the hooks on (build_repo / build_harness),
  3. runs its correspondence / search,
  4. reports through ctx.violation / ctx.known and ctx.finish() writes evidence.
"""
import fcntl
import hashlib
import json
import os
import random
import re
import shutil
import subprocess
import sys
import tempfile
import time

VERIF = os.path.dirname(os.path.dirname(os.path.abspath(__file__)))
REPO = os.environ.get("MSCRIPT_REPO", "/repo")
CACHE = os.environ.get("VERIF_CACHE", os.path.join(VERIF, ".cache"))
COQ = os.path.join(VERIF, "coq")
TARGET = os.path.join(CACHE, "target")
HTARGET = os.path.join(CACHE, "htarget")
GUARD = "mscript_verif"
NCPU = os.cpu_count() or 4

FORBIDDEN = re.compile(
    r"\b(Admitted|admit|Axiom|Axioms|Parameter|Parameters|Conjecture|Hypothesis|Hypotheses|Variable|Variables|"
    r"Unset\s+Guard|bypass_check|type-in-type|impredicative-set|Admit\s+Obligations|native_compute)\b")

# axioms declared by the standard library / Flocq that a property may depend on
AXIOM_ALLOW = {
    "ClassicalDedekindReals.sig_not_dec", "ClassicalDedekindReals.sig_forall_dec",
    "FunctionalExtensionality.functional_extensionality_dep", "Classical_Prop.classic",
    "functional_extensionality_dep", "classic", "sig_not_dec", "sig_forall_dec",
}


def env_base():
    e = dict(os.environ)
    e["CARGO_NET_OFFLINE"] = "true"
    e["RUST_BACKTRACE"] = "0"
    e.pop("RUST_LOG", None)
    return e


class Lock:
    def __init__(self, name):
        os.makedirs(CACHE, exist_ok=True)
        self.path = os.path.join(CACHE, name + ".lock")

    def __enter__(self):
        self.f = open(self.path, "w")
        fcntl.flock(self.f, fcntl.LOCK_EX)
        return self

    def __exit__(self, *a):
        fcntl.flock(self.f, fcntl.LOCK_UN)
        self.f.close()


def sh(cmd, cwd=None, env=None, timeout=600, inp=None, check=False):
    """run a command, return (rc, stdout, stderr); rc 124 on timeout"""
    try:
        p = subprocess.run(cmd, cwd=cwd, env=env or env_base(), input=inp, capture_output=True,
                           timeout=timeout, shell=isinstance(cmd, str))
        rc, out, err = p.returncode, p.stdout, p.stderr
    except subprocess.TimeoutExpired as ex:
        rc, out, err = 124, ex.stdout or b"", ex.stderr or b""
    if check and rc != 0:
        raise RuntimeError("command failed (%s): %s\n%s" % (rc, cmd, (err or out).decode("utf8", "replace")[-4000:]))
    return rc, out, err


# --------------------------------------------------------------------------- repo / harness builds

class BuildError(Exception):
    pass


def build_repo(release=False):
    """cargo build of /repo's current working tree with the hook cfg on; returns path of the mscript binary"""
    env = env_base()
    env["RUSTFLAGS"] = "--cfg %s" % GUARD
    env["CARGO_TARGET_DIR"] = TARGET
    cmd = ["cargo", "build", "--offline", "-q"] + (["--release"] if release else [])
    with Lock("cargo-repo"):
        rc, out, err = sh(cmd, cwd=REPO, env=env, timeout=1500)
        if rc != 0:
            raise BuildError("cargo build of /repo failed:\n" + err.decode("utf8", "replace")[-3000:])
        # a private copy: another check rebuilding /repo must not pull the binary from under a running one
        src = os.path.join(TARGET, "release" if release else "debug", "mscript")
        bdir = os.path.join(CACHE, "bin")
        os.makedirs(bdir, exist_ok=True)
        dst = os.path.join(bdir, "mscript-%s-%d" % ("release" if release else "debug", os.getpid()))
        shutil.copy2(src, dst)
        import atexit
        atexit.register(lambda: os.path.exists(dst) and os.remove(dst))
    return dst


def build_harness(name, release=False, bins=None):
    """build /verif/harness/<name> (path-depends on /repo crates); returns dir holding the binaries"""
    hdir = os.path.join(VERIF, "harness", name)
    if REPO != "/repo":
        # the harness crates path-depend on /repo: for another tree build a copy whose paths point there
        src = hdir
        hdir = os.path.join(CACHE, "harness-src", name)
        if os.path.exists(hdir):
            shutil.rmtree(hdir)
        shutil.copytree(src, hdir, ignore=shutil.ignore_patterns("target", "Cargo.lock"))
        for root, _, files in os.walk(hdir):
            for f in files:
                if f in ("Cargo.toml", "build.rs") or f.endswith(".rs"):
                    fp = os.path.join(root, f)
                    txt = open(fp).read()
                    if "/repo/" in txt:
                        open(fp, "w").write(txt.replace("/repo/", REPO.rstrip("/") + "/"))
    lock = os.path.join(hdir, "Cargo.lock")
    with Lock("cargo-harness-" + name):
        # the harness resolves against the repository's own lock file (offline, no index)
        if not os.path.exists(lock):
            shutil.copy(os.path.join(REPO, "Cargo.lock"), lock)
        env = env_base()
        env["RUSTFLAGS"] = "--cfg %s" % GUARD
        env["CARGO_TARGET_DIR"] = os.path.join(HTARGET, name)
        cmd = ["cargo", "build", "--offline", "-q"] + (["--release"] if release else [])
        rc, out, err = sh(cmd, cwd=hdir, env=env, timeout=1500)
        if rc != 0:
            # stale lock (e.g. /repo/Cargo.lock changed): retry once from a fresh copy
            shutil.copy(os.path.join(REPO, "Cargo.lock"), lock)
            rc, out, err = sh(cmd, cwd=hdir, env=env, timeout=1500)
    if rc != 0:
        raise BuildError("cargo build of harness %s failed:\n%s" % (name, err.decode("utf8", "replace")[-3000:]))
    return os.path.join(HTARGET, name, "release" if release else "debug")


# --------------------------------------------------------------------------- Coq

COQ_HEADER = """-Q . MS
-arg -w -arg -notation-overridden,-deprecated-hint-without-locality,-deprecated-instance-without-locality
"""


def coq_project():
    """_CoqProject is generated from the fragments coq/project.d/*.list (one per model family)"""
    d = os.path.join(COQ, "project.d")
    txt = COQ_HEADER
    for f in sorted(os.listdir(d)):
        if f.endswith(".list"):
            for l in open(os.path.join(d, f)):
                l = l.strip()
                # a fragment may name files its author has not written yet: skip them
                if l and not l.startswith("#") and (os.path.exists(os.path.join(COQ, l)) or l.startswith("Gen/")):
                    txt += l + "\n"
    cp = os.path.join(COQ, "_CoqProject")
    if not os.path.exists(cp) or open(cp).read() != txt:
        open(cp, "w").write(txt)


def coq_makefile():
    coq_project()
    mk = os.path.join(COQ, "Makefile")
    cp = os.path.join(COQ, "_CoqProject")
    if not os.path.exists(mk) or os.path.getmtime(mk) < os.path.getmtime(cp):
        sh(["coq_makefile", "-f", "_CoqProject", "-o", "Makefile"], cwd=COQ, check=True)


def coq_sources():
    out = []
    for l in open(os.path.join(COQ, "_CoqProject")):
        l = l.strip()
        if l.endswith(".v"):
            out.append(l)
    return out


def coq_deps(target_v):
    """transitive .v dependencies (inside the project) of one file, via coqdep"""
    rc, out, err = sh(["coqdep", "-f", "_CoqProject"], cwd=COQ, check=True)
    deps = {}
    for line in out.decode().splitlines():
        if ":" not in line:
            continue
        lhs, rhs = line.split(":", 1)
        tg = [t for t in lhs.split() if t.endswith(".vo")]
        if not tg:
            continue
        deps[tg[0][:-1]] = [d[:-1] for d in rhs.split() if d.endswith(".vo")]
    seen, todo = [], [target_v]
    while todo:
        f = todo.pop()
        if f in seen:
            continue
        seen.append(f)
        todo += deps.get(f, [])
    return seen


def strip_comments(text):
    out, depth, i = [], 0, 0
    while i < len(text):
        if text.startswith("(*", i):
            depth += 1
            i += 2
        elif text.startswith("*)", i) and depth:
            depth -= 1
            i += 2
        else:
            if not depth:
                out.append(text[i])
            i += 1
    return "".join(out)


def coq_gate(files):
    """textual gate: no Admitted / Axiom / ... in any file of the dependency cone (outside comments);
    Variable/Hypothesis are allowed only inside a Section."""
    bad = []
    for f in files:
        txt = strip_comments(open(os.path.join(COQ, f)).read())
        depth = 0
        for ln, line in enumerate(txt.splitlines(), 1):
            if re.match(r"\s*Section\b", line):
                depth += 1
            if re.match(r"\s*End\b", line) and depth:
                depth -= 1
            for m in FORBIDDEN.finditer(line):
                w = m.group(1)
                if w.startswith(("Variable", "Hypothes")) and depth > 0:
                    continue
                bad.append("%s:%d: %s" % (f, ln, w))
    return bad


def count_obligations(files):
    n = 0
    names = []
    for f in files:
        txt = strip_comments(open(os.path.join(COQ, f)).read())
        for m in re.finditer(r"^\s*(?:Local\s+|Global\s+|#\[[^\]]*\]\s*)?(Theorem|Lemma|Corollary|Example|Fact|Proposition|Remark)\s+([A-Za-z0-9_']+)", txt, re.M):
            n += 1
            names.append(m.group(2))
    return n, names


def coq_props(ctx, props_v):
    """Re-check Props/<id>.v and everything it depends on.  Returns True when all obligations
    are discharged, the gate is clean and Print Assumptions lists only allow-listed axioms."""
    t0 = time.time()
    with Lock("coq"):
        coq_makefile()
        vo = props_v + "o"
        for ext in ("o", "os", "ok"):
            try:
                os.remove(os.path.join(COQ, props_v + ext))
            except OSError:
                pass
        cmd = "timeout 1500 make -j%d %s" % (NCPU, vo)
        rc, out, err = sh(cmd, cwd=COQ, timeout=1600)
    text = out.decode("utf8", "replace") + err.decode("utf8", "replace")
    deps = coq_deps(props_v) if rc == 0 or os.path.exists(os.path.join(COQ, props_v)) else [props_v]
    nobl, names = count_obligations(deps)
    ctx.cov["checker_cmd"] = "cd /verif/coq && coq_makefile -f _CoqProject -o Makefile && " + cmd
    ctx.cov["obligations"] = nobl
    ctx.cov["coq_files"] = deps
    ctx.cov["coq_wall_s"] = round(time.time() - t0, 1)
    ok = True
    if rc != 0:
        ok = False
        ctx.cov["discharged"] = 0
        m = re.search(r'File "([^"]+)", line (\d+)', text)
        ctx.proof_failure = {"make_rc": rc, "where": (m.group(0) if m else None), "log_tail": text[-3000:]}
        return False
    gate = coq_gate(deps)
    if gate:
        ok = False
        ctx.proof_failure = {"gate": gate}
    # Print Assumptions output of the Props file.  An `Axioms:` block lists `name : type` entries (types may
    # continue on indented lines); it ends at the next `Closed under...`, the next `Axioms:` or at the output
    # of a `Check` of one of the project's own statements.
    closed = text.count("Closed under the global context")
    own = set(names)
    ax_after = set()
    mode = False
    for line in text.splitlines():
        if line.startswith("Axioms:"):
            mode = True
            continue
        if not mode:
            continue
        if line.startswith("Closed under") or line.startswith(("COQC", "COQDEP", "make")):
            mode = False
            continue
        if line[:1] in (" ", "\t") or not line.strip():
            continue
        m = re.match(r"^([A-Za-z_][A-Za-z0-9_.']*)\s*(:|$)", line)
        if not m or m.group(1) in own or m.group(1).split(".")[-1] in own:
            mode = False
            continue
        ax_after.add(m.group(1))
    bad_ax = sorted(a for a in ax_after if a not in AXIOM_ALLOW and a.split(".")[-1] not in AXIOM_ALLOW)
    ctx.cov["print_assumptions"] = {"closed_under_global_context": closed, "axioms": sorted(ax_after)}
    if bad_ax:
        ok = False
        ctx.proof_failure = {"unexpected_axioms": bad_ax}
    ctx.cov["discharged"] = nobl if ok else 0
    ctx.cov["theorems"] = names[:400]
    return ok


def coq_eval(ctx_name, body, requires, timeout=600):
    """write a cases file that Requires project modules, run coqc on it, return stdout text"""
    d = os.path.join(CACHE, "cases")
    os.makedirs(d, exist_ok=True)
    fn = os.path.join(d, ctx_name + ".v")
    with open(fn, "w") as f:
        for r in requires:
            f.write("Require Import %s.\n" % r)
        f.write(body)
    rc, out, err = sh(["coqc", "-noglob", "-Q", COQ, "MS", fn], cwd=d, timeout=timeout)
    return rc, out.decode("utf8", "replace"), err.decode("utf8", "replace")


# --------------------------------------------------------------------------- findings / ctx

def load_known():
    p = os.path.join(VERIF, "known_findings.json")
    if not os.path.exists(p):
        return []
    return json.load(open(p)).get("findings", [])


class Ctx:
    def __init__(self, prop, tier, seed):
        self.prop, self.tier, self.seed = prop, tier, seed
        self.rng = random.Random(seed)
        self.t0 = time.time()
        self.cov = {"samples": [], "trusted_base": []}
        self.assumptions = []
        self.viol = []          # (class, what, replay dict, found_input)
        self.known_hit = {}     # class -> what
        self.proof_failure = None
        self.known = [k for k in load_known() if k.get("property") == prop and k.get("status") == "known"]
        self.level = "proof"
        self.tmpdirs = []

    def quick(self):
        return self.tier == "quick"

    def mktemp(self):
        d = tempfile.mkdtemp(prefix="msv-%s-" % self.prop)
        self.tmpdirs.append(d)
        return d

    def sample(self, x, cap=6):
        if len(self.cov["samples"]) < cap:
            self.cov["samples"].append(x)

    def report(self, cls, what, replay, found_input=True):
        """a failing case of class `cls` (canonical identifier).  Known finding -> KNOWN-FINDING, else violation."""
        for k in self.known:
            if k.get("class") == cls:
                self.known_hit.setdefault(cls, k.get("what", what))
                return
        if any(v[0] == cls for v in self.viol):
            return
        self.viol.append((cls, what, replay, found_input))

    def finish(self):
        os.makedirs(os.path.join(VERIF, "replay"), exist_ok=True)
        os.makedirs(os.path.join(VERIF, "evidence"), exist_ok=True)
        for cls, what in self.known_hit.items():
            print("KNOWN-FINDING: property=%s %s [%s]" % (self.prop, what, cls))
        # known findings that no longer reproduce are reported informationally (they suppress nothing)
        for k in self.known:
            if k.get("class") not in self.known_hit:
                print("note: known finding %s did not reproduce in this run" % k.get("class"))
        for cls, what, replay, found in self.viol:
            h = hashlib.sha1((cls + json.dumps(replay, sort_keys=True, default=str)).encode()).hexdigest()[:10]
            path = os.path.join(VERIF, "replay", "%s-%s.json" % (self.prop, h))
            with open(path, "w") as f:
                json.dump({"property": self.prop, "class": cls, "what": what, "replay": replay,
                           "failing_input_found": found, "seed": self.seed, "tier": self.tier}, f, indent=1, default=str)
            print("VIOLATION property=%s replay=%s%s" % (self.prop, path, "" if found else " no-failing-input-found"))
            print("  " + what[:600])
        wall = round(time.time() - self.t0, 2)
        cov = self.cov
        cov.setdefault("obligations", 0)
        cov.setdefault("discharged", 0)
        cov.setdefault("checker_cmd", "n/a")
        ev = {"property_id": self.prop, "tier": self.tier, "seed": self.seed, "level": self.level,
              "coverage": cov, "assumptions": self.assumptions, "wall_s": wall,
              "violations": len(self.viol), "known_findings_reproduced": sorted(self.known_hit)}
        with open(os.path.join(VERIF, "evidence", self.prop + ".json"), "w") as f:
            json.dump(ev, f, indent=1, default=str)
        for d in self.tmpdirs:
            shutil.rmtree(d, ignore_errors=True)
        ok = not self.viol
        print("%s %s tier=%s seed=%d wall=%.1fs obligations=%s/%s evaluations=%s" % (
            "OK" if ok else "FAIL", self.prop, self.tier, self.seed, wall, cov.get("discharged"),
            cov.get("obligations"), cov.get("evaluations")))
        return 0 if ok else 1


def proof_or_search(ctx, ok, theorem_names, search_found):
    """when the proof obligations do not check, the violation is reported either with the concrete
    input the search found (search_found=True, already reported by the caller) or as
    no-failing-input-found naming the theorem."""
    if ok:
        return
    if not search_found:
        ctx.report("proof-broken", "proof obligations of %s no longer check: %s" % (ctx.prop, json.dumps(ctx.proof_failure)[:800]),
                   {"theorems": theorem_names, "failure": ctx.proof_failure}, found_input=False)
