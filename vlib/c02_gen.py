"""C02 layer (c): type-directed program generator.

Builds programs that are well typed by the generator's own (conservative) rules, over every type constructor
(int, bigint, float, byte, bool, str, open and fixed-shape lists, maps, optionals, function types, classes,
aliases) in every typed position (initializer, re-assignment, argument, return, condition, operator operand,
index, field, loop bound).  Every observed expression is bound to a constant and printed as

    print "#o<id>"        marker (control flow decides how often and in which order an observation runs)
    print typeof o<id>    the static type the COMPILER reports
    print o<id>           the value, prefixed with its run-time kind tag by the typed-print hook

Values are kept away from the language's own dynamic failures by construction (non-zero literal divisors,
indices below the declared length, `get` only on never-nil variables, small loop bounds and literals).
"""
from .c02_compat import INT, FLOAT, STR, BOOL, BYTE, BIGINT, opt, open_, mixed, mp, fn, ms, strip

NATS = [INT, BIGINT, FLOAT, BYTE, BOOL, STR]
NUMS = [INT, BIGINT, FLOAT, BYTE]
KIND = {INT: "int", BIGINT: "bigint", FLOAT: "float", BYTE: "byte", BOOL: "bool", STR: "str"}

# arithmetic result kinds (the generator's own copy of the promotion rule; only sound cells are used)
def arith(a, b):
    if a == b:
        return a
    if BYTE in (a, b):
        return b if a == BYTE else a
    if FLOAT in (a, b):
        return FLOAT
    if BIGINT in (a, b):
        return BIGINT
    return INT


def bitres(a, b):
    if a == b:
        return a
    if BIGINT in (a, b):
        return BIGINT
    return INT


class Var:
    def __init__(self, name, ty, const=False, never_nil=True, minlen=0, keys=None, assignable=True):
        self.name, self.ty, self.const = name, ty, const
        self.never_nil = never_nil      # for optionals: nil (or a maybe-nil value) is never stored
        self.minlen = minlen            # lists: a lower bound of the length that holds at every point
        self.keys = keys or []          # maps: keys that are present at every point (literal texts)
        self.assignable = assignable


class Cls:
    def __init__(self, name):
        self.name = name
        self.fields = {}     # name -> type
        self.methods = {}    # name -> (param types, ret)
        self.ctor = []       # constructor parameter types


class Gen:
    def __init__(self, rng, size=40, features=None):
        self.r = rng
        self.size = size
        self.lines = []
        self.ind = 0
        self.scopes = [{}]
        self.classes = {}
        self.aliases = {}
        self.nobs = 0
        self.nvar = 0
        self.obs_meta = {}       # id -> (producer label, generator type text)
        self.fn_depth = 0
        self.loop_depth = 0
        self.ret_ty = None
        self.dist = {}
        self.features = features
        self.fn_bases = []       # index of the first scope of each function literal being generated
        # fault injection: ONE typed position of the program receives an expression of a different kind.  A correct
        # compiler rejects such a program (nothing to judge); a compiler that lost a check accepts it and the wrong
        # kind shows up in an observation or as a run-time type error.
        self.fault_at = None     # number of the expr() call that is replaced (None = no fault)
        self.fault_done = None
        self.ncalls = 0

    # ------------------------------------------------------------------ plumbing
    def emit(self, s):
        self.lines.append("\t" * self.ind + s)

    def count(self, k):
        self.dist[k] = self.dist.get(k, 0) + 1

    def fresh(self, p="v"):
        self.nvar += 1
        return "%s%d" % (p, self.nvar)

    def vars(self, pred=None):
        out = []
        seen = set()
        for sc in reversed(self.scopes):
            for v in sc.values():
                if v.name not in seen and (pred is None or pred(v)):
                    out.append(v)
                seen.add(v.name)
        return out

    def declare(self, v):
        self.scopes[-1][v.name] = v
        return v

    def res(self, t):
        """resolve aliases at the top"""
        return strip(t)

    def observe(self, expr, label, ty=None):
        """bind the expression to a constant and print marker, static type and value"""
        self.nobs += 1
        i = self.nobs
        self.obs_meta[i] = (label, ms(ty) if ty is not None else None)
        if ty is not None and self.res(ty)[0] == "opt":
            self.emit("const o%d: %s = %s" % (i, ms(ty), expr))      # the expression may be the bare literal `nil`
        else:
            self.emit("const o%d = %s" % (i, expr))
        self.emit('print "#o%d"' % i)
        self.emit("print typeof o%d" % i)
        self.emit("print o%d" % i)
        self.count("obs:" + label.split(":")[0])

    # ------------------------------------------------------------------ types
    def rand_type(self, depth=2, allow_fn=True, allow_opt=True, allow_alias=True, allow_mixed=True):
        r = self.r
        choices = ["nat"] * 5
        if depth > 0:
            choices += ["open", "open", "map"]
            if allow_mixed:
                choices += ["mixed"]
            if allow_opt:
                choices += ["opt", "opt"]
            if allow_fn:
                choices += ["fn"]
            if self.classes:
                choices += ["class"]
            if self.aliases and allow_alias:
                choices += ["alias"]
        c = r.choice(choices)
        if c == "nat":
            return r.choice(NATS)
        if c == "opt":
            inner = self.rand_type(depth - 1, allow_fn=False, allow_opt=False)
            return opt(inner)
        if c == "open":
            return open_(self.rand_type(depth - 1, allow_fn=False))
        if c == "mixed":
            return mixed(*[self.rand_type(depth - 1, allow_fn=False, allow_mixed=False) for _ in range(r.randint(2, 3))])
        if c == "map":
            return mp(r.choice([INT, STR]), self.rand_type(depth - 1, allow_fn=False, allow_opt=False))
        if c == "fn":
            ps = [self.rand_type(depth - 1, allow_fn=False) for _ in range(r.randint(0, 2))]
            ret = self.rand_type(depth - 1, allow_fn=False, allow_opt=False) if r.random() < 0.8 else None
            return fn(ps, ret)
        if c == "class":
            return ("class", r.choice(sorted(self.classes)))
        if c == "alias":
            n = r.choice(sorted(self.aliases))
            return ("alias", n, self.aliases[n])
        raise AssertionError

    # ------------------------------------------------------------------ literals
    def lit(self, t):
        r = self.r
        t0 = self.res(t)
        k = t0[0]
        if t0 == INT:
            return str(r.randint(0, 9))
        if t0 == BIGINT:
            return "B%d" % r.randint(0, 9)
        if t0 == FLOAT:
            return r.choice(["0.5", "1.5", "2.25", "3.0", "0.25"])
        if t0 == BYTE:
            return r.choice(["0b0", "0b1", "0b10", "0b11"])
        if t0 == BOOL:
            return r.choice(["true", "false"])
        if t0 == STR:
            return '"%s"' % r.choice(["a", "bc", "xyz", "q1", "hello"])
        return None

    # ------------------------------------------------------------------ expressions
    def expr(self, t, depth=2, need_present=False, exact=False):
        """an expression of (generator) type t; returns text.  need_present: for optional t the value must not be nil.
        exact: the compiler must see exactly this type, not an alias of it (conditions, loop bounds, indices:
        `is_boolean` / `is_numeric` do not look through aliases)"""
        r = self.r
        t0 = self.res(t)
        k = t0[0]
        self.ncalls += 1
        if self.fault_at is not None and self.fault_done is None and self.ncalls >= self.fault_at:
            w = self.wrong_type(t0)
            if w is not None:
                self.fault_done = (ms(t) or "?", ms(w) or "?")
                self.fault_at = None
                e = self.expr(w, 1, need_present=True)
                self.count("fault")
                return "(### FAULT ### %s)" % e
        cands = []
        self.exact = exact
        # variables of this type (alias-insensitive at the top unless `exact`)
        vs = [v for v in self.vars() if (v.ty == t0 if exact else self.res(v.ty) == t0) and (not need_present or k != "opt" or v.never_nil)]
        if vs:
            cands += ["var"] * 3
        if depth <= 0:
            if vs and r.random() < 0.7:
                return r.choice(vs).name
            return self.base_expr(t, need_present)
        if k == "nat":
            cands += ["lit", "op", "op", "method"]
            if t0 == BOOL:
                cands += ["cmp", "cmp", "logic"]
            if t0 == STR:
                cands += ["typeof"]
            cands += ["call", "index", "field", "or", "get", "mapget"]
        elif k == "opt":
            cands += ["base", "inner", "inner"] + ([] if need_present else ["nil", "parse"]) + ["call", "field"]
        elif k in ("open", "mixed", "map", "fn", "class"):
            cands += ["base", "call", "field"]
        if exact:
            cands = [c for c in cands if c not in ("call", "field", "index", "mapget", "or", "get")]
        for _ in range(6):
            c = r.choice(cands)
            e = self.try_form(c, t, t0, depth, need_present, vs)
            if e is not None:
                self.count("expr:" + c)
                return e
        return self.base_expr(t, need_present)

    def wrong_type(self, t0):
        """a type whose values can never be stored where t0 is expected (different kind skeleton, never just
        optionality: a T? in a T slot only lets nil through, which the property tolerates)"""
        r = self.r
        k = t0[0]
        base = t0[1] if k == "opt" else t0
        base = self.res(base)
        pool = [x for x in NATS if x != base] + [open_(INT), open_(STR), mp(STR, INT)]
        if self.classes:
            pool.append(("class", sorted(self.classes)[0]))
        if base[0] == "open":
            inner = self.res(base[1])
            pool = [open_(x) for x in NATS if x != inner and self.res(inner)[0] == "nat"] + [x for x in NATS] + [mp(STR, INT)]
        elif base[0] == "mixed":
            pool = [mixed(*(list(base[1]) + [INT])), mixed(*base[1][:-1]) if len(base[1]) > 2 else open_(BOOL)] + NATS
        elif base[0] == "map":
            pool = [mp(base[1], x) for x in NATS if x != self.res(base[2])] + NATS + [open_(INT)]
        elif base[0] == "fn":
            ps, ret = list(base[1]), base[2]
            pool = [fn(ps + [INT], ret), fn(ps, STR if ret is None or self.res(ret) != STR else INT)] + NATS
            if ps:
                pool.append(fn(ps[:-1], ret))
        elif base[0] == "class":
            pool = [x for x in NATS] + [("class", c) for c in sorted(self.classes) if c != base[1]]
        pool = [x for x in pool if x != base and ms(x) is not None]
        return r.choice(pool) if pool else None

    def base_expr(self, t, need_present=False):
        """always succeeds: a literal / constructor expression of type t"""
        r = self.r
        t0 = self.res(t)
        k = t0[0]
        if k == "nat":
            return self.lit(t0)
        if k == "opt":
            if not need_present and r.random() < 0.3:
                return "nil"
            return self.base_expr(t0[1])
        if k == "open":
            n = r.randint(1, 3)
            return "[" + ", ".join(self.expr(t0[1], 0, need_present=True) for _ in range(n)) + "]"
        if k == "mixed":
            return "[" + ", ".join(self.expr(x, 0, need_present=True) for x in t0[1]) + "]"
        if k == "map":
            items = []
            keys = ['"k%d"' % i for i in range(2)] if self.res(t0[1]) == STR else ["1", "2"]
            for kk in keys:
                items.append("%s: %s" % (kk, self.expr(t0[2], 0, need_present=True)))
            return "map[%s, %s] { %s }" % (ms(t0[1]), ms(t0[2]), ", ".join(items))
        if k == "fn":
            return self.fn_literal(t0[1], t0[2], simple=True)
        if k == "class":
            c = self.classes[t0[1]]
            return "%s(%s)" % (c.name, ", ".join(self.expr(p, 0, need_present=True) for p in c.ctor))
        raise AssertionError(t)

    def try_form(self, c, t, t0, depth, need_present, vs):
        r = self.r
        k = t0[0]
        d = depth - 1
        if c == "var":
            return r.choice(vs).name if vs else None
        if c == "lit":
            return self.lit(t0)
        if c == "base":
            return self.base_expr(t, need_present)
        if c == "nil":
            return "nil"
        if c == "inner":       # T? accepts T
            return self.expr(t0[1], d)
        if c == "parse":
            inner = self.res(t0[1])
            good = {INT: ('"12"', "parse_int()"), BIGINT: ('"123"', "parse_bigint()"), FLOAT: ('"2.5"', "parse_float()"),
                    BOOL: ('"true"', "parse_bool()"), BYTE: ('"0b11"', "parse_byte()")}
            if inner not in good:
                return None
            txt, m = good[inner]
            q = r.random()
            if q < 0.4:
                return "%s.%s" % (txt, m)
            if q < 0.6:
                return '"zz".%s' % m                     # does not parse: nil
            if inner == INT and q < 0.8:
                return '%s.index_of("a")' % self.atom(self.expr(STR, 0))
            return "%s.%s" % (self.atom(self.expr(STR, 0)), m)
        if c == "typeof":
            return "typeof " + self.atom(self.expr(self.rand_type(1, allow_fn=False), 0))
        if c == "op":
            return self.op_expr(t0, d)
        if c == "cmp":
            a = r.choice(NUMS)
            b = r.choice(NUMS)
            q = r.random()
            if q < 0.1:
                a = b = r.choice(NATS)
                sym = "is"
            elif q < 0.3:
                a = b = r.choice([STR, BOOL])
                sym = r.choice(["==", "!="])
            else:
                sym = r.choice(["<", "<=", ">", ">=", "==", "!="])
            return "%s %s %s" % (self.atom(self.expr(a, d)), sym, self.atom(self.expr(b, d)))
        if c == "logic":
            sym = r.choice(["&&", "||", "^"])
            if r.random() < 0.25:
                return "!" + self.atom(self.expr(BOOL, d))
            return "%s %s %s" % (self.atom(self.expr(BOOL, d)), sym, self.atom(self.expr(BOOL, d)))
        if c == "method":
            return self.method_expr(t0, d)
        if c == "call":
            fs = [v for v in self.vars() if self.res(v.ty)[0] == "fn" and self.res(v.ty)[2] is not None
                  and self.res(self.res(v.ty)[2]) == t0 and v.never_nil and not getattr(v, "nocall", False)]
            if not fs or (need_present and k == "opt"):
                return None
            f = r.choice(fs)
            return "%s(%s)" % (f.name, ", ".join(self.expr(p, d, need_present=True) for p in self.res(f.ty)[1]))
        if c == "index":
            ls = []
            for v in self.vars():
                vt = self.res(v.ty)
                if v.ty[0] == "alias":
                    continue                  # `Al does not support indexing`: the compiler does not look through an alias here
                if vt[0] == "open" and self.res(vt[1]) == t0 and v.minlen > 0:
                    ls.append((v, r.randrange(v.minlen)))
                if vt[0] == "mixed":
                    for i, x in enumerate(vt[1]):
                        if self.res(x) == t0 and i < v.minlen:
                            ls.append((v, i))
                if vt == STR and t0 == STR and v.minlen > 0:
                    ls.append((v, r.randrange(v.minlen)))
            if not ls:
                return None
            v, i = r.choice(ls)
            if self.fault_at is not None and self.fault_done is None and r.random() < 0.2:
                # an index is a typed position too (int / bigint only)
                w = r.choice([FLOAT, BOOL, STR, BYTE])
                self.fault_at = None
                self.fault_done = ("int (index)", ms(w))
                self.count("fault")
                return "%s[(### FAULT ### %s)]" % (v.name, self.expr(w, 0, need_present=True))
            if self.res(v.ty)[0] == "open" and r.random() < 0.4:
                iv = [x for x in self.vars() if self.res(x.ty) == INT and x.const and getattr(x, "val", None) is not None and x.val < v.minlen]
                if iv:
                    return "%s[%s]" % (v.name, r.choice(iv).name)
            return "%s[%d]" % (v.name, i)
        if c == "mapget":
            ms_ = [v for v in self.vars() if self.res(v.ty)[0] == "map" and self.res(self.res(v.ty)[2]) == t0 and v.keys]
            if not ms_:
                return None
            v = r.choice(ms_)
            if self.fault_at is not None and self.fault_done is None and r.random() < 0.2:
                kt = self.res(self.res(v.ty)[1])
                w = r.choice([x for x in NATS if x != kt])
                self.fault_at = None
                self.fault_done = (ms(kt) + " (map key)", ms(w))
                self.count("fault")
                return "%s[(### FAULT ### %s)]" % (v.name, self.expr(w, 0, need_present=True))
            return "%s[%s]" % (v.name, r.choice(v.keys))
        if c == "field":
            os_ = []
            for v in self.vars():
                vt = self.res(v.ty)
                if vt[0] == "class" and v.never_nil:
                    cl = self.classes[vt[1]]
                    for fnm, ft in cl.fields.items():
                        if self.res(ft) == t0 and not (need_present and k == "opt"):
                            os_.append("%s.%s" % (v.name, fnm))
                    for mn, (mps, mr) in cl.methods.items():
                        if mr is not None and self.res(mr) == t0 and not (need_present and k == "opt"):
                            os_.append(("call", v.name, mn, mps))
            if not os_:
                return None
            o = r.choice(os_)
            if isinstance(o, tuple):
                return "%s.%s(%s)" % (o[1], o[2], ", ".join(self.expr(p, d, need_present=True) for p in o[3]))
            return o
        if c == "or":        # (T?) or T
            if k == "opt":
                return None
            ovs = [v for v in self.vars() if self.res(v.ty) == opt(t0) or (self.res(v.ty)[0] == "opt" and self.res(self.res(v.ty)[1]) == t0)]
            fb = self.expr(t0, 0, need_present=True)
            if ovs:
                return "%s or %s" % (r.choice(ovs).name, self.atom_value(fb))
            return None
        if c == "get":
            if k == "opt":
                return None
            ovs = [v for v in self.vars() if self.res(v.ty)[0] == "opt" and self.res(self.res(v.ty)[1]) == t0 and v.never_nil]
            if not ovs:
                return None
            return "get %s" % r.choice(ovs).name
        return None

    def atom(self, e):
        """parenthesise unless obviously atomic"""
        if all(ch.isalnum() or ch in "_." for ch in e) or (e.startswith('"') and e.endswith('"') and e.count('"') == 2):
            return e
        return "(" + e + ")"

    def atom_value(self, e):
        # the fallback of `or` is a `value`; keep it simple
        return self.atom(e)

    def op_expr(self, t0, d):
        r = self.r
        if t0 in NUMS:
            # pick operand kinds whose promotion gives t0
            pairs = [(a, b) for a in NUMS for b in NUMS if arith(a, b) == t0]
            bit = [(a, b) for a in (INT, BIGINT, BYTE) for b in (INT, BIGINT, BYTE) if bitres(a, b) == t0]
            if t0 != FLOAT and bit and r.random() < 0.3:
                a, b = r.choice(bit)
                sym = r.choice(["&", "|", "xor", "<<", ">>"])
                if sym in ("<<", ">>"):
                    rhs = {INT: "1", BIGINT: "B1", BYTE: "0b1"}[b]
                    return "%s %s %s" % (self.atom(self.expr(a, d)), sym, rhs)
                return "%s %s %s" % (self.atom(self.expr(a, d)), sym, self.atom(self.expr(b, d)))
            a, b = r.choice(pairs)
            if t0 == BYTE:
                return "%s + %s" % (self.atom(self.lit(BYTE)), self.atom(self.lit(BYTE)))     # stays far below 255
            if t0 in (INT, BIGINT, FLOAT) and r.random() < 0.12:
                nv = [v for v in self.vars() if v.ty == t0]
                if nv:
                    return "-" + r.choice(nv).name       # (a negated LITERAL is folded at compile time: C06's subject)
            sym = r.choice(["+", "+", "-", "*", "/", "%"])
            if BYTE in (a, b) and sym == "-":
                sym = "+"
            if sym in ("/", "%"):
                rhs = {INT: "3", BIGINT: "B3", FLOAT: "2.0", BYTE: "0b11"}[b]
                return "%s %s %s" % (self.atom(self.expr(a, d)), sym, rhs)
            if sym == "*":
                # keep products small: literal right operand
                return "%s * %s" % (self.atom(self.expr(a, d)), self.atom(self.lit(b)))
            return "%s %s %s" % (self.atom(self.expr(a, d)), sym, self.atom(self.expr(b, d)))
        if t0 == STR:
            c = r.random()
            if c < 0.6:
                other = r.choice(NATS)
                a, b = (STR, other) if r.random() < 0.5 else (other, STR)
                if BYTE in (a, b) and r.random() < 0.5:
                    a, b = STR, STR
                return "%s + %s" % (self.atom(self.expr(a, d)), self.atom(self.expr(b, d)))
            if c < 0.8:
                return "%s * %s" % (self.atom(self.expr(STR, d)), r.choice(["1", "2", "B2"]))
            return "%s * %s" % (r.choice(["2", "B1"]), self.atom(self.expr(STR, d)))
        if t0 == BOOL:
            return self.try_form("cmp", BOOL, BOOL, d + 1, False, [])
        return None

    def method_expr(self, t0, d):
        r = self.r
        table = []
        # (receiver type, method text, result type)
        for n in NUMS:
            table += [(n, "to_int()", INT), (n, "to_bigint()", BIGINT), (n, "to_float()", FLOAT), (n, "abs()", n),
                      (n, "to_str()", STR), (n, "sqrt()", FLOAT), (n, "powf(2.0)", FLOAT)]
            table += [(n, "pow(2)", FLOAT if n == FLOAT else BIGINT)]
        table += [(BYTE, "to_ascii()", STR), (FLOAT, "floor()", FLOAT), (FLOAT, "ceil()", FLOAT), (FLOAT, "round()", FLOAT),
                  (FLOAT, "fpart()", FLOAT), (FLOAT, "ipart()", FLOAT), (BOOL, "to_str()", STR)]
        table += [(STR, "len()", INT), (STR, 'contains("a")', BOOL), (STR, "reverse()", STR), (STR, 'replace("a", "b")', STR),
                  (STR, "to_str()", STR), (STR, 'insert("z", 0)', STR)]
        table += [(INT, "to_byte()", BYTE), (BYTE, "to_byte()", BYTE)]
        cs = [x for x in table if x[2] == t0]
        if t0 == INT and r.random() < 0.4:
            ls = [v for v in self.vars() if self.res(v.ty)[0] in ("open", "mixed", "map")]
            if ls:
                return "%s.len()" % r.choice(ls).name
        if t0 == BOOL and r.random() < 0.5:
            ms_ = [v for v in self.vars() if self.res(v.ty)[0] == "map" and v.keys]
            if ms_:
                v = r.choice(ms_)
                return "%s.contains_key(%s)" % (v.name, r.choice(v.keys))
        if not cs:
            return None
        recv, m, _ = r.choice(cs)
        e = self.expr(recv, d)
        if recv == INT and m == "to_byte()":
            e = self.lit(INT)          # stays within 0..255
        if m.startswith("sqrt") or m.startswith("powf"):
            e = self.lit(recv)         # non-negative, small
        return "%s.%s" % (self.atom(e), m)

    # ------------------------------------------------------------------ functions
    def fn_literal(self, ps, ret, simple=False):
        """text of a function literal with parameter types ps and return type ret"""
        names = [self.fresh("p") for _ in ps]
        head = "fn(%s)%s {" % (", ".join("%s: %s" % (n, ms(p)) for n, p in zip(names, ps)),
                               "" if ret is None else " -> %s" % (("(%s)" % ms(ret)) if self.res(ret)[0] == "fn" else ms(ret)))
        saved = (self.lines, self.ind, self.ret_ty, self.loop_depth)
        self.lines, self.ind = [], self.ind + 1
        self.fn_bases.append(len(self.scopes))
        self.scopes.append({})
        self.fn_depth += 1
        self.loop_depth = 0
        self.ret_ty = ret
        for n, p in zip(names, ps):
            self.declare(Var(n, p, never_nil=self.res(p)[0] != "opt", minlen=0, assignable=False))
        if not simple and self.fn_depth <= 2:
            for _ in range(self.r.randint(0, 3)):
                self.stmt(in_fn=True)
        if ret is not None:
            self.emit("return " + self.expr(ret, 1 if not simple else 0, need_present=False))
        body = self.lines
        self.fn_depth -= 1
        self.scopes.pop()
        self.fn_bases.pop()
        self.lines, self.ind, self.ret_ty, self.loop_depth = saved
        pad = "\t" * self.ind
        return head + "\n" + "\n".join(body) + "\n" + pad + "}"

    # ------------------------------------------------------------------ statements
    def stmt(self, in_fn=False):
        r = self.r
        opts = ["decl"] * 4 + ["observe"] * 4 + ["reassign"] * 2 + ["opassign", "if", "if", "from", "while",
                "listops", "mapops", "fndecl", "fndecl", "unwrap", "fieldset", "index_set", "unpack", "assert", "elem_opassign",
                "strlist", "nested", "recfn", "hof", "while_unwrap"]
        if in_fn and self.ret_ty is not None:
            opts += ["early_return"]
        if self.loop_depth > 0:
            opts += ["break"]
        if self.ind > 3:
            opts = ["decl", "observe", "observe", "reassign", "opassign", "listops"]
        c = r.choice(opts)
        self.count("stmt:" + c)
        getattr(self, "s_" + c)()

    def s_decl(self):
        r = self.r
        t = self.rand_type(2)
        name = self.fresh()
        t0 = self.res(t)
        never_nil = True
        minlen = 0
        keys = []
        if t0[0] == "opt":
            never_nil = r.random() < 0.5
            e = self.expr(t, 2, need_present=never_nil)
        elif t0[0] == "open":
            n = r.randint(1, 3)
            e = "[" + ", ".join(self.expr(t0[1], 1, need_present=True) for _ in range(n)) + "]"
            minlen = n
        elif t0[0] == "mixed":
            e = self.base_expr(t)
            minlen = len(t0[1])
        elif t0[0] == "map":
            e = self.base_expr(t)
            keys = ['"k0"', '"k1"'] if self.res(t0[1]) == STR else ["1", "2"]
        elif t0 == STR and r.random() < 0.4:
            e = self.lit(STR)
            minlen = len(e) - 2
        else:
            e = self.expr(t, 2)
        form = r.random()
        const = False
        if t0[0] == "mixed":
            if form < 0.5:
                self.emit("const %s: %s = %s" % (name, ms(t), e))
            else:
                self.emit("const %s = %s" % (name, e))
                # the inferred type of a literal whose element types all agree is still the fixed shape
            const = True
        elif t0[0] in ("fn",) or form < 0.6 or t0[0] == "opt" or t0[0] == "map" or (t0[0] == "open" and True):
            self.emit("%s: %s = %s" % (name, ms(t), e))
        elif form < 0.8:
            self.emit("const %s: %s = %s" % (name, ms(t), e))
            const = True
        else:
            if t0[0] == "nat":
                e = self.expr(t, 2, exact=True)      # the inferred type must be t itself, not an alias of it
            self.emit("%s = %s" % (name, e))         # inferred type
        v = self.declare(Var(name, t, const=const, never_nil=never_nil, minlen=minlen, keys=keys))
        if const and t0 == INT and e.isdigit():
            v.val = int(e)
        if r.random() < 0.5:
            self.observe(name, "decl:" + t0[0], t)

    def s_observe(self):
        t = self.rand_type(1, allow_fn=False)
        e = self.expr(t, 3)
        self.observe(e, "expr:" + self.res(t)[0], t)

    def s_reassign(self):
        r = self.r
        vs = self.vars(lambda v: not v.const and v.assignable and (self.res(v.ty)[0] == "nat" or
                                 (self.res(v.ty)[0] == "opt" and self.res(self.res(v.ty)[1])[0] == "nat")))
        if not vs:
            return self.s_decl()
        v = r.choice(vs)
        # a plain `x = e` re-types x after e: keep e's type exactly x's (an alias of bool is not "boolean" for `if`)
        e = self.expr(v.ty, 2, need_present=v.never_nil, exact=(v.ty[0] == "nat"))
        if self.res(v.ty) == STR:
            v.minlen = 0
        pre = "" if self.is_local(v) else "modify "
        if e == "nil" or self.res(v.ty)[0] == "opt":
            # a bare `x = nil` has no type to infer, and `x = 3` would narrow the static type of an `int?` to `int`
            self.emit("%s%s: %s = %s" % (pre, v.name, ms(v.ty), e))
        else:
            self.emit("%s%s = %s" % (pre, v.name, e))
        if r.random() < 0.6:
            self.observe(v.name, "reassigned:" + self.res(v.ty)[0], v.ty)

    def s_opassign(self):
        r = self.r
        vs = self.vars(lambda v: not v.const and v.assignable and self.res(v.ty) in (INT, BIGINT, FLOAT, STR) and self.is_local(v))
        if not vs:
            return self.s_decl()
        v = r.choice(vs)
        t0 = self.res(v.ty)
        if t0 == STR:
            self.emit("%s += %s" % (v.name, self.atom(self.expr(r.choice(NATS), 1))))
        else:
            rhs_kinds = [b for b in NUMS if arith(t0, b) == t0]
            b = r.choice(rhs_kinds)
            sym = r.choice(["+=", "-=", "*=", "/=", "%="])
            if sym in ("/=", "%="):
                rhs = {INT: "3", BIGINT: "B3", FLOAT: "2.0", BYTE: "0b11"}[b]
            elif sym == "*=":
                rhs = self.lit(b)
            else:
                rhs = self.atom(self.expr(b, 1))
            self.emit("%s %s %s" % (v.name, sym, rhs))
        self.observe(v.name, "opassign:" + KIND[t0], v.ty)

    def is_local(self, v):
        """declared inside the function literal being generated (or we are at module level)"""
        base = self.fn_bases[-1] if self.fn_bases else 0
        for k in range(len(self.scopes) - 1, -1, -1):
            if v.name in self.scopes[k]:
                return k >= base
        return False

    def block(self, n):
        self.ind += 1
        self.scopes.append({})
        for _ in range(n):
            self.stmt(in_fn=self.fn_depth > 0)
        self.scopes.pop()
        self.ind -= 1

    def s_if(self):
        r = self.r
        self.emit("if %s {" % self.expr(BOOL, 2, exact=True))
        self.block(r.randint(1, 3))
        k = r.random()
        if k < 0.3:
            self.emit("} else if %s {" % self.expr(BOOL, 1, exact=True))
            self.block(r.randint(1, 2))
            self.emit("} else {")
            self.block(r.randint(1, 2))
            self.emit("}")
        elif k < 0.7:
            self.emit("} else {")
            self.block(r.randint(1, 2))
            self.emit("}")
        else:
            self.emit("}")

    def s_from(self):
        r = self.r
        kt = r.choice([INT, INT, BIGINT, FLOAT, BYTE])
        lo = {INT: "0", BIGINT: "B0", FLOAT: "0.0", BYTE: "0b0"}[kt]
        hi = {INT: "3", BIGINT: "B3", FLOAT: "1.5", BYTE: "0b11"}[kt]
        step = ""
        if kt == FLOAT:
            step = " step 0.5"
        elif kt == BYTE:
            step = " step 0b1"
        elif r.random() < 0.3:
            step = " step %s" % {INT: "2", BIGINT: "B2"}[kt]
        if kt == INT and r.random() < 0.3:
            hi = self.atom(self.expr(INT, 0, exact=True)) if r.random() < 0.5 else hi
        name = self.fresh("i")
        named = r.random() < 0.7
        if self.fault_at is not None and self.fault_done is None and r.random() < 0.2:
            w = r.choice([STR, BOOL, open_(INT)])
            self.fault_at = None
            self.fault_done = (KIND[kt] + " (loop bound)", ms(w))
            self.count("fault")
            hi = "(### FAULT ### %s)" % self.expr(w, 0, need_present=True)
        # the counter may be a variable that already exists in this function: the loop then writes into it, so its
        # type must be the kind of every value the loop stores (start + step), not e.g. the kind of the step alone
        reused = None
        if named and r.random() < 0.4:
            same = self.vars(lambda v: v.ty == kt and not v.const and v.assignable and self.is_local(v))
            other = self.vars(lambda v: v.ty in NUMS and v.ty != kt and not v.const and v.assignable and self.is_local(v))
            if other and self.fault_at is not None and self.fault_done is None and r.random() < 0.5:
                reused = r.choice(other)
                self.fault_at = None
                self.fault_done = (KIND[kt] + " (existing variable reused as loop counter)", ms(reused.ty))
                self.count("fault")
            elif same:
                reused = r.choice(same)
            if reused is not None:
                name = reused.name
        self.emit("from %s %s %s%s%s {" % (lo, r.choice(["to", "through"]), hi, step, ", " + name if named else ""))
        self.ind += 1
        self.scopes.append({})
        self.loop_depth += 1
        if named:
            self.declare(Var(name, kt, assignable=False))
            self.observe(name, "loop-counter:" + KIND[kt], kt)
        for _ in range(r.randint(1, 2)):
            self.stmt(in_fn=self.fn_depth > 0)
        self.loop_depth -= 1
        self.scopes.pop()
        self.ind -= 1
        self.emit("}")
        if reused is not None:
            self.observe(reused.name, "loop-counter-reused:" + KIND[self.res(reused.ty)], reused.ty)

    def s_while(self):
        r = self.r
        w = self.fresh("w")
        self.emit("%s = 0" % w)
        self.declare(Var(w, INT, assignable=False))
        self.emit("while %s < %d {" % (w, r.randint(1, 3)))
        self.ind += 1
        self.scopes.append({})
        self.emit("%s = %s + 1" % (w, w))
        self.loop_depth += 1
        for _ in range(r.randint(1, 2)):
            self.stmt(in_fn=self.fn_depth > 0)
        self.loop_depth -= 1
        self.scopes.pop()
        self.ind -= 1
        self.emit("}")

    def s_break(self):
        self.emit("if %s {" % self.expr(BOOL, 1, exact=True))
        self.emit("\t" + self.r.choice(["break", "continue"]))
        self.emit("}")

    def s_early_return(self):
        self.emit("if %s {" % self.expr(BOOL, 1, exact=True))
        self.emit("\treturn " + self.expr(self.ret_ty, 1))
        self.emit("}")

    def s_listops(self):
        r = self.r
        ls = self.vars(lambda v: v.ty[0] == "open" and not v.const and self.is_local(v))
        if not ls:
            return self.s_decl()
        v = r.choice(ls)
        et = self.res(v.ty)[1]
        c = r.choice(["push", "push", "len", "elem", "reverse", "map", "filter", "join", "index_of"])
        if c == "push":
            self.emit("%s.push(%s)" % (v.name, self.expr(et, 1, need_present=True)))
            if self.res(et)[0] != "fn":
                self.observe("%s[%s.len() - 1]" % (v.name, v.name), "pushed-elem:" + self.res(et)[0], et)
        elif c == "len":
            self.observe("%s.len()" % v.name, "list-len", INT)
        elif c == "elem" and v.minlen > 0:
            self.observe("%s[%d]" % (v.name, r.randrange(v.minlen)), "list-elem:" + self.res(et)[0], et)
        elif c == "reverse":
            self.emit("%s.reverse()" % v.name)
        elif c == "map" and self.res(et)[0] == "nat":
            rt = r.choice(NATS)
            f = self.fn_literal([et], rt, simple=True)
            self.observe("%s.map(%s)" % (v.name, f), "list-map", open_(rt))
        elif c == "filter" and self.res(et)[0] == "nat":
            f = self.fn_literal([et], BOOL, simple=True)
            self.observe("%s.filter(%s)" % (v.name, f), "list-filter", v.ty)
        elif c == "join":
            self.observe("%s.join(%s)" % (v.name, self.base_expr(v.ty)), "list-join", v.ty)
        elif c == "index_of" and self.res(et)[0] == "nat":
            self.observe("%s.index_of(%s)" % (v.name, self.expr(et, 0, need_present=True)), "list-index_of", opt(INT))

    def s_mapops(self):
        r = self.r
        ms_ = self.vars(lambda v: self.res(v.ty)[0] == "map" and self.is_local(v))
        if not ms_:
            return self.s_decl()
        v = r.choice(ms_)
        _, kt, vt = self.res(v.ty)
        c = r.choice(["set", "get", "len", "keys", "values", "contains", "replace", "pairs"])
        if c == "set" and not v.const:
            key = r.choice(v.keys) if v.keys and r.random() < 0.5 else self.lit(kt)
            self.emit("%s[%s] = %s" % (v.name, key, self.expr(vt, 1, need_present=True)))
        elif c == "get" and v.keys:
            self.observe("%s[%s]" % (v.name, r.choice(v.keys)), "map-get:" + self.res(vt)[0], vt)
        elif c == "len":
            self.observe("%s.len()" % v.name, "map-len", INT)
        elif c == "keys":
            self.observe("%s.keys()" % v.name, "map-keys", open_(kt))
            if v.keys:
                self.observe("(%s.keys())[0]" % v.name, "map-key-elem", kt)
        elif c == "values":
            self.observe("%s.values()" % v.name, "map-values", open_(vt))
            if v.keys:
                self.observe("(%s.values())[0]" % v.name, "map-value-elem", vt)
        elif c == "contains" and v.keys:
            self.observe("%s.contains_key(%s)" % (v.name, r.choice(v.keys)), "map-contains", BOOL)
        elif c == "replace" and v.keys and self.res(vt)[0] != "opt":
            self.observe("%s.replace(%s, %s)" % (v.name, r.choice(v.keys), self.expr(vt, 0, need_present=True)), "map-replace", opt(vt))
        elif c == "pairs" and v.keys:
            self.observe("(%s.pairs())[0][0]" % v.name, "map-pair-key", kt)
            self.observe("(%s.pairs())[0][1]" % v.name, "map-pair-value", vt)

    def s_fndecl(self):
        r = self.r
        if self.fn_depth >= 2:
            return self.s_decl()
        ps = [self.rand_type(1, allow_fn=r.random() < 0.2) for _ in range(r.randint(0, 3))]
        ret = self.rand_type(1, allow_fn=False) if r.random() < 0.85 else None
        name = self.fresh("f")
        lit = self.fn_literal(ps, ret)
        self.emit("%s = %s" % (name, lit))
        self.declare(Var(name, fn(ps, ret), assignable=False))
        # call it
        args = ", ".join(self.expr(p, 1, need_present=True) for p in ps)
        if ret is None:
            self.emit("%s(%s)" % (name, args))
        else:
            self.observe("%s(%s)" % (name, args), "call:" + self.res(ret)[0], ret)

    def s_unwrap(self):
        r = self.r
        ovs = self.vars(lambda v: v.ty[0] == "opt" and v.ty[1][0] in ("nat", "open", "class"))
        if not ovs:
            t = opt(r.choice(NATS))
            name = self.fresh()
            self.emit("%s: %s = %s" % (name, ms(t), self.expr(t, 1)))
            ovs = [self.declare(Var(name, t, never_nil=False))]
        v = r.choice(ovs)
        inner = self.res(v.ty)[1]
        c = r.choice(["or", "unwrap_if", "eqnil", "get"])
        if c == "or":
            self.observe("%s or %s" % (v.name, self.atom(self.expr(inner, 0, need_present=True))), "or:" + self.res(inner)[0], inner)
        elif c == "unwrap_if" and self.is_local(v):
            name = self.fresh("u")
            self.emit("%s: %s = nil" % (name, ms(v.ty)))
            self.emit("if %s ?= %s {" % (name, v.name))
            self.ind += 1
            self.scopes.append({})
            self.declare(Var(name, v.ty, never_nil=True, assignable=False))
            self.observe(name, "unwrap-into:" + self.res(inner)[0], v.ty)
            self.observe("get " + name, "get:" + self.res(inner)[0], inner)
            self.scopes.pop()
            self.ind -= 1
            self.emit("}")
        elif c == "eqnil":
            self.observe("%s == nil" % v.name, "eq-nil", BOOL)
        elif c == "get" and v.never_nil:
            self.observe("get " + v.name, "get:" + self.res(inner)[0], inner)

    def s_fieldset(self):
        r = self.r
        os_ = self.vars(lambda v: self.res(v.ty)[0] == "class" and v.never_nil and not v.const)
        if not os_:
            return self.s_decl()
        v = r.choice(os_)
        cl = self.classes[self.res(v.ty)[1]]
        if not cl.fields:
            return
        fnm = r.choice(sorted(cl.fields))
        ft = cl.fields[fnm]
        if self.res(ft)[0] in ("nat", "opt", "open"):
            self.emit("%s.%s = %s" % (v.name, fnm, self.expr(ft, 1, need_present=True)))
        self.observe("%s.%s" % (v.name, fnm), "field:" + self.res(ft)[0], ft)

    def s_index_set(self):
        r = self.r
        ls = self.vars(lambda v: v.ty[0] == "open" and v.minlen > 0 and self.is_local(v) and not v.const)
        if not ls:
            return self.s_decl()
        v = r.choice(ls)
        et = self.res(v.ty)[1]
        i = r.randrange(v.minlen)
        self.emit("%s[%d] = %s" % (v.name, i, self.expr(et, 1, need_present=True)))
        self.observe("%s[%d]" % (v.name, i), "index-set:" + self.res(et)[0], et)

    def s_unpack(self):
        r = self.r
        ms_ = self.vars(lambda v: (v.ty[0] == "mixed" and v.minlen == len(v.ty[1])) or (v.ty[0] == "open" and v.minlen > 0))
        if not ms_:
            return self.s_decl()
        v = r.choice(ms_)
        # the pattern may name fewer elements than the value has -- down to a single name, `[x] = v`
        elem_types = list(v.ty[1]) if v.ty[0] == "mixed" else [v.ty[1]] * min(v.minlen, 3)
        if r.random() < 0.4:
            elem_types = elem_types[:r.randint(1, len(elem_types))]
        names = [self.fresh("x") for _ in elem_types]
        need_const = any(self.res(t)[0] in ("mixed", "open") for t in elem_types)    # a list literal element has a fixed shape
        is_const = (need_const or r.random() < 0.3) and len(names) > 1      # (`const [x] = v` reads as a write to `const[x]`)
        if need_const and not is_const:
            return self.s_decl()
        self.count("unpack-names:%d" % len(names))
        if len(names) == 1:
            self.emit("if true {}")         # a line starting with `[x]` would continue the previous line's expression as an index
        self.emit("%s[%s] = %s" % ("const " if is_const else "", ", ".join(names), v.name))
        for n, t in zip(names, elem_types):
            t0 = self.res(t)
            self.declare(Var(n, t, const=is_const, never_nil=t0[0] != "opt", assignable=False))
            self.observe(n, "unpack:" + t0[0], t)

    def s_assert(self):
        vs = self.vars(lambda v: self.res(v.ty) in (INT, BIGINT, BYTE, BOOL, STR))
        if not vs:
            return
        v = self.r.choice(vs)
        self.emit("assert %s == %s" % (v.name, v.name))

    def s_elem_opassign(self):
        r = self.r
        ls = self.vars(lambda v: v.ty[0] == "open" and v.minlen > 0 and self.is_local(v) and not v.const
                       and self.res(v.ty[1]) in (INT, BIGINT, FLOAT, STR))
        fs = []
        for v in self.vars(lambda v: self.res(v.ty)[0] == "class" and v.never_nil and not v.const):
            for fnm, ft in self.classes[self.res(v.ty)[1]].fields.items():
                if self.res(ft) in (INT, BIGINT, FLOAT, STR):
                    fs.append((v, fnm, ft))
        if ls and (not fs or r.random() < 0.5):
            v = r.choice(ls)
            et = self.res(v.ty[1])
            target = "%s[%d]" % (v.name, r.randrange(v.minlen))
        elif fs:
            v, fnm, ft = r.choice(fs)
            et = self.res(ft)
            target = "%s.%s" % (v.name, fnm)
        else:
            return self.s_decl()
        if et == STR:
            self.emit("%s += %s" % (target, self.atom(self.expr(r.choice(NATS), 1))))
        else:
            b = r.choice([x for x in NUMS if arith(et, x) == et])
            sym = r.choice(["+=", "-=", "*="])
            self.emit("%s %s %s" % (target, sym, self.lit(b) if sym == "*=" else self.atom(self.expr(b, 1))))
        self.observe(target, "elem-opassign:" + KIND[et], et)

    def s_strlist(self):
        r = self.r
        e = self.atom(self.expr(STR, 1))
        c = r.choice(["chars", "split", "substring", "index"])
        if c == "chars":
            self.observe("%s.chars()" % e, "str-chars", open_(STR))
        elif c == "split":
            name = self.fresh()
            self.emit('const %s = ("ab" + %s).split(1)' % (name, e))
            self.declare(Var(name, mixed(STR, STR), const=True, minlen=2))
            self.observe("%s[0]" % name, "str-split-elem", STR)
            self.observe("%s[1]" % name, "str-split-elem", STR)
        elif c == "substring":
            self.observe('("abc" + %s).substring(0, 2)' % e, "str-substring", STR)
        else:
            self.observe('("q" + %s)[0]' % e, "str-index", STR)

    def s_nested(self):
        r = self.r
        et = r.choice([INT, STR, FLOAT, BOOL])
        name = self.fresh()
        rows = []
        for _ in range(2):
            rows.append("[" + ", ".join(self.expr(et, 0, need_present=True) for _ in range(2)) + "]")
        self.emit("%s: [[%s...]...] = [%s]" % (name, KIND[et], ", ".join(rows)))
        self.declare(Var(name, open_(open_(et)), minlen=2))
        i, j = r.randrange(2), r.randrange(2)
        self.observe("%s[%d][%d]" % (name, i, j), "nested-index:" + KIND[et], et)
        self.emit("%s[%d][%d] = %s" % (name, i, j, self.expr(et, 1, need_present=True)))
        self.observe("%s[%d][%d]" % (name, i, j), "nested-index-set:" + KIND[et], et)
        self.observe("%s[%d]" % (name, i), "nested-row", open_(et))
        self.emit("%s[%d] = [%s]" % (name, i, ", ".join(self.expr(et, 0, need_present=True) for _ in range(3))))
        self.observe("%s[%d][2]" % (name, i), "nested-row-set:" + KIND[et], et)

    def s_recfn(self):
        r = self.r
        if self.fn_depth >= 1:
            return self.s_decl()
        rt = r.choice([INT, BIGINT, FLOAT, STR])
        name = self.fresh("rec")
        base = self.lit(rt)
        stepv = {INT: "self(n - 1) + n", BIGINT: "self(n - 1) * n + B1", FLOAT: "self(n - 1) + 0.5", STR: 'self(n - 1) + "x"'}[rt]
        self.emit("%s = fn(n: int) -> %s {" % (name, KIND[rt]))
        self.emit("\tif n <= 0 {")
        self.emit("\t\treturn %s" % base)
        self.emit("\t}")
        self.emit("\treturn %s" % stepv)
        self.emit("}")
        self.declare(Var(name, fn([INT], rt), assignable=False)).nocall = True     # only called with small literals
        self.observe("%s(%d)" % (name, r.randint(0, 4)), "recursion:" + KIND[rt], rt)

    def s_hof(self):
        """functions as values: parameter, result, stored in a list / map"""
        r = self.r
        if self.fn_depth >= 1:
            return self.s_decl()
        a = r.choice([INT, FLOAT, STR, BOOL])
        b = r.choice([INT, FLOAT, STR, BOOL, BIGINT])
        ft = fn([a], b)
        ap = self.fresh("ap")
        self.emit("%s = fn(h: %s, x: %s) -> %s {" % (ap, ms(ft), KIND[a], KIND[b]))
        self.emit("\treturn h(x)")
        self.emit("}")
        self.declare(Var(ap, fn([ft, a], b), assignable=False))
        fs = [v for v in self.vars() if self.res(v.ty) == ft]
        arg = r.choice(fs).name if fs and r.random() < 0.5 else self.fn_literal([a], b, simple=True)
        self.observe("%s(%s, %s)" % (ap, arg, self.expr(a, 1)), "hof-call:" + KIND[b], b)
        mk = self.fresh("mk")
        self.emit("%s = fn(k: %s) -> (%s) {" % (mk, KIND[b], ms(ft)))
        self.ind += 1
        self.scopes.append({})
        self.fn_bases.append(len(self.scopes) - 1)
        self.fn_depth += 1
        self.declare(Var("k", b, assignable=False))
        saved = self.ret_ty
        inner = self.fn_literal([a], b, simple=True)
        self.ret_ty = saved
        self.emit("return " + inner)
        self.fn_depth -= 1
        self.fn_bases.pop()
        self.scopes.pop()
        self.ind -= 1
        self.emit("}")
        self.declare(Var(mk, fn([b], ft), assignable=False))
        made = self.fresh("g")
        self.emit("%s = %s(%s)" % (made, mk, self.expr(b, 0)))
        self.declare(Var(made, ft, assignable=False))
        self.observe(made, "fn-value", ft)
        self.observe("%s(%s)" % (made, self.expr(a, 1)), "closure-call:" + KIND[b], b)
        lst = self.fresh()
        self.emit("%s: [%s...] = [%s]" % (lst, ms(ft), made))
        self.declare(Var(lst, open_(ft), minlen=1))
        g2 = self.fresh("g")
        self.emit("%s = %s[0]" % (g2, lst))
        self.declare(Var(g2, ft, assignable=False))
        self.observe("%s(%s)" % (g2, self.expr(a, 0)), "fn-from-list:" + KIND[b], b)

    def s_while_unwrap(self):
        r = self.r
        if self.fn_depth >= 1:
            return self.s_decl()
        rt = r.choice([INT, STR, FLOAT, BIGINT])
        g = self.fresh("gen")
        self.emit("%s = fn(i: int) -> %s? {" % (g, KIND[rt]))
        self.emit("\tif i > 2 {")
        self.emit("\t\treturn nil")
        self.emit("\t}")
        self.emit("\treturn %s" % self.lit(rt))
        self.emit("}")
        self.declare(Var(g, fn([INT], opt(rt)), assignable=False))
        k = self.fresh("k")
        nx = self.fresh("nx")
        self.emit("%s = 0" % k)
        self.emit("%s: %s? = nil" % (nx, KIND[rt]))
        self.emit("while %s ?= %s(%s) {" % (nx, g, k))
        self.ind += 1
        self.scopes.append({})
        self.emit("%s = %s + 1" % (k, k))
        self.declare(Var(nx, opt(rt), never_nil=True, assignable=False))
        self.observe(nx, "while-unwrap:" + KIND[rt], opt(rt))
        self.scopes.pop()
        self.ind -= 1
        self.emit("}")
        self.declare(Var(k, INT, assignable=False))
        self.observe(k, "while-unwrap-count", INT)

    # ------------------------------------------------------------------ top level
    def gen_class(self):
        r = self.r
        name = "C%d" % len(self.classes)
        c = Cls(name)
        nf = r.randint(1, 3)
        for i in range(nf):
            c.fields["f%d" % i] = self.rand_type(1, allow_fn=False, allow_alias=False)
        c.ctor = [t for t in c.fields.values() if r.random() < 0.7]
        self.emit("class %s {" % name)
        self.ind += 1
        for fnm, ft in c.fields.items():
            self.emit("%s: %s" % (fnm, ms(ft)))
        # constructor: every field gets a value
        pn = []
        it = iter(range(100))
        params = []
        assigns = []
        ctor_ps = []
        for fnm, ft in c.fields.items():
            if r.random() < 0.7:
                p = "a%d" % next(it)
                params.append("%s: %s" % (p, ms(ft)))
                ctor_ps.append(ft)
                assigns.append("self.%s = %s" % (fnm, p))
            else:
                self.scopes.append({})
                assigns.append("self.%s = %s" % (fnm, self.base_expr(ft, need_present=True)))
                self.scopes.pop()
        c.ctor = ctor_ps
        self.emit("constructor(self%s) {" % "".join(", " + p for p in params))
        for a in assigns:
            self.emit("\t" + a)
        self.emit("}")
        # methods: getters, a setter, a computed one
        for fnm, ft in list(c.fields.items())[:2]:
            rt = ft
            if self.res(rt)[0] == "fn":
                continue
            c.methods["get_" + fnm] = ([], rt)
            self.emit("fn get_%s(self) -> %s {" % (fnm, ms(rt)))
            self.emit("\treturn self.%s" % fnm)
            self.emit("}")
        fnm, ft = r.choice(list(c.fields.items()))
        if self.res(ft)[0] in ("nat", "open"):
            c.methods["set_" + fnm] = ([ft], None)
            self.emit("fn set_%s(self, nv: %s) {" % (fnm, ms(ft)))
            self.emit("\tself.%s = nv" % fnm)
            self.emit("}")
        # a method with parameters whose body reads the fields
        pt = self.rand_type(1, allow_fn=False, allow_alias=False)     # (before the class knows itself: its own name is not a type inside its body)
        rt = r.choice(NATS + [opt(INT), open_(STR)])
        self.classes[name] = c          # visible to the expression generator through `self`
        self.emit("fn calc(self, q: %s) -> %s {" % (ms(pt), ms(rt)))
        self.ind += 1
        self.fn_bases.append(len(self.scopes))
        self.scopes.append({})
        self.fn_depth += 1
        saved = (self.ret_ty, self.loop_depth)
        self.ret_ty, self.loop_depth = rt, 0
        self.declare(Var("self", ("class", name), assignable=False))
        self.declare(Var("q", pt, never_nil=self.res(pt)[0] != "opt", assignable=False))
        self.emit("return " + self.expr(rt, 2))
        self.ret_ty, self.loop_depth = saved
        self.fn_depth -= 1
        self.scopes.pop()
        self.fn_bases.pop()
        self.ind -= 1
        self.emit("}")
        c.methods["calc"] = ([pt], rt)
        self.ind -= 1
        self.emit("}")

    def program(self):
        r = self.r
        # aliases and classes first
        for i in range(r.randint(1, 2)):
            n = "Al%d" % i
            t = r.choice([INT, FLOAT, STR, BOOL, open_(INT), open_(STR)])
            self.emit("type %s %s" % (n, ms(t)))
            self.aliases[n] = t
        for _ in range(r.randint(1, 2)):
            self.gen_class()
        # a few seeds of every kind so that operand positions have variables to pick
        for t in NATS:
            name = self.fresh()
            self.emit("%s: %s = %s" % (name, ms(t), self.lit(t)))
            v = self.declare(Var(name, t))
        for cn in sorted(self.classes):
            name = self.fresh("obj")
            self.emit("%s = %s" % (name, self.base_expr(("class", cn))))
            self.declare(Var(name, ("class", cn), assignable=False))
        for _ in range(self.size):
            self.stmt()
        return "\n".join(self.lines) + "\n"


def generate(rng, size=40, fault=False):
    g = Gen(rng, size)
    if fault:
        # roughly 25 expr() calls per statement: land anywhere in the program
        g.fault_at = rng.randint(20, max(40, size * 6))
    src = g.program()
    meta = {"obs": g.obs_meta, "classes": sorted(g.classes), "aliases": {k: ms(v) for k, v in g.aliases.items()}, "dist": g.dist,
            "fault": g.fault_done}
    if g.fault_done:
        src = "# one typed position was given a `%s` where `%s` belongs\n" % (g.fault_done[1], g.fault_done[0]) + src
    return src, meta
