"""T4 tie shared by C04 (binary path) and C18 (text path): real writer/tokenizer/loader/transpiler
versus the Coq codec model (extracted), plus the round-trip *specification* itself."""
import itertools, os
from . import core, extract, programs

ALPHABET = ['"', '\\', ' ', '\t', '\n', '\r', 'n', 'r', 't', 'é', 'a']
EXTRA = [' ', ' ', '　', '\x0b', '\x0c', '\x85', 'e', 'f', '#', ',', ';', '|', '*', '-', '/', '0', '\U0001F600', '\x01', '\x7f']
OPS_WITH_ARGS = [7, 9, 22, 24, 12, 18, 46, 19, 60]


def hexs(s):
    b = s.encode("utf8")
    return b.hex() if b else "-"


def cps(s):
    return ".".join(str(ord(c)) for c in s) if s else "-"


def case_lines(case):
    """case = ('F', [(name, [(op, [args])])]) | ('S', multi, string) -> (impl line, model line)"""
    if case[0] == "S":
        return "S %d %s" % (case[1], hexs(case[2])), "S %d %s" % (case[1], cps(case[2]))
    def fn(enc):
        out = []
        for name, body in case[1]:
            ins = []
            for op, args in body:
                ins.append(str(op) if not args else "%d:%s" % (op, ",".join(enc(a) for a in args)))
            out.append("%s|%s" % (enc(name), ";".join(ins)))
        return "F " + "#".join(out)
    return fn(hexs), fn(cps)


def canon_fns(fns):
    return "#".join("%s|%s" % (cps(n), ";".join(str(op) if not a else "%d:%s" % (op, ",".join(cps(x) for x in a)) for op, a in body)) for n, body in fns) or "-"


def exhaustive_strings(maxlen=4):
    for n in range(0, maxlen + 1):
        for t in itertools.product(ALPHABET, repeat=n):
            yield "".join(t)


ASCII = [chr(c) for c in range(32, 127)]
# substrings that are comment / escape / separator syntax in SOME text format: an argument is data, none of them may matter
TOKENS = ["//", "/*", "*/", "#", "##", "--", ";", "\\n", "\\\"", "\"\"", " \" ", "\\\\", "\\ ", "${", "%s", "\\x00", "\\u{41}", "'", "`", "\r\n"]


def rand_string(rng, maxlen=12, nul=False):
    pool = ALPHABET * 3 + EXTRA + (['\x00'] if nul else [])
    r = rng.random()
    if r < 0.2:      # any printable ASCII (a character special to some future syntax is found only if it is drawn at all)
        pool = pool + ASCII * 2
    elif r < 0.35:
        pool = pool + TOKENS * 3
    return "".join(rng.choice(pool) for _ in range(rng.randint(0, maxlen)))


def gen_cases(ctx, n_random, n_tok):
    rng = ctx.rng
    cases = []
    # exhaustive: every string of length <= 4 over the format-special alphabet, as the argument of make_str
    for s in exhaustive_strings(4):
        cases.append(("F", [("m.mmm#__module__", [(7, [s])])]))
    n_exh = len(cases)
    # random argument lists / several instructions / several functions / odd names
    for _ in range(n_random):
        fns = []
        names = set()
        for k in range(rng.randint(1, 3)):
            name = rng.choice(["__module__", "a.mmm#__fn%d" % k, "dir/x y.mmm#f%d" % k, "é%d" % k, "A::m%d" % k, "f %d" % k, "e%d" % k])
            if rng.random() < 0.15:
                name = (rand_string(rng, 6).strip() or "z").replace("\n", "") + str(k)
            if names and rng.random() < 0.08:
                name = rng.choice(sorted(names))
            if name in names and rng.random() < 0.6:
                continue        # (otherwise: a REPEATED function name in one file; the loader keeps the later record)
            names.add(name)
            body = []
            for _ in range(rng.randint(0, 5)):
                if rng.random() < 0.25:
                    body.append((rng.choice([15, 17, 33, 57, 3, 40, 32, 9, 10, 13]), []))
                else:
                    op = rng.choice(OPS_WITH_ARGS + [rng.randint(1, 62)])
                    body.append((op, [rand_string(rng) for _ in range(rng.randint(1, 4))]))
            fns.append((name, body))
        if fns:
            cases.append(("F", fns))
    # malformed stream for the tokenizer: arbitrary raw text, both modes
    for _ in range(n_tok):
        cases.append(("S", rng.randint(0, 1), rand_string(rng, 10)))
    for s in itertools.islice(exhaustive_strings(3), 0, None, 1):
        cases.append(("S", 1, s))
    return cases, n_exh


def parse_result(line):
    if line.startswith(("OK", "ERR", "PANIC")):
        return {"tok": line}
    return dict(f.split("=", 1) for f in line.split("\t"))


def impl_fields(res):
    """normalise the harness output (hex UTF-8, dumps) to the model's canonical notation"""
    if "tok" in res:
        t = res["tok"]
        if t.startswith("OK "):
            return {"tok": "OK " + ",".join(cps(bytes.fromhex(p).decode("utf8")) if p != "-" else "-" for p in t[3:].split(","))}
        return {"tok": "ERR" if t in ("ERR", "PANIC") else t}
    out = {}
    # byte level (UTF-8 model tie): the raw bytes the Rust writer produced, untouched by any Python decoding
    out["binhex"] = res.get("bin", "ERR") if res.get("bin") not in ("PANIC",) else "ERR"
    for k, v in res.items():
        if v in ("ERR", "PANIC"):
            out[k] = "ERR"
        elif k in ("load", "tload"):
            d = programs.parse_dump(bytes.fromhex(v) if v != "-" else b"")
            fns = []
            for f in d.values():
                fns = sorted(f.items())
            out[k] = ("map", sorted((n, tuple((op, tuple(a)) for op, a in body)) for n, body in fns))
        else:
            out[k] = cps(bytes.fromhex(v).decode("utf8")) if v != "-" else "-"
    return out


def model_fields(res):
    if "tok" in res:
        return res
    out = {}
    for k, v in res.items():
        if v == "ERR":
            out[k] = "ERR"
        elif k in ("load", "tload"):
            fns = []
            if v != "-":
                for f in v.split("#"):
                    name, body = f.split("|", 1)
                    ins = []
                    for i in (body.split(";") if body else []):
                        if ":" in i:
                            op, a = i.split(":", 1)
                            ins.append((int(op), tuple(uncps(x) for x in a.split(","))))
                        else:
                            ins.append((int(i), ()))
                    fns.append((uncps(name), tuple(ins)))
            # the loader stores the functions in a HashMap keyed by name (file.rs get_functions: `insert`): of several
            # records with one name the LAST one is the function; the model returns the records in file order
            out[k] = ("map", sorted(dict(fns).items()))
        else:
            out[k] = v
    return out


def uncps(s):
    return "" if s in ("-", "") else "".join(chr(int(x)) for x in s.split("."))


def run_tie(ctx, cases):
    hbin = os.path.join(core.build_harness("codec"), "codec_harness")
    mdl = extract.build("codec", "CodecExtract.v", "codec_driver.ml")
    d = ctx.mktemp()
    impl_in, model_in = os.path.join(d, "impl.in"), os.path.join(d, "model.in")
    with open(impl_in, "w") as fi, open(model_in, "w") as fm:
        for c in cases:
            a, b = case_lines(c)
            fi.write(a + "\n")
            fm.write(b + "\n")
    res_path = os.path.join(d, "impl.out")
    scratch = os.path.join(d, "scratch")
    os.makedirs(scratch)
    rc, out, err = core.sh([hbin, impl_in, res_path, scratch], timeout=1200)
    if rc != 0:
        raise core.BuildError("codec harness crashed rc=%s %s" % (rc, err.decode("utf8", "replace")[-500:]))
    rc, out, err = core.sh([mdl], inp=open(model_in, "rb").read(), timeout=1200)
    if rc != 0:
        raise core.BuildError("codec model driver crashed rc=%s %s" % (rc, err.decode("utf8", "replace")[-500:]))
    impl = [impl_fields(parse_result(l)) for l in open(res_path).read().split("\n") if l]
    model = [model_fields(parse_result(l)) for l in out.decode().split("\n") if l]
    assert len(impl) == len(cases) == len(model), (len(impl), len(model), len(cases))
    return impl, model


WS = set([9, 10, 11, 12, 13, 32, 133, 160, 5760, 8232, 8233, 8239, 8287, 12288]) | set(range(8192, 8203))


def rust_ws(c):
    return ord(c) in WS


def wf_case(case, text):
    """the side conditions of file_roundtrip / text_roundtrip, on a generated case"""
    if case[0] != "F":
        return False
    names = [n for n, _ in case[1]]
    if len(set(names)) != len(names):
        return False
    for n, body in case[1]:
        if "\x00" in n:
            return False
        if text and ("\n" in n or (n and rust_ws(n[-1]))):
            return False
        for op, args in body:
            if op == 0 or op == 101 or (text and not (1 <= op <= 62)):
                return False
            if any("\x00" in a for a in args):
                return False
    return True


def spec_fns(case):
    return ("map", sorted((n, tuple((op, tuple(a)) for op, a in body)) for n, body in case[1]))
