"""C02: judging one executed program against the property.

    static type string (what `typeof` printed)  ->  set of admissible run-time kind tags
    run-time failure                            ->  one of the language's own dynamic failures, or a type error
"""
import re

from . import c02_common as cc

NATIVE_TAG = {"int": "Int", "bigint": "BigInt", "float": "Float", "byte": "Byte", "bool": "Bool", "str": "Str"}


def split_optional(ts):
    """(base type string, is optional) for a type string as the compiler displays it"""
    ts = ts.strip()
    if ts.startswith("fn("):
        # find the parenthesis closing the parameter list
        depth = 0
        for i, ch in enumerate(ts):
            if ch == "(":
                depth += 1
            elif ch == ")":
                depth -= 1
                if depth == 0:
                    rest = ts[i + 1:]
                    return (ts[:i + 1], True) if rest == "?" else (ts, False)
        return ts, False
    if ts.endswith("?"):
        return ts[:-1], True
    return ts, False


def admissible(ts, classes, aliases, depth=0):
    """set of admissible tag tuples' FIRST-non-Optional tag for a static type string; None = cannot tell"""
    base, is_opt = split_optional(ts)
    if base in NATIVE_TAG:
        tags = {NATIVE_TAG[base]}
    elif base == "nil":
        tags = set()
    elif base.startswith("map["):
        tags = {"Map"}
    elif base.startswith("["):
        tags = {"Vector"}
    elif base.startswith("fn("):
        tags = {"Function", "BuiltInFunction"}
    elif base in classes or base == "Self":
        tags = {"Object"}
    elif base in aliases and depth < 8:
        inner = admissible(aliases[base], classes, aliases, depth + 1)
        if inner is None:
            return None
        tags = set(inner[0])
        is_opt = is_opt or inner[1]
    else:
        return None
    return tags, is_opt


def judge_observation(ts, vtags, classes, aliases):
    """None = fine / cannot tell; otherwise a short description of the kind mismatch.
    `nil` is admissible everywhere (the property speaks about values other than nil)."""
    if not vtags:
        return None
    if vtags == ("Nil",):
        return None
    if vtags[0] == "HeapPrimitive":
        return None
    adm = admissible(ts, classes, aliases)
    if adm is None:
        return None
    tags, is_opt = adm
    vt = vtags
    wrapped = False
    while vt and vt[0] == "Optional":
        vt = vt[1:]
        wrapped = True
    if not vt or vt == ("Nil",):
        return None
    if wrapped and not is_opt:
        return "static type `%s` is not optional but the value is a wrapped optional <%s>" % (ts, "><".join(vtags))
    if vt[0] not in tags:
        return "static type `%s` but the value has run-time kind <%s>" % (ts, "><".join(vtags))
    return None


MARK = re.compile(r"^#o(\d+)$")


def plain_nil_observations(res):
    """observations `#oN / typeof / value` whose static type is plain (not `T?`, not `nil`) and whose value is nil"""
    out = []
    lines = res.lines
    for i in range(len(lines) - 2):
        tags, text = lines[i]
        m = MARK.match(text) if tags == ("Str",) else None
        if not m:
            continue
        (ttags, ttext), (vtags, vtext) = lines[i + 1], lines[i + 2]
        if ttags != ("Str",) or ttext.endswith("?") or ttext == "nil":
            continue
        vt = vtags
        while vt and vt[0] == "Optional":
            vt = vt[1:]
        if vt == ("Nil",):
            out.append((int(m.group(1)), ttext))
    return out


def judge_program(res, meta):
    """-> (findings [(class, what)], number of observations checked, number of distinct observation ids seen)"""
    classes = set(meta.get("classes", []))
    aliases = meta.get("aliases", {})
    obs = meta.get("obs", {})
    finds = []
    n = 0
    ids = set()
    lines = res.lines
    i = 0
    while i + 2 < len(lines) + 0 and i < len(lines):
        tags, text = lines[i]
        m = MARK.match(text) if tags == ("Str",) else None
        if not m:
            i += 1
            continue
        oid = int(m.group(1))
        if i + 2 >= len(lines):
            break
        (ttags, ttext), (vtags, vtext) = lines[i + 1], lines[i + 2]
        i += 3
        if ttags != ("Str",):
            continue
        n += 1
        ids.add(oid)
        bad = judge_observation(ttext, vtags, classes, aliases)
        if bad:
            label = (obs.get(oid) or obs.get(str(oid)) or ("?", None))[0]
            vt = [t for t in vtags]
            cls = "kind:%s:%s:%s" % (label, split_optional(ttext)[0].split("[")[0].split("(")[0] or "list", "-".join(vt))
            finds.append((cls, "observation o%d (%s): %s" % (oid, label, bad)))
    if res.verdict in ("rt-error", "panic"):
        allowed, fcls = cc.failure_class(res)
        if not allowed:
            finds.append(("rt:" + fcls, "accepted program fails at run time with a type error: %s" % res.msg))
    return finds, n, len(ids)
