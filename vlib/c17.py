"""C17: run-time failures are reported as MScript errors with an exact call trace.

Generator of FAILING programs.  A *plan* is a chain of links (call contexts) from the module down to
the innermost activation, which performs one failing operation inside optional block nesting:

    contexts  plain function | closure made by a factory | recursion via self | function passed as an
              argument | class method | class constructor | list.map / list.filter callback |
              function of an imported module | method of a class of an imported module
    blocks    if / else / while / from around every call site and around the failing operation
    kinds     Core fragment : assert, / and % by zero (int), get of nil, integer overflow (+ - * unary minus, MIN / -1,
                              +=)   -- known finding `overflow-is-a-panic`
              outside       : list / string index, remove, missing map key, failed conversions, string built-in
                              range / char-boundary / radix errors, repeat count, nil object, filter callback
                              clearing its list, index_of on maps, map inside a list used as key, byte / bigint
                              overflow; the zero-divisor matrix {/, %, /=, %=} x dividend {int, bigint, byte, float}
                              x divisor {int 0, B0, 0b0, 0.0} (the 52 cells the compiler accepts); a size the machine
                              cannot provide (ensure_inner_capacity(i32::MAX), str * B10^12 in every operand order)
Two probes outside the plans: recursion of depth 50000 (known finding `deep-recursion-aborts`) and a linked list of 20000
objects built by a loop (known finding `long-reference-chain-aborts`: the collector's recursive mark phase).

One tree (coregen encoding + a few extension nodes) is rendered to .ms; the expected result -- stdout
prefix, the call chain innermost first with the block markers, the assert position, exit status -- is
computed from the plan alone (the property's specification), independent of the VM model.
Plans made of Core contexts and Core kinds additionally go through coretie.tie_all: T1 (code generator
model), T2 (VM model on the real bytecode, incl. the error stack and the per-instruction trace) and T3
(reference semantics)."""
import re

from . import core, coregen, coretie, programs, vmtie

I = lambda n: ('int', n)
V = lambda x: ('var', x)
S = lambda s: ('str', s)
FN_INT = ('fn', ('int',), 'int')


def P(text):
    return ('print', S(text))


def call(f, *args):
    return ('call', V(f), list(args))


def mcall(obj, m, *args):
    return ('mcall', obj, m, list(args))


def fn(tag, params, ret, body):
    return ('fn', params, ret, body, tag)


# ---------------------------------------------------------------- rendering (core nodes as coregen + extensions)
def r_type(t):
    if isinstance(t, tuple) and t[0] == 'list':
        return '[%s...]' % r_type(t[1])
    return coregen.ms_type(t)


def r_expr(e):
    k = e[0]
    if k == 'bin':
        return '(%s %s %s)' % (r_expr(e[2]), e[1], r_expr(e[3]))
    if k == 'neg':
        return '-%s' % r_expr(e[1])
    if k == 'call':
        return '%s(%s)' % (r_expr(e[1]), ', '.join(r_expr(a) for a in e[2]))
    if k == 'self':
        return 'self(%s)' % ', '.join(r_expr(a) for a in e[1])
    if k == 'get':
        return '(get %s)' % r_expr(e[1])
    if k == 'fn':
        ps = ', '.join('%s: %s' % (n, r_type(t)) for n, t in e[1])
        ret = ' -> %s' % r_type(e[2]) if e[2] is not None else ''
        return 'fn(%s)%s {\n%s\n}' % (ps, ret, r_block(e[3], 1))
    if k == 'mcall':
        return '%s.%s(%s)' % (r_expr(e[1]), e[2], ', '.join(r_expr(a) for a in e[3]))
    if k == 'field':
        return '%s.%s' % (r_expr(e[1]), e[2])
    if k == 'index':
        return '%s[%s]' % (r_expr(e[1]), r_expr(e[2]))
    if k == 'list':
        return '[%s]' % ', '.join(r_expr(a) for a in e[1])
    if k == 'rawe':
        return e[1]
    return coregen.ms_expr(e)


def r_stmt(s, ind):
    p = '  ' * ind
    k = s[0]
    if k == 'asg':
        if s[2] is not None:
            return '%s%s: %s = %s' % (p, s[1], r_type(s[2]), r_expr(s[3]))
        return '%s%s = %s' % (p, s[1], r_expr(s[3]))
    if k == 'opa':
        return '%s%s %s= %s' % (p, s[1], s[2], r_expr(s[3]))
    if k == 'print':
        return '%sprint %s' % (p, r_expr(s[1]))
    if k == 'assert':
        return '%sassert %s' % (p, r_expr(s[1]))
    if k == 'expr':
        return '%s%s' % (p, r_expr(s[1]))
    if k == 'if':
        return '%sif %s {\n%s\n%s}' % (p, r_expr(s[1]), r_block(s[2], ind + 1), p)
    if k == 'ifelse':
        return '%sif %s {\n%s\n%s} else {\n%s\n%s}' % (p, r_expr(s[1]), r_block(s[2], ind + 1), p, r_block(s[3], ind + 1), p)
    if k == 'while':
        return '%swhile %s {\n%s\n%s}' % (p, r_expr(s[1]), r_block(s[2], ind + 1), p)
    if k == 'from':
        return '%sfrom %s to %s {\n%s\n%s}' % (p, r_expr(s[1]), r_expr(s[2]), r_block(s[7], ind + 1), p)
    if k == 'ret':
        return p + ('return' if s[1] is None else 'return %s' % r_expr(s[1]))
    if k == 'raws':
        return '\n'.join(p + l for l in s[1].split('\n'))
    if k == 'import':
        return '%simport %s' % (p, s[1])
    if k == 'export':
        return '%sexport %s: %s = %s' % (p, s[1], s[2], r_expr(s[3]))
    if k == 'class':
        _, name, fields, ctor, methods, exported = s
        out = ['%s%sclass %s {' % (p, 'export ' if exported else '', name)]
        for f, t in fields:
            out.append('%s  %s: %s' % (p, f, r_type(t)))
        if ctor is not None:
            ps = ''.join(', %s: %s' % (n, r_type(t)) for n, t in ctor[0])
            out.append('%s  constructor(self%s) {\n%s\n%s  }' % (p, ps, r_block(ctor[1], ind + 2), p))
        for mname, params, ret, body in methods:
            ps = ''.join(', %s: %s' % (n, r_type(t)) for n, t in params)
            rt = ' -> %s' % r_type(ret) if ret is not None else ''
            out.append('%s  fn %s(self%s)%s {\n%s\n%s  }' % (p, mname, ps, rt, r_block(body, ind + 2), p))
        out.append(p + '}')
        return '\n'.join(out)
    raise ValueError(k)


def r_block(ss, ind):
    return '\n'.join(r_stmt(s, ind) for s in ss)


def render(prog):
    return r_block(prog, 0) + '\n'


# ---------------------------------------------------------------- function numbering: `__fnN`, N in the order the
# literals END (the compiler names a function after compiling its body), per file
def number_functions(prog):
    order = []

    def ve(e):
        k = e[0]
        if k == 'fn':
            vs(e[3])
            order.append(e[4] if len(e) > 4 else None)
        elif k == 'bin':
            ve(e[2]); ve(e[3])
        elif k in ('neg', 'get', 'not'):
            ve(e[1])
        elif k == 'call':
            ve(e[1])
            for a in e[2]:
                ve(a)
        elif k == 'self':
            for a in e[1]:
                ve(a)
        elif k == 'mcall':
            ve(e[1])
            for a in e[3]:
                ve(a)
        elif k in ('field',):
            ve(e[1])
        elif k == 'index':
            ve(e[1]); ve(e[2])
        elif k == 'list':
            for a in e[1]:
                ve(a)

    def vs(ss):
        for s in ss:
            k = s[0]
            if k == 'asg':
                ve(s[3])
            elif k == 'opa':
                ve(s[3])
            elif k in ('print', 'assert', 'expr'):
                ve(s[1])
            elif k in ('if', 'while'):
                ve(s[1]); vs(s[2])
            elif k == 'ifelse':
                ve(s[1]); vs(s[2]); vs(s[3])
            elif k == 'from':
                ve(s[1]); ve(s[2]); vs(s[7])
            elif k == 'ret' and s[1] is not None:
                ve(s[1])
            elif k == 'export':
                ve(s[3])
            elif k == 'raws':
                order.extend([None] * (s[2] if len(s) > 2 else 0))
            elif k == 'class':
                if s[3] is not None:
                    vs(s[3][1])
                for m in s[4]:
                    vs(m[3])
    vs(prog)
    return {tag: n for n, tag in enumerate(order) if tag is not None}


# ---------------------------------------------------------------- plans
CORE_CTX = ['plain', 'closure', 'self', 'arg']
OTHER_CTX = ['method', 'ctor', 'map', 'filter', 'import_fn', 'import_method']
WEIGHT = {'plain': 1, 'closure': 1, 'self': 2, 'arg': 2, 'method': 1, 'ctor': 2, 'map': 1, 'filter': 1,
          'import_fn': 1, 'import_method': 1}
BLOCKS = ['if', 'else', 'while', 'from']
MARK = {'if': '<if>', 'else': '<else>', 'while': '<while>', 'from': '<while>'}

OVERFLOW = 'overflow-is-a-panic'
BIG = 2147483647

# kind -> (statements, expectation).  Statements run where `n` (= 3) and `r` (int) are visible.
CORE_KINDS = {
    'assert': [('assert', ('bin', '<', V('n'), I(0)))],
    'div-by-zero': [('asg', 'z', None, ('bin', '-', V('n'), V('n'))), ('asg', 'r', None, ('bin', '/', V('n'), V('z')))],
    'rem-by-zero': [('asg', 'z', None, ('bin', '-', V('n'), V('n'))), ('asg', 'r', None, ('bin', '%', V('n'), V('z')))],
    'get-nil': [('asg', 'o', ('opt', 'int'), ('nil',)), ('asg', 'r', None, ('get', V('o')))],
    'overflow-add': [('asg', 'big', None, I(BIG)), ('asg', 'r', None, ('bin', '+', V('big'), V('n')))],
    'overflow-sub': [('asg', 'big', None, I(BIG)), ('asg', 'm', None, ('bin', '-', I(0), V('big'))),
                     ('asg', 'r', None, ('bin', '-', V('m'), V('n')))],
    'overflow-mul': [('asg', 'big', None, I(BIG)), ('asg', 'r', None, ('bin', '*', V('big'), V('n')))],
    'overflow-neg': [('asg', 'big', None, I(BIG)), ('asg', 'm', None, ('bin', '-', ('bin', '-', I(0), V('big')), I(1))),
                     ('asg', 'r', None, ('neg', V('m')))],
    'overflow-div': [('asg', 'big', None, I(BIG)), ('asg', 'm', None, ('bin', '-', ('bin', '-', I(0), V('big')), I(1))),
                     ('asg', 'd', None, ('bin', '-', V('n'), I(4))), ('asg', 'r', None, ('bin', '/', V('m'), V('d')))],
    'overflow-op-assign': [('asg', 'big', None, I(BIG)), ('opa', 'big', '+', V('n'))],
}


def raws(text, nfn=0):
    return ('raws', text, nfn)


OTHER_KINDS = {
    'list-index': [raws('l: [int...] = [1, 2, 3]\nr = l[n + 5]')],
    'list-index-negative': [raws('l: [int...] = [1, 2, 3]\nr = l[n - 5]')],
    'string-index': [raws('s = "abc"\nc = s[n + 5]\nr = c.len()')],
    'list-remove': [raws('l: [int...] = [1, 2, 3]\nr = l.remove(n + 5)')],
    'map-key-missing': [raws('mp = map[str, int]\nmp["a"] = 1\nr = get mp["zz"]')],
    'parse-int-get': [raws('r = get "x".parse_int()')],
    'parse-float-get': [raws('pf = get "x".parse_float()\nr = 1')],
    'parse-bool-get': [raws('pb = get "x".parse_bool()\nr = 1')],
    'parse-byte-get': [raws('py = get "999".parse_byte()\nr = 1')],
    'float-to-int': [raws('ff = (10.0).pow(300)\nr = ff.to_int()')],
    'bigint-to-int': [raws('bb = B99999999999\nr = bb.to_int()')],
    'int-to-byte': [raws('ib = n + 300\niy = ib.to_byte()\nr = 1')],
    'pow-negative': [raws('pw = n.pow(n - 5)\nr = 1')],
    'substring-reversed': [raws('t = "abc".substring(2, 1)\nr = t.len()')],
    'substring-range': [raws('t = "abc".substring(1, n + 10)\nr = t.len()')],
    'substring-begin-range': [raws('t = "abc".substring(n + 10, n + 11)\nr = t.len()')],
    'substring-char-boundary': [raws('t = "héllo".substring(0, 2)\nr = t.len()')],
    'substring-negative': [raws('t = "abc".substring(n - 5, 2)\nr = t.len()')],
    'insert-range': [raws('t = "abc".insert("x", n + 10)\nr = t.len()')],
    'insert-char-boundary': [raws('t = "héllo".insert("x", 2)\nr = t.len()')],
    'delete-range': [raws('t = "abc".delete(1, n + 10)\nr = t.len()')],
    'delete-char-boundary': [raws('t = "héllo".delete(0, 2)\nr = t.len()')],
    'delete-reversed': [raws('t = "abc".delete(2, 1)\nr = t.len()')],
    'split-char-boundary': [raws('const parts = "héllo".split(2)\nr = 1')],
    'radix-too-small': [raws('r = get "10".parse_int_radix(n - 2)')],
    'radix-too-large': [raws('r = get "10".parse_int_radix(n + 34)')],
    'radix-negative': [raws('r = get "10".parse_int_radix(0 - n)')],
    'bigint-radix-too-small': [raws('bg = get "10".parse_bigint_radix(n - 3)\nr = 1')],
    'bigint-radix-too-large': [raws('bg = get "10".parse_bigint_radix(n + 34)\nr = 1')],
    'repeat-huge': [raws('t = "ab" * B9223372036854775807\nr = t.len()')],
    'repeat-negative': [raws('t = "ab" * (0 - n)\nr = t.len()')],
    'nil-object-field': [raws('op: P17? = nil\nr = (get op).v')],
    # the asserted value is not `true` (a missing key of a map of bools reads as nil): the assertion fails
    'assert-nil:missing-key': [raws('mb = map[str, bool]\nmb["a"] = true\nassert mb["a"]\nassert mb["zz"]\nr = 1')],
    'filter-clears-list': [raws('fa: [int...] = [1, 2, 3]\nfb = fa.filter(fn(x: int) -> bool {\n  fa.clear()\n  return true\n})\nr = fb.len()', 1)],
    'index-of-maps': [raws('mm = map[str, int]\nml: [map[str, int]...] = [mm]\nio = ml.index_of(mm)\nr = 1')],
    'map-in-list-key': [raws('mm = map[str, int]\nkk = map[[map[str, int]...], int]\nkk[[mm]] = 1\nr = 1')],
    'overflow-byte': [raws('by = 0b11111111\nbz = 0b1\nbs = by + bz\nr = 1')],
    'overflow-bigint': [raws('bi = B170141183460469231731687303715884105727\nbj = bi + n\nr = 1')],
    'overflow-bigint-mul': [raws('bi = B170141183460469231731687303715884105727\nbj = bi * n\nr = 1')],
}
# ---- `nil` where the static type promises a value (hunt D7 / D8 / D12).  A `T?` variable compared with `<`, a missing map
# key (`m[k]` is typed `V` and reads as nil) handed to a built-in, an object that holds a map used as a map key.  Whatever the
# language decides these mean -- a compile-time diagnostic, a run-time error, or a defined result -- it may not be a Rust panic.
NIL_ORDER_KINDS = []
for _sym, _nm in (('>', 'gt'), ('<', 'lt'), ('>=', 'ge'), ('<=', 'le')):
    OTHER_KINDS['nil-order:%s:left' % _nm] = [raws('oi: int? = nil\nbq = oi %s n\nr = 1' % _sym)]
    OTHER_KINDS['nil-order:%s:right' % _nm] = [raws('oi: int? = nil\nbq = n %s oi\nr = 1' % _sym)]
    NIL_ORDER_KINDS += ['nil-order:%s:left' % _nm, 'nil-order:%s:right' % _nm]
OTHER_KINDS['nil-order:both'] = [raws('oi: int? = nil\noj: int? = nil\nbq = oi < oj\nr = 1')]
OTHER_KINDS['nil-order:float'] = [raws('of: float? = nil\nbq = of <= 1.5\nr = 1')]
OTHER_KINDS['nil-order:bigint'] = [raws('ob: bigint? = nil\nbq = B5 > ob\nr = 1')]
OTHER_KINDS['nil-order:missing-key'] = [raws('mp = map[str, int]\nmp["a"] = 1\nbq = mp["zz"] >= n\nr = 1')]
OTHER_KINDS['nil-order:field'] = [raws('oq = Q17()\nbq = n >= oq.cap\nr = 1')]
OTHER_KINDS['nil-order:in-condition'] = [raws('oi: int? = nil\nif oi > n {\n  r = 2\n}\nr = 1')]
OTHER_KINDS['nil-order:loop-bound'] = [raws('mp = map[str, int]\nmp["a"] = 1\nfrom 0 to mp["zz"] {\n  r = 2\n}\nr = 1')]
NIL_ORDER_KINDS += ['nil-order:loop-bound', 'nil-order:both', 'nil-order:float', 'nil-order:bigint', 'nil-order:missing-key', 'nil-order:field', 'nil-order:in-condition']

_MISSING = 'mp = map[str, int]\nmp["a"] = 1\nms = map[str, str]\nms["a"] = "x"\n'
NIL_ARG_KINDS = {
    'nil-arg:list-remove': 'l: [int...] = [1, 2, 3]\nr = l.remove(mp["zz"])',
    'nil-arg:ensure-capacity': 'l: [int...] = [1, 2, 3]\nl.ensure_inner_capacity(mp["zz"])\nr = 1',
    'nil-arg:join': 'ml = map[str, [int...]]\nl: [int...] = [1, 2, 3]\nj = l.join(ml["zz"])\nr = 1',
    'nil-arg:map-callback': 'mf = map[str, fn(int) -> int]\nl: [int...] = [1, 2, 3]\nj = l.map(mf["zz"])\nr = 1',
    'nil-arg:filter-callback': 'mf = map[str, fn(int) -> bool]\nl: [int...] = [1, 2, 3]\nj = l.filter(mf["zz"])\nr = 1',
    'nil-arg:substring-begin': 't = "hello".substring(mp["zz"], 3)\nr = t.len()',
    'nil-arg:substring-end': 't = "hello".substring(0, mp["zz"])\nr = t.len()',
    'nil-arg:contains': 'bq = "hello".contains(ms["zz"])\nr = 1',
    'nil-arg:index-of': 'iq = "hello".index_of(ms["zz"])\nr = 1',
    'nil-arg:insert-text': 't = "hello".insert(ms["zz"], 1)\nr = t.len()',
    'nil-arg:insert-position': 't = "hello".insert("x", mp["zz"])\nr = t.len()',
    'nil-arg:replace-pattern': 't = "hello".replace(ms["zz"], "x")\nr = t.len()',
    'nil-arg:replace-with': 't = "hello".replace("l", ms["zz"])\nr = t.len()',
    'nil-arg:delete-begin': 't = "hello".delete(mp["zz"], 2)\nr = t.len()',
    'nil-arg:delete-end': 't = "hello".delete(0, mp["zz"])\nr = t.len()',
    'nil-arg:split': 'const parts = "hello".split(mp["zz"])\nr = 1',
    'nil-arg:radix': 'pq = "10".parse_int_radix(mp["zz"])\nr = 1',
    'nil-arg:bigint-radix': 'pq = "10".parse_bigint_radix(mp["zz"])\nr = 1',
    'nil-arg:pow': 'pw = n.pow(mp["zz"])\nr = 1',
    'nil-arg:powf': 'mf = map[str, float]\nfx = 2.5\npw = fx.powf(mf["zz"])\nr = 1',
}
for _k, _body in NIL_ARG_KINDS.items():
    OTHER_KINDS[_k] = [raws(_MISSING + _body)]

OBJECT_KEY_KINDS = {
    'object-key:map-field:store': 'sk = S17()\nhits = map[S17, int]\nhits[sk] = 1\nr = hits[sk]',
    'object-key:map-field:read': 'sk = S17()\nhits = map[S17, int]\nhq = hits[sk]\nr = 1',
    'object-key:map-field:contains': 'sk = S17()\nhits = map[S17, int]\nbq = hits.contains_key(sk)\nr = 1',
    'object-key:map-field:remove': 'sk = S17()\nhits = map[S17, int]\nhq = hits.remove(sk)\nr = 1',
    'object-key:map-field:literal': 'sk = S17()\nhits = map[S17, int] { sk: 1 }\nr = hits.len()',
    'object-key:list-of-maps-field': 'sk = T17()\nhits = map[T17, int]\nhits[sk] = 1\nr = hits[sk]',
    'object-key:object-with-map-field': 'sk = U17()\nhits = map[U17, int]\nhits[sk] = 1\nr = hits[sk]',
    'object-key:in-list-key': 'sk = S17()\nhits = map[[S17...], int]\nhits[[sk]] = 1\nr = 1',
    'object-key:index-of': 'sk = S17()\nsl: [S17...] = [sk]\niq = sl.index_of(sk)\nr = 1',
}
for _k, _body in OBJECT_KEY_KINDS.items():
    OTHER_KINDS[_k] = [raws(_body)]

# the zero-divisor matrix: {/, %, /=, %=} x dividend kind x divisor kind, operands in variables (nothing is folded).
# An op-assign form is accepted by the compiler only when the promoted kind is the dividend's kind.
ZD_DIVIDEND = {'int': 'a: int = 7', 'bigint': 'a: bigint = B7', 'byte': 'a: byte = 0b111', 'float': 'a: float = 7.5'}
ZD_ZERO = {'int': 'z: int = n - n', 'bigint': 'z: bigint = B3 - B3', 'byte': 'z: byte = 0b11 - 0b11', 'float': 'z: float = 1.5 - 1.5'}
ZD_OPS = {'div': '/', 'rem': '%', 'div-assign': '/=', 'rem-assign': '%='}


def zd_promoted(a, b):
    if 'float' in (a, b):
        return 'float'
    if a == b:
        return a
    if a == 'byte':
        return b
    if b == 'byte':
        return a
    return 'bigint'


ZERO_DIVISOR_KINDS = []
for _opn, _op in ZD_OPS.items():
    for _dk in ZD_DIVIDEND:
        for _zk in ZD_ZERO:
            if _opn.endswith('assign') and zd_promoted(_dk, _zk) != _dk:
                continue
            _stmt = ('q = a %s z' % _op) if not _opn.endswith('assign') else ('a %s z' % _op)
            _k = 'zero-divisor:%s:%s:%s' % (_opn, _dk, _zk)
            OTHER_KINDS[_k] = [raws('%s\n%s\n%s\nr = 1' % (ZD_DIVIDEND[_dk], ZD_ZERO[_zk], _stmt))]
            ZERO_DIVISOR_KINDS.append(_k)

# ---- a size the machine cannot provide (hunt2 D1 / D2).  The operand is inside the range the operation checks (it fits its
# integer kind, the product does not overflow), but the buffer it asks for is 171 GB / 2 TB: `Vec::reserve` / `str::repeat`
# call handle_alloc_error, which ABORTS the process.  The property wants a run-time error report (or, on a machine that
# really has the memory, a run to the end); the empty-string cell has a defined result of length 0 and must not spin.
_HUGE = 'B1000000000000'
ALLOC_KINDS = {
    'alloc:ensure-capacity:literal': 'l: [int...] = [1, 2, 3]\nl.ensure_inner_capacity(2147483647)\nr = 1',
    'alloc:ensure-capacity:variable': 'l: [int...] = [1, 2, 3]\ncap = n + 2147483644\nl.ensure_inner_capacity(cap)\nr = 1',
    'alloc:ensure-capacity:empty-list': 'l: [str...] = []\nl.ensure_inner_capacity(2147483647 - n)\nr = 1',
    'alloc:str-times-bigint': 't = "ab" * %s\nr = 1' % _HUGE,
    'alloc:str-times-bigint:variable': 'cnt = %s + n\nsrc = "abc"\nt = src * cnt\nr = 1' % _HUGE,
    'alloc:bigint-times-str': 'cnt = %s\nt = cnt * "ab"\nr = 1' % _HUGE,
    'alloc:str-times-assign': 't = "ab"\nt *= %s\nr = 1' % _HUGE,
    'alloc:empty-str-times-bigint': 't = "" * %s\nr = 1' % _HUGE,
}
for _k, _body in ALLOC_KINDS.items():
    OTHER_KINDS[_k] = [raws(_body)]

P17 = ('class', 'P17', [('v', 'int')], ([], [raws('self.v = 1')]), [], False)
Q17 = ('class', 'Q17', [('cap', ('opt', 'int'))], ([], [raws('self.cap = nil')]), [], False)
S17 = ('class', 'S17', [('attrs', 'map[str, int]')], ([], [raws('self.attrs = map[str, int]')]), [], False)
T17 = ('class', 'T17', [('rows', '[map[str, int]...]')], ([], [raws('self.rows = [map[str, int]]')]), [], False)
U17 = ('class', 'U17', [('inner', 'S17')], ([], [raws('self.inner = S17()')]), [], False)
KIND_CLASSES = {'nil-object-field': [P17], 'nil-order:field': [Q17], 'object-key:list-of-maps-field': [T17],
                'object-key:object-with-map-field': [S17, U17]}
for _k in OBJECT_KEY_KINDS:
    KIND_CLASSES.setdefault(_k, [S17])

# kinds whose meaning the language may define otherwise than as a failure (`nil < 3` could be false, an object that holds a
# map could be a usable key): a run to the end is accepted, a panic / abort / wrong report is not
MAY_NOT_FAIL = set(NIL_ORDER_KINDS) | set(NIL_ARG_KINDS) | set(OBJECT_KEY_KINDS) | set(ALLOC_KINDS)
# kinds a correct implementation may also refuse at compile time (the defect is that the type checker lets them through)
COMPILE_TIME_OK = {'map-in-list-key'} | MAY_NOT_FAIL


def is_overflow(kind):
    return kind.startswith('overflow-')


def wrap(blocks, body, uid):
    """nest `body` in the blocks (outermost first); every block runs its body exactly once (n = 3)"""
    for j in range(len(blocks) - 1, -1, -1):
        b = blocks[j]
        if b == 'if':
            body = [('if', ('bin', '>', V('n'), I(0)), body)]
        elif b == 'else':
            body = [('ifelse', ('bin', '<', V('n'), I(0)), [P('never')], body)]
        elif b == 'while':
            w = 'w%s_%d' % (uid, j)
            body = [('asg', w, None, I(0)),
                    ('while', ('bin', '<', V(w), I(1)), [('asg', w, None, ('bin', '+', V(w), I(1)))] + body)]
        else:
            body = [('from', I(0), I(1), False, None, None, False, body)]
    return body


def body_of(uid, inner, blocks):
    """r: int = 0; <blocks> { print "body uid"; inner...; print "after uid" }"""
    return [('asg', 'r', 'int', I(0))] + wrap(blocks, [P('body %s' % uid)] + inner + [P('after %s' % uid)], uid)


class Built:
    pass


def build(plan):
    """plan = {kind, links: [{ctx, blocks}], fail_blocks, mod_blocks} -> Built(files, entry, tree|None, expected...)"""
    links = plan['links']
    k = len(links)
    kind = plan['kind']
    core_only = kind in CORE_KINDS and all(l['ctx'] in CORE_CTX for l in links)
    # files: link i (1-based) lives in file fidx[i]; the module code of main is file 0
    fidx = [0] * (k + 1)
    for i in range(1, k + 1):
        fidx[i] = fidx[i - 1] + (1 if links[i - 1]['ctx'].startswith('import') else 0)
    nfiles = fidx[k] + 1
    fname = lambda j: 'main' if j == 0 else 'mod%d' % j
    tops = [[] for _ in range(nfiles)]          # definitions, innermost first
    heads = [[] for _ in range(nfiles)]         # imports / shared prelude
    frames_of = {}                              # link -> list of frame descriptors innermost first
    entry_prints = {}

    fail = [P('fail')] + (CORE_KINDS.get(kind) or OTHER_KINDS[kind])
    for cls in KIND_CLASSES.get(kind, []):
        heads[fidx[k]].append(cls)

    def invoke(i):
        """-> (pre statements, expression) calling link i from its caller's body"""
        ctx = links[i - 1]['ctx']
        if ctx in ('plain', 'closure'):
            return [], call('f%d' % i, V('n'))
        if ctx == 'self':
            return [], call('f%d' % i, V('n'), I(1))
        if ctx == 'arg':
            return [], call('ap%d' % i, V('f%d' % i), V('n'))
        if ctx == 'method':
            return [], mcall(V('k%d' % i), 'm', V('n'))
        if ctx == 'ctor':
            return [('asg', 't%d' % i, None, call('K%d' % i, V('n')))], ('field', V('t%d' % i), 'v')
        if ctx in ('map', 'filter'):
            cb = callback(i)
            return [('asg', 'l%d' % i, ('list', 'int'), ('list', [I(10), I(20), I(30)])),
                    ('asg', 'rs%d' % i, None, mcall(V('l%d' % i), ctx, cb))], \
                   (('index', V('rs%d' % i), I(1)) if ctx == 'map' else ('index', V('rs%d' % i), I(0)))
        if ctx == 'import_fn':
            return [], mcall(V(fname(fidx[i])), 'f%d' % i, V('n'))
        return [], mcall(V('km%d' % i), 'm', V('n'))

    def inner_of(i):
        """statements of link i's body that produce r: the call of link i+1, or the failing operation"""
        if i == k:
            return fail
        pre, e = invoke(i + 1)
        return pre + [('asg', 'r', None, e)]

    def callback(i):
        ctx = links[i - 1]['ctx']
        b = body_of(str(i), inner_of(i), links[i - 1]['blocks'])
        head = [('print', ('bin', '+', S('cb %d ' % i), V('x')))]
        if ctx == 'map':
            return fn('F%d' % i, [('x', 'int')], 'int', head + [('if', ('bin', '==', V('x'), I(20)), b + [('ret', V('r'))]), ('ret', V('x'))])
        return fn('F%d' % i, [('x', 'int')], 'bool',
                  head + [('if', ('bin', '==', V('x'), I(20)), b + [('ret', ('bin', '>', V('r'), I(0)))]), ('ret', ('bool', True))])

    for i in range(k, 0, -1):
        ctx = links[i - 1]['ctx']
        j = fidx[i]
        b = body_of(str(i), inner_of(i), links[i - 1]['blocks'])
        inn = [P('in %d' % i)]
        if ctx == 'plain':
            tops[j].append(('asg', 'f%d' % i, None, fn('F%d' % i, [('n', 'int')], 'int', inn + b + [('ret', V('r'))])))
        elif ctx == 'closure':
            inner = fn('F%d' % i, [('n', 'int')], 'int', [('print', ('bin', '+', S('in %d ' % i), V('d')))] + b + [('ret', V('r'))])
            tops[j].append(('asg', 'mk%d' % i, None, fn('MK%d' % i, [('d', 'int')], FN_INT, [('asg', 'c', None, inner), ('ret', V('c'))])))
            tops[j].append(('asg', 'f%d' % i, None, call('mk%d' % i, I(7))))
        elif ctx == 'self':
            tops[j].append(('asg', 'f%d' % i, None, fn('F%d' % i, [('n', 'int'), ('k', 'int')], 'int',
                            inn + [('if', ('bin', '>', V('k'), I(0)), [('ret', ('self', [V('n'), ('bin', '-', V('k'), I(1))]))])] + b + [('ret', V('r'))])))
        elif ctx == 'arg':
            tops[j].append(('asg', 'f%d' % i, None, fn('F%d' % i, [('n', 'int')], 'int', inn + b + [('ret', V('r'))])))
            tops[j].append(('asg', 'ap%d' % i, None, fn('AP%d' % i, [('h', FN_INT), ('n', 'int')], 'int',
                            [P('ap %d' % i), ('asg', 'r', None, call('h', V('n'))), P('after ap %d' % i), ('ret', V('r'))])))
        elif ctx == 'method':
            tops[j].append(('class', 'K%d' % i, [('v', 'int')], ([], [raws('self.v = %d' % i)]),
                            [('m', [('n', 'int')], 'int', inn + b + [('ret', V('r'))])], False))
            tops[j].append(('asg', 'k%d' % i, None, call('K%d' % i)))
        elif ctx == 'ctor':
            tops[j].append(('class', 'K%d' % i, [('v', 'int')], ([('n', 'int')], inn + b + [raws('self.v = r')]), [], False))
        elif ctx == 'import_fn':
            tops[j].append(('export', 'f%d' % i, 'fn(int) -> int', fn('F%d' % i, [('n', 'int')], 'int', inn + b + [('ret', V('r'))])))
            heads[j - 1].append(('import', fname(j)))
        elif ctx == 'import_method':
            tops[j].append(('class', 'K%d' % i, [('v', 'int')], ([], [raws('self.v = %d' % i)]),
                            [('m', [('n', 'int')], 'int', inn + b + [('ret', V('r'))])], True))
            heads[j - 1].append(('import', fname(j)))
            heads[j - 1].append(('asg', 'km%d' % i, None, mcall(V(fname(j)), 'K%d' % i)))
    progs = []
    for j in range(nfiles):
        if j == 0:
            main = [('asg', 'n', 'int', I(3)), P('start')] + body_of('m', inner_of(0), plan['mod_blocks']) + [P('end')]
            progs.append(heads[0] + tops[0] + main)
        else:
            progs.append(heads[j] + tops[j] + [P('init %s' % fname(j))])

    # ------------------------------------------------ the specification of this plan
    nums = [number_functions(p) for p in progs]
    def fnname(j, tag):
        return '%s.mmm#__fn%d' % (fname(j), nums[j][tag])
    out = ['init %s' % fname(j) for j in range(nfiles - 1, 0, -1)] + ['start', 'body m']
    chain = []                                   # outermost first, reversed at the end
    chain.append(['main.mmm#__module__'] + [MARK[b] for b in plan['mod_blocks']])
    for i in range(1, k + 1):
        ctx = links[i - 1]['ctx']
        j = fidx[i]
        marks = [MARK[b] for b in links[i - 1]['blocks']]
        if ctx == 'plain':
            out += ['in %d' % i]
            fr = [fnname(j, 'F%d' % i)]
        elif ctx == 'closure':
            out += ['in %d 7' % i]
            fr = [fnname(j, 'F%d' % i)]
        elif ctx == 'self':
            out += ['in %d' % i, 'in %d' % i]
            fr = [fnname(j, 'F%d' % i), '<if>', fnname(j, 'F%d' % i)]
        elif ctx == 'arg':
            out += ['ap %d' % i, 'in %d' % i]
            fr = [fnname(j, 'AP%d' % i), fnname(j, 'F%d' % i)]
        elif ctx in ('method', 'import_method'):
            out += ['in %d' % i]
            fr = ['%s.mmm#K%d::m' % (fname(j), i)]
        elif ctx == 'ctor':
            out += ['in %d' % i]
            fr = ['%s.mmm#K%d' % (fname(j), i), '%s.mmm#K%d::$constructor' % (fname(j), i)]
        elif ctx in ('map', 'filter'):
            out += ['cb %d 10' % i, 'cb %d 20' % i]
            # the callback literal is written in the caller's body: it belongs to the caller's file
            fr = [fnname(fidx[i - 1], 'F%d' % i), '<if>']
        else:
            out += ['in %d' % i]
            fr = [fnname(j, 'F%d' % i)]
        out += ['body %d' % i]
        chain.append(fr + marks)
    out += ['fail']
    # marks around the failing operation belong to the innermost activation: already in its `blocks`
    stack = []
    for seg in reversed(chain):
        stack += list(reversed(seg))
    b = Built()
    b.plan = plan
    b.files = {fname(j) + '.ms': render(progs[j]) for j in range(nfiles)}
    if not core_only:
        # source files do not always start with code: blank lines, whitespace-only lines or a comment come first in some of
        # them (positions in reports count from the first byte of the file)
        import zlib
        for j in range(nfiles):
            lead = ["", "\n\n", "  \n\t\n\n", "# a comment line\n\n", "\n"][zlib.crc32(repr((sorted(plan.items(), key=str), j)).encode()) % 5]
            b.files[fname(j) + '.ms'] = lead + b.files[fname(j) + '.ms']
    b.entry = 'main.ms'
    b.core = core_only
    b.tree = None
    if core_only:
        tree = coregen.assign_spans(progs[0], 'main.ms')
        assert coregen.render_ms(tree) == b.files['main.ms'], 'renderers disagree'
        b.tree = tree
    b.stdout = out
    b.stack = stack
    b.funcs = [x for x in stack if not x.startswith('<')]
    b.span = None
    if kind == 'assert':
        innermost = fname(fidx[k]) + '.ms'
        for ln, line in enumerate(b.files[innermost].split('\n'), 1):
            m = re.search(r'\bassert\b', line)
            if m:
                b.span = '%s:%d:%d' % (innermost, ln, m.start() + 1)
    b.name = '%s/d%d/%s' % (kind, sum(WEIGHT[l['ctx']] for l in links), '+'.join(l['ctx'] for l in links) or 'module')
    return b


# ---------------------------------------------------------------- plan enumeration
FLAVOURS = ['plain', 'closure', 'self', 'arg', 'mixed-core', 'method', 'ctor', 'map', 'filter', 'import_fn',
            'import_method', 'mixed-all']


def links_for(rng, flavour, depth):
    """contexts whose activations add up to `depth`"""
    if depth == 0:
        return []
    pool = CORE_CTX if flavour == 'mixed-core' else (CORE_CTX + OTHER_CTX if flavour == 'mixed-all' else None)
    filler = 'plain' if flavour in CORE_CTX + ['mixed-core'] else rng.choice(['plain', 'method', 'closure'])
    ctxs, left = [], depth
    while left > 0:
        c = rng.choice(pool) if pool else flavour
        if WEIGHT[c] > left:
            c = filler
        ctxs.append(c)
        left -= WEIGHT[c]
    rng.shuffle(ctxs)
    return ctxs


def rand_blocks(rng, maxn):
    return [rng.choice(BLOCKS) for _ in range(rng.randint(0, maxn))]


def make_plan(rng, kind, flavour, depth):
    ctxs = links_for(rng, flavour, depth)
    return {'kind': kind, 'flavour': flavour, 'depth': depth,
            'links': [{'ctx': c, 'blocks': rand_blocks(rng, 2)} for c in ctxs[:-1]] +
                     ([{'ctx': ctxs[-1], 'blocks': rand_blocks(rng, 3)}] if ctxs else []),
            'mod_blocks': rand_blocks(rng, 3 if not ctxs else 2)}


def all_plans(rng, quick):
    kinds = list(CORE_KINDS) + list(OTHER_KINDS)
    plans = []
    core_fl = ['plain', 'closure', 'self', 'arg', 'mixed-core']
    if quick:
        # stratified: every kind at every depth 0..6, two flavours rotating with (kind, depth)
        for ki, kind in enumerate(kinds):
            for d in range(7):
                # the 52 cells of the zero-divisor matrix: every cell at every depth, one flavour each
                for off in ((0, 6) if d > 0 and kind not in ZERO_DIVISOR_KINDS else (0,)):
                    fl = FLAVOURS[(ki * 5 + d * 3 + off) % len(FLAVOURS)]
                    plans.append(make_plan(rng, kind, fl, d))
        # the Core stream (T1-T3): the kinds that are errors (a panicking run leaves no bytecode dump to replay on the
        # model) at every depth with every Core flavour; the overflow kinds once per flavour
        for ki, kind in enumerate(CORE_KINDS):
            for fi, fl in enumerate(core_fl):
                if is_overflow(kind):
                    plans.append(make_plan(rng, kind, fl, 1 + (ki + 2 * fi) % 6))
                else:
                    for d in range(7):
                        plans.append(make_plan(rng, kind, fl, d))
        return plans
    # thorough: every kind x depth x flavour, four random block shapes each
    for kind in kinds:
        for d in range(7):
            for fl in (FLAVOURS if d > 0 else FLAVOURS[:3]):
                for _ in range(4):
                    plans.append(make_plan(rng, kind, fl, d))
    for kind in CORE_KINDS:                       # more of the Core stream (T1-T3 / T2 on panicking runs)
        for d in range(7):
            for fl in core_fl:
                for _ in range(2 if is_overflow(kind) else 8):
                    plans.append(make_plan(rng, kind, fl, d))
    return plans


# ---------------------------------------------------------------- the specification check
def lines_of(text):
    ls = text.split('\n')
    if ls and ls[-1] == '':
        ls.pop()
    return ls


def check_spec(b, rc, stdout, stderr):
    """-> list of (class, message).  Empty = the run is what the property demands."""
    kind = b.plan['kind']
    bad = []
    klass = programs.exit_class(rc)
    got_lines = lines_of(stdout)
    banner = 'MSCRIPT INTERPRETER FATAL RUNTIME ERROR' in stderr
    if klass in ('panic', 'abort'):
        if is_overflow(kind) and ('overflow' in stderr):
            bad.append((OVERFLOW, 'integer overflow (%s) stops the interpreter with a Rust panic (exit %s): %s' % (kind, rc, first_panic_line(stderr))))
        else:
            bad.append(('%s:%s' % (kind, klass), 'exit status %s, no MScript run-time error: %s' % (rc, first_panic_line(stderr))))
        if got_lines != b.stdout:
            bad.append(('%s:stdout' % kind, 'output before the failure: expected %r got %r' % (b.stdout[-4:], got_lines[-4:])))
        return bad
    if rc == 124:
        return [('%s:timeout' % kind, 'no result within the time limit')]
    if rc == 0:
        if kind in MAY_NOT_FAIL:
            # the operation has a defined result in this implementation: everything up to it was printed, nothing was lost
            if got_lines[:len(b.stdout)] != b.stdout:
                return [('%s:stdout' % kind, 'the program ran to the end but its output does not start with %r: %r' % (b.stdout[-4:], got_lines[:len(b.stdout)][-4:]))]
            return []
        return [('%s:no-failure' % kind, 'the program ran to the end (exit 0); stdout tail %r' % got_lines[-3:])]
    if not banner:
        if kind in COMPILE_TIME_OK and 'Did not compile successfully' in stderr:
            return []                 # the type checker refuses the program: nothing runs, nothing can fail at run time
        return [('generator:rejected', 'not a run-time failure (compile error?): ' + (stdout + stderr)[-400:])]
    if rc != 1:
        bad.append(('%s:exit-status' % kind, 'exit status %s' % rc))
    if got_lines != b.stdout:
        what = 'after-failure-output' if got_lines[:len(b.stdout)] == b.stdout else 'stdout'
        bad.append(('%s:%s' % (kind, what), 'expected %r got %r' % (b.stdout[-4:], got_lines[-6:])))
    rk, detail, stack = vmtie.parse_real_error(stderr)
    funcs = [x for x in stack if not x.startswith('<')]
    if funcs != b.funcs:
        import collections
        missing = list((collections.Counter(b.funcs) - collections.Counter(funcs)).elements())
        extra = list((collections.Counter(funcs) - collections.Counter(b.funcs)).elements())
        what = 'missing-frame' if missing and not extra else ('extra-frame' if extra and not missing else 'wrong-frames')
        if not missing and not extra:
            what = 'wrong-order'
        bad.append(('trace:' + what, 'functions in the trace %r, active at the failure %r' % (funcs, b.funcs)))
    else:
        marks = [x for x in stack if not x.startswith('<native code>')]
        if marks != b.stack:
            bad.append(('trace:block-markers', 'trace %r, expected %r' % (marks, b.stack)))
    if kind == 'assert':
        if rk != 'assert':
            bad.append(('assert:not-an-assertion-error', 'reported %s %s' % (rk, detail)))
        elif detail != b.span:
            bad.append(('assert:position', 'reported %r, the assert is at %r' % (detail, b.span)))
    return bad


def first_panic_line(stderr):
    stderr = re.sub(r" \(\d+\) (panicked|has overflowed)", r" \1", stderr)
    for l in stderr.split('\n'):
        if 'panicked at' in l or 'overflowed its stack' in l:
            i = stderr.index(l)
            return stderr[i:i + 260].replace('\n', ' | ')
    return stderr[-200:]


def proj_of(b):
    p = {"name": b.name, "files": b.files, "entry": b.entry}
    if b.tree is not None:
        p["tree"] = b.tree
    return p


def panic_t2(binary, hbin, vm_drv, b, base):
    """T2 for a run that PANICS (no dump is written then): the bytecode is read back from the .mmm file `mscript compile`
    writes for the same source (codec harness = the interpreter's own loader), the VM model runs on it, and stdout / outcome class /
    per-instruction trace up to the failing instruction are compared as in vmtie.compare"""
    import os, shutil
    proj = proj_of(b)
    d = programs.materialize(proj, base)
    tr = os.path.join(d, "_trace")
    rc, out, err = programs.run_bin(binary, ["run", proj["entry"], "-q"], d, {"MSCRIPT_VERIF_TRACE": tr}, timeout=30)
    trace = []
    if os.path.exists(tr):
        for l in open(tr, encoding="utf8", errors="replace"):
            q = l.rstrip("\n").split("\t")
            if len(q) == 5:
                trace.append((q[0], int(q[1]), int(q[2]), int(q[3]), int(q[4])))
    real = {"dir": d, "rc": rc, "stdout": out, "stderr": err, "trace": trace}
    try:
        # `run` keeps the bytecode in memory: compile the same source to main.mmm (C04: run == compile + execute; a
        # difference would show below as a trace disagreement)
        programs.run_bin(binary, ["compile", proj["entry"], "--quick"], d, timeout=30)
        if not os.path.exists(os.path.join(d, "main.mmm")):
            return b, real, ("skip", "no main.mmm")
        with open(os.path.join(d, "_cases"), "w") as f:
            f.write("L %s\n" % "main.mmm".encode().hex())
        os.makedirs(os.path.join(d, "_scratch"), exist_ok=True)
        hrc, _, herr = core.sh([hbin, "_cases", "_res", "_scratch"], cwd=d, timeout=60)
        res = open(os.path.join(d, "_res")).read().strip() if hrc == 0 else ""
        if not res.startswith("load=") or res[5:] in ("ERR", "PANIC"):
            return b, real, ("skip", "loader: %s %s" % (res[:40], herr.decode("utf8", "replace")[-200:]))
        dump = os.path.join(d, "_dump")
        with open(dump, "wb") as f:
            f.write(bytes.fromhex(res[5:]))
        model = vmtie.run_model(vm_drv, dump, "main.mmm#__module__")
        return b, real, vmtie.compare(proj, real, model)
    finally:
        shutil.rmtree(d, ignore_errors=True)


DEEP = ("f = fn(n: int) -> int {\n  if n == 0 {\n    return 0\n  }\n  return self(n - 1) + 1\n}\nprint \"start\"\nprint f(%d)\n")
STACK_CLASS = 'deep-recursion-aborts'
CHAIN = ("class Node17 {\n  v: int\n  next: Self?\n  constructor(self, v: int, next: Self?) {\n    self.v = v\n    self.next = next\n  }\n}\n"
         "print \"start\"\nhead: Node17? = nil\ni = 0\nwhile i < %d {\n  head = Node17(i, head)\n  i = i + 1\n}\nprint \"built\"\nprint (get head).v\n")
CHAIN_CLASS = 'long-reference-chain-aborts'


# ---------------------------------------------------------------- blocks that were left are not in the trace
# A loop left by `break`, an iteration cut short by `continue`, an `if` / `else` that has ended: their frames are gone.  A
# failure that happens AFTER them is reported with exactly the frames of the twin program that never ran them.  Fixed cases
# (the same for every seed): loop shape x context x place of the failing statement.
LOOP_SHAPES = [
    ("while-continue-in-if", "i = 0\nwhile i < 4 {\n  i = i + 1\n  if i % 2 == 0 {\n    continue\n  }\n  t = t + 1\n}"),
    ("while-continue-direct", "i = 0\nwhile i < 3 {\n  i = i + 1\n  continue\n}"),
    ("while-continue-in-else", "i = 0\nwhile i < 3 {\n  i = i + 1\n  if i == 9 {\n    t = t + 1\n  } else {\n    continue\n  }\n}"),
    ("while-break-direct", "i = 0\nwhile i < 3 {\n  i = i + 1\n  break\n}"),
    ("while-break-in-if", "i = 0\nwhile true {\n  i = i + 1\n  if i == 3 {\n    break\n  }\n}"),
    ("while-break-in-else", "i = 0\nwhile true {\n  i = i + 1\n  if i < 3 {\n    t = t + 1\n  } else {\n    break\n  }\n}"),
    ("while-break-in-nested-ifs", "i = 0\nwhile true {\n  i = i + 1\n  if i > 1 {\n    if i > 2 {\n      break\n    }\n  }\n}"),
    ("from-continue-in-if", "from 0 to 4, j {\n  if j % 2 == 0 {\n    continue\n  }\n  t = t + j\n}"),
    ("from-continue-direct", "from 0 to 3 {\n  t = t + 1\n  continue\n}"),
    ("from-break-in-if", "from 0 to 9, j {\n  if j == 2 {\n    break\n  }\n}"),
    ("from-break-direct", "from 0 to 9 {\n  break\n}"),
    ("while-in-from-continue", "from 0 to 2, j {\n  i = 0\n  while i < 3 {\n    i = i + 1\n    if i == 2 {\n      continue\n    }\n    t = t + 1\n  }\n}"),
    ("from-in-while-break", "i = 0\nwhile i < 2 {\n  i = i + 1\n  from 0 to 5, j {\n    if j == 1 {\n      break\n    }\n  }\n}"),
    ("while-in-while-both", "i = 0\nwhile i < 3 {\n  i = i + 1\n  k = 0\n  while true {\n    k = k + 1\n    if k < 2 {\n      continue\n    }\n    break\n  }\n  if i == 2 {\n    continue\n  }\n  t = t + 1\n}"),
    ("if-else-ended", "if t == 0 {\n  t = t + 1\n} else {\n  t = t + 2\n}\nif t == 5 {\n  t = 0\n}"),
]
LOOP_CONTEXTS = ["module", "function", "closure", "method", "callee-returns", "callee-returns-from-loop"]


def completed_block_cases():
    """-> [(name, source with the blocks, source of the twin without them)]"""
    out = []

    def ind(text, n):
        return "".join("  " * n + l + "\n" for l in text.split("\n"))
    for shape, loop in LOOP_SHAPES:
        for ctxk in LOOP_CONTEXTS:
            for place in ("top", "in-if", "in-while"):
                fail = {"top": "assert t == -1", "in-if": "if t > -5 {\n  assert t == -1\n}",
                        "in-while": "q = 0\nwhile q < 1 {\n  q = q + 1\n  assert t == -1\n}"}[place]
                srcs = []
                for body in (loop, "t = t + 1"):
                    if ctxk == "module":
                        src = "t = 0\nprint \"start\"\n" + body + "\nprint \"before\"\n" + fail + "\nprint \"never\"\n"
                    elif ctxk == "function":
                        src = "f = fn(n: int) -> int {\n  t = n\n" + ind(body, 1) + "  print \"before\"\n" + ind(fail, 1) + "  return t\n}\nprint \"start\"\nprint f(0)\nprint \"never\"\n"
                    elif ctxk == "closure":
                        src = ("mk = fn() -> fn(int) -> int {\n  base = 0\n  g = fn(n: int) -> int {\n    t = n + base\n" + ind(body, 2) + "    print \"before\"\n" + ind(fail, 2)
                               + "    return t\n  }\n  return g\n}\nh = mk()\nprint \"start\"\nprint h(0)\nprint \"never\"\n")
                    elif ctxk == "method":
                        src = ("class K {\n  v: int\n  constructor(self) {\n    self.v = 0\n  }\n  fn scan(self, n: int) -> int {\n    t = n\n" + ind(body, 2) + "    print \"before\"\n" + ind(fail, 2)
                               + "    return t\n  }\n}\nrun = fn() -> int {\n  o = K()\n  return o.scan(0)\n}\nprint \"start\"\nprint run()\nprint \"never\"\n")
                    elif ctxk == "callee-returns":
                        src = ("g = fn(n: int) -> int {\n  t = n\n" + ind(body, 1) + "  return t\n}\nf = fn() -> int {\n  t = g(0)\n  print \"before\"\n" + ind(fail, 1)
                               + "  return t\n}\nprint \"start\"\nprint f()\nprint \"never\"\n")
                    else:
                        # the callee returns from INSIDE its blocks (the twin returns at once)
                        inner = body if body == "t = t + 1" else body.replace("break", "return t").replace("continue", "return t")
                        src = ("g = fn(n: int) -> int {\n  t = n\n" + ind(inner, 1) + "  return t\n}\nf = fn() -> int {\n  t = g(0)\n  print \"before\"\n" + ind(fail, 1)
                               + "  return t\n}\nprint \"start\"\nprint f()\nprint \"never\"\n")
                    srcs.append(src)
                out.append(("%s / %s / failure %s" % (shape, ctxk, place), srcs[0], srcs[1]))
    return out


# ---------------------------------------------------------------- failures while a module is being imported
# The top-level code of a module runs when the module is first imported; a failure there is a run-time failure like any
# other: output up to it, exit 1, the report names the kind and (assert / get) the position in the MODULE's source, and the
# trace lists the module's code on top of the importer's frames.  Fixed cases.
IMPORT_FAILS = [("assert", "assert limit > 99", "assert", lambda ln: "lib.ms:%d:%d"), ("get-nil", "o: int? = nil\nv = get o", "unwrap_nil", None),
                ("div-zero", "z = limit - limit\nv = limit / z", "err", None), ("index", "l: [int...] = [1]\nv = l[limit]", "err", None)]


def import_time_cases():
    out = []
    for fid, stmt, rk, _ in IMPORT_FAILS:
        for where in ("top-level", "in-block", "in-function-called-at-top-level"):
            ind = {"top-level": "", "in-block": "  ", "in-function-called-at-top-level": "  "}[where]
            body = "".join(ind + l + "\n" for l in stmt.split("\n"))
            if where == "top-level":
                lib = "print \"lib init\"\nlimit = 5\n" + body + "print \"lib never\"\nexport done: int = 1\n"
                lib_frames = ["lib.mmm#__module__"]
            elif where == "in-block":
                lib = "print \"lib init\"\nlimit = 5\nif limit == 5 {\n" + body + "}\nprint \"lib never\"\nexport done: int = 1\n"
                lib_frames = ["<if>", "lib.mmm#__module__"]
            else:
                lib = "print \"lib init\"\nlimit = 5\ncheck = fn() {\n" + body + "}\ncheck()\nprint \"lib never\"\nexport done: int = 1\n"
                lib_frames = ["lib.mmm#__fn0", "lib.mmm#__module__"]
            first = stmt.split("\n")[-1]
            line = lib.split("\n").index(ind + first) + 1
            col = len(ind) + 1 + (len("v = get ") if fid == "get-nil" else 0)       # an assert is reported at its own start, a get at its operand
            for imp in ("module", "function", "block", "chain"):
                if imp == "module":
                    files = {"main.ms": "print \"main\"\nimport lib\nprint \"main never\"\n", "lib.ms": lib}
                    frames = lib_frames + ["main.mmm#__module__"]
                elif imp == "function":
                    files = {"main.ms": "print \"main\"\nload = fn() {\n  import lib\n  print \"fn never\"\n}\nload()\nprint \"main never\"\n", "lib.ms": lib}
                    frames = lib_frames + ["main.mmm#__fn0", "main.mmm#__module__"]
                elif imp == "block":
                    files = {"main.ms": "print \"main\"\nn = 3\nif n == 3 {\n  import lib\n  print \"block never\"\n}\nprint \"main never\"\n", "lib.ms": lib}
                    frames = lib_frames + ["<if>", "main.mmm#__module__"]
                else:
                    files = {"main.ms": "print \"main\"\nimport mid\nprint \"main never\"\n", "mid.ms": "print \"mid init\"\nimport lib\nprint \"mid never\"\nexport m: int = 1\n", "lib.ms": lib}
                    frames = lib_frames + ["mid.mmm#__module__", "main.mmm#__module__"]
                exp_out = ["main"] + (["mid init"] if imp == "chain" else []) + ["lib init"]
                out.append(("%s %s, imported from %s" % (fid, where, imp), files, exp_out, rk, "lib.ms:%d:%d" % (line, col), frames))
    return out


def run_import_time(ctx, binary, base):
    cases = import_time_cases()

    def one(c):
        d = programs.materialize({"files": c[1]}, base)
        r = programs.run_bin(binary, ["run", "main.ms", "-q"], d, timeout=30)
        import shutil
        shutil.rmtree(d, ignore_errors=True)
        return r
    n = 0
    for (cid, files, exp_out, erk, pos, frames), (rc, out, err) in zip(cases, programs.pmap(one, cases)):
        n += 1
        if "Did not compile successfully" in err:
            ctx.report("generator:rejected", "import-time case %s is rejected by the compiler: %s" % (cid, (out + err)[-300:]), {"files": files}, found_input=False)
            continue
        rk, detail, stack = vmtie.parse_real_error(err)
        bad = None
        if rc != 1 or "MSCRIPT INTERPRETER FATAL RUNTIME ERROR" not in err:
            bad = "exit %d, %s" % (rc, "no run-time error report" if "FATAL RUNTIME ERROR" not in err else "")
        elif lines_of(out) != exp_out:
            bad = "printed %r, expected %r" % (lines_of(out), exp_out)
        elif erk in ("assert", "unwrap_nil", "div_zero") and rk != erk:
            bad = "the failure is reported as %s %s, it is %s" % (rk, str(detail)[:160], erk)
        elif erk in ("assert", "unwrap_nil") and detail != pos:
            bad = "the report names position %r, the failing statement is at %s" % (detail, pos)
        elif [x for x in stack if not x.startswith("<native")] != frames:
            bad = "trace %r, expected %r" % (stack, frames)
        if bad:
            ctx.report("import-time-failure", "a failure while a module is being imported (%s): %s" % (cid, bad),
                       {"files": files, "entry": "main.ms", "expected_stdout": exp_out, "expected_kind": erk, "expected_position": pos, "expected_trace": frames,
                        "observed_exit": rc, "observed_stdout": out[-400:], "observed_stderr": re.sub(r"\(\d+\) panicked", "panicked", err[-1400:]), "how": "mscript run main.ms -q"})
    ctx.cov["import_time_failure_cases"] = n
    return n


# ---------------------------------------------------------------- the column of a failed assert on lines that are not plain ASCII
# Round 7 (seed C17-r7-1): every generated program writes `assert` after ASCII indentation only, so a column counted in
# BYTES and one counted in CHARACTERS (pest's line_col, what the report is held to: the same unit as every other position
# the compiler prints) agree.  Fixed cases; the oracle is the hand-written (line, column) of the word `assert`, columns
# counting Unicode scalar values from 1, lines counting "\n" (a "\r" before it belongs to the line it ends).
ASSERT_COLUMN_CASES = [
    ("one-line if after a 2-byte string literal", 'ok = false\nlabel = "gr\u00f6\u00dfe"\nprint "before"\nif label == "gr\u00f6\u00dfe" { assert ok }\nprint "never"\n'),
    ("one-line if after a 3-byte and a 4-byte character", 'ok = false\nprint "before"\nif "\u20ac\U0001F600" == "\u20ac\U0001F600" { assert ok }\nprint "never"\n'),
    ("non-ASCII text on the lines before, ASCII on the assert's line", 'ok = false\nname = "\u00e9\u00e8\u00ea \u4e2d\u6587"\nprint "before"\n  assert ok\nprint "never"\n'),
    ("non-ASCII text after the assert on its line", 'ok = false\nprint "before"\nassert ok == ("\u00fc" == "\u00fc")\nprint "never"\n'),
    ("tab indentation inside a function, 2-byte characters before", 'check = fn(label: str, ok: bool) {\n\tif label == "\u00e5\u00e4\u00f6" { assert ok }\n}\nprint "before"\ncheck("x", false)\ncheck("\u00e5\u00e4\u00f6", false)\nprint "never"\n'),
    ("CRLF line ends and a non-ASCII line before", 'ok = false\r\nname = "\u00f1and\u00fa"\r\nprint "before"\r\nif name == "\u00f1and\u00fa" { assert ok }\r\nprint "never"\r\n'),
    ("second statement of a one-line block after a non-ASCII print", 'ok = false\nprint "before"\nif true { w = "\u00df\u00df\u00df" assert ok }\nprint "never"\n'),
]


def run_assert_columns(ctx, binary, base):
    def one(c):
        d = programs.materialize({"files": {"main.ms": c[1]}}, base)
        r = programs.run_bin(binary, ["run", "main.ms", "-q"], d, timeout=30)
        import shutil
        shutil.rmtree(d, ignore_errors=True)
        return r
    n = 0
    for (name, src), (rc, out, err) in zip(ASSERT_COLUMN_CASES, programs.pmap(one, ASSERT_COLUMN_CASES)):
        if "Did not compile successfully" in err:
            ctx.report("generator:rejected", "assert-column case %s is rejected by the compiler: %s" % (name, (out + err)[-300:]), {"program": src}, found_input=False)
            continue
        n += 1
        pos = None
        for ln, line in enumerate(src.split("\n"), 1):
            m = re.search(r"\bassert\b", line)
            if m:
                pos = "main.ms:%d:%d" % (ln, m.start() + 1)          # str offsets count characters
        rk, detail, stack = vmtie.parse_real_error(err)
        bad = None
        if rc != 1 or rk != "assert":
            bad = "exit %d, failure reported as %s %s (expected the assertion failure, exit 1)" % (rc, rk, str(detail)[:160])
        elif lines_of(out) != ["before"]:
            bad = "printed %r, expected ['before']" % (lines_of(out),)
        elif detail != pos:
            bad = "the report names position %r, the assert stands at %s (line:column, columns in characters)" % (detail, pos)
        if bad:
            ctx.report("assert-column", "position of a failed assert on a line with non-ASCII text / tabs / CRLF (%s): %s" % (name, bad),
                       {"files": {"main.ms": src}, "entry": "main.ms", "expected_stdout": ["before"], "expected_kind": "assert", "expected_position": pos,
                        "observed_exit": rc, "observed_stdout": out[-400:], "observed_stderr": re.sub(r"\(\d+\) panicked", "panicked", err[-1400:]), "how": "mscript run main.ms -q"})
    ctx.cov["assert_column_cases"] = n
    return n


def run_completed_blocks(ctx, binary, base):
    cases = completed_block_cases()

    def one(c):
        r = []
        for src in (c[1], c[2]):
            d = programs.materialize({"files": {"main.ms": src}}, base)
            r.append(programs.run_bin(binary, ["run", "main.ms", "-q"], d, timeout=30))
            import shutil
            shutil.rmtree(d, ignore_errors=True)
        return r
    n = 0
    for (name, src, twin), (ra, rb) in zip(cases, programs.pmap(one, cases)):
        if "Did not compile" in (rb[1] + rb[2]) or "Did not compile" in (ra[1] + ra[2]):
            ctx.report("generator:rejected", "completed-block case %s is rejected by the compiler: %s" % (name, (ra[1] + ra[2] + rb[1] + rb[2])[-300:]), {"program": src, "twin": twin}, found_input=False)
            continue
        n += 1
        ka, da, sa = vmtie.parse_real_error(ra[2])
        kb, db, sb = vmtie.parse_real_error(rb[2])
        exp_out = ["start", "before"]
        bad = None
        if kb != "assert" or rb[0] != 1 or lines_of(rb[1]) != exp_out:
            bad = "the twin without the blocks does not end in the assertion failure: exit %s, %r, %s" % (rb[0], lines_of(rb[1]), (kb, db))
        elif ra[0] != 1 or ka != "assert":
            bad = "exit %s, failure reported as %s %s (expected the assertion failure, exit 1)" % (ra[0], ka, str(da)[:200])
        elif lines_of(ra[1]) != exp_out:
            bad = "printed %r, expected %r" % (lines_of(ra[1]), exp_out)
        elif sa != sb:
            bad = "trace %r, but the same failure without the completed blocks is reported with trace %r" % (sa, sb)
        if bad:
            ctx.report("trace:frames-of-completed-blocks", "a failure after blocks that have ended (%s): %s" % (name, bad),
                       {"files": {"main.ms": src}, "entry": "main.ms", "twin_without_the_blocks": twin, "observed_exit": ra[0], "observed_stdout": ra[1][-400:],
                        "observed_stderr": re.sub(r"\(\d+\) panicked", "panicked", ra[2][-1200:]), "expected_trace": sb,
                        "how": "mscript run main.ms -q; the trace must be the one of the twin"})
    ctx.cov["completed_block_cases"] = {"cases": n, "loop_shapes": len(LOOP_SHAPES), "contexts": len(LOOP_CONTEXTS)}
    return n


def run(ctx):
    ok = core.coq_props(ctx, "Props/C17.v")
    binary = core.build_repo()
    plans = all_plans(ctx.rng, ctx.quick())
    built = [build(p) for p in plans]
    core_b = [b for b in built if b.core]
    other_b = [b for b in built if not b.core]

    # ---------------- Core stream: T1 / T2 / T3 + specification
    results = coretie.tie_all(ctx, binary, [proj_of(b) for b in core_b], "c17")
    by_name = {}
    for b, r in zip(core_b, results):
        by_name[id(r)] = b
    st = coretie.report_results(ctx, binary, results, "c17")
    n_spec, n_ok, kinds_seen, panics = 0, 0, {}, {}
    rejected = []

    def judge(b, rc, out, err):
        nonlocal n_spec, n_ok
        n_spec += 1
        bad = check_spec(b, rc, out, err)
        key = (b.plan['kind'], b.plan['depth'])
        kinds_seen[key] = kinds_seen.get(key, 0) + 1
        if not bad:
            n_ok += 1
        for cls, msg in bad:
            if cls == 'generator:rejected':
                rejected.append((b, msg))
                continue
            if cls.endswith(':panic') or cls.endswith(':abort') or cls == OVERFLOW:
                panics[cls] = panics.get(cls, 0) + 1
            ctx.report(cls, "%s: %s\n%s" % (b.name, msg, b.files[b.entry][:600]),
                       {"files": b.files, "entry": b.entry, "plan": b.plan, "expected_stdout": b.stdout,
                        "expected_trace": b.stack, "expected_assert_position": b.span, "observed_exit": rc,
                        "observed_stdout": out[-600:], "observed_stderr": re.sub(r"\(\d+\) panicked", "panicked", err[-1500:]),
                        "how": "mscript run main.ms -q in a directory holding the files"})

    slow_core = []
    for b, r in zip(core_b, results):
        real = r["real"]
        if real["rc"] == 124:
            slow_core.append(b)
            continue
        # a run that panics writes no dump: tie_all calls that "rejected"; the specification check still applies
        judge(b, real["rc"], real["stdout"], real["stderr"])

    # ---------------- Core programs whose run panics (the overflow kinds): T2 through the file loader
    import os
    n_pt2 = {"agree": 0, "skip": 0, "disagree": 0}
    panicking = [b for b, r in zip(core_b, results) if r["status"] == "rejected" and programs.exit_class(r["real"]["rc"]) == "panic"]
    if panicking:
        hbin = os.path.join(core.build_harness("codec"), "codec_harness")
        vm_drv = vmtie.driver()
        pbase = ctx.mktemp()
        for b, real, (stt, detail) in programs.pmap(lambda b: panic_t2(binary, hbin, vm_drv, b, pbase), panicking):
            if stt == "agree":
                n_pt2["agree"] += 1
            elif stt.startswith("DISAGREE"):
                n_pt2["disagree"] += 1
                ctx.report("correspondence:vm-model:" + stt.split(":", 1)[1],
                           "VM model and interpreter disagree (%s) on the panicking run %s: %s" % (stt, b.name, str(detail)[:300]),
                           {"files": b.files, "status": stt, "detail": detail, "correspondence": "T2 Vm/Model.v vs interpreter (bytecode read back from main.mmm)"},
                           found_input=False)
            else:
                n_pt2["skip"] += 1
        if n_pt2["skip"] > len(panicking) // 2:
            ctx.report("correspondence:vm-model:panicking-runs-not-replayed", "%d of %d panicking runs could not be replayed on the VM model" % (n_pt2["skip"], len(panicking)),
                       {"files": panicking[0].files}, found_input=False)

    # ---------------- everything else: real binary versus the specification
    base = ctx.mktemp()

    import zlib

    def one(b, timeout=30):
        d = programs.materialize({"files": b.files}, base)
        rc, out, err = programs.run_bin(binary, ["run", b.entry, "-q"], d, timeout=timeout)
        ex = None
        if zlib.crc32(b.name.encode()) % 3 == 0 and rc != 124:
            # the same program through the two-step route: compile, then execute the bytecode file.  The failure must be
            # reported in the same way (exit status, report, trace, nothing printed after it)
            c = programs.run_bin(binary, ["compile", b.entry, "--quick"], d, timeout=timeout)
            if c[0] == 0:
                ex = programs.run_bin(binary, ["execute", b.entry[:-3] + ".mmm"], d, timeout=timeout)
        import shutil
        shutil.rmtree(d, ignore_errors=True)
        return b, rc, out, err, ex
    slow = slow_core
    n_exec = 0
    for b, rc, out, err, ex in programs.pmap(one, other_b):
        if rc == 124:
            slow.append(b)                # a loaded machine, or a program that hangs: decided below, one at a time
        else:
            judge(b, rc, out, err)
            if ex is not None and ex[0] != 124:
                n_exec += 1
                for cls, msg in check_spec(b, ex[0], ex[1], ex[2]):
                    if cls == 'generator:rejected' or cls == OVERFLOW or cls.endswith(':panic') and is_overflow(b.plan['kind']):
                        continue
                    ctx.report("execute:" + cls, "%s through compile + execute: %s" % (b.name, msg),
                               {"files": b.files, "entry": b.entry, "plan": b.plan, "observed_exit": ex[0], "observed_stdout": ex[1][-600:],
                                "observed_stderr": re.sub(r"\(\d+\) panicked", "panicked", ex[2][-1500:]),
                                "how": "mscript compile main.ms --quick; mscript execute main.mmm"})
    ctx.cov["programs_also_run_through_compile_and_execute"] = n_exec
    for b in slow[:20]:
        judge(*one(b, timeout=300)[:4])

    n_cb = run_completed_blocks(ctx, binary, base)
    n_cb += run_import_time(ctx, binary, base)
    n_cb += run_assert_columns(ctx, binary, base)

    # ---------------- native stack exhaustion (outside every model): observed
    def deep(n):
        d = programs.materialize({"files": {"main.ms": DEEP % n}}, base)
        return programs.run_bin(binary, ["run", "main.ms", "-q"], d, timeout=60)
    rc, out, err = deep(20)
    if rc != 0 or lines_of(out) != ['start', '20']:
        ctx.report('recursion-20', 'recursion of depth 20 does not work: rc %s %s' % (rc, (out + err)[-300:]), {"program": DEEP % 20})
    rc, out, err = deep(50000)
    if programs.exit_class(rc) in ('abort', 'panic'):
        ctx.report(STACK_CLASS, 'recursion of depth 50000 ends with a native stack overflow (exit %s), not an MScript error: %s' % (rc, first_panic_line(err)),
                   {"program": DEEP % 50000, "observed_exit": rc, "observed_stderr": first_panic_line(err)})
    elif rc != 0 and 'MSCRIPT INTERPRETER FATAL RUNTIME ERROR' not in err:
        ctx.report('deep-recursion:unreported', 'recursion of depth 50000: exit %s without a run-time error report' % rc, {"program": DEEP % 50000, "stderr": err[-400:]})

    # ---------------- a long chain of references (hunt2 D4): no recursion in the program, the call depth never exceeds 2; the
    # collector's mark phase follows head -> next -> next ... on the native stack and overflows it at the next collection
    def chain(n):
        d = programs.materialize({"files": {"main.ms": CHAIN % n}}, base)
        return programs.run_bin(binary, ["run", "main.ms", "-q"], d, timeout=120)
    rc, out, err = chain(200)
    if rc != 0 or lines_of(out) != ['start', 'built', '199']:
        ctx.report('reference-chain-200', 'a linked list of 200 nodes does not work: rc %s %s' % (rc, (out + err)[-300:]), {"program": CHAIN % 200})
    rc, out, err = chain(20000)
    if programs.exit_class(rc) in ('abort', 'panic'):
        ctx.report(CHAIN_CLASS, 'building a linked list of 20000 objects in a loop at module level ends with a native stack overflow in the garbage '
                   'collector (exit %s), not an MScript error: %s' % (rc, first_panic_line(err)),
                   {"program": CHAIN % 20000, "observed_exit": rc, "observed_stdout": out[-200:], "observed_stderr": first_panic_line(err)})
    elif rc == 0:
        if lines_of(out) != ['start', 'built', '19999']:
            ctx.report('reference-chain:wrong-output', 'a linked list of 20000 nodes: exit 0 but the output is %r' % lines_of(out)[-3:], {"program": CHAIN % 20000})
    elif rc == 124:
        ctx.report('reference-chain:timeout', 'a linked list of 20000 nodes: no result within 120 s', {"program": CHAIN % 20000})
    elif 'MSCRIPT INTERPRETER FATAL RUNTIME ERROR' not in err:
        ctx.report('reference-chain:unreported', 'a linked list of 20000 nodes: exit %s without a run-time error report' % rc, {"program": CHAIN % 20000, "stderr": err[-400:]})

    if len(rejected) > max(3, len(built) // 20):
        b, msg = rejected[0]
        ctx.report("generator-degraded", "%d of %d generated programs are not accepted by the compiler, e.g. %s: %s" % (len(rejected), len(built), b.name, msg[-300:]),
                   {"files": b.files}, found_input=False)

    depths = sorted(set(d for _, d in kinds_seen))
    ctx.cov["evaluations"] = n_spec + n_cb
    ctx.cov["distinct_nontrivial"] = len(set((b.plan['kind'], b.plan['depth'], tuple(l['ctx'] for l in b.plan['links'])) for b in built))
    ctx.cov["rule"] = ("failing programs: failure kind x call depth (activations above the module) 0..6 x context flavour; every call site and the failing "
                       "operation nested in 0-3 random if/else/while/from blocks; prints before and after every call.  evaluations = programs whose real run "
                       "was compared with the plan's specification (exit status 1, banner, stdout == exactly the lines before the failure, trace == the "
                       "active functions/methods innermost first with their block markers, assert position); non-trivial = distinct (kind, depth, context chain)")
    ctx.cov["exhaustive"] = False
    ctx.cov["statistics"] = {"programs": len(built), "core_stream": len(core_b), "other_stream": len(other_b), "spec_ok": n_ok,
                             "rejected_by_compiler": len(rejected), "kinds": len(set(k for k, _ in kinds_seen)), "depths": depths,
                             "panic_classes": panics, "core_ties": st, "t2_on_panicking_runs": n_pt2}
    ctx.cov["input_distribution"] = {"per_depth": {str(d): sum(v for (k, dd), v in kinds_seen.items() if dd == d) for d in depths},
                                     "flavours": {f: sum(1 for b in built if b.plan['flavour'] == f) for f in FLAVOURS}}
    ctx.cov["traces_validated_against_impl"] = st["t2_agree"] + n_pt2["agree"]
    for b in built[:3] + core_b[:2]:
        ctx.sample({"name": b.name, "program": b.files[b.entry][:700], "expected_trace": b.stack, "expected_stdout": b.stdout})
    ctx.cov["trusted_base"] = ["Coq 8.16.1 kernel; no axioms", "OCaml extraction of Vm/Model.v and Compile/Lang + drivers (ExtrOcamlBasic)",
                               "hooks H1 (trace) / H3 (dump)", "the plan oracle of vlib/c17.py (expected stdout / trace / position)",
                               "vmtie.parse_real_error (banner parser)"]
    ctx.assumptions = ["theorems are about the VM model (Vm/Model.v); T2 validates it on the generated Core programs (stack and per-instruction trace included)",
                       "operations outside the model (lists, maps, strings, objects, modules, built-ins): no-panic is SEARCH over the generated kinds, not proof",
                       "native built-in frames (<native code>#...) are not MScript functions: ignored when comparing the trace",
                       "a constructor call shows as two frames, the class body function and Class::$constructor",
                       "Rust panic machinery / native stack exhaustion are outside every model: the deep-recursion probe only observes them"]
    spec_failed = any(v[3] for v in ctx.viol)
    core.proof_or_search(ctx, ok, ["C17_trace_is_call_chain", "C17_output_before_failure", "C17_assert_names_position", "C17_panic_only_known"], spec_failed)
