"""C19: `call_lib` passes the operand stack unchanged to the foreign function and delivers result or error.

Tie T7: a probe library (harness/ffiprobe, built by the same cargo against /repo/bytecode) exports
`echo` (returns a rendering of the argument slice it received), `first` (returns its first argument),
`nothing` (no value) and `fail` (raise_error! carrying the rendering); every probe function appends the
rendering of what it received to FFIPROBE_LOG.  Hand-written text bytecode is transpiled and executed with
the typed-print and trace hooks on; stdout, stderr, exit status, the probe's log and the executed
(ip, operand-stack length) sequence are compared with the Coq model (Ffi.Model.run instantiated with a table
describing the probe) and, independently, with the property's specification."""
import ast
import os
import re
import shutil
import struct
import tempfile

from . import core, programs

INTS = [0, 1, -1, 42, 2147483647, -2147483648]
BIGS = [0, -1, 2147483648, 9223372036854775807, -9223372036854775808, 2 ** 127 - 1, -2 ** 127]
FLOATS = ["0.0", "-0.0", "1.0", "-1.5", "0.1", "5e-324", "2.2250738585072014e-308", "1.7976931348623157e308", "inf", "-inf", "nan", "123456.789"]
BYTES = ["0", "1", "255", "128", "0b11111111", "0b101", "0b000"]
BOOLS = ["true", "false"]
STRS = ["", "a", "a b", 'q"uote', "back\\slash", "new\nline", "tab\there", "cr\rx", "\u00e9\u65e5\u672c", " ", "n=0|int:5", "0", "true",
        "x" * 200, "trailing\\", '"', ", <Int>7"]
FUNCS = ["echo", "first", "nothing", "fail"]


def fbits(txt):
    return struct.unpack(">Q", struct.pack(">d", float(txt)))[0]


def mkval(kind, rng):
    if kind == "int":
        return ("int", rng.choice(INTS + [rng.randint(-2 ** 31, 2 ** 31 - 1)]))
    if kind == "bigint":
        return ("bigint", rng.choice(BIGS + [rng.randint(-2 ** 127, 2 ** 127 - 1)]))
    if kind == "float":
        t = rng.choice(FLOATS + [repr(rng.uniform(-1e6, 1e6))])
        return ("float", t)
    if kind == "byte":
        return ("byte", rng.choice(BYTES))
    if kind == "bool":
        return ("bool", rng.choice(BOOLS))
    return ("str", rng.choice(STRS))


def byte_val(t):
    return int(t[2:], 2) if len(t) >= 3 and t.startswith("0b") else int(t)


# what the probe renders for a value (mirrors harness/ffiprobe/src/lib.rs render)
def render_val(v):
    k, x = v
    if k == "int":
        return "int:%d" % x
    if k == "bigint":
        return "bigint:%d" % x
    if k == "float":
        return "float:%016x" % fbits(x)
    if k == "byte":
        return "byte:%d" % byte_val(x)
    if k == "bool":
        return "bool:%s" % x
    b = x.encode("utf8")
    return "str:%d:%s" % (len(b), b.hex())


def render(vs):
    return "|".join(["n=%d" % len(vs)] + [render_val(v) for v in vs])


def quote(s):
    return '"' + s.replace("\\", "\\\\").replace('"', '\\"').replace("\n", "\\n").replace("\r", "\\r").replace("\t", "\\t") + '"'


def push_text(v):
    k, x = v
    return "\tmake_%s %s" % (k, quote(str(x) if k in ("int", "bigint") else x))


def coq_str(s):
    return "[" + "; ".join(str(ord(c)) for c in s) + "]"


def coq_val(v):
    k, x = v
    if k == "int":
        return "VInt (%d)" % x
    if k == "bigint":
        return "VBigInt (%d)" % x
    if k == "float":
        return "VFloat %d" % fbits(x)
    if k == "byte":
        return "VByte %d" % byte_val(x)
    if k == "bool":
        return "VBool %s" % x
    return "VStr %s" % coq_str(x)


def canon(v):
    """a value as the model's encoding (kind, number, string)"""
    k, x = v
    if k == "int":
        return (0, x, "")
    if k == "bigint":
        return (1, x, "")
    if k == "float":
        return (2, fbits(x), "")
    if k == "byte":
        return (3, byte_val(x), "")
    if k == "bool":
        return (4, 1 if x == "true" else 0, "")
    return (5, 0, x)


FLOAT_RE = r"(?:-?[0-9]+(?:\.[0-9]+)?|NaN|-?inf)"


def typed(v):
    """regex for what the typed-print hook prints for a value"""
    k, x = v
    if k == "int":
        return re.escape("<Int>%d" % x)
    if k == "bigint":
        return re.escape("<BigInt>%d" % x)
    if k == "float":
        return re.escape("<Float:%016x>" % fbits(x)) + FLOAT_RE
    if k == "byte":
        return re.escape("<Byte>0b{:b}".format(byte_val(x)))
    if k == "bool":
        return re.escape("<Bool>%s" % x)
    return re.escape("<Str>" + x)


SYMS = {1: ["echo", "first", "nothing", "fail"], 2: ["echo", "first", "nothing", "only2"]}


def probe_outcome(fn, args, which=1):
    """specification of the probe libraries (harness/ffiprobe = 1, harness/ffiprobe2 = 2):
    ('value', v) | ('novalue',) | ('raised', msg)"""
    r = render(args)
    if which == 2:
        if fn == "echo":
            return ("value", ("str", "lib2:" + r))
        if fn == "first":
            return ("value", args[-1]) if args else ("novalue",)
        if fn == "nothing":
            return ("novalue",)
        return ("value", ("int", len(args)))          # only2
    if fn == "echo":
        return ("value", ("str", r))
    if fn == "first":
        return ("value", args[0]) if args else ("novalue",)
    if fn == "nothing":
        return ("novalue",)
    return ("raised", "probe-fail:" + r)


def gen_history(rng, so, so2, idx):
    """2-4 call_lib instructions in ONE program, mixing the two probe libraries, a missing library, symbols that exist in
    one library only or nowhere; the run stops at the first failing call.  idx < 324: every ordered pair of
    (library, symbol) x (library, symbol); then random histories of length 3-4 biased towards repeating a symbol name
    with a different library operand."""
    missing = os.path.join(os.path.dirname(so), "no-such-dir", "libffiprobe.so")
    libs = [so, so2, missing]
    syms = ["echo", "first", "nothing", "fail", "only2", "no_such_symbol"]
    combos = [(l, f) for l in libs for f in syms]
    if idx < len(combos) ** 2:
        seq = [combos[idx // len(combos)], combos[idx % len(combos)]]
    else:
        seq = [rng.choice(combos)]
        for _ in range(rng.choice([2, 3])):
            if rng.random() < 0.7:
                seq.append((rng.choice(libs), seq[-1][1]))      # same symbol name, library drawn again
            else:
                seq.append(rng.choice(combos))
        # favour histories whose first call succeeds
        if rng.random() < 0.8:
            seq[0] = (rng.choice([so, so2]), rng.choice(["echo", "first", "nothing"]))
    kinds = ["int", "bigint", "float", "byte", "bool", "str"]
    prog = [("push", ("str", "before")), ("printn",), ("void",)]
    exp_lines = [[("str", "before")]]
    stack, calls, o, failed = [], [], None, False
    for (lib, fn) in seq:
        for _ in range(rng.choice([0, 1, 1, 2, 3])):
            v = mkval(rng.choice(kinds), rng)
            prog.append(("push", v))
            stack = stack + [v]
        prog.append(("call", lib, fn))
        passed = list(stack)
        which = 1 if lib == so else 2 if lib == so2 else 0
        if which == 0:
            o, failed = ("nolib", lib, passed), True
            break
        if fn not in SYMS[which]:
            o, failed = ("nosym", fn, passed), True
            break
        o = probe_outcome(fn, passed, which)
        calls.append((lib, fn, passed, o))
        if o[0] == "raised":
            failed = True
            break
        stack = [o[1]] if o[0] == "value" else []
        if rng.random() < 0.7:
            prog += [("printn",), ("void",)]
            exp_lines.append(list(stack))
            stack = []
    call_ip = len(prog) - 1 if failed else None
    if failed:
        # what follows a failing call must never run
        rest = seq[len([i for i in prog if i[0] == "call"]):]
        for (lib, fn) in rest:
            prog.append(("call", lib, fn))
    prog += [("printn",), ("void",), ("push", ("str", "after")), ("printn",), ("void",), ("ret",)]
    if not failed:
        exp_lines += [list(stack), [("str", "after")]]
    return {"prog": prog, "calls": calls, "outcome": o, "failed": failed, "exp_lines": exp_lines, "variant": "H%d" % len(seq),
            "form": "history", "lib": None, "fn": None, "last_call_ip": call_ip, "nargs": len(seq),
            "history": [("L1" if l == so else "L2" if l == so2 else "missing") + ":" + f for l, f in seq]}


def gen_case(rng, so, idx):
    n = rng.choice([0, 1, 2, 3, 4, 5, 6])
    if idx < 7:
        n = idx
    kinds = ["int", "bigint", "float", "byte", "bool", "str"]
    args = [mkval(rng.choice(kinds), rng) for _ in range(n)]
    if 7 <= idx < 13:                      # each kind once as the single / first argument
        args = [mkval(kinds[idx - 7], rng)] + args[:5]
    form = ["echo", "first", "nothing", "fail", "nolib", "nosym"][idx % 6] if idx < 60 else rng.choice(FUNCS + FUNCS + ["nolib", "nosym"])
    variant = rng.choice(["A", "A", "B", "C"])
    lib, fn = so, form
    if form == "nolib":
        lib, fn = rng.choice(["/nonexistent/libnope.so", os.path.join(os.path.dirname(so), "libabsent.so")]), "echo"
    if form == "nosym":
        fn = rng.choice(["no_such_symbol", "Echo", "echo_"])
    # instruction list: ("push", v) | ("call", lib, fn) | ("printn",) | ("void",) | ("ret",)
    prog = [("push", ("str", "before")), ("printn",)]
    stack = [("str", "before")]
    if variant != "B":
        prog.append(("void",))
        stack = []
    if variant == "A" and rng.random() < 0.3:     # junk that must NOT reach the callee
        prog += [("push", ("int", 999)), ("void",)]
    calls = []
    exp_lines = [[("str", "before")]]

    def call(lib, fn, extra):
        nonlocal stack
        for v in extra:
            prog.append(("push", v))
            stack = stack + [v]
        prog.append(("call", lib, fn))
        passed = list(stack)
        if form == "nolib":
            return ("nolib", lib, passed)
        if form == "nosym":
            return ("nosym", fn, passed)
        o = probe_outcome(fn, passed)
        calls.append((lib, fn, passed, o))
        stack = [o[1]] if o[0] == "value" else []
        return o

    o = call(lib, fn, args)
    failed = o[0] in ("raised", "nolib", "nosym")
    if not failed and variant == "C":
        # a second call: the first result stays on the stack and is passed on, followed by one more value
        o = call(lib, rng.choice(["echo", "nothing", "fail"]) if form not in ("nolib", "nosym") else fn, [mkval(rng.choice(kinds), rng)])
        failed = o[0] in ("raised", "nolib", "nosym")
    call_ip = len(prog) - 1
    prog += [("printn",), ("void",), ("push", ("str", "after")), ("printn",), ("void",), ("ret",)]
    if not failed:
        exp_lines += [list(stack), [("str", "after")]]
    return {"prog": prog, "calls": calls, "outcome": o, "failed": failed, "exp_lines": exp_lines, "variant": variant, "form": form,
            "lib": lib, "fn": fn, "last_call_ip": call_ip, "nargs": n}


def text_of(prog):
    out = ["function __module__"]
    for i in prog:
        if i[0] == "push":
            out.append(push_text(i[1]))
        elif i[0] == "call":
            out.append("\tcall_lib %s %s" % (quote(i[1]), quote(i[2])))
        elif i[0] == "printn":
            out.append('\tprintn "*"')
        elif i[0] == "void":
            out.append("\tvoid")
        else:
            out.append("\tret_mod")
    out.append("end")
    return "\n".join(out) + "\n"


def coq_of(case, so, so2):
    ins = []
    for i in case["prog"]:
        if i[0] == "push":
            ins.append("Push (%s)" % coq_val(i[1]))
        elif i[0] == "call":
            ins.append("CallLib %s %s" % (coq_str(i[1]), coq_str(i[2])))
        else:
            ins.append({"printn": "PrintN", "void": "Void", "ret": "RetMod"}[i[0]])
    tbl = []
    for lib, fn, passed, o in case["calls"]:
        oc = {"value": lambda: "Value (%s)" % coq_val(o[1]), "novalue": lambda: "NoValue", "raised": lambda: "Raised %s" % coq_str(o[1])}[o[0]]()
        tbl.append("(%s, %s, [%s], %s)" % (coq_str(lib), coq_str(fn), "; ".join(coq_val(v) for v in passed), oc))
    libs = "; ".join("(%s, [%s])" % (coq_str(l), "; ".join(coq_str(f) for f in SYMS[w])) for l, w in ((so, 1), (so2, 2)))
    world = "table_ffi [%s] [%s]" % (libs, "; ".join(tbl))
    return "summary_enc (run (%s) [%s])" % (world, "; ".join(ins))


def model_eval(shard_id, terms):
    body = "Open Scope N_scope.\n" + "".join("Eval vm_compute in (%s).\n" % t for t in terms)
    rc, out, err = core.coq_eval("c19_%d" % shard_id, body, ["Coq.ZArith.ZArith", "MS.Base.Str", "MS.Ffi.Model"], timeout=900)
    if rc != 0:
        raise RuntimeError("coqc failed on C19 model cases: " + (out + err)[-1500:])
    res = []
    for chunk in out.split("     = ")[1:]:
        txt = chunk[:chunk.rindex("\n     : ")]
        txt = re.sub(r"%(N|Z|nat|positive)", "", txt).replace(";", ",")
        st, lines, steps, calls, msg = ast.literal_eval(txt.strip())
        dec = lambda e: (int(e[0]), int(e[1]), "".join(chr(c) for c in e[2]))
        res.append({"status": int(st), "lines": [[dec(e) for e in l] for l in lines], "steps": [(int(a), int(b)) for a, b in steps],
                    "calls": [("".join(map(chr, c[0])), "".join(map(chr, c[1])), [dec(e) for e in c[2]]) for c in calls],
                    "msg": "".join(chr(c) for c in msg)})
    return res


# ---- stream 3 (specification only, Python): raw error messages and failing calls reached through other call paths
MESSAGES = ["", "one line", "two\nlines", "three\nlines\nhere", "  leading blanks", "trailing newline\n", "\nleading newline", "x" * 400,
            "\u00e9\u65e5\u672c", "with: colon", "tab\there", "Error: nested"]


def stream3_cases(rng, so, n):
    """-> list of {text, exp_out (exact stdout), fail: None | message, what}"""
    out = []
    fn0 = 'function __fn0\n\targ "0"\n\tcall_lib %s "failif2"\n\tret\nend\n' % quote(so)
    fn1 = 'function __fn1\n\targ "0"\n\tcall "x.mmm#__fn0"\n\tret\nend\n'
    tail = '\tmake_str "after"\n\tprintn "*"\n\tvoid\n\tret_mod\nend\n'
    for m in MESSAGES:
        text = 'function __module__\n\tmake_str "before"\n\tprintn "*"\n\tvoid\n%s\n\tcall_lib %s "failmsg"\n\tprintn "*"\n\tvoid\n' % (push_text(("str", m)), quote(so)) + tail
        out.append({"text": text, "exp_out": "<Str>before\n", "fail": m, "what": "message %r" % m[:30]})
    for _ in range(n):
        ctxk = rng.choice(["call", "call2", "map", "map"])
        if ctxk in ("call", "call2"):
            ks = [rng.choice([1, 3, 5, 2]) for _ in range(rng.randint(1, 4))]
            body, exp, fail = "", "", None
            for k in ks:
                body += '\tmake_int "%d"\n\tcall "x.mmm#__fn%d"\n\tprintn "*"\n\tvoid\n' % (k, 0 if ctxk == "call" else 1)
                if k == 2 and fail is None:
                    fail = "probe-failif:2"
                if fail is None:
                    exp += "<Int>%d\n" % (2 * k)
            text = fn0 + (fn1 if ctxk == "call2" else "") + "function __module__\n" + body + tail
            if fail is None:
                exp += "<Str>after\n"
            out.append({"text": text, "exp_out": exp, "fail": fail, "what": "%s %r" % (ctxk, ks)})
        else:
            ks = [rng.choice([1, 3, 5, 2, 4]) for _ in range(rng.randint(1, 4))]
            vec = '\tmake_vector "%d"\n\tstore_fast "#0"\n' % len(ks) + "".join('\tmake_int "%d"\n\tvec_op "+#0"\n' % k for k in ks) + '\tdelete_name_reference_scoped "#0"\n\tstore "v"\n'
            text = (fn0 + 'function __module__\n\tmake_function "x.mmm#__fn0"\n\tstore "probe"\n' + vec +
                    '\tload "v"\n\tstore_fast "#1"\n\tload_fast "#1"\n\tlookup "map"\n\tstore_fast "#2"\n\tload "probe"\n\tstore_fast "#3"\n\tload_fast "#3"\n'
                    '\tld_self "#1"\n\tload_fast "#2"\n\tcall\n\tstore "w"\n\tload "w"\n\tprintn "*"\n\tvoid\n' + tail)
            fail = "probe-failif:2" if 2 in ks else None
            exp = "" if fail else "<Vector>[%s]\n<Str>after\n" % ", ".join(str(2 * k) for k in ks)
            out.append({"text": text, "exp_out": exp, "fail": fail, "what": "map callback over %r" % ks, "loose_list": True})
    # the failing call is in the TOP-LEVEL code of a module that the entry file imports (module_entry)
    missing_lib = os.path.join(os.path.dirname(so), "no-such-dir", "libabsent.so")
    for what, lib, sym, arg, want in (("raised", so, "failmsg", "import-time failure", "FFI: import-time failure"),
                                      ("raised-two-lines", so, "failmsg", "first\nsecond", "FFI: first"),
                                      ("missing-symbol", so, "no_such_symbol_x", "a", "Could not find symbol (no_such_symbol_x)"),
                                      ("missing-library", missing_lib, "echo", "a", "Could not open FFI Library (%s)" % missing_lib)):
        helper = ('function __module__\n\tmake_str "in helper"\n\tprintn "*"\n\tvoid\n%s\n\tcall_lib %s %s\n\tprintn "*"\n\tvoid\n\tmake_str "helper done"\n\tprintn "*"\n\tvoid\n\tret_mod\nend\n'
                  % (push_text(("str", arg)), quote(lib), quote(sym)))
        main = ('function __module__\n\tmake_str "before"\n\tprintn "*"\n\tvoid\n\tmodule_entry "helper.mmm#__module__"\n\tstore "helper"\n' + tail)
        out.append({"text": main, "extra": {"helper": helper}, "exp_out": "<Str>before\n<Str>in helper\n", "fail": want.replace("FFI: ", ""),
                    "must_contain": [want] + (["second"] if what == "raised-two-lines" else []), "what": "imported module: " + what})
    return out


def run_stream3(ctx, binary, so):
    base = ctx.mktemp()
    cases = stream3_cases(ctx.rng, so, 60 if ctx.quick() else 600)

    def one(c):
        d = tempfile.mkdtemp(prefix="g-", dir=base)
        with open(os.path.join(d, "x.transpiled.mmm"), "w", encoding="utf8") as f:
            f.write(c["text"])
        t = programs.run_bin(binary, ["transpile", "x.transpiled.mmm"], d)
        for nm, txt in c.get("extra", {}).items():
            with open(os.path.join(d, nm + ".transpiled.mmm"), "w", encoding="utf8") as f:
                f.write(txt)
            t2 = programs.run_bin(binary, ["transpile", nm + ".transpiled.mmm"], d)
            if t2[0] != 0:
                t = t2
        r = programs.run_bin(binary, ["execute", "x.mmm"], d, {"MSCRIPT_VERIF_TYPED_PRINT": "1"}) if t[0] == 0 else None
        shutil.rmtree(d, ignore_errors=True)
        return t, r
    n = fails = 0
    for c, (t, r) in zip(cases, programs.pmap(one, cases)):
        replay = {"bytecode_text": c["text"], "what": c["what"], "how": "save as x.transpiled.mmm; mscript transpile x.transpiled.mmm; MSCRIPT_VERIF_TYPED_PRINT=1 mscript execute x.mmm"}
        if r is None:
            ctx.report("ffi-program-not-transpiled", "hand-written bytecode was rejected by transpile: %s" % (t[1] + t[2])[-300:], dict(replay, transpile=t))
            continue
        n += 1
        rc, out, err = r
        replay.update({"rc": rc, "stdout": out[-800:], "stderr": err[-800:]})
        got = re.sub(r"<[A-Za-z]+>(?=\d|-)", "", out) if c.get("loose_list") and c["fail"] is None else out
        want = re.sub(r"<[A-Za-z]+>(?=\d|-)", "", c["exp_out"]) if c.get("loose_list") and c["fail"] is None else c["exp_out"]
        if c["fail"] is None:
            if rc != 0 or got != want:
                ctx.report("ffi-result-not-delivered", "%s: exit %s, stdout %r, expected %r" % (c["what"], rc, out[-200:], c["exp_out"][-200:]), replay)
            continue
        fails += 1
        if rc == 0:
            ctx.report("ffi-error-not-raised", "the program finished normally although the foreign function raised an error (%s)" % c["what"], replay)
        elif "after" in out or out != c["exp_out"]:
            ctx.report("ffi-later-instruction-ran", "%s: stdout %r, expected exactly %r (nothing after the failing call)" % (c["what"], out[-200:], c["exp_out"][-200:]), replay)
        elif any(m not in err for m in c.get("must_contain", [])):
            ctx.report("ffi-error-message-lost", "%s: the run-time error does not carry %r: %r" % (c["what"], c["must_contain"], err[-300:]), replay)
        elif "must_contain" not in c and ("FFI: " not in err or any(line not in err for line in c["fail"].split("\n"))):
            ctx.report("ffi-error-message-lost", "%s: the run-time error does not carry the raised message %r: %r" % (c["what"], c["fail"][:120], err[-300:]), replay)
    ctx.cov["stream3"] = {"programs": n, "with_raised_error": fails,
                          "rule": "raw error messages (empty, several lines, long, non-ASCII) raised verbatim; a failing foreign call reached through `call`, two nested calls and the callback of the built-in `map`"}
    return n


# ---- stream 4 (specification only): WHICH file is "the named library".  The operand of call_lib is handed to the system loader
# as it is written: a name with a `/` is that path, relative to the working directory; a bare name is looked up along the
# loader's search path (LD_LIBRARY_PATH, system directories), never in the working directory and never next to the bytecode file.
# A DECOY (the second probe library under the first one's file name; it answers `lib2:...` and logs `2:...`) is put where a
# well-meaning lookup would find it.  Named library present -> its function runs; absent -> the missing-library fault.
DECOY_NAME = "libffiprobe.so"


def decoy_scenarios():
    """-> list of {name, lib (operand as written), decoys [dirs relative to the scratch top], real [dirs], ld (dir for LD_LIBRARY_PATH or None),
    bytecode (dir of x.mmm relative to top), cwd, module (the call sits in an imported module of that dir) , expect: 'real' | 'nolib'}"""
    S = []
    add = lambda name, lib, expect, decoys=(), real=(), ld=None, bytecode="work", cwd="work", module=None, sym="echo": S.append(
        {"name": name, "lib": lib, "expect": expect, "decoys": list(decoys), "real": list(real), "ld": ld, "bytecode": bytecode, "cwd": cwd, "module": module, "sym": sym})
    bare = DECOY_NAME
    # bare name
    add("bare name, on the search path, nothing else", bare, "real", real=["ld"], ld="ld")
    add("bare name, on no search path, nothing else", bare, "nolib")
    add("bare name, on no search path, decoy in the working directory", bare, "nolib", decoys=["work"])
    add("bare name, on the search path, decoy in the working directory", bare, "real", decoys=["work"], real=["ld"], ld="ld")
    add("bare name, on no search path, decoy next to the bytecode file (executed from another directory)", bare, "nolib", decoys=["work/app"], bytecode="work/app")
    add("bare name, on no search path, decoys in the working directory and next to the bytecode file", bare, "nolib", decoys=["work", "work/app"], bytecode="work/app")
    add("bare name, on the search path, decoy next to the bytecode file", bare, "real", decoys=["work/app"], bytecode="work/app", real=["ld"], ld="ld")
    add("bare name, on no search path, decoy in the parent of the working directory", bare, "nolib", decoys=["."])
    add("bare name, on no search path, decoy in ./lib and ./plugins", bare, "nolib", decoys=["work/lib", "work/plugins"])
    add("bare name, search path set but empty of it, decoy in the working directory", bare, "nolib", decoys=["work"], ld="ld")
    add("bare name, in an imported module of a sub-directory, decoy next to the module", bare, "nolib", decoys=["work/mods"], module="mods")
    # relative path with a directory part
    rel = "plugins/" + DECOY_NAME
    add("relative path, present", rel, "real", real=["work/plugins"])
    add("relative path, missing everywhere", rel, "nolib")
    add("relative path, missing, decoy under the same relative path next to the bytecode file", rel, "nolib", decoys=["work/app/plugins"], bytecode="work/app")
    add("relative path, present, decoy under the same relative path next to the bytecode file", rel, "real", decoys=["work/app/plugins"], bytecode="work/app", real=["work/plugins"])
    add("relative path, missing, decoy of that name directly in the working directory", rel, "nolib", decoys=["work"])
    add("relative path, missing, decoy under the path from the parent directory", rel, "nolib", decoys=["plugins"])
    add("relative path, missing, decoy under the path on the search path", rel, "nolib", decoys=["ld/plugins", "ld"], ld="ld")
    add("relative path, missing, in an imported module of a sub-directory, decoy under the path next to the module", rel, "nolib", decoys=["work/mods/plugins"], module="mods")
    add("relative path, present, in an imported module of a sub-directory, decoy under the path next to the module", rel, "real", decoys=["work/mods/plugins"], real=["work/plugins"], module="mods")
    add("./name, missing, decoy next to the bytecode file", "./" + DECOY_NAME, "nolib", decoys=["work/app"], bytecode="work/app")
    add("./name, present in the working directory, decoy next to the bytecode file", "./" + DECOY_NAME, "real", decoys=["work/app"], real=["work"], bytecode="work/app")
    add("./name, missing, on the search path only", "./" + DECOY_NAME, "nolib", decoys=["ld"], ld="ld")
    add("../path, missing, decoy one level further down", "../" + DECOY_NAME, "nolib", decoys=["work"], bytecode="work/app")
    add("../path, present", "../" + DECOY_NAME, "real", real=["."], decoys=["work"])
    # absolute path
    add("absolute path, missing, decoys of that name in the working directory, next to the bytecode file and on the search path", "<TOP>/gone/" + DECOY_NAME, "nolib",
        decoys=["work", "work/app", "ld"], ld="ld", bytecode="work/app")
    add("absolute path, present, decoys around", "<TOP>/there/" + DECOY_NAME, "real", real=["there"], decoys=["work", "work/app"], bytecode="work/app")
    # the named library lacks the symbol; a same-named file that has it lies around
    add("symbol the named library lacks, a decoy that has it in the working directory", "plugins/" + DECOY_NAME, "nosym", real=["work/plugins"], decoys=["work"], sym="only2")
    add("symbol the named library lacks (bare name on the search path), a decoy that has it in the working directory", bare, "nosym", real=["ld"], ld="ld", decoys=["work"], sym="only2")
    return S


def run_decoys(ctx, binary, so, so2):
    base = ctx.mktemp()
    args = [("int", 7), ("str", "seven")]
    rendered = render(args)
    scen = decoy_scenarios()

    def one(s):
        top = tempfile.mkdtemp(prefix="d-", dir=base)
        for d in ["work", "ld", s["bytecode"]] + ([os.path.join("work", s["module"])] if s["module"] else []):
            os.makedirs(os.path.join(top, d), exist_ok=True)
        for dirs, src in ((s["decoys"], so2), (s["real"], so)):
            for d in dirs:
                os.makedirs(os.path.join(top, d), exist_ok=True)
                shutil.copy(src, os.path.join(top, d, DECOY_NAME))
        lib = s["lib"].replace("<TOP>", top)
        call = ('\tmake_str "before"\n\tprintn "*"\n\tvoid\n%s\n%s\n\tcall_lib %s %s\n\tprintn "*"\n\tvoid\n\tmake_str "after"\n\tprintn "*"\n\tvoid\n'
                % (push_text(args[0]), push_text(args[1]), quote(lib), quote(s["sym"])))
        bdir = os.path.join(top, s["bytecode"])
        texts = {}
        if s["module"]:
            texts[os.path.join(top, "work", s["module"], "helper")] = "function __module__\n" + call + "\tret_mod\nend\n"
            texts[os.path.join(bdir, "x")] = ('function __module__\n\tmake_str "main"\n\tprintn "*"\n\tvoid\n\tmodule_entry "%s/helper.mmm#__module__"\n\tstore "helper"\n'
                                              '\tmake_str "main after"\n\tprintn "*"\n\tvoid\n\tret_mod\nend\n' % s["module"])
        else:
            texts[os.path.join(bdir, "x")] = "function __module__\n" + call + "\tret_mod\nend\n"
        t = (0, "", "")
        for stem, text in texts.items():
            with open(stem + ".transpiled.mmm", "w", encoding="utf8") as f:
                f.write(text)
            t1 = programs.run_bin(binary, ["transpile", os.path.basename(stem) + ".transpiled.mmm"], os.path.dirname(stem))
            if t1[0] != 0:
                t = t1
        cwd = os.path.join(top, s["cwd"])
        env = {"MSCRIPT_VERIF_TYPED_PRINT": "1", "FFIPROBE_LOG": os.path.join(top, "log"), "LD_LIBRARY_PATH": os.path.join(top, s["ld"]) if s["ld"] else ""}
        r = programs.run_bin(binary, ["execute", os.path.relpath(os.path.join(bdir, "x.mmm"), cwd)], cwd, env) if t[0] == 0 else None
        log = open(os.path.join(top, "log"), encoding="utf8", errors="replace").read() if os.path.exists(os.path.join(top, "log")) else ""
        tree = sorted(os.path.relpath(os.path.join(r_, f), top) for r_, _, fs in os.walk(top) for f in fs if f.endswith((".so", ".mmm")) and ".transpiled" not in f)
        shutil.rmtree(top, ignore_errors=True)
        unloc = lambda x: x.replace(top, "<TOP>")
        return t, (None if r is None else (r[0], unloc(r[1]), unloc(r[2]))), log, tree, {stem.replace(top, "<TOP>"): unloc(tx) for stem, tx in texts.items()}

    n = 0
    for s, (t, r, log, tree, texts) in zip(scen, programs.pmap(one, scen)):
        replay = {"scenario": s, "bytecode_text": texts, "files_in_place": tree, "the_decoy": "a copy of harness/ffiprobe2's library under the name " + DECOY_NAME + " (logs `2:<fn>`, echo answers `lib2:...`)",
                  "how": "build the tree under a scratch directory <TOP>; mscript transpile each *.transpiled.mmm in its directory; cd <TOP>/%s; LD_LIBRARY_PATH=%s MSCRIPT_VERIF_TYPED_PRINT=1 FFIPROBE_LOG=<TOP>/log mscript execute %s"
                         % (s["cwd"], "<TOP>/" + s["ld"] if s["ld"] else "(empty)", os.path.relpath(os.path.join(s["bytecode"], "x.mmm"), s["cwd"]))}
        if r is None:
            ctx.report("ffi-program-not-transpiled", "hand-written bytecode was rejected by transpile: %s" % (t[1] + t[2])[-300:], dict(replay, transpile=t))
            continue
        n += 1
        rc, out, err = r
        replay.update({"rc": rc, "stdout": out[-800:], "stderr": err[-800:], "probe_log": log[-400:]})
        head = "<Str>main\n<Str>before\n" if s["module"] else "<Str>before\n"
        if s["expect"] == "real":
            want_out = head + "<Str>" + rendered + "\n<Str>after\n" + ("<Str>main after\n" if s["module"] else "")
            if log != "echo " + rendered + "\n":
                ctx.report("ffi-wrong-function-called", "%s: the function entered is not the named function of the NAMED library `%s`: the probe log reads %r (a leading `2:` is the decoy), expected %r"
                           % (s["name"], s["lib"], log[-200:], "echo " + rendered + "\n"), replay)
            elif rc != 0 or out != want_out:
                ctx.report("ffi-result-not-delivered", "%s: exit %s, stdout %r, expected %r" % (s["name"], rc, out[-200:], want_out), replay)
            continue
        want = "Could not open FFI Library (%s)" % s["lib"] if s["expect"] == "nolib" else "Could not find symbol (%s)" % s["sym"]
        what = "the library `%s` is missing" % s["lib"] if s["expect"] == "nolib" else "the library `%s` has no symbol `%s`" % (s["lib"], s["sym"])
        if log:
            ctx.report("ffi-wrong-function-called", "%s: %s, yet a foreign function was entered (%r: the decoy logs `2:`): a file the program did not name was loaded" % (s["name"], what, log[-120:]), replay)
        elif rc == 0:
            ctx.report("ffi-error-not-raised", "%s: %s, yet the program finished normally" % (s["name"], what), replay)
        elif out != head:
            ctx.report("ffi-later-instruction-ran", "%s: %s: stdout %r, expected exactly %r (nothing after the failing call)" % (s["name"], what, out[-200:], head), replay)
        elif want not in err:
            ctx.report("ffi-error-message-lost", "%s: the run-time error does not carry %r: %r" % (s["name"], want, err[-300:]), replay)
    ctx.cov["decoy_library_scenarios"] = {"scenarios": n, "rule": "the named library present / missing x the operand written as bare name, dir/name, ./name, ../name, absolute path x a same-named decoy in the working "
                                          "directory, next to the bytecode file, next to an imported module, in the parent directory, under LD_LIBRARY_PATH; missing symbol with a decoy that has it"}
    return n


def run(ctx):
    ok = core.coq_props(ctx, "Props/C19.v")
    binary = core.build_repo()
    hdir = core.build_harness("ffiprobe")
    so = os.path.join(hdir, "libffiprobe.so")
    if not os.path.exists(so):
        raise core.BuildError("probe library not found: " + so)
    so2 = os.path.join(core.build_harness("ffiprobe2"), "libffiprobe2.so")
    if not os.path.exists(so2):
        raise core.BuildError("second probe library not found: " + so2)
    base = ctx.mktemp()
    ncases = 220 if ctx.quick() else 4000
    nhist = 324 + (120 if ctx.quick() else 3000)
    cases = [gen_case(ctx.rng, so, i) for i in range(ncases)] + [gen_history(ctx.rng, so, so2, i) for i in range(nhist)]

    def one(case):
        d = tempfile.mkdtemp(prefix="f-", dir=base)
        with open(os.path.join(d, "x.transpiled.mmm"), "w", encoding="utf8") as f:
            f.write(text_of(case["prog"]))
        t = programs.run_bin(binary, ["transpile", "x.transpiled.mmm"], d)
        r = None
        log, trace = "", ""
        if t[0] == 0:
            env = {"MSCRIPT_VERIF_TYPED_PRINT": "1", "MSCRIPT_VERIF_TRACE": os.path.join(d, "trace"), "FFIPROBE_LOG": os.path.join(d, "log")}
            r = programs.run_bin(binary, ["execute", "x.mmm"], d, env)
            for nm in ("log", "trace"):
                p = os.path.join(d, nm)
                if os.path.exists(p):
                    txt = open(p, encoding="utf8", errors="replace").read()
                    if nm == "log":
                        log = txt
                    else:
                        trace = txt
        shutil.rmtree(d, ignore_errors=True)
        return t, r, log, trace

    results = programs.pmap(one, cases)
    terms = [coq_of(c, so, so2) for c in cases]
    shards = [terms[i:i + 250] for i in range(0, len(terms), 250)]
    preds = [x for sh in programs.pmap(lambda a: model_eval(a[0], a[1]), list(enumerate(shards))) for x in sh]

    spec_fail = dis = nontrivial = 0
    seen = set()
    dist = {"form": {}, "variant": {}, "nargs": {}, "kinds": {}}
    for idx, (case, (t, r, log, trace), pred) in enumerate(zip(cases, results, preds)):
        dist["form"][case["form"]] = dist["form"].get(case["form"], 0) + 1
        dist["variant"][case["variant"]] = dist["variant"].get(case["variant"], 0) + 1
        dist["nargs"][case["nargs"]] = dist["nargs"].get(case["nargs"], 0) + 1
        for i in case["prog"]:
            if i[0] == "push":
                dist["kinds"][i[1][0]] = dist["kinds"].get(i[1][0], 0) + 1
        text = text_of(case["prog"])
        replay = {"bytecode_text": text, "variant": case["variant"], "form": case["form"], "history": case.get("history"),
                  "how": "save as x.transpiled.mmm; mscript transpile x.transpiled.mmm; MSCRIPT_VERIF_TYPED_PRINT=1 FFIPROBE_LOG=log mscript execute x.mmm",
                  "probe_libraries": [so, so2]}
        if t[0] != 0 or r is None:
            spec_fail += 1
            ctx.report("ffi-program-not-transpiled", "hand-written bytecode was rejected by transpile: %s" % (t[1] + t[2])[-300:], dict(replay, transpile=t))
            continue
        rc, out, err = r
        replay.update({"rc": rc, "stdout": out[-1500:], "stderr": err[-1200:], "probe_log": log[-1500:]})
        steps = []
        for line in trace.splitlines():
            p = line.split("\t")
            if len(p) == 5:
                steps.append((int(p[1]), int(p[4])))
        # ------------- the property's specification
        bad = []
        exp_log = "".join("%s%s %s\n" % ("2:" if lib == so2 else "", fn, render(passed)) for lib, fn, passed, _ in case["calls"])
        heads = lambda t: [l.split(" ", 1)[0] for l in t.splitlines()]
        if log != exp_log and heads(log) != heads(exp_log):
            bad.append(("ffi-wrong-function-called", "the functions entered are not the named functions of the named libraries: entered %r, named %r%s" % (
                heads(log), heads(exp_log), "; history " + " -> ".join(case["history"]) if case.get("history") else "")))
        elif log != exp_log:
            bad.append(("ffi-arguments-altered", "the foreign function did not receive the operand stack in order and unchanged: got %r expected %r" % (log[-300:], exp_log[-300:])))
        exp_out_re = "".join(", ".join(typed(v) for v in l) + "\n" for l in case["exp_lines"])
        if not re.fullmatch(exp_out_re, out, re.S):
            cls = "ffi-later-instruction-ran" if case["failed"] and "after" in out else ("ffi-result-not-delivered" if not case["failed"] else "ffi-output-changed-by-failed-call")
            bad.append((cls, "stdout %r does not match the expected %r" % (out[-300:], exp_out_re[-300:])))
        if case["failed"]:
            o = case["outcome"]
            want = {"raised": lambda: "FFI: " + o[1], "nolib": lambda: "Could not open FFI Library (%s)" % o[1],
                    "nosym": lambda: "Could not find symbol (%s)" % o[1]}[o[0]]()
            if rc == 0:
                bad.append(("ffi-error-not-raised", "the program finished normally although the foreign call failed (%s%s)" % (
                    o[0], "; history " + " -> ".join(case["history"]) if case.get("history") else "")))
            elif want not in err:
                bad.append(("ffi-error-message-lost", "run-time error does not carry %r: %r" % (want[:200], err[-400:])))
            if steps and steps[-1][0] != case["last_call_ip"]:
                bad.append(("ffi-later-instruction-ran", "instructions executed after the failing call_lib at ip %d: trace ends at ip %d" % (case["last_call_ip"], steps[-1][0])))
        elif rc != 0:
            bad.append(("ffi-call-failed", "exit status %s: %s" % (rc, err[-300:])))
        if bad:
            spec_fail += 1
            ctx.report(bad[0][0], "; ".join(b[1] for b in bad[:3]), dict(replay, failures=bad))
        # ------------- the model
        diffs = []
        exp_status = 0 if not case["failed"] else {"raised": 1, "nolib": 2, "nosym": 3}[case["outcome"][0]]
        if pred["status"] != exp_status:
            diffs.append("model status %s, specification %s" % (pred["status"], exp_status))
        if (pred["status"] == 0) != (rc == 0):
            diffs.append("status impl rc=%s model=%s" % (rc, pred["status"]))
        m_out_re = "".join(", ".join(typed_c(e) for e in l) + "\n" for l in pred["lines"])
        if not re.fullmatch(m_out_re, out, re.S):
            diffs.append("stdout impl=%r model=%r" % (out[-200:], m_out_re[-200:]))
        if steps != pred["steps"]:
            diffs.append("executed (ip, operand length) impl=%r model=%r" % (steps[-6:], pred["steps"][-6:]))
        m_log = "".join("%s%s %s\n" % ("2:" if c[0] == so2 else "", c[1], render_c(c[2])) for c in pred["calls"])
        if m_log != log:
            diffs.append("foreign calls impl=%r model=%r" % (log[-200:], m_log[-200:]))
        if pred["status"] in (1, 2, 3) and pred["msg"] not in err:
            diffs.append("error message %r not in stderr" % pred["msg"][:100])
        if diffs:
            dis += 1
            if not bad:
                ctx.report("correspondence:ffi-model", "Ffi.Model and the implementation disagree: " + "; ".join(diffs)[:900],
                           dict(replay, model=pred, correspondence="T7 ffi (Ffi/Model.v vs call_lib / Function::run / process_library_jump_request)"),
                           found_input=False)
        key = text
        multi_lib = len(set(i[1] for i in case["prog"] if i[0] == "call")) >= 2
        if key not in seen and (multi_lib or (case["nargs"] >= 2 and len(set(v[0] for v in [i[1] for i in case["prog"] if i[0] == "push"])) >= 3)):
            nontrivial += 1
        seen.add(key)
        if idx in (3, 20, 77):
            ctx.sample({"bytecode_text": text, "rc": rc, "stdout": out[:600], "probe_log": log[:600], "stderr_tail": err[-300:], "model_status": pred["status"]})

    n3 = run_stream3(ctx, binary, so)
    n3 += run_decoys(ctx, binary, so, so2)
    spec_fail += sum(1 for v in ctx.viol if v[0].startswith("ffi-"))
    ctx.cov["evaluations"] = len(cases) + n3
    ctx.cov["distinct_nontrivial"] = nontrivial
    ctx.cov["exhaustive"] = True
    ctx.cov["exhaustive_part"] = "all 324 ordered pairs of (library in {probe 1, probe 2, missing}, symbol in {echo, first, nothing, fail, only2, no_such_symbol}) as two-call histories"
    ctx.cov["rule"] = ("a case = one hand-written text-bytecode program (transpile, execute). Stream 1: one or two foreign calls into probe library 1 with 0-6 "
                       "(+ carried) arguments over int/bigint/float/byte/bool/str boundary values; forms echo/first/nothing/fail/missing library/missing "
                       "symbol; variants A (clean stack), B (a value already on the stack is passed too), C (result carried into a second call). Stream 2 "
                       "(histories): 2-4 call_lib instructions in one program over {probe library 1, probe library 2 (same symbol names, different "
                       "behaviour, lacks `fail`, adds `only2`), a missing library} x 6 symbol names - every ordered pair exhaustively (324), longer ones "
                       "random, biased to repeat a symbol name with another library operand. non-trivial = distinct program with >=2 pushes of >=3 kinds "
                       "overall or a history whose calls name >=2 different libraries")
    ctx.cov["distribution"] = dist
    ctx.cov["model_impl_disagreements"] = dis
    ctx.cov["spec_failures"] = spec_fail
    ctx.cov["traces_validated_against_impl"] = len(cases)
    ctx.cov["trusted_base"] = ["Coq 8.16.1 kernel (coqc; vm_compute for model evaluation and Examples)",
                               "no axioms (Print Assumptions: closed under the global context); the foreign world is a universally quantified function",
                               "harness/ffiprobe (probe library) and its Python description (render / probe_outcome); hooks H1 (trace), H2 (typed print)",
                               "OS loader (dlopen/dlsym via libloading) and the Rust ABI across the library boundary: observed, not proved",
                               "transpiler + loader for the hand-written text (properties C18/C04)"]
    ctx.assumptions = ["Ffi/Model.v is hand-written; tied to the binary by this run's comparison of stdout, stderr, exit status, probe log and instruction trace",
                       "probe library built by the same cargo/rustc with the same cfg as the binary (same layout of BytecodePrimitive)",
                       "floats are compared by bit pattern (typed-print tag, probe rendering); their decimal text is not compared"]
    core.proof_or_search(ctx, ok, ["C19_call_lib_passes_stack", "C19_call_lib_result", "C19_call_lib_error"], spec_fail > 0)


def typed_c(e):
    k, n, s = e
    if k == 0:
        return re.escape("<Int>%d" % n)
    if k == 1:
        return re.escape("<BigInt>%d" % n)
    if k == 2:
        return re.escape("<Float:%016x>" % n) + FLOAT_RE
    if k == 3:
        return re.escape("<Byte>0b{:b}".format(n))
    if k == 4:
        return re.escape("<Bool>%s" % ("true" if n else "false"))
    return re.escape("<Str>" + s)


def render_c(es):
    out = ["n=%d" % len(es)]
    for k, n, s in es:
        if k == 0:
            out.append("int:%d" % n)
        elif k == 1:
            out.append("bigint:%d" % n)
        elif k == 2:
            out.append("float:%016x" % n)
        elif k == 3:
            out.append("byte:%d" % n)
        elif k == 4:
            out.append("bool:%s" % ("true" if n else "false"))
        else:
            b = s.encode("utf8")
            out.append("str:%d:%s" % (len(b), b.hex()))
    return "|".join(out)
