"""Program corpus (read from /repo's current tree) and runners for the mscript binary.

Nothing is ever run inside /repo: every project is copied to a scratch directory first."""
import os
import re
import shutil
import subprocess
import tempfile
from concurrent.futures import ThreadPoolExecutor

from . import core


def corpus_from_tests():
    """single- and multi-file programs embedded in compiler/src/tests/*.rs"""
    out = []
    tdir = os.path.join(core.REPO, "compiler/src/tests")
    if not os.path.isdir(tdir):
        return out
    for fn in sorted(os.listdir(tdir)):
        if not fn.endswith(".rs"):
            continue
        src = open(os.path.join(tdir, fn)).read()
        # split into test functions
        parts = re.split(r"\n(?=#\[test\])", src)
        for part in parts:
            m = re.search(r"fn\s+([a-z0-9_]+)\s*\(", part)
            if not m or "#[test]" not in part:
                continue
            name = "tests/%s::%s" % (fn[:-3], m.group(1))
            should_fail = "#[should_panic" in part
            files = {}
            entry = None
            em = re.search(r'EvalEnvironment::entrypoint\(\s*"([^"]+)",\s*r#+"(.*?)"#+', part, re.S)
            if em:
                entry = em.group(1)
                files[entry] = em.group(2)
                for am in re.finditer(r'\.add\(\s*"([^"]+)",\s*r#+"(.*?)"#+', part, re.S):
                    files[am.group(1)] = am.group(2)
            else:
                ev = re.search(r'eval\(\s*r#+"(.*?)"#+', part, re.S)
                if not ev:
                    continue
                entry = "main.ms"
                files[entry] = ev.group(1)
            out.append({"name": name, "files": files, "entry": entry, "expect_fail": should_fail})
    return out


def corpus_from_examples():
    out = []
    edir = os.path.join(core.REPO, "examples")
    for root, dirs, fs in os.walk(edir):
        dirs.sort()
        ms = sorted(f for f in fs if f.endswith(".ms"))
        if not ms:
            continue
        files = {}
        for f in ms:
            try:
                files[f] = open(os.path.join(root, f), encoding="utf8").read()
            except UnicodeDecodeError:
                continue
        rel = os.path.relpath(root, edir)
        for f in ms:
            if f in files:
                out.append({"name": "examples/%s/%s" % (rel, f), "files": dict(files), "entry": f, "expect_fail": None})
    return out


def materialize(proj, base):
    d = tempfile.mkdtemp(prefix="p-", dir=base)
    for rel, txt in proj["files"].items():
        p = os.path.join(d, rel)
        os.makedirs(os.path.dirname(p), exist_ok=True)
        with open(p, "w", encoding="utf8") as f:
            f.write(txt)
    return d


def run_bin(binary, args, cwd, env_extra=None, timeout=20):
    env = core.env_base()
    if env_extra:
        env.update(env_extra)
    try:
        p = subprocess.run([binary] + args, cwd=cwd, env=env, capture_output=True, timeout=timeout)
        return p.returncode, p.stdout.decode("utf8", "replace"), p.stderr.decode("utf8", "replace")
    except subprocess.TimeoutExpired as ex:
        return 124, (ex.stdout or b"").decode("utf8", "replace"), (ex.stderr or b"").decode("utf8", "replace")


def exit_class(rc):
    if rc == 0:
        return "ok"
    if rc == 1:
        return "fail"
    if rc == 124:
        return "timeout"
    if rc == 101:
        return "panic"
    if rc < 0 or rc in (134, 139):
        return "abort"
    return "rc%d" % rc


def pmap(fn, items, workers=None):
    with ThreadPoolExecutor(max_workers=workers or core.NCPU) as ex:
        return list(ex.map(fn, items))


def parse_dump(text):
    """parse the MSCRIPT_VERIF_DUMP / load_and_dump format -> {file: {fn: [(op, [args])]}}"""
    data = text.encode("utf8") if isinstance(text, str) else text
    pos = 0
    files = {}
    cur_file = None
    cur_fn = None

    def read_token():
        nonlocal pos
        j = data.index(b" ", pos)
        tok = data[pos:j]
        pos = j + 1
        return tok

    def read_lp():
        nonlocal pos
        n = int(read_token())
        s = data[pos:pos + n]
        pos += n
        return s.decode("utf8", "replace")

    while pos < len(data):
        if data.startswith(b"file ", pos):
            pos += 5
            name = read_lp()
            pos += 1
            cur_file = files.setdefault(name, {})
        elif data.startswith(b"fn ", pos):
            pos += 3
            name = read_lp()
            pos += 1
            cur_fn = cur_file.setdefault(name, [])
        elif data.startswith(b"end\n", pos):
            pos += 4
        elif data.startswith(b"i ", pos):
            pos += 2
            j = data.index(b" ", pos)
            op = int(data[pos:j])
            pos = j + 1
            j = pos
            while data[j:j + 1] not in (b" ", b"\n"):
                j += 1
            nargs = int(data[pos:j])
            pos = j
            args = []
            for _ in range(nargs):
                pos += 1
                args.append(read_lp())
            pos += 1
            cur_fn.append((op, args))
        else:
            raise ValueError("bad dump at %d: %r" % (pos, data[pos:pos + 40]))
    return files


_ADDR = re.compile(r"0x[0-9a-f]{6,16}")


def canon_out(text):
    """mask object addresses by order of first appearance (identity pattern is preserved)"""
    seen = {}
    def sub(m):
        return "@ADDR%d" % seen.setdefault(m.group(0), len(seen))
    return _ADDR.sub(sub, text)


def same_output(a, b, proj=None):
    """stdout equality up to object addresses; programs that iterate a map (HashMap order is
    unspecified and differs from run to run) are compared as multisets of lines"""
    a, b = canon_out(a), canon_out(b)
    if a == b:
        return True
    if proj is not None and any("map[" in t for t in proj["files"].values()):
        return sorted(a.splitlines()) == sorted(b.splitlines())
    return False


def canon_code(body, make_function_op=12):
    """capture lists of make_function come out of a HashSet: compare them as sets"""
    return [(op, [a[0]] + sorted(a[1:]) if op == make_function_op and a else list(a)) for op, a in body]


def canon_dump(d):
    return {f: {n: canon_code(b) for n, b in fns.items()} for f, fns in d.items()}
