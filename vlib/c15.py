"""C15: operands evaluated left to right, once; logical operators short-circuit."""
import itertools
from . import core, coregen, coretie, programs

PRELUDE = [
    ('asg', 'x', 'int', ('int', 10)),
    ('asg', 'bump', None, ('fn', [('d', 'int')], 'int', [('mod', 'x', ('bin', '+', ('var', 'x'), ('var', 'd'))), ('print', ('var', 'd')), ('ret', ('var', 'd'))])),
    ('asg', 'log', None, ('fn', [('k', 'int')], 'int', [('print', ('var', 'k')), ('ret', ('bin', '%', ('var', 'k'), ('int', 7)))])),   # small results: no overflow at depth 3
    ('asg', 'logb', None, ('fn', [('k', 'int'), ('b', 'bool')], 'bool', [('print', ('var', 'k')), ('ret', ('var', 'b'))])),
    ('asg', 'zero', None, ('fn', [], 'int', [('print', ('str', 'zero')), ('ret', ('int', 0))])),
    ('asg', 'two', None, ('fn', [('a', 'int'), ('b', 'int')], 'int', [('print', ('str', 'two')), ('ret', ('bin', '-', ('var', 'a'), ('var', 'b')))])),
    ('asg', 'pick', None, ('fn', [('a', 'int'), ('b', 'int'), ('c', 'int'), ('d', 'int')], 'int',
                           [('print', ('str', 'pick')), ('ret', ('bin', '+', ('bin', '+', ('var', 'a'), ('bin', '*', ('var', 'b'), ('int', 10))), ('bin', '+', ('bin', '*', ('var', 'c'), ('int', 100)), ('bin', '*', ('var', 'd'), ('int', 1000)))))])),
    ('asg', 'rec', None, ('fn', [('n', 'int')], 'int',
                          [('if', ('bin', '<=', ('var', 'n'), ('int', 0)), [('ret', ('call', ('var', 'log'), [('int', 900)]))]),
                           ('ret', ('bin', '+', ('call', ('var', 'log'), [('bin', '+', ('var', 'n'), ('int', 800))]), ('self', [('bin', '-', ('var', 'n'), ('int', 1))])))])),
]


class Trees:
    def __init__(self):
        self.k = 0

    def leaf_i(self):
        self.k += 1
        return ('call', ('var', 'log'), [('int', self.k)])

    def leaf_b(self, b):
        self.k += 1
        return ('call', ('var', 'logb'), [('int', self.k), ('bool', b)])


def shapes_int(depth):
    """all int expression shapes (leaves are placeholders 'I'/'B0'/'B1'; 'X' = the variable x, 'M' = a call that
    modifies x: a later sibling must not disturb the value already read)"""
    yield 'I'
    if depth == 0:
        return
    if depth == 1:
        for op in ('+', '-', '*'):
            yield ('bin', op, 'X', 'M')
            yield ('bin', op, 'M', 'X')
            yield ('bin', op, 'X', ('bin', '+', 'M', 'X'))
        for op in ('/', '%'):                 # the divisor is a call to bump (returns its non-zero argument) or x (>= 10)
            yield ('bin', op, 'X', 'M')
            yield ('bin', op, 'M', 'X')
            yield ('bin', op, 'I', 'M')
            yield ('bin', op, ('bin', '+', 'I', 'M'), 'M')
        yield ('two', 'X', 'M')
        yield ('pick', 'X', 'M', 'X', 'M')
    subs = list(shapes_int(depth - 1))
    for op in ('+', '*', '-'):
        for a in subs:
            for b in subs:
                yield ('bin', op, a, b)
    for a in subs:
        for b in subs:
            yield ('two', a, b)
    for a in subs[:3]:
        yield ('pick', a, 'I', subs[-1] if len(subs) > 3 else 'I', 'I')
        yield ('neg', a)
    yield ('zero',)
    yield ('rec',)


def shapes_bool(depth):
    yield 'B0'
    yield 'B1'
    if depth == 0:
        return
    subs = list(shapes_bool(depth - 1))
    # a constant on the right must not make the left operand's side effect disappear
    for a in subs[:6]:
        yield ('and', a, 'LF')
        yield ('or', a, 'LT')
        yield ('and', a, 'LT')
        yield ('or', a, 'LF')
    isubs = list(shapes_int(min(depth - 1, 1)))
    for op in ('and', 'or'):
        for a in subs:
            for b in subs:
                yield (op, a, b)
    for a in subs:
        yield ('not', a)
    for op in ('<', '==', '>', '>=', '<=', '!='):       # every comparison operator: both operands log, and the X / M pair
        for a in isubs[:4]:
            for b in isubs[:4]:
                yield ('cmp', op, a, b)
        yield ('cmp', op, 'X', 'M')
        yield ('cmp', op, 'M', 'X')


def instantiate(shape, t):
    if shape == 'I':
        return t.leaf_i()
    if shape == 'B0':
        return t.leaf_b(False)
    if shape == 'B1':
        return t.leaf_b(True)
    if shape == 'X':
        return ('var', 'x')
    if shape == 'M':
        t.k += 1
        return ('call', ('var', 'bump'), [('int', t.k)])
    if shape == 'LF':
        return ('bool', False)
    if shape == 'LT':
        return ('bool', True)
    k = shape[0]
    if k == 'bin':
        a = instantiate(shape[2], t)
        b = instantiate(shape[3], t)
        return ('bin', shape[1], a, b)
    if k == 'cmp':
        a = instantiate(shape[2], t)
        b = instantiate(shape[3], t)
        return ('bin', shape[1], a, b)
    if k in ('and', 'or'):
        a = instantiate(shape[1], t)
        b = instantiate(shape[2], t)
        return (k, a, b)
    if k == 'not':
        a = instantiate(shape[1], t)
        return a if a[0] == 'not' else ('not', a)
    if k == 'neg':
        return ('bin', '-', ('int', 0), instantiate(shape[1], t))
    if k == 'two':
        a = instantiate(shape[1], t)
        b = instantiate(shape[2], t)
        return ('call', ('var', 'two'), [a, b])
    if k == 'pick':
        args = [instantiate(s, t) for s in shape[1:]]
        return ('call', ('var', 'pick'), args)
    if k == 'zero':
        return ('call', ('var', 'zero'), [])
    if k == 'rec':
        return ('call', ('var', 'rec'), [('int', 2)])
    raise ValueError(shape)


# ---- extended stream: list / map literals, indexing, method calls (independent Python oracle)
def extended_cases(rng, n):
    out = []
    for i in range(n):
        ks = [rng.randint(1, 9) for _ in range(6)]
        kind = i % 10
        if kind == 9:
            # the callee of `obj.field(args)` is a VALUE read before the arguments run: an argument that re-assigns the
            # field does not change which function this call runs (a method body, in contrast, reads self at call time)
            a, b2 = ks[0], ks[1]
            src = ("class B {\n  cb: fn(int) -> int\n  n: int\n  constructor(self, cb: fn(int) -> int) {\n    self.cb = cb\n    self.n = 1\n  }\n"
                   "  fn scale(self, k: int) -> int {\n    return k * self.n\n  }\n}\n"
                   "inc = fn(x: int) -> int {\n  return x + 1\n}\nh100 = fn(x: int) -> int {\n  return x * 100\n}\n"
                   "swap = fn(o: B, k: int) -> int {\n  print k\n  o.cb = h100\n  o.n = 50\n  return k\n}\n"
                   "b = B(inc)\nprint b.cb(swap(b, %d))\nb2 = B(inc)\nprint b2.scale(swap(b2, %d))\nprint (b2.cb)(log(%d))\n" % (a, b2, a))
            exp = [str(a), str(a + 1), str(b2), str(b2 * 50), str(a), str(a * 100)]
            out.append((src, exp))
            continue
        if kind >= 5:
            a, b, c, k, j = ks[:5]
            pre2 = ("xs: [int...] = [%d, %d, %d]\nclass Box {\n  v: int\n  constructor(self, v: int) {\n    self.v = v\n  }\n}\nbox = Box(%d)\n"
                    "mm = map[str, int] { \"a\": %d }\n"
                    "bump = fn(n: int) -> int {\n  print n\n  xs[0] = xs[0] + 100\n  box.v = box.v + 1000\n  mm[\"a\"] = mm[\"a\"] + 10000\n  return n\n}\n"
                    "getxs = fn(n: int) -> [int...] {\n  print n\n  return xs\n}\n"
                    "pair = fn(p: int, q: int) -> int {\n  return p * 1000 + q\n}\n" % (a, b, c, a, a))
            if kind == 5:
                # an earlier operand that is an element / field / map value keeps the value it had when it was evaluated,
                # although a LATER sibling writes that very slot
                form = rng.choice(["elem+", "field+", "map+", "arg", "arg-field", "callres", "list", "deep"])
                if form == "elem+":
                    src, exp = pre2 + "print xs[0] + bump(%d)\n" % k, [str(k), str(a + k)]
                elif form == "field+":
                    src, exp = pre2 + "print box.v - bump(%d)\n" % k, [str(k), str(a - k)]
                elif form == "map+":
                    src, exp = pre2 + "print mm[\"a\"] * bump(%d)\n" % k, [str(k), str(a * k)]
                elif form == "arg":
                    src, exp = pre2 + "print pair(xs[0], bump(%d))\n" % k, [str(k), str(a * 1000 + k)]
                elif form == "arg-field":
                    src, exp = pre2 + "print pair(box.v, bump(%d))\n" % k, [str(k), str(a * 1000 + k)]
                elif form == "callres":
                    src, exp = pre2 + "print (getxs(%d))[log(0)] - bump(%d)\n" % (j, k), [str(j), "0", str(k), str(a - k)]
                elif form == "list":
                    src, exp = pre2 + "print [xs[0], bump(%d), xs[0]]\n" % k, [str(k), "[%d, %d, %d]" % (a, k, a + 100)]
                else:
                    src, exp = pre2 + "print xs[0] + (log(%d) * (log(1) + bump(%d)))\n" % (j, k), [str(j), "1", str(k), str(a + j * (1 + k))]
            elif kind == 6:
                # map literal: pairs in SOURCE order (keys not in sorted order, constant and computed keys mixed), key before value
                keys = rng.sample(range(1, 9), 3)
                if sorted(keys) == keys:
                    keys.reverse()
                src = "m = map[int, int] { %d: log(%d), %d: pair(log(%d), log(%d)), %d: log(%d) }\nprint m.len()\n" % (keys[0], a, keys[1], b, c, keys[2], k)
                src = pre2 + src
                exp = [str(a), str(b), str(c), str(k), "3"]
            elif kind == 7:
                src = pre2 + "m = map[str, [int...]] { \"b\": [log(%d), log(%d)], \"a\": [log(%d)] }\nprint m.len()\n" % (a, b, c)
                exp = [str(a), str(b), str(c), "2"]
            else:
                src = pre2 + "m = map[int, int] { 9: log(%d), log(8): log(%d), 3: log(%d) }\nprint m.len()\n" % (a, b, c)
                exp = [str(a), "8", str(b), str(c), "3"]
            out.append((src, exp))
            continue
        if kind == 0:
            src = "l: [int...] = [log(%d), log(%d), log(%d)]\nprint l\n" % tuple(ks[:3])
            exp = [str(k) for k in ks[:3]] + ["[%d, %d, %d]" % tuple(ks[:3])]
        elif kind == 1:
            src = "l: [int...] = [10, 20, 30]\nprint l[log(%d) - %d] + log(%d)\n" % (ks[0], ks[0], ks[1])
            exp = [str(ks[0]), str(ks[1]), str(10 + ks[1])]
        elif kind == 2:
            src = 's = "abcdefghij"\nprint s.substring(log(%d) - %d, log(%d) + 0)\n' % (ks[0], ks[0], ks[1])
            exp = [str(ks[0]), str(ks[1]), "abcdefghij"[0:ks[1]]]
        elif kind == 3:
            src = 'm = map[int, int] { log(%d): log(%d), log(%d): log(%d) }\nprint m.len()\n' % (ks[0], ks[1], ks[0] + 10, ks[2])
            exp = [str(ks[0]), str(ks[1]), str(ks[0] + 10), str(ks[2]), "2"]
        else:
            src = "l: [[int...]...] = [[log(%d), log(%d)], [log(%d)]]\nprint (l[log(0)])[log(%d) - %d]\n" % (ks[0], ks[1], ks[2], ks[3], ks[3])
            exp = [str(ks[0]), str(ks[1]), str(ks[2]), "0", str(ks[3]), str(ks[0])]
        out.append((src, exp))
    return out


# ---- fixed cases (the same for every seed): the DECIDING left operand of `&&` / `||` / `or` in every form a value can be
# read by (variable, element, field, map value, element of a literal, call / method result, nested element, comparison);
# and map literals inside the value of a pair of another map literal (each pair keeps ITS key).
def fixed_cases():
    pre = ("t = fn(name: str, v: bool) -> bool {\n  print name\n  return v\n}\n"
           "class Sw {\n  on: bool\n  off: bool\n  o: int?\n  constructor(self) {\n    self.on = true\n    self.off = false\n    self.o = 4\n  }\n"
           "  fn yes(self) -> bool {\n    return self.on\n  }\n}\n"
           "fl: [bool...] = [false, true]\nnf: [[bool...]...] = [[false, true]]\nsw = Sw()\nst = map[str, bool] { \"y\": true, \"n\": false }\n"
           "vf = false\nvt = true\nos: [int?...] = [5, nil]\nom = map[str, int?] { \"k\": 6 }\nfb = fn() -> int {\n  print \"fallback\"\n  return 0\n}\n")
    falses = ["vf", "fl[0]", "sw.off", "st[\"n\"]", "[t(\"elem\", false)][0]", "t(\"call\", false)", "(nf[0])[0]", "(1 > 2)", "!fl[1]", "!sw.yes()", "(fl[0] && vt)", "(fl[0] || vf)"]
    trues = ["vt", "fl[1]", "sw.on", "st[\"y\"]", "[t(\"elem\", true)][0]", "t(\"call\", true)", "(nf[0])[1]", "(1 < 2)", "!fl[0]", "sw.yes()", "(fl[1] || vf)", "(fl[1] && vt)"]
    out = []

    def logs(e):
        return ["elem"] if "\"elem\"" in e else ["call"] if "\"call\"" in e else []
    for e in falses:
        out.append((pre + "print %s && t(\"right\", true)\n" % e, logs(e) + ["false"]))
        out.append((pre + "print %s || t(\"right\", true)\n" % e, logs(e) + ["right", "true"]))
        out.append((pre + "if %s && t(\"right\", true) {\n  print 1\n}\nprint 2\n" % e, logs(e) + ["2"]))
    for e in trues:
        out.append((pre + "print %s || t(\"right\", false)\n" % e, logs(e) + ["true"]))
        out.append((pre + "print %s && t(\"right\", false)\n" % e, logs(e) + ["right", "false"]))
        out.append((pre + "r = %s || t(\"right\", false)\nprint r\n" % e, logs(e) + ["true"]))
    for e, v in [("os[0]", "5"), ("sw.o", "4"), ("om[\"k\"]", "6"), ("[os[0]][0]", "5")]:
        out.append((pre + "print (%s) or fb()\n" % e, [v]))
    out.append((pre + "print (os[1]) or fb()\n", ["fallback", "0"]))
    # nested map literals: key, then value (with its own pairs), pair by pair; every pair lands under its own key
    mp = "key = fn(s: str) -> str {\n  print s\n  return s\n}\nidm = fn(m: map[str, int]) -> map[str, int] {\n  return m\n}\n"
    out.append((mp + "g = map[str, map[str, int]] { \"alice\": map[str, int] { \"math\": 90 }, \"bob\": map[str, int] { \"art\": 70, \"pe\": 60 } }\n"
                "print g[\"alice\"]\nprint (g[\"bob\"])[\"pe\"]\nprint g.len()\n", ["{\"math\": 90}", "60", "2"]))
    out.append((mp + "g = map[str, map[str, int]] { key(\"a\"): map[str, int] { key(\"x\"): log(1) }, key(\"b\"): idm(map[str, int] { key(\"y\"): log(2) }) }\n"
                "print g[\"a\"]\nprint g[\"b\"]\nprint g.len()\n", ["a", "x", "1", "b", "y", "2", "{\"x\": 1}", "{\"y\": 2}", "2"]))
    out.append((mp + "cnt = fn(m: map[str, int]) -> int {\n  return m.len()\n}\ng = map[str, int] { \"first\": cnt(map[str, int] { \"x\": 1, \"y\": 2 }), \"second\": 5 }\n"
                "print g[\"first\"]\nprint g[\"second\"]\nprint g.len()\n", ["2", "5", "2"]))
    out.append((mp + "g = map[str, [map[str, int]...]] { \"l\": [map[str, int] { \"in\": 1 }, map[str, int] { \"in2\": 2 }] }\nprint g.len()\nprint (g[\"l\"]).len()\n", ["1", "2"]))
    return out


# ---- fixed cases (the same for every seed): an EARLIER operand that is a literal (list of one / two elements, nested list,
# indexed literal, map literal) built from a value read through an index, a field or a map key, and a LATER sibling that
# writes that very slot (by assignment, by compound assignment, by reversing the list): the literal was evaluated when the
# slot held its old value and keeps it.  Slots hold scalars (int, str): a literal stores the value, there is nothing to alias.
VIEW_SOURCES = [("element", "xs[0]", "int", 11), ("last-element", "xs[2]", "int", 13), ("field", "box.v", "int", 21), ("map-value", "mm[\"a\"]", "int", 31),
                ("nested-element", "(ys[1])[0]", "int", 41), ("str-element", "ws[0]", "str", "ab"), ("self-field", "box.peek()", "int", 21)]
VIEW_WRAPPERS = [("one-element-list", "[%s]", "[T...]", lambda v: [v]), ("two-element-list", "[%s, %s]", "[T...]", lambda v: [v, v]),
                 ("nested-one-element-list", "[[%s]]", "[[T...]...]", lambda v: [[v]]), ("indexed-one-element-list", "[%s][0]", "T", lambda v: v),
                 ("list-of-one-element-lists", "[[%s], [%s]]", "[[T...]...]", lambda v: [[v], [v]]), ("one-pair-map", "map[str, T] { \"k\": %s }", "map[str, T]", lambda v: {"k": v}),
                 ("bare", "%s", "T", lambda v: v)]
VIEW_CONTEXTS = ["argument", "list-element", "equality", "map-pair", "method-argument", "deep-sibling"]
VIEW_MUTATORS = ["assign", "compound", "reverse"]


def _show(v, depth=0):
    if isinstance(v, list):
        return "[" + ", ".join(_show(e, depth + 1) for e in v) + "]"
    if isinstance(v, dict):
        return "{" + ", ".join("\"%s\": %s" % (k, _show(e, depth + 1)) for k, e in v.items()) + "}"
    if isinstance(v, str):
        return "\"%s\"" % v if depth else v
    return str(v)


def view_literal_cases():
    """-> [(id, source, expected lines)]"""
    out = []
    for sid, sexpr, sty, sval in VIEW_SOURCES:
        for mut in VIEW_MUTATORS:
            if mut == "reverse" and sid not in ("element", "last-element", "str-element"):
                continue
            if mut == "compound" and sid == "self-field":
                continue
            for wid, wfmt, wty, wval in VIEW_WRAPPERS:
                for cx in VIEW_CONTEXTS:
                    if cx == "equality" and wid == "one-pair-map":
                        continue                                              # (`==` is not defined on maps)
                    T = sty
                    ty = wty.replace("T", T)
                    W = wfmt.replace("T", T) % ((sexpr,) * wfmt.count("%s"))
                    k = 5
                    tag = "\"zz\"" if T == "str" else "%d" % k            # what the sibling returns (its own contribution)
                    tagv = "zz" if T == "str" else k
                    if cx == "equality":
                        # here the sibling returns the value the slot held BEFORE it wrote it: equal exactly when the left operand kept it
                        tag, tagv = ("\"%s\"" % sval if T == "str" else "%d" % sval), sval
                    Wb = wfmt.replace("T", T) % (("bump(%d)" % k,) * 1 + (tag,) * (wfmt.count("%s") - 1))
                    wbv = {"one-element-list": [tagv], "two-element-list": [tagv, tagv], "nested-one-element-list": [[tagv]], "indexed-one-element-list": tagv,
                           "list-of-one-element-lists": [[tagv], [tagv]], "one-pair-map": {"k": tagv}, "bare": tagv}[wid]
                    if mut == "assign":
                        body = "  xs[0] = 100\n  xs[2] = 300\n  box.v = 1000\n  mm[\"a\"] = 10000\n  ys[1] = [77, 78]\n  ws[0] = \"ZZ\"\n"
                    elif mut == "compound":
                        body = "  xs[0] += 100\n  xs[2] *= 3\n  box.v -= 1000\n  mm[\"a\"] += 10000\n  inner = ys[1]\n  inner[0] += 7\n  ws[0] += \"ZZ\"\n"
                    else:
                        body = "  xs.reverse()\n  ws.reverse()\n"
                    pre = ("xs: [int...] = [11, 12, 13]\nys: [[int...]...] = [[40], [41, 42]]\nws: [str...] = [\"ab\", \"cd\", \"ef\"]\n"
                           "class Box {\n  v: int\n  constructor(self, v: int) {\n    self.v = v\n  }\n  fn peek(self) -> int {\n    return self.v\n  }\n"
                           "  fn keep(self, l: %s, n: %s) -> %s {\n    return l\n  }\n}\nbox = Box(21)\nmm = map[str, int] { \"a\": 31 }\n"
                           "bump = fn(n: int) -> %s {\n  print n\n%s  return %s\n}\n"
                           "keep = fn(l: %s, n: %s) -> %s {\n  return l\n}\n" % (ty, T, ty, T, body, tag, ty, T, ty))
                    v, e = wval(sval), []
                    if cx == "argument":
                        src = pre + "r: %s = keep(%s, bump(%d))\nprint r\n" % (ty, W, k)
                        e = [str(k), _show(v)]
                    elif cx == "list-element":
                        src = pre + "r: [%s...] = [%s, %s]\nprint r\n" % (ty, W, Wb)
                        e = [str(k), _show([v, wbv])]
                    elif cx == "equality":
                        src = pre + "print %s == %s\n" % (W, Wb)
                        e = [str(k), "true"]
                    elif cx == "map-pair":
                        src = pre + "g = map[str, %s] { \"p\": %s, \"q\": %s }\nr = g[\"p\"]\nprint r\nr2 = g[\"q\"]\nprint r2\n" % (ty, W, Wb)
                        e = [str(k), _show(v), _show(wbv)]
                    elif cx == "method-argument":
                        src = pre + "r: %s = box.keep(%s, bump(%d))\nprint r\n" % (ty, W, k)
                        e = [str(k), _show(v)]
                    else:
                        assert cx == "deep-sibling"
                        if T == "str":
                            src = pre + "r: %s = keep(%s, \"<\" + (log(1) + bump(%d)))\nprint r\n" % (ty, W, k)
                        else:
                            src = pre + "r: %s = keep(%s, 0 + (log(1) * bump(%d)))\nprint r\n" % (ty, W, k)
                        e = ["1", str(k), _show(v)]
                    out.append(("%s/%s/%s/%s" % (sid, mut, wid, cx), src, e))
    return out


# ---- the compound assignments `+= -= *= /= %=` are binary operators of the grammar (members of `bin_op`): their LEFT operand
# (the variable's value; the index / key / call arguments of the path that names the slot, then the slot's value) comes
# before the right operand, and is not disturbed by it.  Python oracle; next to the demanded output the oracle computes the
# output of the one deviation on record ("the right operand is evaluated first", everything else as demanded) so that
# any other wrong order / value is a different class.
def _apply(op, a, b):
    if op == "+=":
        return a + b
    if op == "-=":
        return a - b
    if op == "*=":
        return a * b
    q = abs(a) // abs(b) * (1 if (a < 0) == (b < 0) else -1)
    return q if op == "/=" else a - q * b


def opassign_cases(rng, n):
    """-> (kind, form, source, demanded lines, lines of the recorded deviation)"""
    out = []
    forms = ["var-module", "var-local", "var-nested-rhs", "var-undisturbed", "index-order", "index-value", "index-nested", "map-order",
             "field-order", "field-value"]
    for i in range(n):
        form = forms[i % len(forms)]
        op = rng.choice(["+=", "-=", "*=", "/=", "%="])
        A, D, K, J = rng.randint(20, 60), rng.randint(2, 9), rng.randint(1, 9), rng.randint(1, 9)
        S = lambda v: str(v)
        if form == "var-module":
            src = "x = %d\nf = fn() -> int {\n  print %d\n  modify x = 100\n  return %d\n}\nx %s f()\nprint x\n" % (A, K, D, op)
            out.append(("variable", form, src, [S(K), S(_apply(op, A, D))], [S(K), S(_apply(op, 100, D))]))
        elif form == "var-local":
            src = ("run = fn() -> int {\n  y = %d\n  g = fn() -> int {\n    print %d\n    modify y = 100\n    return %d\n  }\n  y %s g()\n  return y\n}\nprint run()\n"
                   % (A, K, D, op))
            out.append(("variable", form, src, [S(K), S(_apply(op, A, D))], [S(K), S(_apply(op, 100, D))]))
        elif form == "var-nested-rhs":
            src = "x = %d\nf = fn() -> int {\n  print %d\n  modify x = 100\n  return %d\n}\nx %s log(%d) + f()\nprint x\n" % (A, K, D, op, J)
            out.append(("variable", form, src, [S(J), S(K), S(_apply(op, A, J + D))], [S(J), S(K), S(_apply(op, 100, J + D))]))
        elif form == "var-undisturbed":
            src = "x = %d\nx %s log(%d)\nprint x\nx %s x\nprint x\n" % (A, op, D, op)
            v1 = _apply(op, A, D)
            if v1 == 0 and op in ("/=", "%="):
                src = "x = %d\nx %s log(%d)\nprint x\n" % (A, op, D)
                out.append(("variable", form, src, [S(D), S(v1)], [S(D), S(v1)]))
            else:
                out.append(("variable", form, src, [S(D), S(v1), S(_apply(op, v1, v1))], [S(D), S(v1), S(_apply(op, v1, v1))]))
        elif form == "index-order":
            idx = rng.randint(0, 2)
            vals = [A, A + 1, A + 2]
            src = "l: [int...] = [%d, %d, %d]\nl[log(%d)] %s log(%d)\nprint l\n" % (vals[0], vals[1], vals[2], idx, op, D)
            vals[idx] = _apply(op, vals[idx], D)
            res = "[%d, %d, %d]" % tuple(vals)
            out.append(("index", form, src, [S(idx), S(D), res], [S(D), S(idx), res]))
        elif form == "index-value":
            src = ("l: [int...] = [%d, 7]\nbumpl = fn() -> int {\n  print %d\n  l[0] = 100\n  return %d\n}\nl[0] %s bumpl()\nprint l\n" % (A, K, D, op))
            out.append(("index", form, src, [S(K), "[%d, 7]" % _apply(op, A, D)], [S(K), "[%d, 7]" % _apply(op, 100, D)]))
        elif form == "index-nested":
            src = "ll: [[int...]...] = [[1, 2], [%d, %d]]\nll[log(1)][log(0)] %s log(%d)\nprint ll\n" % (A, A + 1, op, D)
            res = "[[1, 2], [%d, %d]]" % (_apply(op, A, D), A + 1)
            out.append(("index", form, src, ["1", "0", S(D), res], [S(D), "1", "0", res]))
        elif form == "map-order":
            src = ("mm = map[str, int] { \"a\": %d }\nkey = fn(n: int) -> str {\n  print n\n  return \"a\"\n}\nmm[key(%d)] %s log(%d)\nprint mm[\"a\"]\n" % (A, K + 10, op, D))
            out.append(("index", form, src, [S(K + 10), S(D), S(_apply(op, A, D))], [S(D), S(K + 10), S(_apply(op, A, D))]))
        else:
            cls = ("class Inner {\n  d: int\n  constructor(self, d: int) {\n    self.d = d\n  }\n}\nclass Outer {\n  inner: Inner\n  constructor(self, d: int) {\n    self.inner = Inner(d)\n  }\n"
                   "  fn pick(self, n: int) -> Inner {\n    print \"pick \" + n\n    return self.inner\n  }\n}\no = Outer(%d)\n" % A)
            if form == "field-order":
                src = cls + "o.pick(log(%d)).d %s log(%d)\nprint o.inner.d\n" % (K + 10, op, D)
                res = S(_apply(op, A, D))
                out.append(("field", form, src, [S(K + 10), "pick %d" % (K + 10), S(D), res], [S(D), S(K + 10), "pick %d" % (K + 10), res]))
            else:
                src = cls + "bumpo = fn() -> int {\n  print %d\n  o.inner.d = 100\n  return %d\n}\no.inner.d %s bumpo()\nprint o.inner.d\n" % (K, D, op)
                out.append(("field", form, src, [S(K), S(_apply(op, A, D))], [S(K), S(_apply(op, 100, D))]))
    return out


def run(ctx):
    ok = core.coq_props(ctx, "Props/C15.v")
    binary = core.build_repo()
    depth = 2
    shapes = list(shapes_int(depth)) + list(shapes_bool(depth))
    if ctx.quick():
        # all depth-1 shapes, a sample of depth 2 / 3
        s1 = list(shapes_int(1)) + list(shapes_bool(1))
        rest = [s for s in shapes if s not in s1]
        ctx.rng.shuffle(rest)
        deep = list(itertools.islice(shapes_int(3), 0, 20000, 97)) + list(itertools.islice(shapes_bool(3), 0, 20000, 53))
        ctx.rng.shuffle(deep)
        shapes = s1 + rest[:500] + deep[:200]
    else:
        deep = list(itertools.islice(shapes_int(3), 0, 400000, 41)) + list(itertools.islice(shapes_bool(3), 0, 100000, 11))
        shapes = shapes + deep
    projs = []
    per = 12
    for start in range(0, len(shapes), per):
        t = Trees()
        prog = list(PRELUDE)
        for sh in shapes[start:start + per]:
            e = instantiate(sh, t)
            prog.append(('print', e))
        prog = [coregen.Gen.norm_s(s) for s in prog]
        prog = coregen.assign_spans(prog, "main.ms")
        projs.append({"name": "order%d" % (start // per), "files": {"main.ms": coregen.render_ms(prog)}, "entry": "main.ms", "tree": prog})
    results = coretie.tie_all(ctx, binary, projs, "c15")
    st = coretie.report_results(ctx, binary, results, "c15")
    for r in results:
        if r["status"] == "rejected":
            ctx.report("generator-rejected", "an evaluation-order program is rejected by the compiler: %s" % r.get("stderr", "")[-300:],
                       {"project": coretie.slim(r["proj"])}, found_input=False)
    # extended stream with the Python oracle
    ext = extended_cases(ctx.rng, 100 if ctx.quick() else 1000)
    fixed = fixed_cases()
    ext = fixed + ext
    ctx.cov["fixed_short_circuit_and_nested_map_cases"] = len(fixed)
    base = ctx.mktemp()
    pre = "log = fn(k: int) -> int {\n  print k\n  return k\n}\n"   # (extended stream: values are used as given)

    def one(case):
        src, exp = case
        d = programs.materialize({"files": {"main.ms": pre + src}}, base)
        rc, out, err = programs.run_bin(binary, ["run", "main.ms", "-q"], d)
        return src, exp, rc, out, err
    n_ext = 0
    for src, exp, rc, out, err in programs.pmap(one, ext):
        if rc != 0 and "Did not compile" in (out + err):
            # a rejected case checks nothing: the generator must be repaired, not the case skipped
            ctx.report("generator-rejected", "an extended evaluation-order case is rejected by the compiler: %s" % (out + err)[-300:],
                       {"program": pre + src}, found_input=False)
            continue
        n_ext += 1
        got = out.split("\n")[:-1]
        if got != exp:
            ctx.report("order:extended", "evaluation order / once-only violated in: %s  expected %r got %r" % (src.strip(), exp, got),
                       {"program": pre + src, "expected": exp, "observed": got, "rc": rc})
    views = view_literal_cases()
    n_view = 0
    for (cid, _, _), (src, exp, rc, out, err) in zip(views, programs.pmap(one, [(c[1], c[2]) for c in views])):
        if rc != 0 and "Did not compile" in (out + err):
            ctx.report("generator-rejected", "a fixed literal-of-a-view case (%s) is rejected by the compiler: %s" % (cid, (out + err)[-300:]),
                       {"case": cid, "program": pre + src}, found_input=False)
            continue
        n_view += 1
        got = out.split("\n")[:-1]
        if rc != 0 or got != exp:
            ctx.report("order:literal-of-view-disturbed", "an operand already evaluated is changed by a later sibling (%s): expected %r got %r (exit %d)" % (cid, exp, got, rc),
                       {"case": cid, "program": pre + src, "expected": exp, "observed": got, "rc": rc, "stderr": err[-300:], "how": "mscript run main.ms -q"})
    ctx.cov["literal_of_view_cases"] = n_view
    ops = opassign_cases(ctx.rng, 60 if ctx.quick() else 600)
    n_opa = 0
    for (kind, form, src0, exp, dev), (src, _, rc, out, err) in zip(ops, programs.pmap(one, [(c[2], c[3]) for c in ops])):
        if rc != 0 and "Did not compile" in (out + err):
            ctx.report("generator-rejected", "a compound-assignment evaluation-order case is rejected by the compiler: %s" % (out + err)[-300:],
                       {"program": pre + src}, found_input=False)
            continue
        n_opa += 1
        got = out.split("\n")[:-1]
        if rc == 0 and got == exp:
            continue
        if rc == 0 and got == dev:
            ctx.report("order:opassign-right-operand-first:" + kind,
                       "`a op= b` evaluates its right operand before its left operand (%s): %s  demanded %r got %r" % (form, src.strip().split("\n")[-2], exp, got),
                       {"program": pre + src, "expected": exp, "observed": got, "rc": rc})
        else:
            ctx.report("order:opassign", "evaluation order / once-only violated by a compound assignment (%s): %s  demanded %r got %r (exit %d) %s"
                       % (form, src.strip().split("\n")[-2], exp, got, rc, err[-200:].replace("\n", " ")),
                       {"program": pre + src, "expected": exp, "observed": got, "rc": rc, "recorded_deviation": dev})
    ctx.cov["opassign_cases"] = n_opa
    ctx.cov["evaluations"] = st["programs"] * per + n_ext + n_opa + n_view
    ctx.cov["distinct_nontrivial"] = len(set(str(s) for s in shapes if s not in ('I', 'B0', 'B1')))
    ctx.cov["rule"] = ("expression trees whose leaves are calls to logging functions, %d per program; all shapes of depth <= %s over "
                       "{+,*,-, 2-arg call, 4-arg call, 0-arg call, recursion, &&, ||, !, <, ==}; non-trivial = distinct non-leaf shape; "
                       "extended stream (list/map literals, indexing, method calls; compound assignments to variables, elements, map values, fields) against an independent Python oracle; "
                       "fixed family view_literal_cases: a literal (one / two elements, nested, indexed, one-pair map) built from an element / field / map value as the EARLIER operand, "
                       "the later sibling writes that slot (assignment, compound assignment, reverse) in argument / list element / == / map pair / method argument / nested position" % (per, "1 exhaustively, 2-3 sampled" if ctx.quick() else "2 exhaustively, 3 sampled"))
    ctx.cov["exhaustive"] = True
    ctx.cov["statistics"] = st
    ctx.cov["extended_cases"] = n_ext
    ctx.cov["traces_validated_against_impl"] = st["t2_agree"]
    ctx.sample({"program": projs[1]["files"]["main.ms"][-700:]})
    ctx.cov["trusted_base"] = ["Coq 8.16.1 kernel; no axioms", "extraction + drivers", "hooks H1/H3", "Python oracle for the extended stream"]
    ctx.assumptions = ["Lang/Eval.v (left-to-right, once, short-circuit) is the specification", "list/map/method-call operands are outside the Coq models (Python oracle only)",
                       "compound assignments: Lang/Eval.v evaluates the right operand of `x op= e` before reading x, as the implementation does; the order "
                       "the property demands for them is stated by the Python oracle of opassign_cases only (known finding order:opassign-right-operand-first:*)"]
    spec_failed = any(v[0].startswith(("semantics:", "order:")) for v in ctx.viol)
    core.proof_or_search(ctx, ok, ["C15 obligations"], spec_failed)
