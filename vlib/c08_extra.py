"""C08, second hunting round: four families of programs with the output the property states, each with its own class.

  member-order      the members of a class (fields, constructor, methods) in every order: a method that names a field of the
                    receiver (bare `count`, `self.count`, `count += d`, `log.push(d)`) works wherever the field is declared
  object-as-map-key an object stored as the KEY of a map stays that key when one of its fields is updated through any alias
                    (identity, like `is`); two objects with equal fields are two keys
  is-on-lists       `is` between two list values (fields of two instances, variables, results) is true exactly for aliases,
                    also while both lists are empty
  index-of-object   `list.index_of(x)` on a list of objects finds x by identity

Every expectation is written down from the text of the property (one state per identity; `is` true exactly for the same
reference), not from the behaviour of a binary.  `cases(rng, quick)` -> [{"class", "family", "src", "exp"}].
"""
import itertools

# ---------------------------------------------------------------------------------------------- member order

MEMBERS = {
    "F1": "  count: int\n",
    "F2": "  log: [int...]\n",
    "K": "  constructor(self, n: int) {\n    self.count = n\n    self.log = [n]\n  }\n",
    "Mbare": "  fn value(self) -> int {\n    return count\n  }\n",
    "Mself": "  fn value2(self) -> int {\n    return self.count\n  }\n",
    "Madd": "  fn add(self, d: int) -> int {\n    count += d\n    log.push(d)\n    return count + log.len()\n  }\n",
}
MEMBER_HISTORY = ("a = Counter(1)\nb = Counter(5)\nprint a.value()\nprint b.value2()\nprint a.add(2)\nprint a.count\nprint b.count\n"
                  "print a.log\nprint b.log\nprint a.value2()\nprint b.value()\nprint a is b\nc = a\nprint c.add(10)\nprint a.value()\n")
MEMBER_EXPECTED = ["1", "5", "5", "3", "5", "[1, 2]", "[5]", "3", "5", "false", "16", "13"]


def member_order_cases(rng, quick):
    perms = list(itertools.permutations(["F1", "F2", "K", "Mbare", "Mself", "Madd"]))
    fixed = [p for p in perms if p in (("Mbare", "F1", "F2", "K", "Mself", "Madd"), ("K", "Madd", "Mself", "Mbare", "F2", "F1"),
                                       ("F1", "F2", "K", "Mbare", "Mself", "Madd"), ("Madd", "F1", "F2", "K", "Mbare", "Mself"),
                                       ("F1", "Madd", "F2", "Mbare", "K", "Mself"))]
    if quick:
        rest = [p for p in perms if p not in fixed]
        perms = fixed + rng.sample(rest, 115)
    out = []
    # the smallest form: one field, one method above it
    out.append({"family": "member-order", "class": "class-member-order:method-above-the-field-it-names",
                "src": "class Counter {\n  fn value(self) -> int {\n    return count\n  }\n  count: int\n  constructor(self) {\n    self.count = 1\n  }\n}\n"
                       "c = Counter()\nprint c.value()\nd = Counter()\nd.count = 5\nprint d.value()\nprint c.value()\n",
                "exp": ["1", "5", "1"], "what": "one method above the one field it reads by its bare name"})
    for p in perms:
        src = "class Counter {\n" + "".join(MEMBERS[m] for m in p) + "}\n" + MEMBER_HISTORY
        # which bare use stands above the declaration of the field it names (what the unrepaired class body cannot do)
        above = [m for m in ("Mbare", "Madd") if p.index(m) < p.index("F1") or (m == "Madd" and p.index(m) < p.index("F2"))]
        out.append({"family": "member-order", "class": "class-member-order:" + ("method-above-the-field-it-names" if above else "other"),
                    "src": src, "exp": MEMBER_EXPECTED, "what": "members in the order " + " ".join(p)})
    return out


# ---------------------------------------------------------------------------------------------- object as map key

KEY_CLASS = ("class A {\n  n: int\n  tags: [int...]\n  nxt: Self?\n  constructor(self, n: int) {\n    self.n = n\n    self.tags = []\n  }\n"
             "  fn inc(self) {\n    self.n += 1\n  }\n}\n")
KEY_UPDATES = [          # (name, statements that change a field of `a`)
    ("none", ""),
    ("method", "a.inc()\n"),
    ("field-assign", "a.n = 7\n"),
    ("field-op-assign", "a.n += 3\n"),
    ("alias", "z = a\nz.n = 40\n"),
    ("list-field-push", "a.tags.push(9)\n"),
    ("from-function", "f = fn(x: A) {\n  x.n = x.n * 2\n}\nf(a)\n"),
    ("points-to-other", "a.nxt = c\n"),
    ("becomes-equal-to-other-key", "a.n = 2\n"),
]


def map_key_cases(rng, quick):
    out = []
    for name, upd in KEY_UPDATES:
        for other_first in (False, True):
            src = KEY_CLASS + "a = A(1)\nc = A(%d)\nm = map[A, str]\n" % (2 if name == "becomes-equal-to-other-key" else 1)
            src += ("m[c] = \"other\"\nm[a] = \"first\"\n" if other_first else "m[a] = \"first\"\nm[c] = \"other\"\n")
            src += "print m[a]\nprint m.contains_key(a)\n" + upd
            src += ("print m[a]\nprint m.contains_key(a)\nprint m[c]\nprint m.len()\n"
                    "m[a] = \"second\"\nprint m.len()\nprint m[a]\nprint m[c]\n"
                    "hit = 0\nks = m.keys()\nprint ks.len()\nfrom 0 to ks.len(), i {\n  e = ks[i]\n  if e is a {\n    hit += 1\n  }\n}\nprint hit\n"
                    "d = A(1)\nprint m.contains_key(d)\nprint m[d]\n")
            exp = ["first", "true", "first", "true", "other", "2", "2", "second", "other", "2", "1", "false", "nil"]
            out.append({"family": "object-as-map-key", "class": "object-as-map-key:" + ("control" if name == "none" else "entry-lost-after-field-update"),
                        "src": src, "exp": exp, "what": "update between store and lookup: " + name})
    # an object that (indirectly) refers to itself is a key like any other
    for ring in (1, 2):
        src = KEY_CLASS + "a = A(1)\nb = A(2)\n" + ("a.nxt = a\n" if ring == 1 else "a.nxt = b\nb.nxt = a\n")
        src += "m = map[A, int]\nm[a] = 5\nprint m[a]\nprint m.contains_key(b)\na.n = 3\nprint m[a]\nprint m.len()\n"
        out.append({"family": "object-as-map-key", "class": "object-as-map-key:self-referencing-object", "src": src,
                    "exp": ["5", "false", "5", "1"], "what": "a key whose field refers back to it (cycle of %d)" % ring})
    return out


# ---------------------------------------------------------------------------------------------- `is` on lists

IS_CLASS = "class H {\n  items: [int...]\n  constructor(self) {\n    self.items = []\n  }\n}\n"
IS_PAIRS = [           # (name, declarations of p and q: two DIFFERENT lists, both empty)
    ("two-declarations", "p: [int...] = []\nq: [int...] = []\n"),
    ("fields-of-two-instances", IS_CLASS + "h1 = H()\nh2 = H()\np = h1.items\nq = h2.items\n"),
    ("clone", "p: [int...] = []\nq = p.clone()\n"),
    ("two-calls", "mk = fn() -> [int...] {\n  r: [int...] = []\n  return r\n}\np = mk()\nq = mk()\n"),
    ("filter-result", "src: [int...] = [1, 2]\np = src.filter(fn(x: int) -> bool {\n  return x > 5\n})\nq = src.filter(fn(x: int) -> bool {\n  return x > 6\n})\n"),
    ("str-lists", "p: [str...] = []\nq: [str...] = []\n"),
]


def is_list_cases(rng, quick):
    out = []
    for name, decl in IS_PAIRS:
        lit = "\"s\"" if name == "str-lists" else "1"
        shown = "[\"s\"]" if name == "str-lists" else "[1]"
        src = decl + "r = p\nprint p is q\nprint q is p\nprint p is r\nprint p is p\np.push(%s)\nprint p\nprint q\nprint r\nprint p is q\nprint p is r\n" % lit
        out.append({"family": "is-on-lists", "class": "is:two-empty-lists-are-one", "src": src,
                    "exp": ["false", "false", "true", "true", shown, "[]", shown, "false", "true"], "what": "two empty lists: " + name})
    # the same through the fields of two instances, without copies in variables
    src = IS_CLASS + "h1 = H()\nh2 = H()\nh3 = h1\nprint h1.items is h2.items\nprint h1.items is h3.items\nh3.items.push(4)\nprint h1.items\nprint h2.items\nprint h1.items is h2.items\n"
    out.append({"family": "is-on-lists", "class": "is:two-empty-lists-are-one", "src": src, "exp": ["false", "true", "[4]", "[]", "false"],
                "what": "list fields of two instances"})
    # controls: non-empty lists, maps
    src = ("p: [int...] = [1, 2]\nq: [int...] = [1, 2]\nr = p\nprint p is q\nprint p is r\nprint p == q\nm1 = map[str, int]\nm2 = map[str, int]\nm3 = m1\nprint m1 is m2\nprint m1 is m3\n")
    out.append({"family": "is-on-lists", "class": "is:control", "src": src, "exp": ["false", "true", "true", "false", "true"], "what": "non-empty lists, empty maps"})
    return out


# ---------------------------------------------------------------------------------------------- index_of on a list of objects

IDX_CLASS = "class A {\n  n: int\n  constructor(self, n: int) {\n    self.n = n\n  }\n}\n"


def index_of_cases(rng, quick):
    out = []
    for trial in range(4 if quick else 24):
        k = rng.randint(2, 5)
        vals = [rng.choice([1, 1, 2, 3]) for _ in range(k)]          # equal fields on purpose: identity, not contents
        src = IDX_CLASS + "".join("o%d = A(%d)\n" % (i, v) for i, v in enumerate(vals)) + "out = A(%d)\n" % vals[0]
        order = list(range(k))
        rng.shuffle(order)
        src += "l: [A...] = [%s]\n" % ", ".join("o%d" % i for i in order)
        exp = []
        for i in rng.sample(range(k), min(k, 3)):
            src += "print l.index_of(o%d)\n" % i
            exp.append(str(order.index(i)))
        j = rng.randrange(k)
        src += "o%d.n = 99\nprint l.index_of(o%d)\nprint l.index_of(out)\nal = o%d\nprint l.index_of(al)\n" % (j, j, j)
        exp += [str(order.index(j)), "nil", str(order.index(j))]
        src += "e = l[%d]\nprint l.index_of(e)\n" % (k - 1)
        exp.append(str(k - 1))
        out.append({"family": "index-of-object", "class": "index_of:list-of-objects", "src": src, "exp": exp, "what": "index_of on a list of %d objects" % k})
    return out


# ---------------------------------------------------------------------------------------------- optional class-typed fields

OPT_CLASSES = ("class Wheel {\n  size: int\n  constructor(self, size: int) {\n    self.size = size\n  }\n}\n"
               "class Car {\n  name: str\n  spare: Wheel?\n  towing: Self?\n  constructor(self, name: str, spare: Wheel?) {\n    self.name = name\n    self.spare = spare\n    self.towing = nil\n  }\n"
               "  fn tow(self, other: Self) -> Self {\n    self.towing = other\n    return other\n  }\n"
               "  fn borrow_from(self, other: Self) -> Wheel? {\n    w: Wheel? = nil\n    if w ?= self.spare {\n      print self.name + \" has \" + w.size\n    }\n    w ?= other.spare\n    return w\n  }\n"
               "}\n"
               "s1 = Wheel(15)\na = Car(\"a\", s1)\nb = Car(\"b\", nil)\nc = Car(\"c\", Wheel(17))\n")


def optional_field_cases(rng, quick):
    """reading an optional / class-typed field with `?=`, `get`, `or`, `== nil`: the value read is the field of THAT object at
    that moment -- a nil field after a present one is nil, not the object read before"""
    out = []

    def add(what, body, exp):
        out.append({"family": "optional-object-field", "class": "optional-field:value-of-another-object", "src": OPT_CLASSES + body, "exp": exp, "what": what})
    add("?= from a present then from a nil field of another object",
        "r1 = a.borrow_from(c)\nprint (get r1).size\nr2 = a.borrow_from(b)\nprint r2 == nil\nr3 = b.borrow_from(b)\nprint r3 == nil\nr4 = b.borrow_from(a)\nprint (get r4) is s1\n",
        ["a has 15", "17", "a has 15", "true", "true", "true"])
    add("one variable walked along a chain of optional fields",
        "a.tow(b).tow(c)\nseen: Car? = nil\nhops = 0\nif seen ?= a.towing {\n  hops = hops + 1\n  print (get seen).name\n}\nif seen ?= b.towing {\n  hops = hops + 1\n  print (get seen).name\n}\n"
        "if seen ?= c.towing {\n  hops = hops + 1\n}\nprint hops\nprint seen == nil\n",
        ["b", "c", "2", "true"])
    add("field set back to nil through an alias",
        "a.tow(b)\nal = a\nt: Car? = nil\nprint t ?= a.towing\nprint (get t) is b\nal.towing = nil\nprint t ?= a.towing\nprint t == nil\nprint a.towing == nil\nprint ((a.towing) or c) is c\n",
        ["true", "true", "false", "true", "true", "true"])
    out.append({"family": "optional-object-field", "class": "optional-field:self-typed-variable-in-method", "what": "a method walks a chain of `Self?` fields with a `Self?` variable",
                "src": OPT_CLASSES.replace("  fn borrow_from(", "  fn last(self) -> Self {\n    cur = self\n    nxt: Self? = nil\n    while nxt ?= cur.towing {\n      cur = get nxt\n    }\n    return cur\n  }\n  fn borrow_from(")
                + "a.tow(b).tow(c)\nprint a.last().name\nprint (c.last()) is c\nprint (b.last()) is c\nd = Car(\"d\", nil)\nprint (d.last()) is d\n", "exp": ["c", "true", "true", "true"]})
    add("get / or / == nil on the optional fields of two objects",
        "print (get a.spare).size\nprint b.spare == nil\nprint ((b.spare) or s1) is s1\nprint ((c.spare) or s1) is s1\nw: Wheel? = nil\nprint w ?= c.spare\nprint w ?= b.spare\nprint w == nil\nprint w ?= a.spare\nprint (get w) is s1\n",
        ["15", "true", "true", "false", "true", "false", "true", "true", "true"])
    return out


def cases(rng, quick):
    return member_order_cases(rng, quick) + map_key_cases(rng, quick) + is_list_cases(rng, quick) + index_of_cases(rng, quick) + optional_field_cases(rng, quick)
