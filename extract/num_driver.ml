(* trusted glue: one case per line (same notation as harness/num), runs the extracted impl-model
   (fixed / original-trap / original-wrap) and the specification, prints one result line per case:
     <fixed> \t <spec> \t <orig trap> \t <orig wrap>
   values: I<dec> B<dec> Y<dec> F<16 hex> T<bool>; ERR PANIC; UNDEF for an Undefined specification *)
open Num_model

let rec pos_of_int n = if n = 1 then XH else if n land 1 = 0 then XO (pos_of_int (n lsr 1)) else XI (pos_of_int (n lsr 1))
let z_of_int n = if n = 0 then Z0 else if n > 0 then Zpos (pos_of_int n) else Zneg (pos_of_int (-n))
let rec int_of_pos = function XH -> 1 | XO p -> 2 * int_of_pos p | XI p -> 2 * int_of_pos p + 1
let int_of_z = function Z0 -> 0 | Zpos p -> int_of_pos p | Zneg p -> - (int_of_pos p)

let z10 = z_of_int 10 and z16 = z_of_int 16
let z_of_digits base digit s =
  let acc = ref Z0 in
  String.iter (fun c -> acc := Z.add (Z.mul !acc base) (z_of_int (digit c))) s; !acc
let z_of_dec s =
  let neg = String.length s > 0 && s.[0] = '-' in
  let body = if neg then String.sub s 1 (String.length s - 1) else s in
  let z = z_of_digits z10 (fun c -> Char.code c - 48) body in
  if neg then Z.opp z else z
let hexval c = if c >= '0' && c <= '9' then Char.code c - 48 else Char.code (Char.lowercase_ascii c) - 87
let z_of_hex s = z_of_digits z16 hexval s
let rec digits base z acc =
  if Z.eqb z Z0 then acc
  else let (q, r) = Z.quotrem z base in digits base q ("0123456789abcdef".[int_of_z r] :: acc)
let string_of_chars l = String.concat "" (List.map (String.make 1) l)
let dec_of_z z =
  if Z.eqb z Z0 then "0"
  else if Z.ltb z Z0 then "-" ^ string_of_chars (digits z10 (Z.opp z) [])
  else string_of_chars (digits z10 z [])
let hex16_of_z z =
  let s = string_of_chars (digits z16 z []) in
  String.make (16 - String.length s) '0' ^ s

let parse_val s =
  let v = String.sub s 1 (String.length s - 1) in
  match s.[0] with
  | 'I' -> Int (z_of_dec v)
  | 'B' -> Big (z_of_dec v)
  | 'Y' -> Byte (z_of_dec v)
  | 'F' -> Flt (float_of_bits (z_of_hex v))
  | 'T' -> Bool (v = "true")
  | _ -> failwith ("bad operand " ^ s)

let show_val = function
  | Int z -> "I" ^ dec_of_z z
  | Big z -> "B" ^ dec_of_z z
  | Byte z -> "Y" ^ dec_of_z z
  | Flt f -> "F" ^ hex16_of_z (bits_of_float f)
  | Bool b -> if b then "Ttrue" else "Tfalse"
let show_res = function Ok v -> show_val v | Err -> "ERR" | Panic -> "PANIC"
let show_spec = function Exact v -> show_val v | Undefined -> "UNDEF"

let op_of = function
  | "add" -> Arith Add | "sub" -> Arith Sub | "mul" -> Arith Mul | "div" -> Arith Div | "rem" -> Arith Rem
  | "and" -> Bit And | "or" -> Bit Or | "xor" -> Bit Xor
  | "shl" -> Shift Shl | "shr" -> Shift Shr
  | "lt" -> Cmp CLt | "le" -> Cmp CLe | "gt" -> Cmp CGt | "ge" -> Cmp CGe
  | "eq" -> Equ Eq_ | "ne" -> Equ Ne_
  | s -> failwith ("bad operator " ^ s)

let () =
  try while true do
    let line = input_line stdin in
    match String.split_on_char ' ' line with
    | ["neg"; a] ->
        let a = parse_val a in
        Printf.printf "%s\t%s\t%s\t%s\n" (show_res (negate Fixed a)) (show_spec (spec_neg a))
          (show_res (negate (Orig Trap) a)) (show_res (negate (Orig Wrap) a))
    | ["not"; a] ->
        let a = parse_val a in
        let r = show_res (not_ a) in
        Printf.printf "%s\t%s\t%s\t%s\n" r (show_spec (spec_not a)) r r
    | [op; a; b] ->
        let op = op_of op and a = parse_val a and b = parse_val b in
        Printf.printf "%s\t%s\t%s\t%s\n" (show_res (binop_eval Fixed op a b)) (show_spec (spec_binop op a b))
          (show_res (binop_eval (Orig Trap) op a b)) (show_res (binop_eval (Orig Wrap) op a b))
    | _ -> failwith ("bad case " ^ line)
  done with End_of_file -> ()
