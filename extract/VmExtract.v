(* extraction of the VM model: ExtrOcamlBasic only; N / Z / positive / nat stay inductive *)
Require Extraction.
Require Import ExtrOcamlBasic.
From MS Require Import Vm.Model Verify.Check.
Extraction Language OCaml.
Extraction "vm_model.ml" execute certify infer check.
