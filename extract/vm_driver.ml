(* trusted glue: reads a dump (format of MSCRIPT_VERIF_DUMP) + entry function, runs the extracted
   VM model, prints stdout lines, outcome, stack labels and the per-instruction trace.
   usage: vm_driver <dump file> <entry qualified name> <fuel> *)
open Vm_model

let rec pos_of_int n = if n = 1 then XH else if n land 1 = 0 then XO (pos_of_int (n lsr 1)) else XI (pos_of_int (n lsr 1))
let n_of_int n = if n = 0 then N0 else Npos (pos_of_int n)
let rec int_of_pos = function XH -> 1 | XO p -> 2 * int_of_pos p | XI p -> 2 * int_of_pos p + 1
let int_of_n = function N0 -> 0 | Npos p -> int_of_pos p
let rec nat_of_int n = if n = 0 then O else S (nat_of_int (n - 1))

(* UTF-8 <-> scalars *)
let decode (s : string) : n list =
  let out = ref [] and i = ref 0 and l = String.length s in
  while !i < l do
    let c = Char.code s.[!i] in
    let (cp, k) =
      if c < 0x80 then (c, 1)
      else if c < 0xE0 then (((c land 0x1F) lsl 6) lor (Char.code s.[!i+1] land 0x3F), 2)
      else if c < 0xF0 then (((c land 0x0F) lsl 12) lor ((Char.code s.[!i+1] land 0x3F) lsl 6) lor (Char.code s.[!i+2] land 0x3F), 3)
      else (((c land 0x07) lsl 18) lor ((Char.code s.[!i+1] land 0x3F) lsl 12) lor ((Char.code s.[!i+2] land 0x3F) lsl 6) lor (Char.code s.[!i+3] land 0x3F), 4) in
    out := n_of_int cp :: !out; i := !i + k
  done; List.rev !out
let encode (l : n list) : string =
  let b = Buffer.create 16 in
  List.iter (fun c -> let c = int_of_n c in
    if c < 0x80 then Buffer.add_char b (Char.chr c)
    else if c < 0x800 then (Buffer.add_char b (Char.chr (0xC0 lor (c lsr 6))); Buffer.add_char b (Char.chr (0x80 lor (c land 0x3F))))
    else if c < 0x10000 then (Buffer.add_char b (Char.chr (0xE0 lor (c lsr 12))); Buffer.add_char b (Char.chr (0x80 lor ((c lsr 6) land 0x3F))); Buffer.add_char b (Char.chr (0x80 lor (c land 0x3F))))
    else (Buffer.add_char b (Char.chr (0xF0 lor (c lsr 18))); Buffer.add_char b (Char.chr (0x80 lor ((c lsr 12) land 0x3F))); Buffer.add_char b (Char.chr (0x80 lor ((c lsr 6) land 0x3F))); Buffer.add_char b (Char.chr (0x80 lor (c land 0x3F))))) l;
  Buffer.contents b
let hex s = String.concat "" (List.map (fun c -> Printf.sprintf "%02x" (Char.code c)) (List.of_seq (String.to_seq s)))

(* dump parser *)
let parse_dump (data : string) : (n list * instr list) list =
  let pos = ref 0 in
  let len = String.length data in
  let token () = let j = String.index_from data !pos ' ' in let t = String.sub data !pos (j - !pos) in pos := j + 1; t in
  let lp () = let n = int_of_string (token ()) in let s = String.sub data !pos n in pos := !pos + n; s in
  let starts p = !pos + String.length p <= len && String.sub data !pos (String.length p) = p in
  let fns = ref [] and file = ref "" and cur = ref None in
  while !pos < len do
    if starts "file " then (pos := !pos + 5; file := lp (); incr pos)
    else if starts "fn " then (pos := !pos + 3; let nm = lp () in incr pos; cur := Some (!file ^ "#" ^ nm, ref []))
    else if starts "end\n" then (pos := !pos + 4;
      (match !cur with Some (nm, is) -> fns := (decode nm, List.rev !is) :: !fns | None -> ()); cur := None)
    else if starts "i " then begin
      pos := !pos + 2;
      let op = int_of_string (token ()) in
      let j = ref !pos in
      while data.[!j] <> ' ' && data.[!j] <> '\n' do incr j done;
      let nargs = int_of_string (String.sub data !pos (!j - !pos)) in
      pos := !j;
      let args = ref [] in
      for _ = 1 to nargs do incr pos; args := decode (lp ()) :: !args done;
      incr pos;
      (match !cur with Some (_, is) -> is := { op = n_of_int op; args = List.rev !args } :: !is | None -> ())
    end else failwith ("bad dump at " ^ string_of_int !pos)
  done;
  List.rev !fns

let show_label = function LFun n -> encode n | LIf -> "<if>" | LElse -> "<else>" | LWhile -> "<while>"
let show_err = function
  | E_assert s -> "assert " ^ hex (encode s)
  | E_unwrap_nil s -> "unwrap_nil " ^ hex (encode s)
  | E_div_zero -> "div_zero" | E_invalid_op -> "invalid_op" | E_not_bool -> "not_bool"
  | E_load_before_store n -> "load_before_store " ^ hex (encode n)
  | E_goto_range -> "goto_range" | E_stack_shape o -> "stack_shape " ^ string_of_int (int_of_n o)
  | E_bad_arg o -> "bad_arg " ^ string_of_int (int_of_n o) | E_not_callable -> "not_callable"
  | E_no_function n -> "no_function " ^ hex (encode n) | E_cb n -> "cb " ^ hex (encode n)
  | E_unsupported o -> "unsupported " ^ string_of_int (int_of_n o)
  | E_arity -> "arity"
  | E_overflow o -> "panic " ^ string_of_int (int_of_n o) ^ " overflow"
  | E_panic o -> "panic " ^ string_of_int (int_of_n o)

let rec int_of_nat = function O -> 0 | S n -> 1 + int_of_nat n

(* certificate mode: for every function of the dump print the verdict of the verified checker on the
   labelling the (unverified) work-list proposes, and the labelling itself *)
let certify_mode prog =
  List.iter (fun (name, code) ->
    match infer code with
    | None -> Printf.printf "CERT %s false no-labelling\n" (hex (encode name))
    | Some ds ->
      let ok = check code ds in
      Printf.printf "CERT %s %b %s\n" (hex (encode name)) ok
        (String.concat ";" (List.map (function
           | None -> "-"
           | Some (d, s) -> string_of_int (int_of_nat d) ^ ":" ^ String.concat "," (List.map (fun n -> string_of_int (int_of_nat n)) s)) ds))) prog

let () =
  let ic = open_in_bin Sys.argv.(1) in
  let data = really_input_string ic (in_channel_length ic) in
  close_in ic;
  let prog = parse_dump data in
  if Array.length Sys.argv > 2 && Sys.argv.(2) = "--certify" then (certify_mode prog; exit 0);
  let entry = decode Sys.argv.(2) in
  let fuel = nat_of_int (int_of_string Sys.argv.(3)) in
  let ((out, oc), tr) = execute fuel prog entry in
  List.iter (fun l -> print_endline ("OUT " ^ hex (encode l))) out;
  (match oc with
   | Done -> print_endline "RESULT done"
   | StackMismatch n -> Printf.printf "RESULT stack_mismatch %d\n" (int_of_n n)
   | RuntimeErr (e, st) -> Printf.printf "RESULT err %s\nSTACK %s\n" (show_err e) (String.concat "\t" (List.map show_label st))
   | OutOfFuel -> print_endline "RESULT fuel");
  List.iter (fun ((((f, ip), op), d), ol) ->
    Printf.printf "T %s\t%d\t%d\t%d\t%d\n" (encode f) (int_of_n ip) (int_of_n op) (int_of_n d) (int_of_n ol)) tr
