(* trusted glue for C14: one call per input line
     <method> TAB <value> TAB <value> ...
   values:  i:<z> B:<z> y:<z>  (z = optional '-' then binary digits)   f:<64-bit pattern in binary>
            s:<code points separated by '.', or '-'>   b:0|1
   output:  <impl-model outcome> TAB <outcome at the pinned HEAD> TAB <specification> *)
open Builtins_model

let rec pos_of_int n = if n = 1 then XH else if n land 1 = 0 then XO (pos_of_int (n lsr 1)) else XI (pos_of_int (n lsr 1))
let n_of_int n = if n = 0 then N0 else Npos (pos_of_int n)
let rec int_of_pos = function XH -> 1 | XO p -> 2 * int_of_pos p | XI p -> 2 * int_of_pos p + 1
let int_of_n = function N0 -> 0 | Npos p -> int_of_pos p

(* binary text <-> Z, no arithmetic involved *)
let z_of_bin s =
  let neg = String.length s > 0 && s.[0] = '-' in
  let s = if neg then String.sub s 1 (String.length s - 1) else s in
  let p = ref None in
  String.iter (fun c ->
    match !p, c with
    | None, '0' -> ()
    | None, '1' -> p := Some XH
    | Some q, '0' -> p := Some (XO q)
    | Some q, '1' -> p := Some (XI q)
    | _ -> failwith ("bad binary digit in " ^ s)) s;
  match !p with None -> Z0 | Some q -> if neg then Zneg q else Zpos q
let rec bin_of_pos p acc = match p with XH -> "1" ^ acc | XO q -> bin_of_pos q ("0" ^ acc) | XI q -> bin_of_pos q ("1" ^ acc)
let bin_of_z = function Z0 -> "0" | Zpos p -> bin_of_pos p "" | Zneg p -> "-" ^ bin_of_pos p ""

let str_of s = if s = "-" || s = "" then [] else List.map (fun x -> n_of_int (int_of_string x)) (String.split_on_char '.' s)
let show_str s = if s = [] then "-" else String.concat "." (List.map (fun c -> string_of_int (int_of_n c)) s)

let parse_val t =
  let k = String.sub t 0 2 and r = String.sub t 2 (String.length t - 2) in
  match k with
  | "i:" -> VInt (z_of_bin r)
  | "B:" -> VBig (z_of_bin r)
  | "y:" -> VByte (z_of_bin r)
  | "f:" -> VFloat (of_bits (z_of_bin r))
  | "s:" -> VStr (str_of r)
  | "b:" -> VBool (r = "1")
  | _ -> failwith ("bad value " ^ t)

let rec show_val = function
  | VInt z -> "i:" ^ bin_of_z z
  | VBig z -> "B:" ^ bin_of_z z
  | VByte z -> "y:" ^ bin_of_z z
  | VFloat f -> "f:" ^ bin_of_z (to_bits f)
  | VBool b -> if b then "b:1" else "b:0"
  | VStr s -> "s:" ^ show_str s
  | VNil -> "nil"
  | VVec l -> "v[" ^ String.concat ";" (List.map show_val l) ^ "]"

let show_outcome = function
  | Ok v -> "OK " ^ show_val v
  | Err -> "ERR"
  | Panic -> "PANIC"
  | LibmPow (x, y) -> "LIBM " ^ bin_of_z (to_bits x) ^ " " ^ bin_of_z (to_bits y)
  | Outside -> "OUTSIDE"
let show_sres = function
  | SVal v -> "VAL " ^ show_val v
  | SFail -> "FAIL"
  | SUnspec -> "UNSPEC"

let meth_of = function
  | "len" -> MLen | "index" -> MIndex | "substring" -> MSubstring | "contains" -> MContains
  | "index_of" -> MIndexOf | "reverse" -> MReverse | "insert" -> MInsert | "replace" -> MReplace
  | "delete" -> MDelete | "split" -> MSplit | "chars" -> MChars | "parse_int" -> MParseInt
  | "parse_int_radix" -> MParseIntRadix | "parse_bigint" -> MParseBigint
  | "parse_bigint_radix" -> MParseBigintRadix | "parse_float" -> MParseFloat | "parse_bool" -> MParseBool
  | "parse_byte" -> MParseByte | "repeat" -> MRepeat | "concat" -> MConcat
  | "to_int" -> MToInt | "to_bigint" -> MToBigint | "to_byte" -> MToByte | "to_float" -> MToFloat
  | "abs" -> MAbs | "pow" -> MPow | "powf" -> MPowf | "sqrt" -> MSqrt | "floor" -> MFloor | "ceil" -> MCeil
  | "round" -> MRound | "ipart" -> MIpart | "fpart" -> MFpart | "to_str" -> MToStr | "to_ascii" -> MToAscii
  | m -> failwith ("unknown method " ^ m)

let rec show_ty = function
  | TInt -> "int" | TBig -> "bigint" | TByte -> "byte" | TFloat -> "float" | TBool -> "bool" | TStr -> "str"
  | TOpt t -> show_ty t ^ "?"
  | TList t -> "[" ^ show_ty t ^ "...]"
  | TPair (a, b) -> "[" ^ show_ty a ^ ", " ^ show_ty b ^ "]"
let ty_of = function
  | "int" -> TInt | "bigint" -> TBig | "byte" -> TByte | "float" -> TFloat | "bool" -> TBool | "str" -> TStr
  | t -> failwith ("unknown type " ^ t)

let () =
  try while true do
    let line = input_line stdin in
    match String.split_on_char '\t' line with
    | "SIG" :: m :: t :: [] ->
        (match declared (meth_of m) (ty_of t) with
         | Some r -> print_endline ("SIG " ^ show_ty r)
         | None -> print_endline "SIG none")
    | m :: vals ->
        let m = meth_of m and args = List.map parse_val vals in
        print_endline (show_outcome (run_impl m args) ^ "\t" ^ show_outcome (run_impl_head m args) ^ "\t" ^ show_sres (run_spec m args))
    | [] -> ()
  done with End_of_file -> ()
