(* extraction of the numeric-tower models (C05, C06): ExtrOcamlBasic only (bool, list, prod, option,
   unit, sumbool); Z / positive / comparison and Flocq's binary_float stay the extracted inductive types *)
Require Extraction.
Require Import ExtrOcamlBasic.
From MS Require Import Num.NumImpl Num.NumSpec.
Extraction Language OCaml.

(* trusted glue: IEEE-754 binary64 interchange format <-> Flocq value (finite values are rebuilt with
   binary_normalize from an exactly representable (mantissa, exponent) pair, so no rounding happens) *)
Definition float_of_bits (z : Z) : float :=
  let s := Z.odd (z / 9223372036854775808) in
  let e := (z / 4503599627370496) mod 2048 in
  let m := z mod 4503599627370496 in
  let sg (x : Z) := if s then - x else x in
  if e =? 0 then F_norm (sg m) (-1074) s
  else if e =? 2047 then (if m =? 0 then B754_infinity s else B754_nan)
  else F_norm (sg (m + 4503599627370496)) (e - 1075) s.

Definition bits_of_float (f : float) : Z :=
  let sb (s : bool) := if s then 9223372036854775808 else 0 in
  match f with
  | B754_zero s => sb s
  | B754_infinity s => sb s + 9218868437227405312
  | B754_nan => 9221120237041090560
  | B754_finite s m e _ =>
      if Zpos m <? 4503599627370496 then sb s + Zpos m
      else sb s + (e + 1075) * 4503599627370496 + (Zpos m - 4503599627370496)
  end.

Extraction "num_model.ml" binop_eval negate not_ spec_binop spec_neg spec_not
  float_of_bits bits_of_float Z.add Z.mul Z.opp Z.quotrem Z.eqb Z.ltb.
