(* trusted glue: reads a token-stream AST (vlib/coregen.py render_tokens), runs
   (1) the code-generator model  -> CODE section in the format of the dump hook,
   (2) the reference semantics   -> EVAL section (stdout lines, outcome).
   usage: core_driver <tokens file> <module path, e.g. main.mmm> <fuel> *)
open Core_model

let rec pos_of_int n = if n = 1 then XH else if n land 1 = 0 then XO (pos_of_int (n lsr 1)) else XI (pos_of_int (n lsr 1))
let n_of_int n = if n = 0 then N0 else Npos (pos_of_int n)
let rec int_of_pos = function XH -> 1 | XO p -> 2 * int_of_pos p | XI p -> 2 * int_of_pos p + 1
let int_of_n = function N0 -> 0 | Npos p -> int_of_pos p
let z_of_int n = if n = 0 then Z0 else if n > 0 then Zpos (pos_of_int n) else Zneg (pos_of_int (-n))
let rec nat_of_int n = if n = 0 then O else S (nat_of_int (n - 1))

let decode (s : string) : n list =
  let out = ref [] and i = ref 0 and l = String.length s in
  while !i < l do
    let c = Char.code s.[!i] in
    let (cp, k) =
      if c < 0x80 then (c, 1)
      else if c < 0xE0 then (((c land 0x1F) lsl 6) lor (Char.code s.[!i+1] land 0x3F), 2)
      else if c < 0xF0 then (((c land 0x0F) lsl 12) lor ((Char.code s.[!i+1] land 0x3F) lsl 6) lor (Char.code s.[!i+2] land 0x3F), 3)
      else (((c land 0x07) lsl 18) lor ((Char.code s.[!i+1] land 0x3F) lsl 12) lor ((Char.code s.[!i+2] land 0x3F) lsl 6) lor (Char.code s.[!i+3] land 0x3F), 4) in
    out := n_of_int cp :: !out; i := !i + k
  done; List.rev !out
let encode (l : n list) : string =
  let b = Buffer.create 16 in
  List.iter (fun c -> let c = int_of_n c in
    if c < 0x80 then Buffer.add_char b (Char.chr c)
    else if c < 0x800 then (Buffer.add_char b (Char.chr (0xC0 lor (c lsr 6))); Buffer.add_char b (Char.chr (0x80 lor (c land 0x3F))))
    else if c < 0x10000 then (Buffer.add_char b (Char.chr (0xE0 lor (c lsr 12))); Buffer.add_char b (Char.chr (0x80 lor ((c lsr 6) land 0x3F))); Buffer.add_char b (Char.chr (0x80 lor (c land 0x3F))))
    else (Buffer.add_char b (Char.chr (0xF0 lor (c lsr 18))); Buffer.add_char b (Char.chr (0x80 lor ((c lsr 12) land 0x3F))); Buffer.add_char b (Char.chr (0x80 lor ((c lsr 6) land 0x3F))); Buffer.add_char b (Char.chr (0x80 lor (c land 0x3F))))) l;
  Buffer.contents b
let hex s = String.concat "" (List.map (fun c -> Printf.sprintf "%02x" (Char.code c)) (List.of_seq (String.to_seq s)))
let unhex s = if s = "-" then "" else String.init (String.length s / 2) (fun i -> Char.chr (int_of_string ("0x" ^ String.sub s (2*i) 2)))
let str_of_hex s = decode (unhex s)

let toks = ref [||] and pos = ref 0
let next () = let t = !toks.(!pos) in incr pos; t
let binop_of = function
  | "BAdd" -> BAdd | "BSub" -> BSub | "BMul" -> BMul | "BDiv" -> BDiv | "BMod" -> BMod | "BLt" -> BLt
  | "BLe" -> BLe | "BGt" -> BGt | "BGe" -> BGe | "BEq" -> BEq | "BNeq" -> BNeq | s -> failwith ("binop " ^ s)
let rec many n f = if n = 0 then [] else let x = f () in x :: many (n - 1) f
let rec p_expr () : expr =
  match next () with
  | "I" -> EInt (z_of_int (int_of_string (next ())))
  | "B" -> EBool (next () = "1")
  | "S" -> EStr (str_of_hex (next ()))
  | "N" -> ENil
  | "V" -> EVar (str_of_hex (next ()))
  | "bin" -> let o = binop_of (next ()) in let a = p_expr () in let b = p_expr () in EBin (o, a, b)
  | "and" -> let a = p_expr () in let b = p_expr () in EAnd (a, b)
  | "or" -> let a = p_expr () in let b = p_expr () in EOr (a, b)
  | "nilor" -> let a = p_expr () in let b = p_expr () in ENilOr (a, b)
  | "not" -> ENot (p_expr ())
  | "neg" -> ENeg (p_expr ())
  | "call" -> let f = p_expr () in let n = int_of_string (next ()) in ECall (f, many n p_expr)
  | "self" -> let n = int_of_string (next ()) in ESelf (many n p_expr)
  | "fn" -> let np = int_of_string (next ()) in let ps = many np (fun () -> str_of_hex (next ())) in
            EFn (ps, p_block ())
  | "get" -> let a = p_expr () in EGet (a, str_of_hex (next ()))
  | t -> failwith ("expr token " ^ t)
and p_block () : stmt list = let n = int_of_string (next ()) in many n p_stmt
and p_stmt () : stmt =
  match next () with
  | "asg" -> let x = str_of_hex (next ()) in SAssign (x, p_expr ())
  | "mod" -> let x = str_of_hex (next ()) in SModify (x, p_expr ())
  | "opa" -> let x = str_of_hex (next ()) in let o = binop_of (next ()) in SOpAssign (x, o, p_expr ())
  | "print" -> SPrint (p_expr ())
  | "expr" -> SExpr (p_expr ())
  | "assert" -> let e = p_expr () in SAssert (e, str_of_hex (next ()))
  | "if" -> let c = p_expr () in SIf (c, p_block ())
  | "ifelse" -> let c = p_expr () in let b = p_block () in SIfElse (c, b, p_block ())
  | "ifelif" -> let c = p_expr () in let b = p_block () in SIfElif (c, b, p_stmt ())
  | "while" -> let c = p_expr () in SWhile (c, p_block ())
  | "from" -> let a = p_expr () in let b = p_expr () in let incl = next () = "1" in
              let step = (match next () with "step" -> Some (p_expr ()) | _ -> None) in
              let name = (match next () with "named" -> Some (str_of_hex (next ())) | _ -> None) in
              let collide = next () = "1" in
              SFrom (a, b, incl, step, name, collide, p_block ())
  | "break" -> SBreak | "continue" -> SContinue
  | "ret0" -> SReturn None
  | "ret" -> SReturn (Some (p_expr ()))
  | t -> failwith ("stmt token " ^ t)

let show_failure = function
  | FAssert s -> "assert " ^ hex (encode s) | FUnwrapNil s -> "unwrap_nil " ^ hex (encode s)
  | FDivZero -> "div_zero" | FOverflow -> "overflow" | FType n -> "type " ^ string_of_int (int_of_n n)
  | FUnbound x -> "unbound " ^ hex (encode x)

let () =
  let ic = open_in_bin Sys.argv.(1) in
  let data = really_input_string ic (in_channel_length ic) in
  close_in ic;
  toks := Array.of_list (List.filter (fun s -> s <> "") (String.split_on_char ' ' (String.trim data)));
  let prog = p_block () in
  let path = decode Sys.argv.(2) in
  let fuel = nat_of_int (int_of_string Sys.argv.(3)) in
  (* 1. code generator model *)
  let fns = cprogram path prog in
  print_endline "CODE";
  List.iter (fun (name, code) ->
    let nm = encode name in
    Printf.printf "fn %d %s\n" (String.length nm) nm;
    List.iter (fun i ->
      Printf.printf "i %d %d" (int_of_n i.op) (List.length i.args);
      List.iter (fun a -> let s = encode a in Printf.printf " %d %s" (String.length s) s) i.args;
      print_newline ()) code;
    print_endline "end";
    Printf.printf "CERT %b\n" (certify code)) fns;
  (* 1b. is the program inside the fragment on which C01 is a theorem (Compile/StmtFragB.v fragment_correct)? *)
  Printf.printf "FRAG %b\n" (in_fragment path prog);
  (* 2. reference semantics *)
  print_endline "EVAL";
  let (out, oc) = run fuel prog in
  List.iter (fun l -> print_endline ("OUT " ^ hex (encode l))) out;
  (match oc with
   | RODone -> print_endline "RESULT done"
   | ROFail f -> print_endline ("RESULT fail " ^ show_failure f)
   | ROFuel -> print_endline "RESULT fuel")
