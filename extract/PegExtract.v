(* extraction of the PEG interpreter specialised to the GENERATED grammar: ExtrOcamlBasic only;
   nat / N / positive stay the extracted inductive types *)
Require Extraction.
Require Import ExtrOcamlBasic.
From MS Require Import Peg.Syntax Peg.Desugar Peg.Interp Gen.Grammar.
Definition cg := desugar g.
Definition run (fuel : nat) (i : nat) (input : list N) : res :=
  parse cg fuel (CCall (cidx i NonAtomic)) (start input).
Extraction Language OCaml.
Extraction "peg_model.ml" run cg flatten_all.
