(* trusted glue: reads one history per line, runs the extracted impl-model (legacy and fixed) and the
   extracted specification, prints one JSON object per line.

   history  := op (';' op)*            op := name (' ' field)*
   var, int := decimal (ints may be negative)
   str      := '-' (empty) | codepoint ('.' codepoint)*
   val      := 'i:'int | 's:'str | 'n'              key := 'i:'int | 's:'str
   operand  := 'L'val | 'V'var | 'E'var','int | 'C'var','int
   binop    := add | sub | mul
   mapfn    := 'add:'int | 'mul:'int | 'suf:'str | 'len'
   pred     := 'gt:'int | 'ne:'val | 'lengt:'int | 'true' | 'false' *)
open Containers_model

let rec pos_of_int n = if n = 1 then XH else if n land 1 = 0 then XO (pos_of_int (n lsr 1)) else XI (pos_of_int (n lsr 1))
let n_of_int n = if n = 0 then N0 else Npos (pos_of_int n)
let z_of_int n = if n = 0 then Z0 else if n > 0 then Zpos (pos_of_int n) else Zneg (pos_of_int (-n))
let rec int_of_pos = function XH -> 1 | XO p -> 2 * int_of_pos p | XI p -> 2 * int_of_pos p + 1
let int_of_n = function N0 -> 0 | Npos p -> int_of_pos p
let int_of_z = function Z0 -> 0 | Zpos p -> int_of_pos p | Zneg p -> - (int_of_pos p)

let str_of s = if s = "-" || s = "" then [] else List.map (fun x -> n_of_int (int_of_string x)) (String.split_on_char '.' s)
let after s k = String.sub s k (String.length s - k)
let split1 c s = match String.index_opt s c with
  | Some k -> (String.sub s 0 k, after s (k + 1))
  | None -> (s, "")

let var s = n_of_int (int_of_string s)
let zint s = z_of_int (int_of_string s)
let value s =
  if s = "n" then VNil
  else match split1 ':' s with
    | ("i", r) -> VInt (zint r)
    | ("s", r) -> VStr (str_of r)
    | _ -> failwith ("value " ^ s)
let key s = match split1 ':' s with
  | ("i", r) -> KInt (zint r)
  | ("s", r) -> KStr (str_of r)
  | _ -> failwith ("key " ^ s)
let operand s = match s.[0] with
  | 'L' -> OLit (value (after s 1))
  | 'V' -> OVar (var (after s 1))
  | 'E' -> let (a, b) = split1 ',' (after s 1) in OElem (var a, zint b)
  | 'C' -> let (a, b) = split1 ',' (after s 1) in OCall (var a, zint b)
  | _ -> failwith ("operand " ^ s)
let binop = function "add" -> Add | "sub" -> Sub | "mul" -> Mul | s -> failwith ("binop " ^ s)
let mapfn s = match split1 ':' s with
  | ("add", r) -> FAdd (zint r) | ("mul", r) -> FMul (zint r) | ("suf", r) -> FSuffix (str_of r)
  | ("len", _) -> FLen | _ -> failwith ("mapfn " ^ s)
let pred s = match split1 ':' s with
  | ("gt", r) -> PGt (zint r) | ("ne", r) -> PNe (value r) | ("lengt", r) -> PLenGt (zint r)
  | ("true", _) -> PTrue | ("false", _) -> PFalse | _ -> failwith ("pred " ^ s)

let rec pairs f = function
  | k :: o :: r -> (key k, operand o) :: pairs f r
  | [] -> []
  | _ -> failwith "maplit"

let op s =
  match List.filter (fun t -> t <> "") (String.split_on_char ' ' s) with
  | "newvec" :: d :: es -> NewVec (var d, List.map operand es)
  | ["alias"; d; s] -> Alias (var d, var s)
  | ["push"; v; x] -> Push (var v, operand x)
  | ["remove"; v; i] -> Remove (var v, zint i)
  | ["iread"; v; i] -> IndexRead (var v, zint i)
  | ["iwrite"; v; i; x] -> IndexWrite (var v, zint i, operand x)
  | ["opassign"; v; i; o; x] -> OpAssign (var v, zint i, binop o, value x)
  | ["reverse"; v] -> Reverse (var v)
  | ["join"; d; a; b] -> Join (var d, var a, var b)
  | ["clear"; v] -> Clear (var v)
  | ["clone"; d; s] -> Clone (var d, var s)
  | ["mapf"; d; s; f] -> MapF (var d, var s, mapfn f)
  | ["mapelem"; d; s; w; i] -> MapElem (var d, var s, var w, zint i)
  | ["mapkey"; d; s; m; k] -> MapKeyElem (var d, var s, var m, key k)
  | ["filterf"; d; s; p] -> FilterF (var d, var s, pred p)
  | ["indexof"; v; x] -> IndexOf (var v, operand x)
  | ["len"; v] -> Len (var v)
  | ["eq"; a; b] -> Eq0 (var a, var b)
  | ["print"; v] -> Print (var v)
  | ["concat"; v; i; j] -> Concat (var v, zint i, zint j)
  | "maplit" :: d :: kvs -> MapLit (var d, pairs () kvs)
  | ["mget"; m; k] -> MapGet (var m, key k)
  | ["mset"; m; k; x] -> MapSet (var m, key k, operand x)
  | ["mopassign"; m; k; o; x] -> MapOpAssign (var m, key k, binop o, value x)
  | ["replace"; m; k; x] -> Replace (var m, key k, operand x)
  | ["mremove"; m; k] -> MapRemove (var m, key k)
  | ["haskey"; m; k] -> ContainsKey (var m, key k)
  | ["mlen"; m] -> MapLen (var m)
  | ["keys"; m] -> Keys (var m)
  | ["values"; m] -> Values (var m)
  | ["pairs"; m] -> Pairs (var m)
  | ["mclear"; m] -> MapClear (var m)
  | ["mclone"; d; s] -> MapClone (var d, var s)
  | _ -> failwith ("op " ^ s)

let rec oval = function
  | OInt z -> string_of_int (int_of_z z)
  | OStr s -> "{\"s\":[" ^ String.concat "," (List.map (fun c -> string_of_int (int_of_n c)) s) ^ "]}"
  | ONil -> "null"
  | OList l -> "[" ^ String.concat "," (List.map oval l) ^ "]"
let obs = function
  | ObsVal o -> "{\"v\":" ^ oval o ^ "}"
  | ObsBool b -> "{\"b\":" ^ (if b then "true" else "false") ^ "}"
  | ObsBag l -> "{\"g\":[" ^ String.concat "," (List.map oval l) ^ "]}"
let fail = function
  | None -> "null" | Some Err -> "\"Err\"" | Some Panic -> "\"Panic\"" | Some Stuck -> "\"Stuck\""
  | Some Fuel -> "\"Fuel\"" | Some Range -> "\"Range\""
let result (os, f) = "{\"obs\":[" ^ String.concat "," (List.map obs os) ^ "],\"fail\":" ^ fail f ^ "}"

let () =
  try while true do
    let line = input_line stdin in
    (try
      let h = List.map op (List.filter (fun t -> String.trim t <> "") (String.split_on_char ';' line)) in
      Printf.printf "{\"legacy\":%s,\"fixed\":%s,\"spec\":%s}\n" (result (run true h)) (result (run false h)) (result (spec_run h))
    with Failure m -> Printf.printf "{\"error\":\"%s\"}\n" (String.escaped m))
  done with End_of_file -> ()
