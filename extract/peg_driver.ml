(* trusted glue: one case per line `<rule index> <scalars separated by . | ->`;
   prints `OK <steps> d:rule:start:end ...` | `ERR <steps>` | `OOF` *)
open Peg_model

let rec pos_of_int n = if n = 1 then XH else if n land 1 = 0 then XO (pos_of_int (n lsr 1)) else XI (pos_of_int (n lsr 1))
let n_of_int n = if n = 0 then N0 else Npos (pos_of_int n)
let rec int_of_pos = function XH -> 1 | XO p -> 2 * int_of_pos p | XI p -> 2 * int_of_pos p + 1
let int_of_n = function N0 -> 0 | Npos p -> int_of_pos p
let rec nat_of_int n acc = if n = 0 then acc else nat_of_int (n - 1) (S acc)
let rec int_of_nat = function O -> 0 | S n -> 1 + int_of_nat n

let str_of s = if s = "-" || s = "" then [] else List.map (fun x -> n_of_int (int_of_string x)) (String.split_on_char '.' s)

let () =
  let fuel = nat_of_int (try int_of_string Sys.argv.(1) with _ -> 400000) O in
  (* force the desugared grammar once *)
  let _ = List.length cg in
  try while true do
    let line = input_line stdin in
    let k = String.index line ' ' in
    let i = int_of_string (String.sub line 0 k) in
    let s = str_of (String.sub line (k + 1) (String.length line - k - 1)) in
    (match run fuel (nat_of_int i O) s with
     | Ok (_, ts, n) ->
         let b = Buffer.create 256 in
         Buffer.add_string b ("OK " ^ string_of_int (int_of_n n));
         List.iter (fun (((d, r), s), e) ->
           Buffer.add_string b (Printf.sprintf " %d:%d:%d:%d" (int_of_n d) (int_of_nat r) (int_of_n s) (int_of_n e)))
           (flatten_all ts);
         print_endline (Buffer.contents b)
     | Fail n -> print_endline ("ERR " ^ string_of_int (int_of_n n))
     | OutOfFuel -> print_endline "OOF")
  done with End_of_file -> ()
