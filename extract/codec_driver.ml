(* trusted glue: reads one case per line, runs the extracted model, prints one result per line *)
open Codec_model

let rec pos_of_int n = if n = 1 then XH else if n land 1 = 0 then XO (pos_of_int (n lsr 1)) else XI (pos_of_int (n lsr 1))
let n_of_int n = if n = 0 then N0 else Npos (pos_of_int n)
let rec int_of_pos = function XH -> 1 | XO p -> 2 * int_of_pos p | XI p -> 2 * int_of_pos p + 1
let int_of_n = function N0 -> 0 | Npos p -> int_of_pos p

let str_of s = if s = "-" || s = "" then [] else List.map (fun x -> n_of_int (int_of_string x)) (String.split_on_char '.' s)
let show s = if s = [] then "-" else String.concat "." (List.map (fun c -> string_of_int (int_of_n c)) s)

let parse_instr i =
  match String.index_opt i ':' with
  | Some k -> { op = n_of_int (int_of_string (String.sub i 0 k));
                args = List.map str_of (String.split_on_char ',' (String.sub i (k+1) (String.length i - k - 1))) }
  | None -> { op = n_of_int (int_of_string i); args = [] }
let parse_fn f =
  let k = String.index f '|' in
  let name = String.sub f 0 k and body = String.sub f (k+1) (String.length f - k - 1) in
  { fname = str_of name; body = if body = "" then [] else List.map parse_instr (String.split_on_char ';' body) }
let show_instr i = match i.args with
  | [] -> string_of_int (int_of_n i.op)
  | a -> string_of_int (int_of_n i.op) ^ ":" ^ String.concat "," (List.map show a)
let show_fn f = show f.fname ^ "|" ^ String.concat ";" (List.map show_instr f.body)
let show_fns fs = if fs = [] then "-" else String.concat "#" (List.map show_fn fs)
let opt f = function Some x -> f x | None -> "ERR"
let bind o f = match o with Some x -> f x | None -> None

let () =
  try while true do
    let line = input_line stdin in
    if String.length line > 2 && String.sub line 0 2 = "S " then begin
      let rest = String.sub line 2 (String.length line - 2) in
      let k = String.index rest ' ' in
      let multi = String.sub rest 0 k = "1" and s = str_of (String.sub rest (k+1) (String.length rest - k - 1)) in
      match split multi s with
      | Some parts -> print_endline ("OK " ^ String.concat "," (List.map show parts))
      | None -> print_endline "ERR"
    end else begin
      let spec = String.sub line 2 (String.length line - 2) in
      let fns = List.map parse_fn (String.split_on_char '#' spec) in
      let bin = emit_bin fns in
      let ld = load bin in
      let text = emit_text fns in
      let tbin = bind text transpile in
      let tload = bind tbin load in
      (* byte level: the file as bytes by the UTF-8 model, and those bytes read back by the UTF-8 decoder model *)
      let bytes = utf8_encode bin in
      let hex = if bytes = [] then "-" else String.concat "" (List.map (fun b -> Printf.sprintf "%02x" (int_of_n b)) bytes) in
      let back = match utf8_decode bytes with Some s -> if s = bin then "same" else "DIFFERENT" | None -> "ERR" in
      Printf.printf "bin=%s\tload=%s\ttext=%s\ttbin=%s\ttload=%s\tbinhex=%s\tutf8back=%s\n"
        (show bin) (opt show_fns ld) (opt show text) (opt show tbin) (opt show_fns tload) hex back
    end
  done with End_of_file -> ()
