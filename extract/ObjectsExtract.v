(* extraction of the object models: ExtrOcamlBasic only (bool, list, prod, option, unit, sumbool);
   N / Z / positive / nat stay the extracted inductive types *)
Require Extraction.
Require Import ExtrOcamlBasic.
From MS Require Import Objects.Spec.
Extraction Language OCaml.
Extraction "objects_model.ml" run spec_run.
