(* extraction of the container models: ExtrOcamlBasic only (bool, list, prod, option, unit, sumbool);
   N / Z / positive / nat stay the extracted inductive types *)
Require Extraction.
Require Import ExtrOcamlBasic.
From MS Require Import Containers.Spec.
Extraction Language OCaml.
Extraction "containers_model.ml" run spec_run.
