(* extraction of the code-generator model and the reference semantics: ExtrOcamlBasic only *)
Require Extraction.
Require Import ExtrOcamlBasic.
From MS Require Import Compile.Compile Lang.Eval Verify.Check Compile.StmtFragB.
Extraction Language OCaml.
Extraction "core_model.ml" cprogram run certify infer check in_fragment.
