(* trusted glue: one literal expression tree per line (prefix notation), prints
     <fold FixedF> \t <eval_rt Fixed> \t <fold OrigF> \t <eval_rt (Orig Trap)> \t <eval_rt (Orig Wrap)>
   tree  ::= leaf | (op tree tree) | (neg tree) | (not tree)
   leaf  ::= I<digits> | B<digits> | Y<digits> | F<16 hex> | Ttrue | Tfalse      (source literals, no sign)
   fold column : REJECT (compile error) | NOT (left to run time) | <value> (what make_* yields) |
                 RTFAIL (accepted, but the emitted make_* fails at run time)
   eval column : <value> | ERR | PANIC *)
open Fold_model

let rec pos_of_int n = if n = 1 then XH else if n land 1 = 0 then XO (pos_of_int (n lsr 1)) else XI (pos_of_int (n lsr 1))
let z_of_int n = if n = 0 then Z0 else if n > 0 then Zpos (pos_of_int n) else Zneg (pos_of_int (-n))
let rec int_of_pos = function XH -> 1 | XO p -> 2 * int_of_pos p | XI p -> 2 * int_of_pos p + 1
let int_of_z = function Z0 -> 0 | Zpos p -> int_of_pos p | Zneg p -> - (int_of_pos p)
let z10 = z_of_int 10 and z16 = z_of_int 16
let z_of_digits base digit s =
  let acc = ref Z0 in
  String.iter (fun c -> acc := Z.add (Z.mul !acc base) (z_of_int (digit c))) s; !acc
let z_of_dec s =
  let neg = String.length s > 0 && s.[0] = '-' in
  let body = if neg then String.sub s 1 (String.length s - 1) else s in
  let z = z_of_digits z10 (fun c -> Char.code c - 48) body in
  if neg then Z.opp z else z
let hexval c = if c >= '0' && c <= '9' then Char.code c - 48 else Char.code (Char.lowercase_ascii c) - 87
let z_of_hex s = z_of_digits z16 hexval s
let rec digits base z acc =
  if Z.eqb z Z0 then acc
  else let (q, r) = Z.quotrem z base in digits base q ("0123456789abcdef".[int_of_z r] :: acc)
let string_of_chars l = String.concat "" (List.map (String.make 1) l)
let dec_of_z z =
  if Z.eqb z Z0 then "0"
  else if Z.ltb z Z0 then "-" ^ string_of_chars (digits z10 (Z.opp z) [])
  else string_of_chars (digits z10 z [])
let hex16_of_z z =
  let s = string_of_chars (digits z16 z []) in
  String.make (16 - String.length s) '0' ^ s

let show_val = function
  | Int z -> "I" ^ dec_of_z z
  | Big z -> "B" ^ dec_of_z z
  | Byte z -> "Y" ^ dec_of_z z
  | Flt f -> "F" ^ hex16_of_z (bits_of_float f)
  | Bool b -> if b then "Ttrue" else "Tfalse"
let show_res = function Ok v -> show_val v | Err -> "ERR" | Panic -> "PANIC"
let show_fold = function
  | FErr -> "REJECT"
  | FNot -> "NOT"
  | FVal c -> (match make_c c with Ok v -> show_val v | _ -> "RTFAIL")

let op_of = function
  | "add" -> Arith Add | "sub" -> Arith Sub | "mul" -> Arith Mul | "div" -> Arith Div | "rem" -> Arith Rem
  | "and" -> Bit And | "or" -> Bit Or | "xor" -> Bit Xor
  | "shl" -> Shift Shl | "shr" -> Shift Shr
  | "lt" -> Cmp CLt | "le" -> Cmp CLe | "gt" -> Cmp CGt | "ge" -> Cmp CGe
  | "eq" -> Equ Eq_ | "ne" -> Equ Ne_
  | s -> failwith ("bad operator " ^ s)

let leaf s =
  let v = String.sub s 1 (String.length s - 1) in
  match s.[0] with
  | 'I' -> ENum (NInteger (Src (z_of_dec v)))
  | 'B' -> ENum (NBigInt (Src (z_of_dec v)))
  | 'Y' -> ENum (NByte (Src (z_of_dec v)))
  | 'F' -> ENum (NFloat (FSrc (float_of_bits (z_of_hex v))))
  | 'T' -> EBool (v = "true")
  | _ -> failwith ("bad leaf " ^ s)

(* tokens: "(" ")" atoms *)
let tokenize s =
  let toks = ref [] and cur = Buffer.create 16 in
  let flush () = if Buffer.length cur > 0 then (toks := Buffer.contents cur :: !toks; Buffer.clear cur) in
  String.iter (fun c -> match c with
    | '(' | ')' -> flush (); toks := String.make 1 c :: !toks
    | ' ' -> flush ()
    | c -> Buffer.add_char cur c) s;
  flush (); List.rev !toks

let rec parse = function
  | "(" :: "neg" :: rest -> let (e, rest) = parse rest in (ENeg e, close rest)
  | "(" :: "not" :: rest -> let (e, rest) = parse rest in (ENot e, close rest)
  | "(" :: op :: rest -> let (l, rest) = parse rest in let (r, rest) = parse rest in (EBin (op_of op, l, r), close rest)
  | atom :: rest -> (leaf atom, rest)
  | [] -> failwith "unexpected end"
and close = function ")" :: rest -> rest | _ -> failwith "expected )"

let () =
  try while true do
    let line = input_line stdin in
    let (e, _) = parse (tokenize line) in
    Printf.printf "%s\t%s\t%s\t%s\t%s\n" (show_fold (fold FixedF e)) (show_res (eval_rt Fixed e))
      (show_fold (fold OrigF e)) (show_res (eval_rt (Orig Trap) e)) (show_res (eval_rt (Orig Wrap) e))
  done with End_of_file -> ()
