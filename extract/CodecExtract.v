(* extraction of the codec models: ExtrOcamlBasic only (bool, list, prod, option, unit, sumbool);
   N / positive stay the extracted inductive types *)
Require Extraction.
Require Import ExtrOcamlBasic.
From MS Require Import Codec.Text Codec.Utf8.
Extraction Language OCaml.
Definition utf8_encode := Utf8.encode.
Definition utf8_decode := Utf8.decode.
Extraction "codec_model.ml" split load emit_bin emit_text transpile utf8_encode utf8_decode.
