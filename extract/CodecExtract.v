(* extraction of the codec models: ExtrOcamlBasic only (bool, list, prod, option, unit, sumbool);
   N / positive stay the extracted inductive types *)
Require Extraction.
Require Import ExtrOcamlBasic.
From MS Require Import Codec.Text.
Extraction Language OCaml.
Extraction "codec_model.ml" split load emit_bin emit_text transpile.
