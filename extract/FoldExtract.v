(* extraction of the constant-folder model + run-time evaluation of literal trees (C06):
   ExtrOcamlBasic only; Z / positive / Flocq's binary_float stay the extracted inductive types *)
Require Extraction.
Require Import ExtrOcamlBasic.
From MS Require Import Num.NumImpl Fold.FoldModel.
Extraction Language OCaml.

(* trusted glue, same as NumExtract.v *)
Definition float_of_bits (z : Z) : float :=
  let s := Z.odd (z / 9223372036854775808) in
  let e := (z / 4503599627370496) mod 2048 in
  let m := z mod 4503599627370496 in
  let sg (x : Z) := if s then - x else x in
  if e =? 0 then F_norm (sg m) (-1074) s
  else if e =? 2047 then (if m =? 0 then B754_infinity s else B754_nan)
  else F_norm (sg (m + 4503599627370496)) (e - 1075) s.

Definition bits_of_float (f : float) : Z :=
  let sb (s : bool) := if s then 9223372036854775808 else 0 in
  match f with
  | B754_zero s => sb s
  | B754_infinity s => sb s + 9218868437227405312
  | B754_nan => 9221120237041090560
  | B754_finite s m e _ =>
      if Zpos m <? 4503599627370496 then sb s + Zpos m
      else sb s + (e + 1075) * 4503599627370496 + (Zpos m - 4503599627370496)
  end.

Extraction "fold_model.ml" fold eval_rt make_c float_of_bits bits_of_float
  Z.add Z.mul Z.opp Z.quotrem Z.eqb Z.ltb.
