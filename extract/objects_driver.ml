(* trusted glue: reads one (class table, history) per line, runs the extracted impl-model (repaired and pre-fix) and the
   extracted specification, prints one JSON object per line.

   line     := classes '#' history
   classes  := class ('|' class)*           class := fields ':' arity ':' body
   fields   := '-' | int (',' int)*         body := '-' | item (',' item)*
   item     := field '=' ('p' int | 'e' | lit)
   history  := op (';' op)*                 op := name (' ' field)*
   lit      := 'i:'int | 's:'str | 'b:'('0'|'1') | 'n'
   str      := '-' (empty) | codepoint ('.' codepoint)*
   path     := var ('.' field)*
   operand  := 'L'lit | 'P'path
   meth     := get:f | set:f | inc:f | twice:f | with:f | me | bump:f | getb:f | setb:f | push:f | poke:f:g | dup(:f)* | neg:f | sum:f | pos:f | not:f | cat:f
   rmode    := var (bind) | 'p' (print) | '_' (drop) *)
open Objects_model

let rec pos_of_int n = if n = 1 then XH else if n land 1 = 0 then XO (pos_of_int (n lsr 1)) else XI (pos_of_int (n lsr 1))
let n_of_int n = if n = 0 then N0 else Npos (pos_of_int n)
let z_of_int n = if n = 0 then Z0 else if n > 0 then Zpos (pos_of_int n) else Zneg (pos_of_int (-n))
let rec nat_of_int n = if n = 0 then O else S (nat_of_int (n - 1))
let rec int_of_pos = function XH -> 1 | XO p -> 2 * int_of_pos p | XI p -> 2 * int_of_pos p + 1
let int_of_n = function N0 -> 0 | Npos p -> int_of_pos p
let int_of_z = function Z0 -> 0 | Zpos p -> int_of_pos p | Zneg p -> - (int_of_pos p)

let str_of s = if s = "-" || s = "" then [] else List.map (fun x -> n_of_int (int_of_string x)) (String.split_on_char '.' s)
let after s k = String.sub s k (String.length s - k)
let split1 c s = match String.index_opt s c with
  | Some k -> (String.sub s 0 k, after s (k + 1))
  | None -> (s, "")
let words c s = List.filter (fun t -> t <> "") (String.split_on_char c s)

let var s = n_of_int (int_of_string s)
let zint s = z_of_int (int_of_string s)
let lit s =
  if s = "n" then LNil
  else match split1 ':' s with
    | ("i", r) -> LInt (zint r)
    | ("s", r) -> LStr (str_of r)
    | ("b", r) -> LBool (r = "1")
    | _ -> failwith ("lit " ^ s)
let path s = match List.map var (words '.' s) with
  | x :: fs -> List.fold_left (fun p f -> PDot (p, f)) (PVar x) fs
  | [] -> failwith ("path " ^ s)
let operand s = match s.[0] with
  | 'L' -> OLit (lit (after s 1))
  | 'P' -> OPath (path (after s 1))
  | _ -> failwith ("operand " ^ s)
let binop = function "add" -> Add | "sub" -> Sub | "mul" -> Mul | s -> failwith ("binop " ^ s)
let meth s = match String.split_on_char ':' s with
  | ["get"; f] -> MGet (var f) | ["set"; f] -> MSet (var f) | ["inc"; f] -> MInc (var f)
  | ["twice"; f] -> MTwice (var f) | ["with"; f] -> MWith (var f) | ["me"] -> MMe
  | ["bump"; f] -> MBump (var f) | ["getb"; f] -> MGetBare (var f) | ["setb"; f] -> MSetBare (var f)
  | ["push"; f] -> MPush (var f) | ["poke"; f; g] -> MPoke (var f, var g)
  | "dup" :: fs -> MDup (List.map var fs)
  | ["neg"; f] -> MRo (RNeg, var f) | ["sum"; f] -> MRo (RSum, var f) | ["pos"; f] -> MRo (RPos, var f)
  | ["not"; f] -> MRo (RNot, var f) | ["cat"; f] -> MRo (RCat, var f)
  | _ -> failwith ("meth " ^ s)
let rmode s = if s = "_" then RDrop else if s = "p" then RPrint else RBind (var s)
let flag s = (s = "1")

let item s =
  let (f, r) = split1 '=' s in
  let i = if r = "e" then IEmpty
    else if r.[0] = 'p' then IParam (nat_of_int (int_of_string (after r 1)))
    else IConst (lit r) in
  (var f, i)
let cls s = match String.split_on_char ':' s with
  | fs :: ar :: rest ->
    let body = String.concat ":" rest in
    { c_fields = (if fs = "-" then [] else List.map var (words ',' fs));
      c_arity = nat_of_int (int_of_string ar);
      c_body = (if body = "-" then [] else List.map item (words ',' body)) }
  | _ -> failwith ("class " ^ s)

let op s =
  match words ' ' s with
  | "new" :: d :: c :: args -> New (var d, var c, List.map operand args)
  | ["bind"; d; p; u] -> Bind (var d, path p, flag u)
  | ["write"; p; f; v] -> Write (path p, var f, operand v)
  | ["opassign"; p; f; o; l] -> OpAssign (path p, var f, binop o, lit l)
  | ["print"; p] -> Print (path p)
  | ["isnil"; p] -> IsNil (path p)
  | "call" :: d :: p :: m :: args -> Call (rmode d, path p, meth m, List.map operand args)
  | "lnew" :: d :: es -> ListNew (var d, List.map operand es)
  | ["lpush"; l; v] -> ListPush (path l, operand v)
  | ["lget"; d; l; i] -> ListGet (var d, path l, zint i)
  | ["llen"; l] -> ListLen (path l)
  | ["pass"; p; f; d] -> PassAndMutate (path p, var f, lit d)
  | ["retsame"; d; p] -> ReturnSame (var d, path p)
  | ["is"; a; b] -> IsTest (path a, path b)
  | ["viamap"; d; p] -> ThroughMap (var d, path p)
  | _ -> failwith ("op " ^ s)

let rec oval = function
  | OInt z -> string_of_int (int_of_z z)
  | OStr s -> "{\"s\":[" ^ String.concat "," (List.map (fun c -> string_of_int (int_of_n c)) s) ^ "]}"
  | OBool b -> if b then "true" else "false"
  | ONil -> "null"
  | OList l -> "[" ^ String.concat "," (List.map oval l) ^ "]"
let fail = function
  | None -> "null" | Some Err -> "\"Err\"" | Some Stuck -> "\"Stuck\"" | Some Range -> "\"Range\""
let result (os, f) = "{\"obs\":[" ^ String.concat "," (List.map oval os) ^ "],\"fail\":" ^ fail f ^ "}"

let () =
  try while true do
    let line = input_line stdin in
    (try
      let (cs, hs) = split1 '#' line in
      let ct = List.map cls (words '|' cs) in
      let h = List.map op (List.filter (fun t -> String.trim t <> "") (String.split_on_char ';' hs)) in
      Printf.printf "{\"model\":%s,\"legacy\":%s,\"spec\":%s}\n" (result (run false ct h)) (result (run true ct h)) (result (spec_run ct h))
    with Failure m -> Printf.printf "{\"error\":\"%s\"}\n" (String.escaped m)
       | Invalid_argument m -> Printf.printf "{\"error\":\"%s\"}\n" (String.escaped m))
  done with End_of_file -> ()
