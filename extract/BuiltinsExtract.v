(* extraction of the built-in models (C14): ExtrOcamlBasic only; Z / N / positive stay inductive types *)
Require Extraction.
Require Import ExtrOcamlBasic.
From MS Require Import Builtins.F64 Builtins.Val Builtins.Dispatch.
Extraction Language OCaml.
Extraction "builtins_model.ml" run_impl run_impl_head run_spec declared of_bits to_bits.
