(* Strings as lists of Unicode scalar values (N); the characters that matter to the codecs. *)
From Coq Require Export List NArith Bool Lia.
Export ListNotations.
Open Scope N_scope.

Definition ch := N.
Definition str := list N.

Definition c_nul : N := 0.
Definition c_tab : N := 9.
Definition c_lf  : N := 10.
Definition c_cr  : N := 13.
Definition c_sp  : N := 32.
Definition c_dq  : N := 34.
Definition c_bs  : N := 92.
Definition c_e   : N := 101.
Definition c_f   : N := 102.
Definition c_n   : N := 110.
Definition c_r   : N := 114.
Definition c_t   : N := 116.

(* Rust's char::is_whitespace = Unicode White_Space *)
Definition is_ws (c : N) : bool :=
  ((9 <=? c) && (c <=? 13)) || (c =? 32) || (c =? 133) || (c =? 160) || (c =? 5760)
  || ((8192 <=? c) && (c <=? 8202)) || (c =? 8232) || (c =? 8233) || (c =? 8239)
  || (c =? 8287) || (c =? 12288).

Definition str_eqb (a b : str) : bool :=
  (fix go a b := match a, b with
                 | [], [] => true
                 | x :: a, y :: b => (x =? y) && go a b
                 | _, _ => false end) a b.

Definition is_nil {A} (l : list A) : bool := match l with [] => true | _ => false end.
