(* C09: a certificate checker for compiled functions.
   A labelling assigns to every reachable instruction index the number of block frames
   (<if>/<else>/<while>) the activation has open there and the set of possible operand-stack
   lengths.  `check` validates a proposed labelling locally; `infer` (a work-list, NOT verified)
   proposes one.  Soundness w.r.t. the VM model is proved in Verify/Sound.v. *)
From MS Require Export Vm.Model.
Open Scope nat_scope.

Definition label := (nat * list nat)%type.            (* block depth, operand lengths *)
Definition labelling := list (option label).

Inductive target := TIp (k : Z) | TExit.
(* an edge: where control goes, with which block depth and operand length *)
Definition edge := (target * nat * nat)%type.

Inductive astep := ABad | AEdges (es : list edge) | ACall (es : list edge).
(* ACall: exactly one of the edges is taken, depending on whether the callee returns a value *)

Definition nxt (ip : nat) : target := TIp (Z.of_nat ip + 1).
Definition rel (ip : nat) (off : Z) : target := TIp (Z.of_nat ip + off).

Definition abs_step (d : dinstr) (ip depth n : nat) : astep :=
  let next n' := AEdges [(nxt ip, depth, n')] in
  match d with
  | DMakeInt _ | DMakeBool _ | DMakeStr _ | DReserve | DLoad _ | DLoadFast _ | DLoadCallback _
  | DArg _ | DDeleteRef _ | DMakeFunction _ _ => next (S n)
  | DVoid => next 0
  | DPop => next (pred n)
  | DPrint | DDelete _ => next n
  | DBinOp _ => if 2 <=? n then next 1 else ABad
  | DNeg | DNot | DUnwrap _ | DUnwrapInto _ | DBinOpAssign _ _ => if 1 <=? n then next n else ABad
  | DEqu | DNeq => if n =? 2 then next 1 else ABad
  | DRev2 => if n =? 2 then next 2 else ABad
  | DStore _ | DStoreFast _ | DStoreObject _ | DAssert _ => if n =? 1 then next 0 else ABad
  | DIf off | DWhile off => if 1 <=? n then AEdges [(nxt ip, S depth, 0); (rel ip off, depth, 0)] else ABad
  | DElse => AEdges [(nxt ip, S depth, n)]
  | DDone => match depth with S k => AEdges [(nxt ip, k, n)] | O => ABad end
  | DJmp off => AEdges [(rel ip off, depth, n)]
  | DJmpPop off k => if k <=? depth then AEdges [(rel ip off, depth - k, n)] else ABad
  | DStoreSkip _ _ off => if n =? 1 then AEdges [(rel ip off, depth, 1); (nxt ip, depth, 0)] else ABad
  | DJmpNotNil off => if 1 <=? n then AEdges [(nxt ip, depth, pred n); (rel ip off, depth, n)] else ABad
  | DCall (Some _) | DCallSelf => ACall [(nxt ip, depth, 0); (nxt ip, depth, 1)]
  | DCall None => if 1 <=? n then ACall [(nxt ip, depth, 0); (nxt ip, depth, 1)] else ABad
  | DRet => if n <=? 1 then AEdges [(TExit, depth, n)] else ABad
  | DRetMod => if n =? 0 then AEdges [(TExit, depth, 0)] else ABad
  end.

Definition lab_at (ds : labelling) (k : nat) : option label :=
  match nth_error ds k with Some (Some l) => Some l | _ => None end.

Definition mem (n : nat) (l : list nat) : bool := existsb (Nat.eqb n) l.

(* is an edge accepted by the labelling?  len = number of instructions *)
Definition edge_ok (len : nat) (ds : labelling) (e : edge) : bool :=
  let '(t, d, n) := e in
  match t with
  | TExit => true
  | TIp k =>
    if (k <? 0)%Z then false else
    let k := Z.to_nat k in
    if k =? len then d =? 0                       (* falling off the end pops exactly one frame *)
    else if len <? k then false
    else match lab_at ds k with
         | Some (d', s') => (d' =? d) && mem n s'
         | None => false end
  end.

(* a jump (not a fall-through) may not target len: the interpreter rejects `goto >= len` *)
Definition is_next (ip : nat) (e : edge) : bool :=
  match e with (TIp k, _, _) => (k =? Z.of_nat ip + 1)%Z | _ => true end.
Definition jump_in_range (len ip : nat) (e : edge) : bool :=
  match e with
  | (TIp k, _, _) => is_next ip e || ((0 <=? k)%Z && (k <? Z.of_nat len)%Z)
  | _ => true end.

(* the offset of an explicit jump: its target must be an instruction of the function (the interpreter
   rejects `goto >= len`), also when the offset happens to be 1 *)
Definition jump_off (d : dinstr) : option Z :=
  match d with
  | DIf o | DWhile o | DJmp o | DJmpPop o _ | DStoreSkip _ _ o | DJmpNotNil o => Some o
  | _ => None end.

Definition check_at (code : list instr) (ds : labelling) (ip : nat) : bool :=
  match lab_at ds ip with
  | None => true
  | Some (depth, s) =>
    match nth_error code ip with
    | None => false
    | Some i =>
      match decode i with
      | DErr _ => false
      | DOk d =>
        negb (is_nil s) &&
        match jump_off d with
        | Some o => (0 <=? Z.of_nat ip + o)%Z && (Z.of_nat ip + o <? Z.of_nat (length code))%Z
        | None => true end &&
        forallb (fun n =>
          match abs_step d ip depth n with
          | ABad => false
          | AEdges es => forallb (fun e => edge_ok (length code) ds e && jump_in_range (length code) ip e) es
          | ACall es => existsb (edge_ok (length code) ds) es
          end) s
      end
    end
  end.

Definition check (code : list instr) (ds : labelling) : bool :=
  (length ds =? length code) &&
  match code with
  | [] => true
  | _ => match lab_at ds 0 with Some (0, s) => mem 0 s | _ => false end
  end &&
  forallb (check_at code ds) (seq 0 (length code)).

(* ---------------------------------------------------------------- inference (unverified work-list) *)
Fixpoint set_lab (k : nat) (l : label) (ds : labelling) : labelling :=
  match k, ds with
  | _, [] => []
  | O, _ :: r => Some l :: r
  | S k, x :: r => x :: set_lab k l r
  end.

(* add (d, n) at k; returns (labelling, changed?, conflict?) *)
Definition add_lab (len : nat) (ds : labelling) (e : edge) : labelling * bool * bool :=
  let '(t, d, n) := e in
  match t with
  | TExit => (ds, false, false)
  | TIp k =>
    if (k <? 0)%Z then (ds, false, true) else
    let k := Z.to_nat k in
    if len <=? k then (ds, false, negb ((k =? len) && (d =? 0)))
    else match lab_at ds k with
         | None => (set_lab k (d, [n]) ds, true, false)
         | Some (d', s) => if negb (d' =? d) then (ds, false, true)
                           else if mem n s then (ds, false, false)
                           else if 8 <? length s then (ds, false, true)
                           else (set_lab k (d, n :: s) ds, true, false)
         end
  end.

(* `calls_value ip` : does the call at ip deliver a value?  Decided by what the NEXT instruction needs:
   the work-list first tries "one value", and falls back to "no value" if that is rejected. *)
Fixpoint infer_loop (fuel : nat) (code : list instr) (ds : labelling) (work : list (nat * nat)) (arity : nat -> list nat)
  : option labelling :=
  match fuel with O => None | S fuel =>
  match work with
  | [] => Some ds
  | (ip, n) :: work =>
    match lab_at ds ip, nth_error code ip with
    | Some (depth, _), Some i =>
      match decode i with
      | DErr _ => None
      | DOk d =>
        let es := match abs_step d ip depth n with
                  | ABad => None
                  | AEdges es => Some es
                  | ACall es => Some (flat_map (fun k => match nth_error es k with Some e => [e] | None => [] end) (arity ip))
                  end in
        match es with
        | None => None
        | Some es =>
          let '(ds', work', bad) :=
            fold_left (fun '(ds, work, bad) e =>
                         let '(ds', changed, conflict) := add_lab (length code) ds e in
                         (ds', (if changed then match e with (TIp k, _, n') => (Z.to_nat k, n') :: work | _ => work end else work),
                          bad || conflict)) es (ds, work, false) in
          if bad then None else infer_loop fuel code ds' work' arity
        end
      end
    | _, _ => None
    end
  end end.

Definition infer_with (code : list instr) (arity : nat -> list nat) : option labelling :=
  match code with
  | [] => Some []
  | _ => infer_loop (200 * S (length code)) code
           (set_lab 0 (0, [0]) (repeat None (length code))) [(0, 0)] arity
  end.

(* which result arity each call site needs is found by looking at its successor:
   `void`/`pop`/`ret`-like successors accept anything; try value first *)
Definition needs_value (code : list instr) (ip : nat) : list nat :=
  match nth_error code (S ip) with
  | Some i => if (op i =? OP_VOID)%N then [0; 1] else [1]
  | None => [0; 1]
  end.

Definition infer (code : list instr) : option labelling :=
  match infer_with code (needs_value code) with
  | Some ds => Some ds
  | None => infer_with code (fun _ => [0; 1])
  end.

Definition certify (code : list instr) : bool :=
  match infer code with Some ds => check code ds | None => false end.
