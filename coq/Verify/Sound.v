(* C09: soundness of the certificate checker `Verify.Check.check` w.r.t. the VM model `Vm.Model`.
   Theorem A (frames_safe)  : frames and jumps, for ANY return hook (so for the interpreter `run_fn`).
   Theorem B (shapes_safe)  : operand shapes, under the arity hook `rc_of`.
   Corollaries              : execute_done_empty, loop heads. *)
From MS Require Import Vm.Model Verify.Check.
From Coq Require Import Lia.
Open Scope nat_scope.

(* ================================================================ statements' vocabulary *)
Definition checked (p : program) : Prop :=
  forall name code, assoc name p = Some code -> exists ds, check code ds = true.

(* structural failures: the ones a malformed frame/jump structure produces *)
Definition structural (e : err) : Prop :=
  e = E_goto_range \/ e = E_panic OP_DONE \/ e = E_panic OP_JMP_POP \/ e = E_panic 0%N.

(* a stack segment contributed by active calls, innermost first: for each activation its open block
   frames (all special) followed by its function frame *)
Inductive chain : list frame -> Prop :=
| chain_nil : chain []
| chain_cons : forall blocks n vs rest, Forall (fun f => special (lab f) = true) blocks ->
               chain rest -> chain (blocks ++ {| lab := LFun n; vars := vs |} :: rest).

(* operand-shape failures: an instruction did not find the operands it requires *)
Definition shape_err (e : err) : Prop :=
  (exists o, e = E_stack_shape o) \/ e = E_panic OP_NEG \/ e = E_panic OP_NOT \/ e = E_panic OP_UNWRAP
  \/ e = E_panic OP_JMP_NOT_NIL.

(* boolean versions (for computation inside the case analyses) *)
Definition structuralb (e : err) : bool :=
  match e with
  | E_goto_range => true
  | E_panic o => (o =? OP_DONE)%N || (o =? OP_JMP_POP)%N || (o =? 0)%N
  | _ => false end.
Definition shape_errb (e : err) : bool :=
  match e with
  | E_stack_shape _ => true
  | E_panic o => (o =? OP_NEG)%N || (o =? OP_NOT)%N || (o =? OP_UNWRAP)%N || (o =? OP_JMP_NOT_NIL)%N
  | _ => false end.

Lemma structuralb_false : forall e, structuralb e = false -> ~ structural e.
Proof.
  intros e H [E|[E|[E|E]]]; subst e; vm_compute in H; discriminate.
Qed.
Lemma shape_errb_false : forall e, shape_errb e = false -> ~ shape_err e.
Proof.
  intros e H [[o E]|[E|[E|[E|E]]]]; subst e; vm_compute in H; discriminate.
Qed.

(* ================================================================ small list facts *)
Lemma unsnoc_some : forall A (l : list A) r x, unsnoc l = Some (r, x) -> l = r ++ [x].
Proof.
  induction l as [|a l IH]; intros r x H; [discriminate|].
  destruct l as [|b l'].
  - cbn in H. inversion H. reflexivity.
  - change (unsnoc (a :: b :: l')) with
      (match unsnoc (b :: l') with Some (i, z) => Some (a :: i, z) | None => None end) in H.
    destruct (unsnoc (b :: l')) as [[i z]|] eqn:E; [|discriminate].
    inversion H; subst. rewrite (IH i x eq_refl). reflexivity.
Qed.
Lemma unsnoc_none : forall A (l : list A), unsnoc l = None -> l = [].
Proof.
  induction l as [|a l IH]; intros H; [reflexivity|].
  destruct l as [|b l'].
  - cbn in H. discriminate.
  - change (unsnoc (a :: b :: l')) with
      (match unsnoc (b :: l') with Some (i, z) => Some (a :: i, z) | None => None end) in H.
    destruct (unsnoc (b :: l')) as [[i z]|] eqn:E; [discriminate|].
    specialize (IH eq_refl). discriminate.
Qed.

Lemma mem_In : forall n s, mem n s = true <-> In n s.
Proof.
  intros n s. unfold mem. rewrite existsb_exists. split.
  - intros [x [Hx E]]. apply Nat.eqb_eq in E. subst. exact Hx.
  - intros H. exists n. split; [exact H|apply Nat.eqb_refl].
Qed.

Ltac b2p := repeat match goal with
  | H : (_ <=? _) = true |- _ => apply Nat.leb_le in H
  | H : (_ <=? _) = false |- _ => apply Nat.leb_gt in H
  | H : (_ <? _) = true |- _ => apply Nat.ltb_lt in H
  | H : (_ <? _) = false |- _ => apply Nat.ltb_ge in H
  | H : (_ =? _) = true |- _ => apply Nat.eqb_eq in H
  | H : (_ =? _) = false |- _ => apply Nat.eqb_neq in H
  | H : (_ <=? _)%Z = true |- _ => apply Z.leb_le in H
  | H : (_ <=? _)%Z = false |- _ => apply Z.leb_gt in H
  | H : (_ <? _)%Z = true |- _ => apply Z.ltb_lt in H
  | H : (_ <? _)%Z = false |- _ => apply Z.ltb_ge in H
  | H : (_ =? _)%Z = true |- _ => apply Z.eqb_eq in H
  | H : (_ =? _)%Z = false |- _ => apply Z.eqb_neq in H
  | H : (_ && _) = true |- _ => apply andb_true_iff in H; destruct H
  end.

(* destruct the innermost `match` scrutinee of the goal *)
Ltac break1 :=
  match goal with
  | |- context [match ?x with _ => _ end] =>
      lazymatch x with
      | context [match _ with _ => _ end] => fail
      | _ => (is_var x; destruct x) || destruct x eqn:?
      end
  end.
Ltac break := repeat break1.

(* ================================================================ the labelling: what `check` gives *)
(* position invariant: ip is an instruction labelled with this depth, or the end with depth 0 *)
Definition pos_ok (len : nat) (ds : labelling) (ip depth : nat) : Prop :=
  (ip = len /\ depth = 0) \/ (ip < len /\ exists s, lab_at ds ip = Some (depth, s)).
(* the same with the operand length *)
Definition pos_okn (len : nat) (ds : labelling) (ip n : nat) : Prop :=
  len <= ip \/ exists depth s, lab_at ds ip = Some (depth, s) /\ In n s.

Lemma edge_ok_inv : forall len ds k d n, edge_ok len ds (TIp k, d, n) = true ->
  (0 <= k)%Z /\ ((Z.to_nat k = len /\ d = 0) \/
                 (Z.to_nat k < len /\ exists s, lab_at ds (Z.to_nat k) = Some (d, s) /\ In n s)).
Proof.
  intros len ds k d n H. unfold edge_ok in H.
  destruct (k <? 0)%Z eqn:E0; [discriminate|]. b2p. split; [lia|].
  destruct (Z.to_nat k =? len) eqn:E1; b2p.
  - left. split; assumption.
  - destruct (len <? Z.to_nat k) eqn:E2; [discriminate|]. b2p. right. split; [lia|].
    destruct (lab_at ds (Z.to_nat k)) as [[d' s']|]; [|discriminate].
    b2p. subst d'. exists s'. split; [reflexivity|]. apply mem_In. assumption.
Qed.

Definition tgtA (len : nat) (ds : labelling) (t : target) (d : nat) : Prop :=
  match t with TIp k => (0 <= k)%Z /\ pos_ok len ds (Z.to_nat k) d | TExit => True end.
Definition tgtB (len : nat) (ds : labelling) (t : target) (d n : nat) : Prop :=
  match t with
  | TIp k => (0 <= k)%Z /\ (Z.to_nat k = len \/ exists s, lab_at ds (Z.to_nat k) = Some (d, s) /\ In n s)
  | TExit => True end.

Lemma edge_ok_tgtA : forall len ds t d n, edge_ok len ds (t, d, n) = true -> tgtA len ds t d.
Proof.
  intros len ds [k|] d n H; [|exact I]. apply edge_ok_inv in H. destruct H as [H0 [[H1 H2]|[H1 [s [H2 _]]]]].
  - split; [exact H0|]. left. split; assumption.
  - split; [exact H0|]. right. split; [exact H1|]. exists s. exact H2.
Qed.
Lemma edge_ok_tgtB : forall len ds t d n, edge_ok len ds (t, d, n) = true -> tgtB len ds t d n.
Proof.
  intros len ds [k|] d n H; [|exact I]. apply edge_ok_inv in H. destruct H as [H0 [[H1 H2]|[H1 [s H2]]]].
  - split; [exact H0|]. left. exact H1.
  - split; [exact H0|]. right. exists s. exact H2.
Qed.

(* predicates over the edges of an abstract step *)
Fixpoint all_e (Q : target -> nat -> nat -> Prop) (es : list edge) : Prop :=
  match es with [] => True | (t, d, n) :: es => Q t d n /\ all_e Q es end.
Fixpoint ex_e (Q : target -> nat -> nat -> Prop) (es : list edge) : Prop :=
  match es with [] => False | (t, d, n) :: es => Q t d n \/ ex_e Q es end.
Definition covers (s : astep) (Q : target -> nat -> nat -> Prop) : Prop :=
  match s with ABad => False | AEdges es => all_e Q es | ACall es => ex_e Q es end.

Lemma all_e_forallb : forall (f : edge -> bool) (Q : target -> nat -> nat -> Prop),
  (forall t d n, f (t, d, n) = true -> Q t d n) -> forall es, forallb f es = true -> all_e Q es.
Proof.
  intros f Q HfQ. induction es as [|[[t d] n] es IH]; cbn [forallb all_e]; intros H; [exact I|].
  apply andb_true_iff in H. destruct H as [H1 H2]. split; [apply HfQ; exact H1|apply IH; exact H2].
Qed.
Lemma ex_e_existsb : forall (f : edge -> bool) (Q : target -> nat -> nat -> Prop),
  (forall t d n, f (t, d, n) = true -> Q t d n) -> forall es, existsb f es = true -> ex_e Q es.
Proof.
  intros f Q HfQ. induction es as [|[[t d] n] es IH]; cbn [existsb ex_e]; intros H; [discriminate|].
  apply orb_true_iff in H. destruct H as [H|H]; [left; apply HfQ; exact H|right; apply IH; exact H].
Qed.

Lemma check_len : forall code ds, check code ds = true -> length ds = length code.
Proof.
  intros code ds H. unfold check in H. apply andb_true_iff in H. destruct H as [H _].
  apply andb_true_iff in H. destruct H as [H _]. apply Nat.eqb_eq in H. exact H.
Qed.

Lemma check_entry : forall code ds, check code ds = true -> code <> [] ->
  exists s, lab_at ds 0 = Some (0, s) /\ In 0 s.
Proof.
  intros code ds H Hne. unfold check in H. apply andb_true_iff in H. destruct H as [H _].
  apply andb_true_iff in H. destruct H as [_ H]. destruct code as [|i code]; [congruence|].
  destruct (lab_at ds 0) as [[[|d] s]|]; try discriminate. exists s. split; [reflexivity|].
  apply mem_In. exact H.
Qed.

Lemma lab_at_lt : forall ds k l, lab_at ds k = Some l -> k < length ds.
Proof.
  intros ds k l H. unfold lab_at in H. destruct (nth_error ds k) eqn:E; [|discriminate].
  apply nth_error_Some. congruence.
Qed.

(* everything `check` says about a labelled instruction *)
Lemma check_at_inv : forall code ds ip depth s, check code ds = true -> lab_at ds ip = Some (depth, s) ->
  exists i d, nth_error code ip = Some i /\ decode i = DOk d /\ s <> [] /\
    (forall o, jump_off d = Some o -> (0 <= Z.of_nat ip + o < Z.of_nat (length code))%Z) /\
    (forall n, In n s ->
       covers (abs_step d ip depth n) (fun t d' n' => edge_ok (length code) ds (t, d', n') = true)).
Proof.
  intros code ds ip depth s Hc Hl.
  assert (Hlen := check_len _ _ Hc). assert (Hip := lab_at_lt _ _ _ Hl). rewrite Hlen in Hip.
  unfold check in Hc. apply andb_true_iff in Hc. destruct Hc as [_ Hall].
  rewrite forallb_forall in Hall. specialize (Hall ip).
  assert (Hin : In ip (seq 0 (length code))) by (apply in_seq; lia).
  specialize (Hall Hin). unfold check_at in Hall. rewrite Hl in Hall.
  destruct (nth_error code ip) as [i|] eqn:Ei; [|discriminate].
  destruct (decode i) as [d|] eqn:Ed; [|discriminate].
  exists i, d. split; [reflexivity|]. split; [exact Ed|].
  apply andb_true_iff in Hall. destruct Hall as [Hall H3].
  apply andb_true_iff in Hall. destruct Hall as [H1 H2].
  split; [destruct s; [discriminate|congruence]|]. split.
  - intros o Ho. rewrite Ho in H2. b2p. lia.
  - intros n Hn. rewrite forallb_forall in H3. specialize (H3 n Hn).
    destruct (abs_step d ip depth n) as [|es|es]; [discriminate| |]; cbn [covers].
    + revert H3. apply all_e_forallb. intros t d' n' H. apply andb_true_iff in H. apply H.
    + revert H3. apply ex_e_existsb. intros t d' n' H. exact H.
Qed.

Lemma covers_mono : forall s (Q Q' : target -> nat -> nat -> Prop),
  (forall t d n, Q t d n -> Q' t d n) -> covers s Q -> covers s Q'.
Proof.
  intros s Q Q' HQ. destruct s as [|es|es]; cbn [covers]; [tauto| |].
  - induction es as [|[[t d] n] es IH]; cbn [all_e]; [tauto|]. intros [H1 H2]. split; auto.
  - induction es as [|[[t d] n] es IH]; cbn [ex_e]; [tauto|]. intros [H1|H2]; auto.
Qed.

(* ================================================================ one instruction: frames, control, operands *)
(* only the TOP frame's variable map may change (bind_local / delete); cells live in the heap *)
Definition top_upd (fs fs' : list frame) : Prop :=
  fs' = fs \/ exists f r vs, fs = f :: r /\ fs' = {| lab := lab f; vars := vs |} :: r.
Definition gupd (g g' : gstate) : Prop := top_upd (frames g) (frames g') /\ trace g' = trace g.

Lemma gupd_refl : forall g, gupd g g.
Proof. intros g. split; [left|]; reflexivity. Qed.
Lemma gupd_cell_set : forall g c v, gupd g (cell_set g c v).
Proof. intros. split; [left|]; reflexivity. Qed.
Lemma gupd_emit : forall g l, gupd g (emit_line g l).
Proof. intros. split; [left|]; reflexivity. Qed.
Lemma gupd_top : forall g f r vs, frames g = f :: r -> gupd g (with_frames g ({| lab := lab f; vars := vs |} :: r)).
Proof. intros g f r vs H. split; [right; exists f, r, vs; split; [exact H|reflexivity]|reflexivity]. Qed.
Lemma gupd_bind_local : forall g n v g', bind_local g n v = Some g' -> gupd g g'.
Proof.
  intros g n v g' H. unfold bind_local in H. destruct (frames g) as [|f r] eqn:E; [discriminate|].
  cbn in H. inversion H; subst g'. split; [|reflexivity]. right. cbn. rewrite E.
  exists f, r, (assoc_set n (N.of_nat (length (cells g))) (vars f)). split; reflexivity.
Qed.
Lemma gupd_store_var : forall g n v g', store_var g n v = Some g' -> gupd g g'.
Proof.
  intros g n v g' H. unfold store_var in H. destruct (find_in_function n (frames g)).
  - inversion H. apply gupd_cell_set.
  - eapply gupd_bind_local; exact H.
Qed.

Lemma exec_d_frames : forall d a g,
  match exec_d d a g with
  | SNext a' g' => gupd g g' /\ a_ss a' = a_ss a /\ a_ip a' = a_ip a
  | SGoto _ a' g' | SGotoPop _ _ a' g' | SPopScope a' g' | SRet _ a' g' | SCall _ _ _ a' g' | SPush _ a' g' =>
      g' = g /\ a_ss a' = a_ss a /\ a_ip a' = a_ip a
  | SFail _ => True end.
Proof.
  intros d a g. unfold exec_d. destruct d; cbv beta iota zeta; break; cbn [set_ops a_ss a_ip];
    try exact I; (split; [|split; reflexivity]); try reflexivity;
    eauto using gupd_refl, gupd_cell_set, gupd_emit, gupd_top, gupd_bind_local, gupd_store_var.
Qed.

Lemma bin_op_err : forall sym l r e, bin_op_sem sym l r = OE e -> structuralb e = false /\ shape_errb e = false.
Proof.
  intros sym l r e H. unfold bin_op_sem, arith in H.
  repeat match type of H with
  | context [match ?x with _ => _ end] =>
      lazymatch x with
      | context [match _ with _ => _ end] => fail
      | _ => (is_var x; destruct x) || destruct x eqn:?
      end
  end; inversion H; split; reflexivity.
Qed.

Ltac split_ifs H :=
  repeat match type of H with
  | context [if ?c then _ else _] => destruct c eqn:?
  | context [match ?x with O => _ | S _ => _ end] => is_var x; destruct x
  end.

Lemma exec_d_ctl : forall d a g ip depth n0 (Q : target -> nat -> Prop),
  covers (abs_step d ip depth n0) (fun t d' _ => Q t d') ->
  match exec_d d a g with
  | SNext _ _ => Q (nxt ip) depth
  | SGoto off _ _ => Q (rel ip off) depth /\ jump_off d = Some off
  | SPush l _ _ => Q (nxt ip) (S depth) /\ special l = true
  | SGotoPop off k _ _ => k <= depth /\ Q (rel ip off) (depth - k) /\ jump_off d = Some off
  | SPopScope _ _ => exists k, depth = S k /\ Q (nxt ip) k
  | SRet _ _ _ => True
  | SCall _ _ _ _ _ => Q (nxt ip) depth
  | SFail e => structuralb e = false
  end.
Proof.
  intros d a g ip depth n0 Q H. unfold exec_d.
  destruct d; cbn [abs_step] in H; split_ifs H; cbn [covers all_e ex_e] in H; try contradiction;
    cbv beta iota zeta; break; b2p; cbn [jump_off special];
    try exact I; try reflexivity; try tauto;
    try (eapply bin_op_err; eassumption);
    try (eexists; split; [reflexivity|tauto]).
Qed.

Definition coversB (s : astep) (Q : target -> nat -> nat -> Prop) : Prop :=
  match s with ABad => False | AEdges es => all_e Q es | ACall _ => True end.

Ltac list_eqs := repeat match goal with
  | H : unsnoc ?l = Some (_, _) |- _ => apply unsnoc_some in H; subst l
  | H : unsnoc ?l = None |- _ => apply unsnoc_none in H; subst l
  end.

Ltac q_close :=
  repeat match goal with H : _ /\ _ |- _ => destruct H end;
  match goal with
  | H : ?Q ?t ?d ?n |- ?Q ?t ?d ?m => replace m with n by lia; exact H
  end.

Lemma exec_d_shape : forall d a g ip depth (Q : target -> nat -> nat -> Prop),
  coversB (abs_step d ip depth (length (a_ops a))) Q ->
  match exec_d d a g with
  | SNext a' _ => Q (nxt ip) depth (length (a_ops a'))
  | SGoto off a' _ => Q (rel ip off) depth (length (a_ops a'))
  | SPush l a' _ => Q (nxt ip) (S depth) (length (a_ops a'))
  | SGotoPop off k a' _ => Q (rel ip off) (depth - k) (length (a_ops a'))
  | SPopScope a' _ => exists k, depth = S k /\ Q (nxt ip) k (length (a_ops a'))
  | SRet _ _ _ => True
  | SCall _ _ _ a' _ => a_ops a' = []
  | SFail e => shape_errb e = false
  end.
Proof.
  intros d a g ip depth Q H. destruct a as [fn ip0 ops args0 cb ss]. unfold exec_d. cbn [a_ops] in *.
  destruct d; cbn [abs_step] in H; cbv beta iota zeta; break; list_eqs;
    cbn [set_ops a_ops] in *; rewrite ?app_length in *; cbn [length] in *;
    split_ifs H; b2p; cbn [coversB all_e] in H; try contradiction; try lia;
    try exact I; try reflexivity;
    try (eapply bin_op_err; eassumption);
    try q_close; try (eexists; split; [reflexivity|q_close]).
Qed.

(* ================================================================ the interpreter loop as a top-level function *)
Section Loop.
  Variable rc : str -> nat -> bool -> bool.
  Variable callee : str -> list value -> option (list (str * N)) -> gstate -> rres.
  Variable name : str.
  Variable code : list instr.
  Fixpoint loop (fuel : nat) (a : act) (g : gstate) {struct fuel} : rres :=
    match fuel with O => RFuel | S fuel =>
    match nth_error code (a_ip a) with
    | None => match pop_frame g with Some g' => RDone None g' | None => RFail (E_panic 0%N) g end
    | Some i =>
      let g := add_trace g (name, N.of_nat (a_ip a), op i, N.of_nat (length (frames g)), N.of_nat (length (a_ops a))) in
      match exec i a g with
      | SFail e => RFail e g
      | SNext a g => loop fuel (set_ip a (S (a_ip a))) g
      | SGoto off a g => match goto (length code) (a_ip a) off with
                         | Some t => loop fuel (set_ip a t) g | None => RFail E_goto_range g end
      | SPush l a g => loop fuel (set_ip (set_ss a (S (a_ss a))) (S (a_ip a))) (push_frame g l)
      | SGotoPop off n a g =>
        match goto (length code) (a_ip a) off with
        | None => RFail E_goto_range g
        | Some t => match pop_frames n g with
                    | Some g' => loop fuel (set_ip a t) g' | None => RFail (E_panic OP_JMP_POP) g end
        end
      | SPopScope a g =>
        match a_ss a with
        | O => loop fuel (set_ip a (S (a_ip a))) g
        | S k => match pop_frame g with
                 | Some g' => loop fuel (set_ip (set_ss a k) (S (a_ip a))) g'
                 | None => RFail (E_panic OP_DONE) g end
        end
      | SRet rv a g => RDone rv (with_frames g (drop_to_function (frames g)))
      | SCall dest cb' argv' a g =>
        match callee dest argv' cb' g with
        | RDone rv g' =>
          if negb (rc name (a_ip a) (match rv with Some _ => true | None => false end)) then RFail E_arity g' else
          loop fuel (set_ip (match rv with Some v => set_ops a (a_ops a ++ [v]) | None => a end) (S (a_ip a))) g'
        | RFail e g' => RFail e g'
        | RFuel => RFuel end
      end
    end end.
End Loop.

Definition act0 (name : str) (argv : list value) (cb : option (list (str * N))) : act :=
  {| a_fn := name; a_ip := 0; a_ops := []; a_args := argv; a_cb := cb; a_ss := 0 |}.

Lemma run_fn_gen_S : forall rc fuel0 p name argv cb g,
  run_fn_gen rc (S fuel0) p name argv cb g =
  match assoc name p with
  | None => RFail (E_no_function name) g
  | Some code => loop rc (run_fn_gen rc fuel0 p) name code fuel0 (act0 name argv cb) (push_frame g (LFun name))
  end.
Proof. reflexivity. Qed.

(* ================================================================ Theorem A: frames and jumps *)
Definition is_special (f : frame) : Prop := special (lab f) = true.

Definition shape (name : str) (base : list frame) (depth : nat) (fs : list frame) : Prop :=
  exists blocks vs, fs = blocks ++ {| lab := LFun name; vars := vs |} :: base /\ length blocks = depth
    /\ Forall is_special blocks.

Lemma shape_top_upd : forall name base d fs fs', shape name base d fs -> top_upd fs fs' -> shape name base d fs'.
Proof.
  intros name base d fs fs' [blocks [vs [E [L F]]]] [U|[f [r [vs' [U1 U2]]]]].
  - subst fs'. exists blocks, vs. auto.
  - subst fs fs'. destruct blocks as [|b bl]; cbn [app] in U1; inversion U1; subst.
    + exists [], vs'. cbn. auto.
    + exists ({| lab := lab f; vars := vs' |} :: bl), vs. cbn [app length]. split; [reflexivity|]. split; [reflexivity|].
      constructor; [exact (Forall_inv F)|exact (Forall_inv_tail F)].
Qed.

Lemma shape_push : forall name base d fs l, shape name base d fs -> special l = true ->
  shape name base (S d) ({| lab := l; vars := [] |} :: fs).
Proof.
  intros name base d fs l [blocks [vs [E [L F]]]] Hl. subst fs.
  exists ({| lab := l; vars := [] |} :: blocks), vs. cbn [app length]. split; [reflexivity|]. split; [lia|].
  constructor; [exact Hl|exact F].
Qed.

Lemma shape_pop_frame : forall name base d g, shape name base (S d) (frames g) ->
  exists g', pop_frame g = Some g' /\ shape name base d (frames g') /\ trace g' = trace g.
Proof.
  intros name base d g [blocks [vs [E [L F]]]]. destruct blocks as [|b bl]; [discriminate|].
  cbn [app length] in *. unfold pop_frame. rewrite E. eexists. split; [reflexivity|]. split; [|reflexivity].
  cbn. exists bl, vs. split; [reflexivity|]. split; [lia|]. exact (Forall_inv_tail F).
Qed.

Lemma shape_pop_frames : forall name base k d g, k <= d -> shape name base d (frames g) ->
  exists g', pop_frames k g = Some g' /\ shape name base (d - k) (frames g') /\ trace g' = trace g.
Proof.
  induction k as [|k IH]; intros d g Hk Hs.
  - exists g. cbn. replace (d - 0) with d by lia. auto.
  - destruct d as [|d]; [lia|]. destruct (shape_pop_frame _ _ _ _ Hs) as [g1 [P1 [S1 T1]]].
    destruct (IH d g1 ltac:(lia) S1) as [g2 [P2 [S2 T2]]].
    exists g2. cbn [pop_frames]. rewrite P1. split; [exact P2|]. split; [exact S2|congruence].
Qed.

Lemma drop_special : forall blocks rest, Forall is_special blocks ->
  drop_to_function (blocks ++ rest) = drop_to_function rest.
Proof.
  induction blocks as [|b bl IH]; intros rest F; [reflexivity|].
  cbn [app drop_to_function]. assert (Hb := Forall_inv F). unfold is_special in Hb. rewrite Hb.
  apply IH. exact (Forall_inv_tail F).
Qed.

Lemma shape_drop : forall name base d fs, shape name base d fs -> drop_to_function fs = base.
Proof.
  intros name base d fs [blocks [vs [E [L F]]]]. subst fs. rewrite drop_special by assumption. reflexivity.
Qed.

Lemma shape_0 : forall name base fs, shape name base 0 fs -> exists f, fs = f :: base.
Proof.
  intros name base fs [blocks [vs [E [L F]]]]. destruct blocks; [|discriminate]. eexists. exact E.
Qed.

Lemma chain_app : forall x y, chain x -> chain y -> chain (x ++ y).
Proof.
  intros x y Hx Hy. induction Hx as [|blocks n vs rest F Hr IH]; [exact Hy|].
  rewrite <- app_assoc. cbn [app]. constructor; assumption.
Qed.

Lemma shape_chain : forall name base d fs, shape name base d fs ->
  exists extra, fs = extra ++ base /\ chain extra /\ extra <> [].
Proof.
  intros name base d fs [blocks [vs [E [L F]]]]. subst fs.
  exists (blocks ++ [{| lab := LFun name; vars := vs |}]). split; [rewrite <- app_assoc; reflexivity|]. split.
  - constructor; [exact F|constructor].
  - intros H. apply app_eq_nil in H. destruct H; discriminate.
Qed.

Definition failA (base : list frame) (e : err) (g' : gstate) : Prop :=
  ~ structural e /\ exists extra, frames g' = extra ++ base /\ chain extra /\ extra <> [].

Lemma fail_here : forall name base d g e, shape name base d (frames g) -> structuralb e = false -> failA base e g.
Proof.
  intros name base d g e Hs He. split; [apply structuralb_false; exact He|]. eapply shape_chain; exact Hs.
Qed.


Lemma shape_length : forall name base d fs, shape name base d fs -> length fs = length base + 1 + d.
Proof.
  intros name base d fs [blocks [vs [E [L F]]]]. subst fs. rewrite app_length. cbn [length]. lia.
Qed.

(* ---------------------------------------------------------------- the trace of a call, structurally.
   Records are stored newest first.  `seg p L new`: `new` is what ONE call, started on a call stack of
   L frames, recorded: nothing (no such function) or the records of an activation of a checked function.
   `own p name ds L new`: records of an activation of `name` (labelling ds) whose function frame sits on L
   frames: its own instructions -- each with call-stack depth EXACTLY L + 1 + D[ip] -- interleaved with the
   records of its callees, each callee segment starting on the stack depth recorded by the call instruction. *)
Definition ev_csd (ev : tev) : N := let '(_, _, _, c, _) := ev in c.

Inductive seg (p : program) : nat -> list tev -> Prop :=
| seg_none : forall L, seg p L []
| seg_act : forall L name code ds new, assoc name p = Some code -> check code ds = true ->
            own p name ds L new -> seg p L new
with own (p : program) : str -> labelling -> nat -> list tev -> Prop :=
| own_nil : forall name ds L, own p name ds L []
| own_ev : forall name ds L ip o n depth s rest, lab_at ds ip = Some (depth, s) -> own p name ds L rest ->
           own p name ds L ((name, N.of_nat ip, o, N.of_nat (L + 1 + depth), n) :: rest)
| own_call : forall name ds L inner ev rest, seg p (N.to_nat (ev_csd ev)) inner -> own p name ds L (ev :: rest) ->
             own p name ds L (inner ++ ev :: rest).

Definition trS (p : program) (g g' : gstate) : Prop :=
  exists new, trace g' = new ++ trace g /\ seg p (length (frames g)) new.
Definition trA (p : program) (name : str) (ds : labelling) (L : nat) (tr0 : list tev) (g : gstate) : Prop :=
  exists cur, trace g = cur ++ tr0 /\ own p name ds L cur.

Lemma trA_eq : forall p name ds L tr0 g g', trA p name ds L tr0 g -> trace g' = trace g -> trA p name ds L tr0 g'.
Proof. intros p name ds L tr0 g g' [cur [E O]] H. exists cur. split; [congruence|exact O]. Qed.

Definition callee_okA (p : program) (r : rres) (g : gstate) : Prop :=
  match r with
  | RDone _ g' => frames g' = frames g /\ trS p g g'
  | RFail e g' => (~ structural e /\ exists extra, frames g' = extra ++ frames g /\ chain extra) /\ trS p g g'
  | RFuel => True end.

Lemma goto_some : forall len ip off, (0 <= Z.of_nat ip + off < Z.of_nat len)%Z ->
  goto len ip off = Some (Z.to_nat (Z.of_nat ip + off)).
Proof.
  intros len ip off H. unfold goto.
  destruct (Z.of_nat ip + off <? 0)%Z eqn:E1; b2p; [lia|].
  destruct (Z.of_nat len <=? Z.of_nat ip + off)%Z eqn:E2; b2p; [lia|]. reflexivity.
Qed.


Lemma loop_frames : forall rc p callee name code ds base tr0,
  check code ds = true ->
  (forall dest argv cb g, callee_okA p (callee dest argv cb g) g) ->
  forall fuel a g depth,
    shape name base depth (frames g) -> pos_ok (length code) ds (a_ip a) depth -> depth <= a_ss a ->
    trA p name ds (length base) tr0 g ->
    match loop rc callee name code fuel a g with
    | RDone _ g' => frames g' = base /\ trA p name ds (length base) tr0 g'
    | RFail e g' => failA base e g' /\ trA p name ds (length base) tr0 g'
    | RFuel => True end.
Proof.
  intros rc p callee name code ds base tr0 Hc Hcal.
  induction fuel as [|fuel IH]; intros a g depth Hsh Hpos Hss Htr; cbn [loop]; [exact I|].
  destruct Hpos as [[Hip Hd]|[Hip [s Hl]]].
  - (* fell off the end *)
    assert (E : nth_error code (a_ip a) = None) by (apply nth_error_None; lia). rewrite E.
    subst depth. destruct (shape_0 _ _ _ Hsh) as [f Ef]. unfold pop_frame. rewrite Ef.
    split; [reflexivity|]. eapply trA_eq; [exact Htr|reflexivity].
  - destruct (check_at_inv _ _ _ _ _ Hc Hl) as [i [d [Hi [Hd [Hs [Hj Hcov]]]]]].
    rewrite Hi. cbv zeta. unfold exec. rewrite Hd.
    remember (add_trace g (name, N.of_nat (a_ip a), op i, N.of_nat (length (frames g)), N.of_nat (length (a_ops a)))) as g1 eqn:Eg1.
    assert (Hsh1 : shape name base depth (frames g1)) by (subst g1; exact Hsh).
    assert (Htr1 : exists ev cur, trace g1 = (ev :: cur) ++ tr0 /\ own p name ds (length base) (ev :: cur) /\
                                  ev_csd ev = N.of_nat (length (frames g1))).
    { destruct Htr as [cur [Ec Oc]].
      exists (name, N.of_nat (a_ip a), op i, N.of_nat (length (frames g)), N.of_nat (length (a_ops a))), cur.
      subst g1. cbn [add_trace trace frames ev_csd]. split; [rewrite Ec; reflexivity|]. split; [|reflexivity].
      rewrite (shape_length _ _ _ _ Hsh). eapply own_ev; eassumption. }
    clear Eg1 Hsh Htr g.
    assert (Htr : trA p name ds (length base) tr0 g1).
    { destruct Htr1 as [ev [cur [E1 [O1 _]]]]. exists (ev :: cur). auto. }
    destruct s as [|n0 s']; [congruence|].
    assert (Hctl := exec_d_ctl d a g1 (a_ip a) depth n0 (tgtA (length code) ds)).
    assert (Hfr := exec_d_frames d a g1).
    assert (Hcov0 : covers (abs_step d (a_ip a) depth n0) (fun t d' _ => tgtA (length code) ds t d')).
    { eapply covers_mono; [|apply Hcov; left; reflexivity]. intros t d' n'. apply edge_ok_tgtA. }
    specialize (Hctl Hcov0). clear Hcov0 Hcov.
    destruct (exec_d d a g1) as [a' g'|off a' g'|l a' g'|off k a' g'|a' g'|rv a' g'|dest cb' argv' a' g'|e].
    + (* SNext *)
      destruct Hfr as [[Hup Ht] [E1 E2]]. destruct Hctl as [_ Hp].
      apply IH with (depth := depth).
      * eapply shape_top_upd; eassumption.
      * cbn [set_ip a_ip]. rewrite E2. unfold nxt in Hp. replace (Z.to_nat (Z.of_nat (a_ip a) + 1)) with (S (a_ip a)) in Hp by lia. exact Hp.
      * cbn [set_ip a_ss]. lia.
      * eapply trA_eq; eassumption.
    + (* SGoto *)
      destruct Hfr as [Eg [E1 E2]]. subst g'. destruct Hctl as [[_ Hp] Hjo].
      rewrite E2. rewrite (goto_some _ _ _ (Hj _ Hjo)).
      apply IH with (depth := depth); [exact Hsh1|exact Hp|cbn [set_ip a_ss]; lia|exact Htr].
    + (* SPush *)
      destruct Hfr as [Eg [E1 E2]]. subst g'. destruct Hctl as [[_ Hp] Hl'].
      apply IH with (depth := S depth).
      * cbn. apply shape_push; assumption.
      * cbn [set_ip set_ss a_ip]. rewrite E2. unfold nxt in Hp. replace (Z.to_nat (Z.of_nat (a_ip a) + 1)) with (S (a_ip a)) in Hp by lia. exact Hp.
      * cbn [set_ip set_ss a_ss]. lia.
      * eapply trA_eq; [exact Htr|reflexivity].
    + (* SGotoPop *)
      destruct Hfr as [Eg [E1 E2]]. subst g'. destruct Hctl as [Hk [[_ Hp] Hjo]].
      rewrite E2. rewrite (goto_some _ _ _ (Hj _ Hjo)).
      destruct (shape_pop_frames _ _ _ _ _ Hk Hsh1) as [g2 [P2 [S2 T2]]]. rewrite P2.
      apply IH with (depth := depth - k); [exact S2|exact Hp|cbn [set_ip a_ss]; lia|eapply trA_eq; eassumption].
    + (* SPopScope *)
      destruct Hfr as [Eg [E1 E2]]. subst g'. destruct Hctl as [k [Ek [_ Hp]]]. subst depth.
      destruct (a_ss a') as [|k'] eqn:Ess; [lia|].
      destruct (shape_pop_frame _ _ _ _ Hsh1) as [g2 [P2 [S2 T2]]]. rewrite P2.
      apply IH with (depth := k).
      * exact S2.
      * cbn [set_ip set_ss a_ip]. rewrite E2. unfold nxt in Hp. replace (Z.to_nat (Z.of_nat (a_ip a) + 1)) with (S (a_ip a)) in Hp by lia. exact Hp.
      * cbn [set_ip set_ss a_ss]. lia.
      * eapply trA_eq; eassumption.
    + (* SRet *)
      destruct Hfr as [Eg _]. subst g'. cbn [with_frames frames]. split; [eapply shape_drop; exact Hsh1|].
      eapply trA_eq; [exact Htr|reflexivity].
    + (* SCall *)
      destruct Hfr as [Eg [E1 E2]]. subst g'. destruct Hctl as [_ Hp].
      specialize (Hcal dest argv' cb' g1).
      assert (Hcalltr : forall g2, trS p g1 g2 -> trA p name ds (length base) tr0 g2).
      { intros g2 [inner [Ei Si]]. destruct Htr1 as [ev [cur [E3 [O3 C3]]]].
        exists (inner ++ ev :: cur). split; [rewrite Ei, E3, <- app_assoc; reflexivity|].
        apply own_call; [|exact O3]. rewrite C3, Nat2N.id. exact Si. }
      destruct (callee dest argv' cb' g1) as [rv g2|e g2|]; cbn [callee_okA] in Hcal.
      * destruct Hcal as [Hcal Hcs].
        assert (Hsh2 : shape name base depth (frames g2)) by (rewrite Hcal; exact Hsh1).
        destruct (negb (rc name (a_ip a') match rv with Some _ => true | None => false end)).
        -- split; [eapply fail_here; [exact Hsh2|reflexivity]|apply Hcalltr; exact Hcs].
        -- apply IH with (depth := depth).
           ++ exact Hsh2.
           ++ cbn [set_ip a_ip]. rewrite E2. unfold nxt in Hp. replace (Z.to_nat (Z.of_nat (a_ip a) + 1)) with (S (a_ip a)) in Hp by lia. exact Hp.
           ++ destruct rv; cbn [set_ip set_ops a_ss]; lia.
           ++ apply Hcalltr; exact Hcs.
      * destruct Hcal as [[Hns [extra [Ex Hch]]] Hcs].
        destruct (shape_chain _ _ _ _ Hsh1) as [extra1 [Ex1 [Hch1 Hne1]]].
        split; [|apply Hcalltr; exact Hcs].
        split; [exact Hns|]. exists (extra ++ extra1). split; [rewrite Ex, Ex1, app_assoc; reflexivity|].
        split; [apply chain_app; assumption|]. intros H. apply app_eq_nil in H. destruct H; contradiction.
      * exact I.
    + (* SFail *)
      split; [eapply fail_here; eassumption|exact Htr].
Qed.

(* frames + structured trace, in one induction on the call fuel *)
Lemma run_fn_gen_A : forall rc p, checked p ->
  forall fuel name argv cb g,
  match run_fn_gen rc fuel p name argv cb g with
  | RDone _ g' => frames g' = frames g /\ trS p g g'
  | RFail e g' => (~ structural e /\
                   exists extra, frames g' = extra ++ frames g /\ chain extra /\
                     (assoc name p = None -> e = E_no_function name /\ extra = []) /\
                     (assoc name p <> None -> extra <> [])) /\ trS p g g'
  | RFuel => True
  end.
Proof.
  intros rc p Hp. induction fuel as [|fuel IH]; intros name argv cb g; [exact I|].
  rewrite run_fn_gen_S. destruct (assoc name p) as [code|] eqn:Ea.
  - destruct (Hp _ _ Ea) as [ds Hc].
    assert (H := loop_frames rc p (run_fn_gen rc fuel p) name code ds (frames g) (trace g) Hc).
    assert (Hcal : forall dest argv cb g, callee_okA p (run_fn_gen rc fuel p dest argv cb g) g).
    { intros dest argv' cb' g'. specialize (IH dest argv' cb' g').
      destruct (run_fn_gen rc fuel p dest argv' cb' g') as [rv g2|e g2|]; cbn [callee_okA]; [exact IH| |exact I].
      destruct IH as [[H1 [extra [H2 [H3 _]]]] H4]. split; [|exact H4]. split; [exact H1|]. exists extra. auto. }
    specialize (H Hcal fuel (act0 name argv cb) (push_frame g (LFun name)) 0).
    assert (Hsh : shape name (frames g) 0 (frames (push_frame g (LFun name)))).
    { exists [], []. cbn. auto. }
    assert (Hpos : pos_ok (length code) ds (a_ip (act0 name argv cb)) 0).
    { cbn [act0 a_ip]. destruct code as [|i code'].
      - left. split; reflexivity.
      - right. split; [cbn; lia|]. destruct (check_entry _ _ Hc ltac:(discriminate)) as [s [Hs _]]. exists s. exact Hs. }
    assert (Htr : trA p name ds (length (frames g)) (trace g) (push_frame g (LFun name))).
    { exists []. split; [reflexivity|constructor]. }
    specialize (H Hsh Hpos (le_n 0) Htr).
    assert (HtrS : forall g2, trA p name ds (length (frames g)) (trace g) g2 -> trS p g g2).
    { intros g2 [cur [E O]]. exists cur. split; [exact E|]. eapply seg_act; eassumption. }
    destruct (loop rc (run_fn_gen rc fuel p) name code fuel (act0 name argv cb) (push_frame g (LFun name))) as [rv g2|e g2|];
      [destruct H as [H1 H2]; split; [exact H1|apply HtrS; exact H2]| |exact I].
    destruct H as [[H1 [extra [H2 [H3 H4]]]] H5]. split; [|apply HtrS; exact H5]. split; [exact H1|]. exists extra.
    split; [exact H2|]. split; [exact H3|]. split; [intros; discriminate|intros _; exact H4].
  - split; [|exists []; split; [reflexivity|constructor]].
    split; [apply structuralb_false; reflexivity|]. exists []. split; [reflexivity|]. split; [constructor|].
    split; [intros _; split; reflexivity|intros H; congruence].
Qed.

Theorem frames_safe : forall rc p, checked p ->
  forall fuel name argv cb g,
  match run_fn_gen rc fuel p name argv cb g with
  | RDone _ g' => frames g' = frames g
  | RFail e g' => ~ structural e /\
                  exists extra, frames g' = extra ++ frames g /\ chain extra /\
                    (assoc name p = None -> e = E_no_function name /\ extra = []) /\
                    (assoc name p <> None -> extra <> [])
  | RFuel => True
  end.
Proof.
  intros rc p Hp fuel name argv cb g. assert (H := run_fn_gen_A rc p Hp fuel name argv cb g).
  destruct (run_fn_gen rc fuel p name argv cb g); [apply H|apply H|exact I].
Qed.

(* at EVERY executed instruction the number of open block frames is the labelled depth: the recorded
   call-stack depths are exactly those the labellings predict (see `seg` / `own`) *)
Theorem frames_safe_trace : forall rc p, checked p ->
  forall fuel name argv cb g,
  match run_fn_gen rc fuel p name argv cb g with
  | RDone _ g' | RFail _ g' => exists new, trace g' = new ++ trace g /\ seg p (length (frames g)) new
  | RFuel => True
  end.
Proof.
  intros rc p Hp fuel name argv cb g. assert (H := run_fn_gen_A rc p Hp fuel name argv cb g).
  destruct (run_fn_gen rc fuel p name argv cb g); [apply H|apply H|exact I].
Qed.

(* the statement in terms of labels and lengths only (weaker, kept because it is the one C09 names) *)
Corollary frames_safe_labels : forall rc p, checked p ->
  forall fuel name argv cb g rv g', run_fn_gen rc fuel p name argv cb g = RDone rv g' ->
  map lab (frames g') = map lab (frames g) /\ length (frames g') = length (frames g).
Proof.
  intros rc p Hp fuel name argv cb g rv g' H. assert (F := frames_safe rc p Hp fuel name argv cb g).
  rewrite H in F. rewrite F. split; reflexivity.
Qed.

(* a program that ends normally leaves the call stack empty *)
Corollary execute_done_empty : forall p, checked p ->
  forall fuel entry o oc tr, execute fuel p entry = (o, oc, tr) -> forall n, oc <> StackMismatch n.
Proof.
  intros p Hp fuel entry o oc tr H n. unfold execute, run_fn in H.
  assert (F := frames_safe (fun _ _ _ => true) p Hp fuel entry [] None g0).
  destruct (run_fn_gen (fun _ _ _ => true) fuel p entry [] None g0) as [rv g'|e g'|].
  - rewrite F in H. cbn in H. inversion H. discriminate.
  - inversion H. discriminate.
  - inversion H. discriminate.
Qed.

(* ... and a run that fails never fails for a structural reason; the reported stack is a chain of activations *)
Corollary execute_error_chain : forall p, checked p ->
  forall fuel entry o e st tr, execute fuel p entry = (o, RuntimeErr e st, tr) ->
  ~ structural e /\ exists fs, st = map lab fs /\ chain fs.
Proof.
  intros p Hp fuel entry o e st tr H. unfold execute, run_fn in H.
  assert (F := frames_safe (fun _ _ _ => true) p Hp fuel entry [] None g0).
  destruct (run_fn_gen (fun _ _ _ => true) fuel p entry [] None g0) as [rv g'|e' g'|].
  - rewrite F in H. cbn in H. inversion H.
  - inversion H; subst. destruct F as [F1 [extra [F2 [F3 _]]]]. split; [exact F1|].
    exists extra. cbn in F2. rewrite app_nil_r in F2. rewrite F2. split; [reflexivity|exact F3].
  - inversion H.
Qed.


(* ================================================================ Theorem B: operand shapes under the arity hook *)
(* the hook: is the edge (ip+1, depth, 1 or 0) accepted by the caller's labelling? *)
Definition rc_of (dss : str -> option labelling) (p : program) (name : str) (ip : nat) (b : bool) : bool :=
  match dss name, assoc name p with
  | Some ds, Some code =>
    match lab_at ds ip with
    | Some (depth, _) => edge_ok (length code) ds (nxt ip, depth, if b then 1 else 0)
    | None => false end
  | _, _ => false end.

Definition labelled_by (dss : str -> option labelling) (p : program) : Prop :=
  forall name code, assoc name p = Some code -> exists ds, dss name = Some ds /\ check code ds = true.

(* a trace record is justified by the labelling: the instruction at (fn, ip) is labelled, the recorded
   operand length is one of the labelled lengths and satisfies the instruction's operand requirement *)
Definition ev_ok (dss : str -> option labelling) (p : program) (ev : tev) : Prop :=
  let '(fn, ip, o, _, n) := ev in
  exists code ds i d depth s,
    assoc fn p = Some code /\ dss fn = Some ds /\ nth_error code (N.to_nat ip) = Some i /\ op i = o /\
    decode i = DOk d /\ lab_at ds (N.to_nat ip) = Some (depth, s) /\ In (N.to_nat n) s /\
    abs_step d (N.to_nat ip) depth (N.to_nat n) <> ABad.

Definition tr_ext (dss : str -> option labelling) (p : program) (g g' : gstate) : Prop :=
  exists new, trace g' = new ++ trace g /\ Forall (ev_ok dss p) new.

Lemma tr_ext_eq : forall dss p g g', trace g' = trace g -> tr_ext dss p g g'.
Proof. intros dss p g g' H. exists []. split; [exact H|constructor]. Qed.
Lemma tr_ext_trans : forall dss p g1 g2 g3, tr_ext dss p g1 g2 -> tr_ext dss p g2 g3 -> tr_ext dss p g1 g3.
Proof.
  intros dss p g1 g2 g3 [n1 [E1 F1]] [n2 [E2 F2]]. exists (n2 ++ n1). split.
  - rewrite E2, E1, app_assoc. reflexivity.
  - apply Forall_app. split; assumption.
Qed.

Definition okB (dss : str -> option labelling) (p : program) (r : rres) (g : gstate) : Prop :=
  match r with
  | RDone _ g' => tr_ext dss p g g'
  | RFail e g' => shape_errb e = false /\ tr_ext dss p g g'
  | RFuel => True end.

Lemma okB_trans : forall dss p r g1 g2, tr_ext dss p g1 g2 -> okB dss p r g2 -> okB dss p r g1.
Proof.
  intros dss p r g1 g2 H12 H. destruct r as [rv g'|e g'|]; cbn [okB] in *; [|destruct H as [H0 H]; split; [exact H0|]|exact I];
    eapply tr_ext_trans; eassumption.
Qed.

Lemma goto_inv : forall len ip off t, goto len ip off = Some t -> t = Z.to_nat (Z.of_nat ip + off).
Proof.
  intros len ip off t H. unfold goto in H.
  destruct ((Z.of_nat ip + off <? 0)%Z || (Z.of_nat len <=? Z.of_nat ip + off)%Z); inversion H. reflexivity.
Qed.

Lemma pop_frame_trace : forall g g', pop_frame g = Some g' -> trace g' = trace g.
Proof. intros g g' H. unfold pop_frame in H. destruct (frames g); inversion H. reflexivity. Qed.
Lemma pop_frames_trace : forall k g g', pop_frames k g = Some g' -> trace g' = trace g.
Proof.
  induction k as [|k IH]; intros g g' H; cbn [pop_frames] in H; [inversion H; reflexivity|].
  destruct (pop_frame g) as [g1|] eqn:E; [|discriminate]. rewrite (IH _ _ H). eapply pop_frame_trace; exact E.
Qed.

Lemma tgtB_pos : forall len ds k d n, tgtB len ds (TIp k) d n -> pos_okn len ds (Z.to_nat k) n.
Proof.
  intros len ds k d n [_ [H|[s H]]]; [left; lia|right; exists d, s; exact H].
Qed.

Lemma coversB_of : forall len ds s,
  covers s (fun t d' n' => edge_ok len ds (t, d', n') = true) -> coversB s (tgtB len ds).
Proof.
  intros len ds [|es|es]; cbn [covers coversB]; [tauto| |tauto].
  induction es as [|[[t d] n] es IH]; cbn [all_e]; [tauto|]. intros [H1 H2]. split; [apply edge_ok_tgtB; exact H1|auto].
Qed.

Lemma loop_shapes : forall dss p callee name code ds,
  assoc name p = Some code -> dss name = Some ds -> check code ds = true ->
  (forall dest argv cb g, okB dss p (callee dest argv cb g) g) ->
  forall fuel a g, pos_okn (length code) ds (a_ip a) (length (a_ops a)) ->
    okB dss p (loop (rc_of dss p) callee name code fuel a g) g.
Proof.
  intros dss p callee name code ds Ha Hds Hc Hcal.
  induction fuel as [|fuel IH]; intros a g Hpos; cbn [loop]; [exact I|].
  destruct (nth_error code (a_ip a)) as [i|] eqn:Hi.
  2:{ destruct (pop_frame g) as [g'|] eqn:Ep; cbn [okB].
      - apply tr_ext_eq. eapply pop_frame_trace; exact Ep.
      - split; [reflexivity|apply tr_ext_eq; reflexivity]. }
  assert (Hlt : a_ip a < length code) by (apply nth_error_Some; congruence).
  destruct Hpos as [Hge|[depth [s [Hl Hn]]]]; [lia|].
  destruct (check_at_inv _ _ _ _ _ Hc Hl) as [i' [d [Hi' [Hd [Hs [Hj Hcov]]]]]].
  rewrite Hi in Hi'. inversion Hi'; subst i'. clear Hi'.
  specialize (Hcov _ Hn). cbv zeta. unfold exec. rewrite Hd.
  remember (add_trace g (name, N.of_nat (a_ip a), op i, N.of_nat (length (frames g)), N.of_nat (length (a_ops a)))) as g1 eqn:Eg1.
  assert (Hg1 : tr_ext dss p g g1).
  { exists [(name, N.of_nat (a_ip a), op i, N.of_nat (length (frames g)), N.of_nat (length (a_ops a)))].
    split; [subst g1; reflexivity|]. constructor; [|constructor].
    cbn [ev_ok]. rewrite !Nat2N.id. exists code, ds, i, d, depth, s.
    repeat (split; [assumption || reflexivity|]).
    intros E. rewrite E in Hcov. exact Hcov. }
  apply okB_trans with (g2 := g1); [exact Hg1|]. clear Eg1 Hg1 g.
  assert (Hsh := exec_d_shape d a g1 (a_ip a) depth (tgtB (length code) ds) (coversB_of _ _ _ Hcov)).
  assert (Hfr := exec_d_frames d a g1).
  destruct (exec_d d a g1) as [a' g'|off a' g'|l a' g'|off k a' g'|a' g'|rv a' g'|dest cb' argv' a' g'|e].
  - (* SNext *)
    destruct Hfr as [[_ Ht] [E1 E2]]. apply okB_trans with (g2 := g'); [apply tr_ext_eq; exact Ht|].
    apply IH. cbn [set_ip a_ip a_ops]. rewrite E2. apply tgtB_pos in Hsh.
    replace (Z.to_nat (Z.of_nat (a_ip a) + 1)) with (S (a_ip a)) in Hsh by lia. exact Hsh.
  - (* SGoto *)
    destruct Hfr as [Eg [E1 E2]]. subst g'. rewrite E2.
    destruct (goto (length code) (a_ip a) off) as [t|] eqn:Eg.
    + apply IH. cbn [set_ip a_ip a_ops]. apply goto_inv in Eg. subst t. apply tgtB_pos in Hsh. exact Hsh.
    + split; [reflexivity|apply tr_ext_eq; reflexivity].
  - (* SPush *)
    destruct Hfr as [Eg [E1 E2]]. subst g'.
    apply okB_trans with (g2 := push_frame g1 l); [apply tr_ext_eq; reflexivity|].
    apply IH. cbn [set_ip set_ss a_ip a_ops]. rewrite E2. apply tgtB_pos in Hsh.
    replace (Z.to_nat (Z.of_nat (a_ip a) + 1)) with (S (a_ip a)) in Hsh by lia. exact Hsh.
  - (* SGotoPop *)
    destruct Hfr as [Eg [E1 E2]]. subst g'. rewrite E2.
    destruct (goto (length code) (a_ip a) off) as [t|] eqn:Eg.
    2:{ split; [reflexivity|apply tr_ext_eq; reflexivity]. }
    destruct (pop_frames k g1) as [g2|] eqn:Ep.
    2:{ split; [reflexivity|apply tr_ext_eq; reflexivity]. }
    apply okB_trans with (g2 := g2); [apply tr_ext_eq; eapply pop_frames_trace; exact Ep|].
    apply IH. cbn [set_ip a_ip a_ops]. apply goto_inv in Eg. subst t. apply tgtB_pos in Hsh. exact Hsh.
  - (* SPopScope *)
    destruct Hfr as [Eg [E1 E2]]. subst g'. destruct Hsh as [k [Ek Hsh]]. apply tgtB_pos in Hsh.
    replace (Z.to_nat (Z.of_nat (a_ip a) + 1)) with (S (a_ip a)) in Hsh by lia.
    destruct (a_ss a') as [|k'].
    + apply IH. cbn [set_ip a_ip a_ops]. rewrite E2. exact Hsh.
    + destruct (pop_frame g1) as [g2|] eqn:Ep.
      2:{ split; [reflexivity|apply tr_ext_eq; reflexivity]. }
      apply okB_trans with (g2 := g2); [apply tr_ext_eq; eapply pop_frame_trace; exact Ep|].
      apply IH. cbn [set_ip set_ss a_ip a_ops]. rewrite E2. exact Hsh.
  - (* SRet *)
    destruct Hfr as [Eg _]. subst g'. cbn [okB]. apply tr_ext_eq. reflexivity.
  - (* SCall *)
    destruct Hfr as [Eg [E1 E2]]. subst g'.
    specialize (Hcal dest argv' cb' g1).
    destruct (callee dest argv' cb' g1) as [rv g2|e g2|]; cbn [okB] in Hcal; [| exact Hcal | exact I].
    destruct (negb (rc_of dss p name (a_ip a') match rv with Some _ => true | None => false end)) eqn:Erc.
    + cbn [okB]. split; [reflexivity|exact Hcal].
    + apply okB_trans with (g2 := g2); [exact Hcal|]. apply IH.
      apply negb_false_iff in Erc. unfold rc_of in Erc. rewrite Hds, Ha, E2, Hl in Erc.
      apply edge_ok_tgtB in Erc. apply tgtB_pos in Erc. unfold nxt in Erc.
      replace (Z.to_nat (Z.of_nat (a_ip a) + 1)) with (S (a_ip a)) in Erc by lia.
      destruct rv as [v|]; cbn [set_ip set_ops a_ip a_ops]; rewrite E2; [rewrite Hsh|rewrite Hsh]; exact Erc.
  - (* SFail *)
    cbn [okB]. split; [exact Hsh|apply tr_ext_eq; reflexivity].
Qed.

Theorem shapes_safe_gen : forall dss p, labelled_by dss p ->
  forall fuel name argv cb g, okB dss p (run_fn_gen (rc_of dss p) fuel p name argv cb g) g.
Proof.
  intros dss p Hp. induction fuel as [|fuel IH]; intros name argv cb g; [exact I|].
  rewrite run_fn_gen_S. destruct (assoc name p) as [code|] eqn:Ea.
  - destruct (Hp _ _ Ea) as [ds [Hds Hc]].
    apply okB_trans with (g2 := push_frame g (LFun name)); [apply tr_ext_eq; reflexivity|].
    apply (loop_shapes dss p (run_fn_gen (rc_of dss p) fuel p) name code ds Ea Hds Hc IH).
    cbn [act0 a_ip a_ops length]. destruct code as [|i code'].
    + left. cbn. lia.
    + right. destruct (check_entry _ _ Hc ltac:(discriminate)) as [s Hs]. exists 0, s. exact Hs.
  - cbn [okB]. split; [reflexivity|apply tr_ext_eq; reflexivity].
Qed.

(* outcome-level form *)
Theorem shapes_safe : forall dss p, labelled_by dss p ->
  forall fuel name argv cb g e g', run_fn_gen (rc_of dss p) fuel p name argv cb g = RFail e g' -> ~ shape_err e.
Proof.
  intros dss p Hp fuel name argv cb g e g' H. assert (B := shapes_safe_gen dss p Hp fuel name argv cb g).
  rewrite H in B. apply shape_errb_false. apply B.
Qed.

(* trace-level form: every instruction executed (also the failing one) found a labelled operand length *)
Theorem shapes_safe_trace : forall dss p, labelled_by dss p ->
  forall fuel name argv cb g,
  match run_fn_gen (rc_of dss p) fuel p name argv cb g with
  | RDone _ g' | RFail _ g' => exists new, trace g' = new ++ trace g /\ Forall (ev_ok dss p) new
  | RFuel => True end.
Proof.
  intros dss p Hp fuel name argv cb g. assert (B := shapes_safe_gen dss p Hp fuel name argv cb g).
  destruct (run_fn_gen (rc_of dss p) fuel p name argv cb g); cbn [okB] in B; [exact B|apply B|exact I].
Qed.

(* what "not ABad" means for the operand length *)
Definition operands_required (d : dinstr) (n : nat) : Prop :=
  match d with
  | DBinOp _ => 2 <= n
  | DNeg | DNot | DUnwrap _ | DUnwrapInto _ | DBinOpAssign _ _ | DIf _ | DWhile _ | DJmpNotNil _ | DCall None => 1 <= n
  | DEqu | DNeq | DRev2 => n = 2
  | DStore _ | DStoreFast _ | DStoreObject _ | DAssert _ | DStoreSkip _ _ _ => n = 1
  | DRet => n <= 1
  | DRetMod => n = 0
  | _ => True end.
Lemma abs_step_operands : forall d ip depth n, abs_step d ip depth n <> ABad -> operands_required d n.
Proof.
  intros d ip depth n H. destruct d; cbn [abs_step operands_required] in *; try exact I;
    try (destruct dest; try exact I);
    match type of H with context [if ?c then _ else _] => destruct c eqn:E end; b2p; try assumption; try congruence.
Qed.

(* ================================================================ from the executable `certify` to the hypotheses *)
Lemma certify_check : forall code, certify code = true -> exists ds, infer code = Some ds /\ check code ds = true.
Proof.
  intros code H. unfold certify in H. destruct (infer code) as [ds|]; [|discriminate]. exists ds. auto.
Qed.

Lemma assoc_In : forall A name (p : list (str * A)) c, assoc name p = Some c -> exists k, In (k, c) p.
Proof.
  intros A name. induction p as [|[k v] p IH]; intros c H; cbn [assoc] in H; [discriminate|].
  destruct (str_eqb k name).
  - inversion H; subst. exists k. left. reflexivity.
  - destruct (IH _ H) as [k' Hk]. exists k'. right. exact Hk.
Qed.

Definition certified (p : program) : Prop := forall k code, In (k, code) p -> certify code = true.

Definition dss_infer (p : program) (name : str) : option labelling :=
  match assoc name p with Some code => infer code | None => None end.

Lemma certified_labelled : forall p, certified p -> labelled_by (dss_infer p) p.
Proof.
  intros p H name code Ha. destruct (assoc_In _ _ _ _ Ha) as [k Hk].
  destruct (certify_check _ (H _ _ Hk)) as [ds [Hi Hc]]. exists ds. unfold dss_infer. rewrite Ha. auto.
Qed.
Lemma labelled_checked : forall dss p, labelled_by dss p -> checked p.
Proof. intros dss p H name code Ha. destruct (H _ _ Ha) as [ds [_ Hc]]. exists ds. exact Hc. Qed.
Lemma certified_checked : forall p, certified p -> checked p.
Proof. intros p H. eapply labelled_checked. apply certified_labelled. exact H. Qed.

(* loop heads (and every other instruction): one block depth per instruction index *)
Lemma label_depth_unique : forall ds ip d1 s1 d2 s2,
  lab_at ds ip = Some (d1, s1) -> lab_at ds ip = Some (d2, s2) -> d1 = d2 /\ s1 = s2.
Proof. intros ds ip d1 s1 d2 s2 H1 H2. rewrite H1 in H2. inversion H2. auto. Qed.
