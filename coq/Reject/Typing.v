(* C03 -- a core fragment of MScript with a DECLARATIVE typing judgement, an executable checker, and the
   catalogue of single type-breaking edits ("faults").

   FRAGMENT (exactly):  types int, float, str, bool, [T...] of those, fn(T,..) [-> T] over those;
     expressions: literals, variables, binary operators + - * < == && on the native types (result table =
       the relevant cells of TypeLayout::get_output_type), calls of a named function variable with exact arity,
       list indexing by an int;
     statements: `x [: T] = e` (declares x, or re-assigns it when x already exists IN THE CURRENT FUNCTION: the
       type must then be unchanged), `x: [T...] = [e, ..]`, if / else, while, function definition
       `f = fn(p: T, ..) [-> T] { .. }`, `return [e]`, call statement.
   Assignability is type equality (TypeLayout::eq_complex has no implicit widening on this fragment).
   A function with a declared return type must end in a `return` or in an if/else whose branches both do.
   OUTSIDE the fragment (search only, see vlib/c03.py): classes, methods, closures captured by reference,
   maps, optionals, aliases, modules, else-if chains, from-loops, unary operators, bigint/byte. *)
From Coq Require Export List Arith Bool.
Export ListNotations.

Inductive nty := NInt | NFloat | NStr | NBool.
Inductive ty := TN (n : nty) | TList (n : nty) | TFn (ps : list nty) (r : option nty).
Inductive op := OAdd | OSub | OMul | OLt | OEq | OAnd.

Definition nty_eq_dec : forall a b : nty, {a = b} + {a <> b}.
Proof. decide equality. Defined.
Definition ty_eq_dec : forall a b : ty, {a = b} + {a <> b}.
Proof. decide equality; try apply nty_eq_dec; try (apply list_eq_dec; apply nty_eq_dec).
       decide equality. apply nty_eq_dec. Defined.

Definition numeric (n : nty) : bool := match n with NInt | NFloat => true | _ => false end.
Definition num_join (a b : nty) : nty := match a, b with NInt, NInt => NInt | _, _ => NFloat end.

(* the cells of get_output_type (compiler/src/ast/type.rs) for these operators and kinds *)
Definition op_type (o : op) (a b : nty) : option nty :=
  match o with
  | OAdd => match a, b with
            | NStr, _ | _, NStr => Some NStr
            | _, _ => if numeric a && numeric b then Some (num_join a b) else None
            end
  | OSub => if numeric a && numeric b then Some (num_join a b) else None
  | OMul => match a, b with
            | NStr, NInt | NInt, NStr => Some NStr
            | _, _ => if numeric a && numeric b then Some (num_join a b) else None
            end
  | OLt => if numeric a && numeric b then Some NBool else None
  | OEq => if numeric a && numeric b then Some NBool
           else if nty_eq_dec a b then Some NBool else None
  | OAnd => match a, b with NBool, NBool => Some NBool | _, _ => None end
  end.

Inductive expr :=
| ELit (n : nty)
| EVar (x : nat)
| EBin (o : op) (a b : expr)
| ECall (f : nat) (args : exprs)
| EIndex (a i : expr)
with exprs :=
| XNil
| XCons (e : expr) (r : exprs).

Inductive stmt :=
| SSet (x : nat) (ann : option ty) (e : expr)
| SSetList (x : nat) (n : nty) (es : exprs)
| SIf (c : expr) (t e : block)
| SWhile (c : expr) (b : block)
| SFn (f : nat) (ps : list (nat * nty)) (r : option nty) (body : block)
| SReturn (e : option expr)
| SCall (f : nat) (args : exprs)
with block :=
| BNil
| BCons (s : stmt) (b : block).

Scheme expr_mut := Induction for expr Sort Prop
  with exprs_mut := Induction for exprs Sort Prop.
Combined Scheme expr_mutind from expr_mut, exprs_mut.
Scheme stmt_mut := Induction for stmt Sort Prop
  with block_mut := Induction for block Sort Prop.
Combined Scheme stmt_mutind from stmt_mut, block_mut.

(* ---------------------------------------------------------------- environments *)

Inductive entry := Bind (x : nat) (t : ty) | Barrier.      (* Barrier = function boundary *)
Definition env := list entry.

Fixpoint lookup_all (g : env) (x : nat) : option ty :=       (* reads: lexical *)
  match g with
  | [] => None
  | Bind y t :: r => if Nat.eqb y x then Some t else lookup_all r x
  | Barrier :: r => lookup_all r x
  end.

Fixpoint lookup_fn (g : env) (x : nat) : option ty :=        (* assignment: the current function only *)
  match g with
  | [] => None
  | Bind y t :: r => if Nat.eqb y x then Some t else lookup_fn r x
  | Barrier :: _ => None
  end.

Definition bind_params (ps : list (nat * nty)) (g : env) : env :=
  fold_left (fun acc p => Bind (fst p) (TN (snd p)) :: acc) ps (Barrier :: g).

(* the return context: None = not inside a function; Some r = inside a function declared `-> r` / void *)
Definition rctx := option (option nty).

(* ---------------------------------------------------------------- declarative typing *)

Inductive has_type : env -> expr -> ty -> Prop :=
| HT_lit : forall g n, has_type g (ELit n) (TN n)
| HT_var : forall g x t, lookup_all g x = Some t -> has_type g (EVar x) t
| HT_bin : forall g o a b ta tb tr,
    has_type g a (TN ta) -> has_type g b (TN tb) -> op_type o ta tb = Some tr ->
    has_type g (EBin o a b) (TN tr)
| HT_call : forall g f args ps r,
    lookup_all g f = Some (TFn ps (Some r)) -> have_types g args ps ->
    has_type g (ECall f args) (TN r)
| HT_index : forall g a i n,
    has_type g a (TList n) -> has_type g i (TN NInt) -> has_type g (EIndex a i) (TN n)
with have_types : env -> exprs -> list nty -> Prop :=
| HTs_nil : forall g, have_types g XNil []
| HTs_cons : forall g e r p ps, has_type g e (TN p) -> have_types g r ps -> have_types g (XCons e r) (p :: ps).

Scheme has_type_mut := Induction for has_type Sort Prop
  with have_types_mut := Induction for have_types Sort Prop.
Combined Scheme has_type_mutind from has_type_mut, have_types_mut.

(* `x = e`: declares x, or updates it when it exists in the current function (same type) *)
Definition set_env (g : env) (x : nat) (t : ty) : option env :=
  match lookup_fn g x with
  | None => Some (Bind x t :: g)
  | Some t0 => if ty_eq_dec t0 t then Some g else None
  end.

(* does the block return on every path?  Some top-level statement must: a `return e`, or an if/else whose
   two branches both do (position does not matter: the compiler marks the scope when it meets such a
   statement; a `while` or an `if` without `else` never counts) *)
Fixpoint returns_b (b : block) : bool :=
  match b with
  | BNil => false
  | BCons s r =>
      match s with
      | SReturn (Some _) => true
      | SIf _ t e => returns_b t && returns_b e
      | _ => false
      end || returns_b r
  end.

Fixpoint all_elems (n : nty) (es : exprs) : list nty :=
  match es with XNil => [] | XCons _ r => n :: all_elems n r end.

Inductive WTs : env -> rctx -> stmt -> env -> Prop :=
| WT_set : forall g rc x ann e t g',
    has_type g e t -> (ann = None \/ ann = Some t) -> set_env g x t = Some g' ->
    WTs g rc (SSet x ann e) g'
| WT_setlist : forall g rc x n es g',
    have_types g es (all_elems n es) -> set_env g x (TList n) = Some g' ->
    WTs g rc (SSetList x n es) g'
| WT_if : forall g rc c t e g1 g2,
    has_type g c (TN NBool) -> WTb g rc t g1 -> WTb g rc e g2 -> WTs g rc (SIf c t e) g
| WT_while : forall g rc c b g1,
    has_type g c (TN NBool) -> WTb g rc b g1 -> WTs g rc (SWhile c b) g
| WT_fn : forall g rc f ps r body g1 g',
    WTb (bind_params ps g) (Some r) body g1 ->
    (r = None \/ returns_b body = true) ->
    set_env g f (TFn (map snd ps) r) = Some g' ->
    WTs g rc (SFn f ps r body) g'
| WT_return_void : forall g, WTs g (Some None) (SReturn None) g
| WT_return_val : forall g n e, has_type g e (TN n) -> WTs g (Some (Some n)) (SReturn (Some e)) g
| WT_call : forall g rc f args ps r,
    lookup_all g f = Some (TFn ps r) -> have_types g args ps -> WTs g rc (SCall f args) g
with WTb : env -> rctx -> block -> env -> Prop :=
| WTb_nil : forall g rc, WTb g rc BNil g
| WTb_cons : forall g rc s b g1 g2, WTs g rc s g1 -> WTb g1 rc b g2 -> WTb g rc (BCons s b) g2.

Scheme WTs_mut := Induction for WTs Sort Prop
  with WTb_mut := Induction for WTb Sort Prop.
Combined Scheme WT_mutind from WTs_mut, WTb_mut.

Definition WT (p : block) : Prop := exists g', WTb [] None p g'.

(* ---------------------------------------------------------------- the executable checker *)

Fixpoint type_of (g : env) (e : expr) : option ty :=
  match e with
  | ELit n => Some (TN n)
  | EVar x => lookup_all g x
  | EBin o a b =>
      match type_of g a, type_of g b with
      | Some (TN ta), Some (TN tb) => match op_type o ta tb with Some r => Some (TN r) | None => None end
      | _, _ => None
      end
  | ECall f args =>
      match lookup_all g f with
      | Some (TFn ps (Some r)) => if check_args g args ps then Some (TN r) else None
      | _ => None
      end
  | EIndex a i =>
      match type_of g a, type_of g i with
      | Some (TList n), Some (TN NInt) => Some (TN n)
      | _, _ => None
      end
  end
with check_args (g : env) (es : exprs) (ps : list nty) : bool :=
  match es, ps with
  | XNil, [] => true
  | XCons e r, p :: ps' =>
      match type_of g e with
      | Some (TN q) => if nty_eq_dec q p then check_args g r ps' else false
      | _ => false
      end
  | _, _ => false                                   (* wrong number of arguments *)
  end.

Definition ann_ok (ann : option ty) (t : ty) : bool :=
  match ann with None => true | Some a => if ty_eq_dec a t then true else false end.

Fixpoint check_stmt (g : env) (rc : rctx) (s : stmt) : option env :=
  match s with
  | SSet x ann e =>
      match type_of g e with
      | Some t => if ann_ok ann t then set_env g x t else None
      | None => None
      end
  | SSetList x n es => if check_args g es (all_elems n es) then set_env g x (TList n) else None
  | SIf c t e =>
      match type_of g c with
      | Some (TN NBool) =>
          match check_block g rc t, check_block g rc e with
          | Some _, Some _ => Some g
          | _, _ => None
          end
      | _ => None
      end
  | SWhile c b =>
      match type_of g c with
      | Some (TN NBool) => match check_block g rc b with Some _ => Some g | None => None end
      | _ => None
      end
  | SFn f ps r body =>
      match check_block (bind_params ps g) (Some r) body with
      | Some _ =>
          if match r with None => true | Some _ => returns_b body end
          then set_env g f (TFn (map snd ps) r) else None
      | None => None
      end
  | SReturn None => match rc with Some None => Some g | _ => None end
  | SReturn (Some e) =>
      match rc, type_of g e with
      | Some (Some n), Some (TN q) => if nty_eq_dec q n then Some g else None
      | _, _ => None
      end
  | SCall f args =>
      match lookup_all g f with
      | Some (TFn ps _) => if check_args g args ps then Some g else None
      | _ => None
      end
  end
with check_block (g : env) (rc : rctx) (b : block) : option env :=
  match b with
  | BNil => Some g
  | BCons s r => match check_stmt g rc s with Some g1 => check_block g1 rc r | None => None end
  end.

Definition check_prog (p : block) : bool :=
  match check_block [] None p with Some _ => true | None => false end.
