(* C03 -- model of src/main.rs: `compile()` and the `Commands::Run` arm, over an ABSTRACT compiler.

   fn compile(..) -> Result<Option<Rc<MScriptFile>>> {
       match compile_file(..) {
           Err(errors) => { for error in &errors { println!("{error:?}") }      // diagnostics, on stdout
                            bail!("Did not compile successfully ({cerr} Error{s})") }
           Ok(product) => Ok(product) } }
   Run: thread { let product = compile(..)?;  ...  Program::new_from_file(product).execute() }
        an Err of the thread closure becomes `Error: ...` on stderr and a failing exit status (anyhow main).

   The compiler (`compile_file`) and the interpreter (`execute`) are section variables: the theorem holds for
   every compiler and says that NO execution event happens when the compiler returns diagnostics. *)
From Coq Require Import List.
Import ListNotations.

Section Cli.
Variables source diag prog line : Type.
Variable compile_file : source -> list diag + prog.          (* Err(errors) | Ok(product) *)
Variable execute : prog -> list line * bool.                 (* program output, finished without run-time error *)
Variable render : diag -> line.                              (* "{error:?}" : ` --> file:line:col ...` *)
Variable summary : nat -> line.                              (* "Did not compile successfully (n Errors)" *)
Variable crash_banner : line.

Inductive exit_status := ExitSuccess | ExitFailure.

Inductive event := EvDiagnostic (d : diag) | EvExecute (p : prog).

Record outcome := mkOutcome {
  diagnostics : list line;        (* printed by compile() *)
  program_output : list line;     (* printed by the running program *)
  stderr_lines : list line;
  status : exit_status;
  events : list event
}.

(* src/main.rs compile() *)
Definition compile (src : source) : (list line * list event * nat) + prog :=
  match compile_file src with
  | inl errors => inl (map render errors, map EvDiagnostic errors, length errors)
  | inr product => inr product
  end.

(* src/main.rs main(), Commands::Run *)
Definition run (src : source) : outcome :=
  match compile src with
  | inl (printed, evs, n) =>                      (* `?` leaves the closure before Program::new_from_file *)
      mkOutcome printed [] [summary n] ExitFailure evs
  | inr product =>
      let '(out, ok) := execute product in
      mkOutcome [] out (if ok then [] else [crash_banner]) (if ok then ExitSuccess else ExitFailure)
                [EvExecute product]
  end.

Definition executes (o : outcome) : Prop := exists p, In (EvExecute p) (events o).

(* the "no statement of the program is executed" half of C03, for all sources and all compilers *)
Theorem rejected_never_runs : forall src ds,
  compile_file src = inl ds ->
  run src = mkOutcome (map render ds) [] [summary (length ds)] ExitFailure (map EvDiagnostic ds)
  /\ ~ executes (run src).
Proof.
  intros src ds H. unfold run, compile. rewrite H. split; [reflexivity|].
  intros [p Hp]. cbn [events] in Hp. apply in_map_iff in Hp as [d [Hd _]]. discriminate.
Qed.

(* and conversely: execution happens only for accepted sources *)
Theorem runs_only_accepted : forall src, executes (run src) -> exists p, compile_file src = inr p.
Proof.
  intros src [p Hp]. unfold run, compile in Hp. destruct (compile_file src) as [ds|q] eqn:E.
  - cbn [events] in Hp. apply in_map_iff in Hp as [d [Hd _]]. discriminate.
  - exists q. reflexivity.
Qed.

End Cli.
