(* C03 -- the checker of the core fragment is sound and complete for the declarative judgement;
   every single fault of the catalogue, at any site (any nesting depth), makes the program ill-typed. *)
From MS Require Import Reject.Typing.

(* ---------------------------------------------------------------- unfolding equations (mutual fixpoints) *)
Lemma to_bin : forall g o a b, type_of g (EBin o a b) =
  match type_of g a, type_of g b with
  | Some (TN ta), Some (TN tb) => match op_type o ta tb with Some r => Some (TN r) | None => None end
  | _, _ => None
  end.
Proof. reflexivity. Qed.
Lemma to_call : forall g f args, type_of g (ECall f args) =
  match lookup_all g f with
  | Some (TFn ps (Some r)) => if check_args g args ps then Some (TN r) else None
  | _ => None
  end.
Proof. reflexivity. Qed.
Lemma to_index : forall g a i, type_of g (EIndex a i) =
  match type_of g a, type_of g i with
  | Some (TList n), Some (TN NInt) => Some (TN n)
  | _, _ => None
  end.
Proof. reflexivity. Qed.
Lemma ca_cons : forall g e r p ps, check_args g (XCons e r) (p :: ps) =
  match type_of g e with
  | Some (TN q) => if nty_eq_dec q p then check_args g r ps else false
  | _ => false
  end.
Proof. reflexivity. Qed.
Lemma cs_set : forall g rc x ann e, check_stmt g rc (SSet x ann e) =
  match type_of g e with Some t => if ann_ok ann t then set_env g x t else None | None => None end.
Proof. reflexivity. Qed.
Lemma cs_setlist : forall g rc x n es, check_stmt g rc (SSetList x n es) =
  if check_args g es (all_elems n es) then set_env g x (TList n) else None.
Proof. reflexivity. Qed.
Lemma cs_if : forall g rc c t e, check_stmt g rc (SIf c t e) =
  match type_of g c with
  | Some (TN NBool) => match check_block g rc t, check_block g rc e with Some _, Some _ => Some g | _, _ => None end
  | _ => None
  end.
Proof. reflexivity. Qed.
Lemma cs_while : forall g rc c b, check_stmt g rc (SWhile c b) =
  match type_of g c with
  | Some (TN NBool) => match check_block g rc b with Some _ => Some g | None => None end
  | _ => None
  end.
Proof. reflexivity. Qed.
Lemma cs_fn : forall g rc f ps r body, check_stmt g rc (SFn f ps r body) =
  match check_block (bind_params ps g) (Some r) body with
  | Some _ => if match r with None => true | Some _ => returns_b body end
              then set_env g f (TFn (map snd ps) r) else None
  | None => None
  end.
Proof. reflexivity. Qed.
Lemma cs_call : forall g rc f args, check_stmt g rc (SCall f args) =
  match lookup_all g f with
  | Some (TFn ps _) => if check_args g args ps then Some g else None
  | _ => None
  end.
Proof. reflexivity. Qed.
Lemma cb_cons : forall g rc s r, check_block g rc (BCons s r) =
  match check_stmt g rc s with Some g1 => check_block g1 rc r | None => None end.
Proof. reflexivity. Qed.

(* ---------------------------------------------------------------- expressions: sound, complete, unique *)
Theorem type_of_sound :
  (forall e g t, type_of g e = Some t -> has_type g e t) /\
  (forall es g ps, check_args g es ps = true -> have_types g es ps).
Proof.
  apply expr_mutind.
  - intros n g t H. cbn in H. injection H as <-. constructor.
  - intros x g t H. cbn in H. constructor. exact H.
  - intros o a IHa b IHb g t. rewrite to_bin.
    destruct (type_of g a) as [[ta| |]|] eqn:Ha; try discriminate.
    destruct (type_of g b) as [[tb| |]|] eqn:Hb; try discriminate.
    destruct (op_type o ta tb) as [r|] eqn:Ho; [|discriminate].
    intro H. injection H as <-. econstructor; eauto.
  - intros f args IH g t. rewrite to_call.
    destruct (lookup_all g f) as [[|n|ps [r|]]|] eqn:Hf; try discriminate.
    destruct (check_args g args ps) eqn:Hc; [|discriminate].
    intro H. injection H as <-. econstructor; eauto.
  - intros a IHa i IHi g t. rewrite to_index.
    destruct (type_of g a) as [[|n|]|] eqn:Ha; try discriminate.
    destruct (type_of g i) as [[[| | |]| |]|] eqn:Hi; try discriminate.
    intro H. injection H as <-. constructor; auto.
  - intros g ps H. destruct ps; [constructor|discriminate].
  - intros e IHe r IHr g ps. destruct ps as [|p ps]; [discriminate|]. rewrite ca_cons.
    destruct (type_of g e) as [[q| |]|] eqn:He; try discriminate.
    destruct (nty_eq_dec q p) as [->|]; [|discriminate].
    intro H. constructor; auto.
Qed.

Theorem type_of_complete :
  (forall g e t, has_type g e t -> type_of g e = Some t) /\
  (forall g es ps, have_types g es ps -> check_args g es ps = true).
Proof.
  apply has_type_mutind.
  - reflexivity.
  - intros g x t H. exact H.
  - intros g o a b ta tb tr _ IHa _ IHb Ho. rewrite to_bin, IHa, IHb, Ho. reflexivity.
  - intros g f args ps r Hf _ IH. rewrite to_call, Hf, IH. reflexivity.
  - intros g a i n _ IHa _ IHi. rewrite to_index, IHa, IHi. reflexivity.
  - reflexivity.
  - intros g e r p ps _ IHe _ IHr. rewrite ca_cons, IHe.
    destruct (nty_eq_dec p p) as [_|N]; [exact IHr|contradiction].
Qed.

Lemma has_type_unique : forall g e t1 t2, has_type g e t1 -> has_type g e t2 -> t1 = t2.
Proof.
  intros g e t1 t2 H1 H2. apply (proj1 type_of_complete) in H1, H2. congruence.
Qed.

(* ---------------------------------------------------------------- statements *)
Lemma ann_ok_spec : forall ann t, ann_ok ann t = true <-> (ann = None \/ ann = Some t).
Proof.
  intros [a|] t; cbn.
  - destruct (ty_eq_dec a t) as [->|N]; split; intro H; auto; try discriminate.
    destruct H as [H|H]; [discriminate|]. injection H as ->. contradiction.
  - split; auto.
Qed.

Theorem check_sound_mut :
  (forall s g rc g', check_stmt g rc s = Some g' -> WTs g rc s g') /\
  (forall b g rc g', check_block g rc b = Some g' -> WTb g rc b g').
Proof.
  apply stmt_mutind.
  - intros x ann e g rc g'. rewrite cs_set.
    destruct (type_of g e) as [t|] eqn:He; [|discriminate].
    destruct (ann_ok ann t) eqn:Ha; [|discriminate]. intro H.
    econstructor; [apply type_of_sound; exact He|apply ann_ok_spec; exact Ha|exact H].
  - intros x n es g rc g'. rewrite cs_setlist.
    destruct (check_args g es (all_elems n es)) eqn:Hc; [|discriminate]. intro H.
    constructor; [apply type_of_sound; exact Hc|exact H].
  - intros c t IHt e IHe g rc g'. rewrite cs_if.
    destruct (type_of g c) as [[[| | |]| |]|] eqn:Hc; try discriminate.
    destruct (check_block g rc t) as [g1|] eqn:Ht; [|discriminate].
    destruct (check_block g rc e) as [g2|] eqn:He; [|discriminate].
    intro H. injection H as <-. econstructor; [apply type_of_sound; exact Hc|eauto|eauto].
  - intros c b IHb g rc g'. rewrite cs_while.
    destruct (type_of g c) as [[[| | |]| |]|] eqn:Hc; try discriminate.
    destruct (check_block g rc b) as [g1|] eqn:Hb; [|discriminate].
    intro H. injection H as <-. econstructor; [apply type_of_sound; exact Hc|eauto].
  - intros f ps r body IHb g rc g'. rewrite cs_fn.
    destruct (check_block (bind_params ps g) (Some r) body) as [g1|] eqn:Hb; [|discriminate].
    destruct (match r with None => true | Some _ => returns_b body end) eqn:Hr; [|discriminate].
    intro H. econstructor; [eauto| |exact H].
    destruct r; [right; exact Hr|left; reflexivity].
  - intros [e|] g rc g' H; cbn in H.
    + destruct rc as [[n|]|]; try discriminate.
      destruct (type_of g e) as [[q| |]|] eqn:He; try discriminate.
      destruct (nty_eq_dec q n) as [->|]; [|discriminate]. injection H as <-.
      constructor. apply type_of_sound. exact He.
    + destruct rc as [[n|]|]; try discriminate. injection H as <-. constructor.
  - intros f args g rc g'. rewrite cs_call.
    destruct (lookup_all g f) as [[|n|ps r]|] eqn:Hf; try discriminate.
    destruct (check_args g args ps) eqn:Hc; [|discriminate].
    intro H. injection H as <-. econstructor; [exact Hf|apply type_of_sound; exact Hc].
  - intros g rc g' H. cbn in H. injection H as <-. constructor.
  - intros s IHs b IHb g rc g'. rewrite cb_cons.
    destruct (check_stmt g rc s) as [g1|] eqn:Hs; [|discriminate]. intro H.
    econstructor; eauto.
Qed.

Theorem check_complete_mut :
  (forall g rc s g', WTs g rc s g' -> check_stmt g rc s = Some g') /\
  (forall g rc b g', WTb g rc b g' -> check_block g rc b = Some g').
Proof.
  apply WT_mutind.
  - intros g rc x ann e t g' He Ha Hs. rewrite cs_set, (proj1 type_of_complete _ _ _ He).
    apply ann_ok_spec in Ha. rewrite Ha. exact Hs.
  - intros g rc x n es g' He Hs. rewrite cs_setlist, (proj2 type_of_complete _ _ _ He). exact Hs.
  - intros g rc c t e g1 g2 Hc _ IHt _ IHe. rewrite cs_if, (proj1 type_of_complete _ _ _ Hc), IHt, IHe. reflexivity.
  - intros g rc c b g1 Hc _ IHb. rewrite cs_while, (proj1 type_of_complete _ _ _ Hc), IHb. reflexivity.
  - intros g rc f ps r body g1 g' _ IHb Hr Hs. rewrite cs_fn, IHb.
    destruct r as [n|]; [|exact Hs]. destruct Hr as [Hr|Hr]; [discriminate|]. rewrite Hr. exact Hs.
  - reflexivity.
  - intros g n e He. cbn. rewrite (proj1 type_of_complete _ _ _ He).
    destruct (nty_eq_dec n n) as [_|N]; [reflexivity|contradiction].
  - intros g rc f args ps r Hf Ha. rewrite cs_call, Hf, (proj2 type_of_complete _ _ _ Ha). reflexivity.
  - reflexivity.
  - intros g rc s b g1 g2 _ IHs _ IHb. rewrite cb_cons, IHs. exact IHb.
Qed.

(* the checker accepts exactly the well-typed programs of the fragment *)
Theorem check_sound : forall p, check_prog p = true -> WT p.
Proof.
  intros p H. unfold check_prog in H. destruct (check_block [] None p) as [g'|] eqn:Hb; [|discriminate].
  exists g'. apply check_sound_mut. exact Hb.
Qed.

Theorem check_complete : forall p, WT p -> check_prog p = true.
Proof.
  intros p [g' H]. unfold check_prog. rewrite (proj2 check_complete_mut _ _ _ _ H). reflexivity.
Qed.

Lemma WTs_deterministic : forall g rc s g1 g2, WTs g rc s g1 -> WTs g rc s g2 -> g1 = g2.
Proof.
  intros g rc s g1 g2 H1 H2. apply (proj1 check_complete_mut) in H1, H2. congruence.
Qed.

(* ---------------------------------------------------------------- the fault catalogue *)

(* expressions that have no type at all *)
Inductive bad_expr : env -> expr -> Prop :=
| BE_unknown_name : forall g y, lookup_all g y = None -> bad_expr g (EVar y)
| BE_operator : forall g o a b ta tb,
    has_type g a (TN ta) -> has_type g b (TN tb) -> op_type o ta tb = None -> bad_expr g (EBin o a b)
| BE_operand_l : forall g o a b t, has_type g a t -> (forall n, t <> TN n) -> bad_expr g (EBin o a b)
| BE_operand_r : forall g o a b t, has_type g b t -> (forall n, t <> TN n) -> bad_expr g (EBin o a b)
| BE_call_unknown : forall g f args, lookup_all g f = None -> bad_expr g (ECall f args)
| BE_call_non_callable : forall g f args t,
    lookup_all g f = Some t -> (forall ps r, t <> TFn ps r) -> bad_expr g (ECall f args)
| BE_call_void : forall g f args ps, lookup_all g f = Some (TFn ps None) -> bad_expr g (ECall f args)
| BE_call_args : forall g f args ps r,
    lookup_all g f = Some (TFn ps r) -> bad_args g args ps -> bad_expr g (ECall f args)
| BE_index_non_indexable : forall g a i t, has_type g a t -> (forall n, t <> TList n) -> bad_expr g (EIndex a i)
| BE_index_non_index : forall g a i t, has_type g i t -> t <> TN NInt -> bad_expr g (EIndex a i)
| BE_in_bin_l : forall g o a b, bad_expr g a -> bad_expr g (EBin o a b)
| BE_in_bin_r : forall g o a b, bad_expr g b -> bad_expr g (EBin o a b)
| BE_in_index_l : forall g a i, bad_expr g a -> bad_expr g (EIndex a i)
| BE_in_index_r : forall g a i, bad_expr g i -> bad_expr g (EIndex a i)
with bad_args : env -> exprs -> list nty -> Prop :=
| BA_too_many : forall g e r, bad_args g (XCons e r) []
| BA_too_few : forall g p ps, bad_args g XNil (p :: ps)
| BA_wrong_type : forall g e r p ps t, has_type g e t -> t <> TN p -> bad_args g (XCons e r) (p :: ps)
| BA_bad_expr : forall g e r p ps, bad_expr g e -> bad_args g (XCons e r) (p :: ps)
| BA_later : forall g e r p ps, bad_args g r ps -> bad_args g (XCons e r) (p :: ps).

Scheme bad_expr_mut := Induction for bad_expr Sort Prop
  with bad_args_mut := Induction for bad_args Sort Prop.
Combined Scheme bad_mutind from bad_expr_mut, bad_args_mut.

Ltac uniq_lookup :=
  match goal with
  | H1 : lookup_all ?g ?f = _, H2 : lookup_all ?g ?f = _ |- _ => rewrite H1 in H2; inversion H2; subst; clear H2
  end.

Theorem bad_untypable :
  (forall g e, bad_expr g e -> forall t, ~ has_type g e t) /\
  (forall g es ps, bad_args g es ps -> ~ have_types g es ps).
Proof.
  apply bad_mutind.
  - intros g y Hy t H. inversion H; subst. congruence.
  - intros g o a b ta tb Ha Hb Ho t H. inversion H; subst.
    assert (TN ta0 = TN ta) by (eapply has_type_unique; eauto).
    assert (TN tb0 = TN tb) by (eapply has_type_unique; eauto). congruence.
  - intros g o a b t Ha Hn t' H. inversion H; subst.
    assert (TN ta = t) by (eapply has_type_unique; eauto). eapply Hn; eauto.
  - intros g o a b t Hb Hn t' H. inversion H; subst.
    assert (TN tb = t) by (eapply has_type_unique; eauto). eapply Hn; eauto.
  - intros g f args Hf t H. inversion H; subst. congruence.
  - intros g f args t Hf Hn t' H. inversion H; subst. uniq_lookup. eapply Hn; eauto.
  - intros g f args ps Hf t H. inversion H; subst. congruence.
  - intros g f args ps r Hf _ IH t H. inversion H; subst. uniq_lookup. contradiction.
  - intros g a i t Ha Hn t' H. inversion H; subst.
    assert (TList n = t) by (eapply has_type_unique; eauto). eapply Hn; eauto.
  - intros g a i t Hi Hn t' H. inversion H; subst.
    assert (TN NInt = t) by (eapply has_type_unique; eauto). congruence.
  - intros g o a b _ IH t H. inversion H; subst. eapply IH; eauto.
  - intros g o a b _ IH t H. inversion H; subst. eapply IH; eauto.
  - intros g a i _ IH t H. inversion H; subst. eapply IH; eauto.
  - intros g a i _ IH t H. inversion H; subst. eapply IH; eauto.
  - intros g e r H. inversion H.
  - intros g p ps H. inversion H.
  - intros g e r p ps t He Hn H. inversion H; subst.
    assert (TN p = t) by (eapply has_type_unique; eauto). congruence.
  - intros g e r p ps _ IH H. inversion H; subst. eapply IH; eauto.
  - intros g e r p ps _ IH H. inversion H; subst. contradiction.
Qed.

(* s' is statement s with ONE type-breaking edit of the catalogue, ill-typed in environment g *)
Inductive fault_at : env -> rctx -> stmt -> stmt -> Prop :=
(* wrong-typed initializer of an annotated variable *)
| F_wrong_init : forall g rc x t e e' t',
    has_type g e' t' -> t' <> t -> fault_at g rc (SSet x (Some t) e) (SSet x (Some t) e')
(* re-assignment with a different type *)
| F_wrong_reassign : forall g rc x ann ann' e e' t0 t',
    lookup_fn g x = Some t0 -> has_type g e' t' -> t' <> t0 -> fault_at g rc (SSet x ann e) (SSet x ann' e')
(* unknown name, unsupported operator, wrong argument type or count, non-callable, bad index ... in the value *)
| F_set_bad_expr : forall g rc x ann e e', bad_expr g e' -> fault_at g rc (SSet x ann e) (SSet x ann e')
| F_list_elem : forall g rc x n es es',
    bad_args g es' (all_elems n es') -> fault_at g rc (SSetList x n es) (SSetList x n es')
(* non-boolean condition *)
| F_if_cond : forall g rc c c' t e t', has_type g c' t' -> t' <> TN NBool -> fault_at g rc (SIf c t e) (SIf c' t e)
| F_if_bad_expr : forall g rc c c' t e, bad_expr g c' -> fault_at g rc (SIf c t e) (SIf c' t e)
| F_while_cond : forall g rc c c' b t', has_type g c' t' -> t' <> TN NBool -> fault_at g rc (SWhile c b) (SWhile c' b)
| F_while_bad_expr : forall g rc c c' b, bad_expr g c' -> fault_at g rc (SWhile c b) (SWhile c' b)
(* wrong or missing return value *)
| F_wrong_return : forall g n e e' t',
    has_type g e' t' -> t' <> TN n -> fault_at g (Some (Some n)) (SReturn (Some e)) (SReturn (Some e'))
| F_return_bad_expr : forall g rc e e', bad_expr g e' -> fault_at g rc (SReturn (Some e)) (SReturn (Some e'))
| F_missing_return_value : forall g n e, fault_at g (Some (Some n)) (SReturn (Some e)) (SReturn None)
| F_value_from_void : forall g e', fault_at g (Some None) (SReturn None) (SReturn (Some e'))
| F_missing_return : forall g rc f ps n body body',
    returns_b body' = false -> fault_at g rc (SFn f ps (Some n) body) (SFn f ps (Some n) body')
(* call statement: wrong argument type or count, unknown or non-callable callee *)
| F_call_args : forall g rc f args args' ps r,
    lookup_all g f = Some (TFn ps r) -> bad_args g args' ps -> fault_at g rc (SCall f args) (SCall f args')
| F_call_unknown : forall g rc f f' args, lookup_all g f' = None -> fault_at g rc (SCall f args) (SCall f' args)
| F_call_non_callable : forall g rc f f' args t,
    lookup_all g f' = Some t -> (forall ps r, t <> TFn ps r) -> fault_at g rc (SCall f args) (SCall f' args).

Lemma set_env_same : forall g x t0 t g', lookup_fn g x = Some t0 -> set_env g x t = Some g' -> t0 = t.
Proof.
  intros g x t0 t g' Hl Hs. unfold set_env in Hs. rewrite Hl in Hs.
  destruct (ty_eq_dec t0 t); [assumption|discriminate].
Qed.

Theorem fault_ill_typed : forall g rc s s', fault_at g rc s s' -> forall g', ~ WTs g rc s' g'.
Proof.
  intros g rc s s' F g' W. destruct F; inversion W; subst.
  - (* wrong init *)
    match goal with H : _ \/ _ |- _ => destruct H as [H|H]; [discriminate|injection H as ->] end.
    match goal with H1 : has_type ?g ?e ?a, H2 : has_type ?g ?e ?b, N : ?a <> ?b |- _ =>
      apply N; eapply has_type_unique; eauto end.
  - (* wrong reassign *)
    match goal with Hs : set_env _ _ _ = Some _, Hl : lookup_fn _ _ = Some _ |- _ =>
      pose proof (set_env_same _ _ _ _ _ Hl Hs) as E end.
    subst. match goal with H1 : has_type ?g ?e ?a, H2 : has_type ?g ?e ?b, N : ?a <> ?b |- _ =>
      apply N; eapply has_type_unique; eauto end.
  - eapply (proj1 bad_untypable); eauto.
  - eapply (proj2 bad_untypable); eauto.
  - match goal with H1 : has_type ?g ?e ?a, H2 : has_type ?g ?e (TN NBool), N : ?a <> _ |- _ =>
      apply N; eapply has_type_unique; eauto end.
  - eapply (proj1 bad_untypable); eauto.
  - match goal with H1 : has_type ?g ?e ?a, H2 : has_type ?g ?e (TN NBool), N : ?a <> _ |- _ =>
      apply N; eapply has_type_unique; eauto end.
  - eapply (proj1 bad_untypable); eauto.
  - match goal with H1 : has_type ?g ?e ?a, H2 : has_type ?g ?e (TN _), N : ?a <> _ |- _ =>
      apply N; eapply has_type_unique; eauto end.
  - eapply (proj1 bad_untypable); eauto.
  - (* missing return *)
    match goal with H : _ \/ _ |- _ => destruct H as [H|H]; [discriminate|congruence] end.
  - (* call args *)
    uniq_lookup. eapply (proj2 bad_untypable); eauto.
  - congruence.
  - uniq_lookup. match goal with N : forall _ _, _ <> _ |- _ => eapply N; eauto end.
Qed.

(* exactly one statement, anywhere in the block (any nesting depth), carries a fault; the statements before
   it are well typed, which determines the environment at the site *)
Inductive mut_block : env -> rctx -> block -> block -> Prop :=
| MB_here : forall g rc s s' b, fault_at g rc s s' -> mut_block g rc (BCons s b) (BCons s' b)
| MB_inside : forall g rc s s' b, mut_stmt g rc s s' -> mut_block g rc (BCons s b) (BCons s' b)
| MB_later : forall g rc s g1 b b', WTs g rc s g1 -> mut_block g1 rc b b' -> mut_block g rc (BCons s b) (BCons s b')
with mut_stmt : env -> rctx -> stmt -> stmt -> Prop :=
| MS_then : forall g rc c t t' e, mut_block g rc t t' -> mut_stmt g rc (SIf c t e) (SIf c t' e)
| MS_else : forall g rc c t e e', mut_block g rc e e' -> mut_stmt g rc (SIf c t e) (SIf c t e')
| MS_while : forall g rc c b b', mut_block g rc b b' -> mut_stmt g rc (SWhile c b) (SWhile c b')
| MS_fn : forall g rc f ps r body body',
    mut_block (bind_params ps g) (Some r) body body' -> mut_stmt g rc (SFn f ps r body) (SFn f ps r body').

Scheme mut_block_mut := Induction for mut_block Sort Prop
  with mut_stmt_mut := Induction for mut_stmt Sort Prop.
Combined Scheme mut_mutind from mut_block_mut, mut_stmt_mut.

Theorem mutant_ill_typed :
  (forall g rc b b', mut_block g rc b b' -> forall g', ~ WTb g rc b' g') /\
  (forall g rc s s', mut_stmt g rc s s' -> forall g', ~ WTs g rc s' g').
Proof.
  apply mut_mutind.
  - intros g rc s s' b F g' W. inversion W; subst. eapply fault_ill_typed; eauto.
  - intros g rc s s' b _ IH g' W. inversion W; subst. eapply IH; eauto.
  - intros g rc s g1 b b' Hs _ IH g' W. inversion W; subst.
    match goal with H : WTs g rc s ?gx |- _ => pose proof (WTs_deterministic _ _ _ _ _ Hs H) as E end.
    subst. eapply IH; eauto.
  - intros g rc c t t' e _ IH g' W. inversion W; subst. eapply IH; eauto.
  - intros g rc c t e e' _ IH g' W. inversion W; subst. eapply IH; eauto.
  - intros g rc c b b' _ IH g' W. inversion W; subst. eapply IH; eauto.
  - intros g rc f ps r body body' _ IH g' W. inversion W; subst. eapply IH; eauto.
Qed.

(* C03 on the fragment: every single catalogue fault, at every site, breaks well-typedness ... *)
Theorem fault_breaks : forall p p', WT p -> mut_block [] None p p' -> ~ WT p'.
Proof.
  intros p p' _ M [g' W]. eapply (proj1 mutant_ill_typed); eauto.
Qed.

(* ... hence is rejected by the checker (and by any checker that is sound for WT) *)
Corollary fault_rejected : forall p p', WT p -> mut_block [] None p p' -> check_prog p' = false.
Proof.
  intros p p' Hp M. destruct (check_prog p') eqn:E; [|reflexivity].
  exfalso. eapply fault_breaks; eauto. apply check_sound. exact E.
Qed.
