(* Elaboration of a pest grammar into a core PEG: what pest_generator 2.8 emits for each construct.

   pest keeps a run-time atomicity (NonAtomic / Atomic / CompoundAtomic); the same rule behaves
   differently depending on the atomicity it is called under, so every surface rule i becomes three
   core rules  3*i + {0,1,2}  (one per atomicity of the CALLER):

     rule type        body runs under        token (parse-tree node)
     normal  {}       caller's atomicity     unless caller is Atomic
     silent  _{}      caller's atomicity     never
     atomic  @{}      Atomic                 unless caller is Atomic        (state.rule(.., atomic(..)))
     compound ${}     CompoundAtomic         always                         (atomic(.., state.rule(..)))
     nonatomic !{}    NonAtomic              always
     WHITESPACE / COMMENT (normal, silent or non-atomic): body runs Atomic

   Under NonAtomic atomicity  [a ~ b] is [a skip b],  [a STAR] is [opt (a (star (skip a)))],
   [a PLUS] is [a skip (a STAR)], with skip = star WHITESPACE ; star (COMMENT ; star WHITESPACE)
   (whichever of the two rules exist); under the other two atomicities they are the plain PEG operators. *)
From MS Require Import Peg.Syntax.

Inductive mode := NonAtomic | Atomic | Compound.

Definition mode_idx (m : mode) : nat :=
  match m with NonAtomic => 0 | Atomic => 1 | Compound => 2 end.
Definition cidx (i : nat) (m : mode) : nat := 3 * i + mode_idx m.

Section Desugar.
  Variable ws cm : option nat.      (* surface indices of WHITESPACE and COMMENT, if defined *)

  Definition call_na (i : nat) : cexp := CCall (cidx i NonAtomic).

  Definition skip : cexp :=
    match ws, cm with
    | None, None => CEmpty
    | Some w, None => CStar (call_na w)
    | None, Some c => CStar (call_na c)
    | Some w, Some c =>
        CSeq (CStar (call_na w)) (CStar (CSeq (call_na c) (CStar (call_na w))))
    end.

  Definition seq_m (m : mode) (a b : cexp) : cexp :=
    match m with
    | NonAtomic => CSeq a (CSeq skip b)
    | _ => CSeq a b
    end.

  Definition star_m (m : mode) (a : cexp) : cexp :=
    match m with
    | NonAtomic => CChoice (CSeq a (CStar (CSeq skip a))) CEmpty
    | _ => CStar a
    end.

  Fixpoint ds (m : mode) (e : pexp) : cexp :=
    match e with
    | PStr s => CStr s
    | PInsens s => CInsens s
    | PRange lo hi => CRange lo hi
    | PCall i => CCall (cidx i m)
    | PAny => CAny
    | PSoi => CSoi
    | PEoiPrim => CEoi
    | PSeq a b => seq_m m (ds m a) (ds m b)
    | PChoice a b => CChoice (ds m a) (ds m b)
    | POpt a => CChoice (ds m a) CEmpty
    | PStar a => star_m m (ds m a)
    | PPlus a => seq_m m (ds m a) (star_m m (ds m a))
    | PPos a => CPos (ds m a)
    | PNeg a => CNeg (ds m a)
    end.

  Definition is_special (i : nat) : bool :=
    match ws with Some w => Nat.eqb i w | None => false end
    || match cm with Some c => Nat.eqb i c | None => false end.

  Definition body_mode (i : nat) (md : modifier) (m : mode) : mode :=
    match md with
    | MAtomic => Atomic
    | MCompound => Compound
    | MNonAtomic => if is_special i then Atomic else NonAtomic
    | MNormal | MSilent => if is_special i then Atomic else m
    end.

  Definition token (i : nat) (md : modifier) (m : mode) : option nat :=
    match md with
    | MSilent => None
    | MNormal | MAtomic => match m with Atomic => None | _ => Some i end
    | MCompound | MNonAtomic => Some i
    end.

  Definition mk (i : nat) (r : prule) (m : mode) : crule :=
    {| ctok := token i (rmod r) m; cbody := ds (body_mode i (rmod r) m) (rbody r) |}.

  Fixpoint desugar_from (i : nat) (g : grammar) : cgrammar :=
    match g with
    | [] => []
    | r :: g' => mk i r NonAtomic :: mk i r Atomic :: mk i r Compound :: desugar_from (S i) g'
    end.
End Desugar.

(* index of the rule with a given name *)
Fixpoint find_rule (name : str) (i : nat) (g : grammar) : option nat :=
  match g with
  | [] => None
  | r :: g' => if str_eqb (rname r) name then Some i else find_rule name (S i) g'
  end.

Definition n_WHITESPACE : str := [87; 72; 73; 84; 69; 83; 80; 65; 67; 69].
Definition n_COMMENT : str := [67; 79; 77; 77; 69; 78; 84].

Definition desugar (g : grammar) : cgrammar :=
  desugar_from (find_rule n_WHITESPACE 0 g) (find_rule n_COMMENT 0 g) 0 g.
