(* Fuelled interpreter for core PEGs with parse trees and a step counter.
   fuel bounds the recursion DEPTH; OutOfFuel is the model's "does not terminate". *)
From MS Require Import Peg.Syntax Peg.Desugar.

Record st := { rest : list N; pos : N }.

(* parse-tree node: surface rule index, start and end position (in scalars), children *)
Inductive tree := Node (r : nat) (s e : N) (kids : list tree).

Inductive res :=
| Ok (s : st) (ts : list tree) (steps : N)
| Fail (steps : N)
| OutOfFuel.

Fixpoint eat_str (l : str) (s : list N) (p : N) : option st :=
  match l with
  | [] => Some {| rest := s; pos := p |}
  | c :: l' => match s with
               | d :: s' => if c =? d then eat_str l' s' (p + 1) else None
               | [] => None
               end
  end.

(* u8::eq_ignore_ascii_case *)
Definition lower (c : N) : N := if (65 <=? c) && (c <=? 90) then c + 32 else c.
Fixpoint eat_insens (l : str) (s : list N) (p : N) : option st :=
  match l with
  | [] => Some {| rest := s; pos := p |}
  | c :: l' => match s with
               | d :: s' => if lower c =? lower d then eat_insens l' s' (p + 1) else None
               | [] => None
               end
  end.

Definition of_opt (o : option st) : res :=
  match o with Some s => Ok s [] 1 | None => Fail 1 end.

Fixpoint parse (cg : cgrammar) (fuel : nat) (e : cexp) (s : st) {struct fuel} : res :=
  match fuel with
  | O => OutOfFuel
  | S f =>
    match e with
    | CEmpty => Ok s [] 1
    | CStr l => of_opt (eat_str l (rest s) (pos s))
    | CInsens l => of_opt (eat_insens l (rest s) (pos s))
    | CRange lo hi =>
        match rest s with
        | c :: r => if (lo <=? c) && (c <=? hi) then Ok {| rest := r; pos := pos s + 1 |} [] 1 else Fail 1
        | [] => Fail 1
        end
    | CAny =>
        match rest s with
        | c :: r => Ok {| rest := r; pos := pos s + 1 |} [] 1
        | [] => Fail 1
        end
    | CSoi => if pos s =? 0 then Ok s [] 1 else Fail 1
    | CEoi => match rest s with [] => Ok s [] 1 | _ => Fail 1 end
    | CCall i =>
        match nth_error cg i with
        | None => Fail 1
        | Some r =>
            match parse cg f (cbody r) s with
            | Ok s' ts n =>
                Ok s' (match ctok r with Some k => [Node k (pos s) (pos s') ts] | None => ts end) (n + 1)
            | Fail n => Fail (n + 1)
            | OutOfFuel => OutOfFuel
            end
        end
    | CSeq a b =>
        match parse cg f a s with
        | Ok s1 t1 n1 =>
            match parse cg f b s1 with
            | Ok s2 t2 n2 => Ok s2 (t1 ++ t2) (n1 + n2 + 1)
            | Fail n2 => Fail (n1 + n2 + 1)
            | OutOfFuel => OutOfFuel
            end
        | Fail n1 => Fail (n1 + 1)
        | OutOfFuel => OutOfFuel
        end
    | CChoice a b =>
        match parse cg f a s with
        | Ok s1 t1 n1 => Ok s1 t1 (n1 + 1)
        | Fail n1 =>
            match parse cg f b s with
            | Ok s2 t2 n2 => Ok s2 t2 (n1 + n2 + 1)
            | Fail n2 => Fail (n1 + n2 + 1)
            | OutOfFuel => OutOfFuel
            end
        | OutOfFuel => OutOfFuel
        end
    | CStar a =>
        match parse cg f a s with
        | Ok s1 t1 n1 =>
            (* pest's repeat() loops as long as the body succeeds, consuming or not *)
            match parse cg f (CStar a) s1 with
            | Ok s2 t2 n2 => Ok s2 (t1 ++ t2) (n1 + n2 + 1)
            | Fail n2 => Fail (n1 + n2 + 1)
            | OutOfFuel => OutOfFuel
            end
        | Fail n1 => Ok s [] (n1 + 1)
        | OutOfFuel => OutOfFuel
        end
    | CPos a =>
        match parse cg f a s with
        | Ok _ _ n => Ok s [] (n + 1)
        | Fail n => Fail (n + 1)
        | OutOfFuel => OutOfFuel
        end
    | CNeg a =>
        match parse cg f a s with
        | Ok _ _ n => Fail (n + 1)
        | Fail n => Ok s [] (n + 1)
        | OutOfFuel => OutOfFuel
        end
    end
  end.

Definition start (input : list N) : st := {| rest := input; pos := 0 |}.

(* Parser::parse(Rule::i, input): the initial atomicity is NonAtomic *)
Definition parse_rule (g : grammar) (fuel : nat) (i : nat) (input : list N) : res :=
  parse (desugar g) fuel (CCall (cidx i NonAtomic)) (start input).

(* pre-order listing (depth, rule, start, end) -- what the harness prints for pest's Pairs *)
Fixpoint flatten (d : N) (t : tree) : list (N * nat * N * N) :=
  match t with
  | Node r s e kids => (d, r, s, e) :: flat_map (flatten (d + 1)) kids
  end.
Definition flatten_all (ts : list tree) : list (N * nat * N * N) := flat_map (flatten 0) ts.
