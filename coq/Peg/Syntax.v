(* PEG syntax as written in a pest grammar file (what gen/pest2coq.py emits), and the core PEG
   the surface syntax is elaborated to (Peg/Desugar.v).  Characters are Unicode scalars (N). *)
From MS Require Export Base.Str.

(* ---- surface: one constructor per pest construct ---- *)
Inductive modifier := MNormal | MSilent | MAtomic | MCompound | MNonAtomic.

Inductive pexp :=
| PStr (s : str)                 (* "lit"  *)
| PInsens (s : str)              (* ^"lit" : ASCII case-insensitive *)
| PRange (lo hi : N)             (* 'a'..'z' *)
| PCall (i : nat)                (* rule reference, index into the rule list *)
| PAny                           (* built-in ANY: one scalar *)
| PSoi                           (* built-in SOI *)
| PEoiPrim                       (* end_of_input(); the built-in rule EOI = { PEoiPrim } makes a token *)
| PSeq (a b : pexp)              (* a ~ b *)
| PChoice (a b : pexp)           (* a | b *)
| POpt (a : pexp)                (* a? *)
| PStar (a : pexp)               (* a* *)
| PPlus (a : pexp)               (* a+ *)
| PPos (a : pexp)                (* &a *)
| PNeg (a : pexp).               (* !a *)

Record prule := { rname : str; rmod : modifier; rbody : pexp }.
Definition grammar := list prule.

(* ---- core ---- *)
Inductive cexp :=
| CEmpty
| CStr (s : str)
| CInsens (s : str)
| CRange (lo hi : N)
| CAny
| CSoi
| CEoi
| CCall (i : nat)
| CSeq (a b : cexp)
| CChoice (a b : cexp)
| CStar (a : cexp)
| CPos (a : cexp)
| CNeg (a : cexp).

(* ctok = Some r : a successful call makes a parse-tree node labelled with surface rule r *)
Record crule := { ctok : option nat; cbody : cexp }.
Definition cgrammar := list crule.

Fixpoint csize (e : cexp) : nat :=
  match e with
  | CSeq a b | CChoice a b => S (csize a + csize b)
  | CStar a | CPos a | CNeg a => S (csize a)
  | _ => 1
  end.
