(* Promptness of the parser is REFUTED in the model (known findings of C16, DESIGN F10):
   the step counter doubles with every nesting level of a list type and of an unclosed list literal.
   Witnesses of a DEFECT: this file is expected to stop compiling when grammar.pest is repaired; it is
   therefore not a dependency of Props/C16.v (vlib/c16.py builds it separately and records the outcome). *)
From MS Require Import Peg.Syntax Peg.Desugar Peg.Interp Peg.Wf Peg.WfCompute Gen.Grammar.

Definition nested_list_type (k : nat) : list N :=       (* x: [[..[int...]..]] = 1\n *)
  [120; 58; 32] ++ repeat 91 k ++ [105; 110; 116; 46; 46; 46] ++ repeat 93 k ++ [32; 61; 32; 49; 10].
Definition unclosed_list (k : nat) : list N :=          (* x = [[[[.. *)
  [120; 32; 61; 32] ++ repeat 91 k.
Definition nested_callbacks (k : nat) : list N :=      (* r(fn(){r(fn(){ .. print 1 + .. })}) : an operand is missing in the innermost callback *)
  concat (repeat [114; 40; 102; 110; 40; 41; 123] k) ++ [112; 114; 105; 110; 116; 32; 49; 32; 43] ++ concat (repeat [125; 41] k).
Definition steps (input : list N) : N :=
  match steps_of (parse_rule Grammar.g 4000 r_file input) with Some n => n | None => 0 end.
Definition ks : list nat := seq 1 12.

(* consecutive differences double and steps(k) >= 2^k *)
Fixpoint doubling (k : N) (l : list N) : bool :=
  match l with
  | a :: ((b :: c :: _) as l') => (a <? b) && (c - b =? 2 * (b - a)) && (2 ^ k <=? a) && doubling (k + 1) l'
  | [a; b] => (a <? b) && (2 ^ k <=? a) && (2 ^ (k + 1) <=? b)
  | _ => true
  end.

(* k = 1 .. 12 *)
Example C16_nested_list_type_steps_double_refuted :
  doubling 1 (map (fun k => steps (nested_list_type k)) ks) = true.
Proof. vm_compute. reflexivity. Qed.

Example C16_unclosed_list_steps_double_refuted :
  doubling 1 (map (fun k => steps (unclosed_list k)) ks) = true.
Proof. vm_compute. reflexivity. Qed.

(* the same for a syntax error inside k nested callbacks `r(fn(){ .. })` (no list is involved: the argument of the call is
   parsed once as a call argument and, when that fails, again as a parenthesised expression statement); k = 1 .. 10.
   With the parse budget of compiler/src/parser.rs (fix "parse-budget") the real parser gives up after a number of rule
   invocations that is linear in the input; the grammar itself keeps this growth. *)
Example C16_nested_callbacks_steps_double_refuted :
  doubling 1 (map (fun k => steps (nested_callbacks k)) (seq 1 10)) = true.
Proof. vm_compute. reflexivity. Qed.
