(* Well-formedness of a core PEG and the theorem that the interpreter terminates on every input of a
   well-formed grammar, with an explicit bound on the recursion depth (fuel):

       fuel  >=  (|input| + 1) * (R + 1) * (M + 1)

   M = largest rule body, R = 1 + largest rank.  Well-formedness is the classic PEG condition
   (Ford 2004), checked with two tables:
     nl : rule -> bool   over-approximates "can succeed without consuming"; required to be CLOSED
                         (a rule whose body is nullable w.r.t. nl is marked nullable);
     rk : rule -> nat    every rule called at the left edge of a body (i.e. possibly before any input
                         is consumed: through nullable prefixes, repetitions, predicates, choices) has a
                         strictly smaller rank than the rule itself  =>  no left recursion;
   plus: every called rule exists and no repetition has a nullable body.
   The tables are computed (Peg/WfCompute.v) but the theorem holds for ANY tables passing the check. *)
From MS Require Import Peg.Syntax Peg.Desugar Peg.Interp.
From Coq Require Import Lia PeanoNat.

Local Open Scope nat_scope.

Section WF.
  Variable cg : cgrammar.
  Variable nl : list bool.
  Variable rk : list nat.

  Definition nullb (i : nat) : bool := nth i nl true.
  Definition rank (i : nat) : nat := nth i rk 0.

  Fixpoint null (e : cexp) : bool :=
    match e with
    | CEmpty => true
    | CStr s | CInsens s => is_nil s
    | CRange _ _ | CAny => false
    | CSoi | CEoi => true
    | CCall i => nullb i
    | CSeq a b => null a && null b
    | CChoice a b => null a || null b
    | CStar _ | CPos _ | CNeg _ => true
    end.

  (* every rule callable from e before input has been consumed has rank < r *)
  Fixpoint lc (r : nat) (e : cexp) : bool :=
    match e with
    | CCall j => rank j <? r
    | CSeq a b => lc r a && (if null a then lc r b else true)
    | CChoice a b => lc r a && lc r b
    | CStar a | CPos a | CNeg a => lc r a
    | _ => true
    end.

  Fixpoint wfe (e : cexp) : bool :=
    match e with
    | CCall j => j <? length cg
    | CSeq a b | CChoice a b => wfe a && wfe b
    | CStar a => wfe a && negb (null a)
    | CPos a | CNeg a => wfe a
    | _ => true
    end.

  Fixpoint wf_rules (i : nat) (rs : list crule) : bool :=
    match rs with
    | [] => true
    | r :: rs' =>
        wfe (cbody r) && lc (rank i) (cbody r) && implb (null (cbody r)) (nullb i) && wf_rules (S i) rs'
    end.

  Definition wfb : bool := wf_rules 0 cg.

  Definition Mx : nat := list_max (map (fun r => csize (cbody r)) cg).
  Definition Rx : nat := S (list_max rk).
  Definition M' : nat := S Mx.
  Definition Kx : nat := S Rx * M'.
  Definition bound (n r sz : nat) : nat := n * Kx + r * M' + sz.

  (* ---------------------------------------------------------------- facts about the tables *)

  Lemma wf_rules_nth : forall rs i j r,
      wf_rules i rs = true -> nth_error rs j = Some r ->
      wfe (cbody r) = true /\ lc (rank (i + j)) (cbody r) = true /\
      (null (cbody r) = true -> nullb (i + j) = true).
  Proof.
    induction rs as [|r0 rs IH]; intros i j r Hwf Hn.
    - destruct j; discriminate.
    - cbn [wf_rules] in Hwf.
      apply andb_prop in Hwf. destruct Hwf as [Hwf Hrest].
      apply andb_prop in Hwf. destruct Hwf as [Hwf Himp].
      apply andb_prop in Hwf. destruct Hwf as [Hwfe Hlc].
      destruct j as [|j].
      + cbn in Hn. inversion Hn; subst r0. rewrite Nat.add_0_r.
        repeat split; auto. intros Hnull. rewrite Hnull in Himp. exact Himp.
      + cbn in Hn. replace (i + S j) with (S i + j) by lia. eapply IH; eauto.
  Qed.

  Lemma wfb_nth : wfb = true -> forall j r, nth_error cg j = Some r ->
      wfe (cbody r) = true /\ lc (rank j) (cbody r) = true /\ (null (cbody r) = true -> nullb j = true).
  Proof. intros H j r Hn. exact (wf_rules_nth cg 0 j r H Hn). Qed.

  Lemma list_max_nth : forall (l : list nat) j, nth j l 0 <= list_max l.
  Proof.
    induction l as [|x l IH]; intros j.
    - destruct j; cbn; lia.
    - destruct j; cbn [nth list_max fold_right].
      + apply Nat.le_max_l.
      + specialize (IH j). unfold list_max in IH. etransitivity; [exact IH|apply Nat.le_max_r].
  Qed.

  Lemma rank_lt_R : forall j, rank j < Rx.
  Proof. intros j. unfold rank, Rx. pose proof (list_max_nth rk j). lia. Qed.

  Lemma body_size : forall j r, nth_error cg j = Some r -> csize (cbody r) <= Mx.
  Proof.
    intros j r Hn. unfold Mx.
    assert (Hin : In (csize (cbody r)) (map (fun r => csize (cbody r)) cg)).
    { apply in_map_iff. exists r. split; auto. eapply nth_error_In; eauto. }
    revert Hin. generalize (map (fun r0 => csize (cbody r0)) cg). intros l.
    induction l as [|x l IH]; intros Hin; [destruct Hin|].
    cbn [list_max fold_right]. destruct Hin as [->|Hin].
    - apply Nat.le_max_l.
    - specialize (IH Hin). unfold list_max in IH. etransitivity; [exact IH|apply Nat.le_max_r].
  Qed.

  Lemma lc_top : forall e, lc Rx e = true.
  Proof.
    induction e; cbn [lc]; auto.
    - apply Nat.ltb_lt. apply rank_lt_R.
    - rewrite IHe1, IHe2. destruct (null e1); reflexivity.
    - rewrite IHe1, IHe2. reflexivity.
  Qed.

  Lemma csize_pos : forall e, 1 <= csize e.
  Proof. destruct e; cbn; lia. Qed.

  (* ---------------------------------------------------------------- terminals *)

  Lemma eat_str_len : forall l s p s', eat_str l s p = Some s' -> length (rest s') + length l = length s.
  Proof.
    induction l as [|c l IH]; intros s p s' H; cbn in H.
    - inversion H; subst; cbn; lia.
    - destruct s as [|d s]; [discriminate|]. destruct (N.eqb c d); [|discriminate].
      apply IH in H. cbn [length]. lia.
  Qed.

  Lemma eat_insens_len : forall l s p s', eat_insens l s p = Some s' -> length (rest s') + length l = length s.
  Proof.
    induction l as [|c l IH]; intros s p s' H; cbn in H.
    - inversion H; subst; cbn; lia.
    - destruct s as [|d s]; [discriminate|]. destruct (N.eqb (lower c) (lower d)); [|discriminate].
      apply IH in H. cbn [length]. lia.
  Qed.

  Lemma is_nil_len : forall (l : str), length l = 0 -> is_nil l = true.
  Proof. destruct l; cbn; intros; [reflexivity|discriminate]. Qed.

  (* ---------------------------------------------------------------- unfolding equations *)

  Lemma parse_call : forall f i s, parse cg (S f) (CCall i) s =
    match nth_error cg i with
    | None => Fail 1
    | Some r => match parse cg f (cbody r) s with
                | Ok s' ts n => Ok s' (match ctok r with Some k => [Node k (pos s) (pos s') ts] | None => ts end) (n + 1)
                | Fail n => Fail (n + 1)
                | OutOfFuel => OutOfFuel
                end
    end.
  Proof. reflexivity. Qed.

  Lemma parse_seq : forall f a b s, parse cg (S f) (CSeq a b) s =
    match parse cg f a s with
    | Ok s1 t1 n1 => match parse cg f b s1 with
                     | Ok s2 t2 n2 => Ok s2 (t1 ++ t2) (n1 + n2 + 1)
                     | Fail n2 => Fail (n1 + n2 + 1)
                     | OutOfFuel => OutOfFuel
                     end
    | Fail n1 => Fail (n1 + 1)
    | OutOfFuel => OutOfFuel
    end.
  Proof. reflexivity. Qed.

  Lemma parse_choice : forall f a b s, parse cg (S f) (CChoice a b) s =
    match parse cg f a s with
    | Ok s1 t1 n1 => Ok s1 t1 (n1 + 1)
    | Fail n1 => match parse cg f b s with
                 | Ok s2 t2 n2 => Ok s2 t2 (n1 + n2 + 1)
                 | Fail n2 => Fail (n1 + n2 + 1)
                 | OutOfFuel => OutOfFuel
                 end
    | OutOfFuel => OutOfFuel
    end.
  Proof. reflexivity. Qed.

  Lemma parse_star : forall f a s, parse cg (S f) (CStar a) s =
    match parse cg f a s with
    | Ok s1 t1 n1 => match parse cg f (CStar a) s1 with
                     | Ok s2 t2 n2 => Ok s2 (t1 ++ t2) (n1 + n2 + 1)
                     | Fail n2 => Fail (n1 + n2 + 1)
                     | OutOfFuel => OutOfFuel
                     end
    | Fail n1 => Ok s [] (n1 + 1)
    | OutOfFuel => OutOfFuel
    end.
  Proof. reflexivity. Qed.

  Lemma parse_pos : forall f a s, parse cg (S f) (CPos a) s =
    match parse cg f a s with
    | Ok _ _ n => Ok s [] (n + 1)
    | Fail n => Fail (n + 1)
    | OutOfFuel => OutOfFuel
    end.
  Proof. reflexivity. Qed.

  Lemma parse_neg : forall f a s, parse cg (S f) (CNeg a) s =
    match parse cg f a s with
    | Ok _ _ n => Fail (n + 1)
    | Fail n => Ok s [] (n + 1)
    | OutOfFuel => OutOfFuel
    end.
  Proof. reflexivity. Qed.

  (* ---------------------------------------------------------------- progress *)

  (* a successful parse never lengthens the input, and if it consumed nothing the expression is
     nullable according to the (closed) table *)
  Lemma progress : wfb = true -> forall fuel e s s' ts n,
      parse cg fuel e s = Ok s' ts n ->
      length (rest s') <= length (rest s) /\ (length (rest s') = length (rest s) -> null e = true).
  Proof.
    intros Hwf. induction fuel as [|f IH]; intros e s s' ts n H; [discriminate|].
    destruct e.
    - (* CEmpty *) cbn in H. inversion H; subst. split; auto.
    - (* CStr *) cbn in H. unfold of_opt in H. destruct (eat_str s0 (rest s) (pos s)) eqn:E; [|discriminate].
      inversion H; subst. apply eat_str_len in E. split; [lia|]. intros. cbn. apply is_nil_len. lia.
    - (* CInsens *) cbn in H. unfold of_opt in H. destruct (eat_insens s0 (rest s) (pos s)) eqn:E; [|discriminate].
      inversion H; subst. apply eat_insens_len in E. split; [lia|]. intros. cbn. apply is_nil_len. lia.
    - (* CRange *) cbn in H. destruct (rest s) as [|c r] eqn:E; [discriminate|].
      destruct ((lo <=? c)%N && (c <=? hi)%N); [|discriminate]. inversion H; subst. cbn. split; [lia|]. intros; exfalso; lia.
    - (* CAny *) cbn in H. destruct (rest s) as [|c r] eqn:E; [discriminate|].
      inversion H; subst. cbn. split; [lia|]. intros; exfalso; lia.
    - (* CSoi *) cbn in H. destruct (pos s =? 0)%N; [|discriminate]. inversion H; subst. split; auto.
    - (* CEoi *) cbn in H. assert (s' = s) by (destruct (rest s); [inversion H; reflexivity|discriminate]).
      subst s'. split; auto.
    - (* CCall *) rewrite parse_call in H. destruct (nth_error cg i) as [r|] eqn:En; [|discriminate].
      destruct (parse cg f (cbody r) s) as [s1 t1 n1| |] eqn:E; try discriminate.
      inversion H; subst. apply IH in E. destruct E as [Hle Hnull]. split; [exact Hle|].
      intros Heq. cbn [null]. destruct (wfb_nth Hwf i r En) as (_ & _ & Hcl). apply Hcl. auto.
    - (* CSeq *) rewrite parse_seq in H.
      destruct (parse cg f e1 s) as [s1 t1 n1| |] eqn:E1; try discriminate.
      destruct (parse cg f e2 s1) as [s2 t2 n2| |] eqn:E2; try discriminate.
      inversion H; subst. apply IH in E1. apply IH in E2.
      destruct E1 as [L1 N1], E2 as [L2 N2]. split; [lia|].
      intros Heq. cbn [null]. rewrite N1, N2 by lia. reflexivity.
    - (* CChoice *) rewrite parse_choice in H.
      destruct (parse cg f e1 s) as [s1 t1 n1| |] eqn:E1; try discriminate.
      + inversion H; subst. apply IH in E1. destruct E1 as [L1 N1]. split; [exact L1|].
        intros Heq. cbn [null]. rewrite N1 by auto. reflexivity.
      + destruct (parse cg f e2 s) as [s2 t2 n2| |] eqn:E2; try discriminate.
        inversion H; subst. apply IH in E2. destruct E2 as [L2 N2]. split; [exact L2|].
        intros Heq. cbn [null]. rewrite N2 by auto. apply orb_true_r.
    - (* CStar *) rewrite parse_star in H. split; [|reflexivity].
      destruct (parse cg f e s) as [s1 t1 n1| |] eqn:E1; try discriminate.
      + destruct (parse cg f (CStar e) s1) as [s2 t2 n2| |] eqn:E2; try discriminate.
        inversion H; subst. apply IH in E1. apply IH in E2. lia.
      + inversion H; subst. lia.
    - (* CPos *) rewrite parse_pos in H. destruct (parse cg f e s); try discriminate. inversion H; subst. split; auto.
    - (* CNeg *) rewrite parse_neg in H. destruct (parse cg f e s); try discriminate. inversion H; subst. split; auto.
  Qed.

  (* ---------------------------------------------------------------- termination *)

  Lemma mul_step : forall a b k, a < b -> a * k + k <= b * k.
  Proof. intros a b k H. replace (a * k + k) with (S a * k) by (cbn; lia). apply Nat.mul_le_mono_r. lia. Qed.

  Lemma Kx_eq : Kx = Rx * M' + M'.
  Proof. unfold Kx. cbn [Nat.mul]. lia. Qed.

  Theorem terminates : wfb = true -> forall fuel e s r,
      wfe e = true -> lc r e = true -> csize e <= Mx -> r <= Rx ->
      bound (length (rest s)) r (csize e) <= fuel ->
      parse cg fuel e s <> OutOfFuel.
  Proof.
    intros Hwf. induction fuel as [|f IH]; intros e s r Hwfe Hlc Hsz Hr Hb.
    - unfold bound in Hb. pose proof (csize_pos e). lia.
    - pose proof Kx_eq as HK. assert (HM : M' = S Mx) by reflexivity.
      pose proof (Nat.mul_le_mono_r r Rx M' Hr) as HrR.
      unfold bound in Hb.
      (* a sub-expression evaluated at the same input position *)
      assert (Hsame : forall e' s0, length (rest s0) = length (rest s) -> wfe e' = true -> lc r e' = true ->
                                     csize e' < csize e -> parse cg f e' s0 <> OutOfFuel).
      { intros e' s0 Hl W L Sz. apply (IH e' s0 r W L); [lia|exact Hr|]. unfold bound. rewrite Hl. lia. }
      (* any expression of the grammar evaluated after input has been consumed *)
      assert (Hless : forall e' s0, length (rest s0) < length (rest s) -> wfe e' = true -> csize e' <= Mx ->
                                     parse cg f e' s0 <> OutOfFuel).
      { intros e' s0 Hl W Sz. apply (IH e' s0 Rx W (lc_top e') Sz (le_n _)). unfold bound.
        pose proof (mul_step _ _ Kx Hl). lia. }
      destruct e; try (cbn; unfold of_opt; repeat match goal with |- context [match ?x with _ => _ end] => destruct x end; discriminate).
      + (* CCall *) rewrite parse_call. destruct (nth_error cg i) as [rl|] eqn:En; [|discriminate].
        destruct (wfb_nth Hwf i rl En) as (W & L & _).
        cbn [lc] in Hlc. apply Nat.ltb_lt in Hlc.
        assert (parse cg f (cbody rl) s <> OutOfFuel) as Hne.
        { apply (IH (cbody rl) s (rank i) W L (body_size i rl En)).
          - pose proof (rank_lt_R i). lia.
          - unfold bound. pose proof (body_size i rl En). pose proof (mul_step _ _ M' Hlc). cbn [csize] in Hb. lia. }
        destruct (parse cg f (cbody rl) s); try discriminate. congruence.
      + (* CSeq *) rewrite parse_seq. cbn [wfe lc csize] in *.
        apply andb_prop in Hwfe. destruct Hwfe as [W1 W2]. apply andb_prop in Hlc. destruct Hlc as [L1 L2].
        assert (parse cg f e1 s <> OutOfFuel) as H1 by (apply Hsame; auto; lia).
        destruct (parse cg f e1 s) as [s1 t1 n1| |] eqn:E1; try discriminate; [|congruence].
        destruct (progress Hwf _ _ _ _ _ _ E1) as [Hle Hnull].
        assert (parse cg f e2 s1 <> OutOfFuel) as H2.
        { destruct (Nat.eq_dec (length (rest s1)) (length (rest s))) as [Heq|Hneq].
          - apply Hsame; auto; [|lia]. rewrite (Hnull Heq) in L2. exact L2.
          - apply Hless; auto; lia. }
        destruct (parse cg f e2 s1); try discriminate. congruence.
      + (* CChoice *) rewrite parse_choice. cbn [wfe lc csize] in *.
        apply andb_prop in Hwfe. destruct Hwfe as [W1 W2]. apply andb_prop in Hlc. destruct Hlc as [L1 L2].
        assert (parse cg f e1 s <> OutOfFuel) as H1 by (apply Hsame; auto; lia).
        destruct (parse cg f e1 s) as [s1 t1 n1| |] eqn:E1; try discriminate; [|congruence].
        assert (parse cg f e2 s <> OutOfFuel) as H2 by (apply Hsame; auto; lia).
        destruct (parse cg f e2 s); try discriminate. congruence.
      + (* CStar *) rewrite parse_star. pose proof Hwfe as Hwfe0. cbn [wfe lc csize] in *.
        apply andb_prop in Hwfe. destruct Hwfe as [W1 Wn].
        assert (parse cg f e s <> OutOfFuel) as H1 by (apply Hsame; auto; lia).
        destruct (parse cg f e s) as [s1 t1 n1| |] eqn:E1; try discriminate; [|congruence].
        destruct (progress Hwf _ _ _ _ _ _ E1) as [Hle Hnull].
        assert (length (rest s1) < length (rest s)) as Hlt.
        { destruct (Nat.eq_dec (length (rest s1)) (length (rest s))) as [Heq|Hneq]; [|lia].
          rewrite (Hnull Heq) in Wn. discriminate. }
        assert (parse cg f (CStar e) s1 <> OutOfFuel) as H2 by (apply Hless; auto).
        destruct (parse cg f (CStar e) s1); try discriminate. congruence.
      + (* CPos *) rewrite parse_pos. cbn [wfe lc csize] in *.
        assert (parse cg f e s <> OutOfFuel) as H1 by (apply Hsame; auto; lia).
        destruct (parse cg f e s); try discriminate. congruence.
      + (* CNeg *) rewrite parse_neg. cbn [wfe lc csize] in *.
        assert (parse cg f e s <> OutOfFuel) as H1 by (apply Hsame; auto; lia).
        destruct (parse cg f e s); try discriminate. congruence.
  Qed.

  (* ---------------------------------------------------------------- fuel monotonicity *)

  Lemma parse_S : forall f e s, parse cg f e s <> OutOfFuel -> parse cg (S f) e s = parse cg f e s.
  Proof.
    induction f as [|f IH]; intros e s H; [cbn in H; congruence|].
    destruct e; try reflexivity.
    - rewrite parse_call in *. rewrite (parse_call f). destruct (nth_error cg i) as [r|]; [|reflexivity].
      rewrite IH; [reflexivity|]. intros C. rewrite C in H. congruence.
    - rewrite (parse_seq (S f)). rewrite parse_seq in H. rewrite (parse_seq f).
      assert (parse cg f e1 s <> OutOfFuel) as H1 by (intros C; rewrite C in H; congruence).
      rewrite (IH _ _ H1). destruct (parse cg f e1 s) as [s1 t1 n1| |]; try reflexivity.
      assert (parse cg f e2 s1 <> OutOfFuel) as H2 by (intros C; rewrite C in H; congruence).
      rewrite (IH _ _ H2). reflexivity.
    - rewrite (parse_choice (S f)). rewrite parse_choice in H. rewrite (parse_choice f).
      assert (parse cg f e1 s <> OutOfFuel) as H1 by (intros C; rewrite C in H; congruence).
      rewrite (IH _ _ H1). destruct (parse cg f e1 s) as [s1 t1 n1| |]; try reflexivity.
      assert (parse cg f e2 s <> OutOfFuel) as H2 by (intros C; rewrite C in H; congruence).
      rewrite (IH _ _ H2). reflexivity.
    - rewrite (parse_star (S f)). rewrite parse_star in H. rewrite (parse_star f).
      assert (parse cg f e s <> OutOfFuel) as H1 by (intros C; rewrite C in H; congruence).
      rewrite (IH _ _ H1). destruct (parse cg f e s) as [s1 t1 n1| |]; try reflexivity.
      assert (parse cg f (CStar e) s1 <> OutOfFuel) as H2 by (intros C; rewrite C in H; congruence).
      rewrite (IH _ _ H2). reflexivity.
    - rewrite (parse_pos (S f)). rewrite parse_pos in H. rewrite (parse_pos f).
      assert (parse cg f e s <> OutOfFuel) as H1 by (intros C; rewrite C in H; congruence).
      rewrite (IH _ _ H1). reflexivity.
    - rewrite (parse_neg (S f)). rewrite parse_neg in H. rewrite (parse_neg f).
      assert (parse cg f e s <> OutOfFuel) as H1 by (intros C; rewrite C in H; congruence).
      rewrite (IH _ _ H1). reflexivity.
  Qed.

  (* more fuel never changes a result that was not OutOfFuel *)
  Theorem parse_mono : forall f f' e s, f <= f' -> parse cg f e s <> OutOfFuel -> parse cg f' e s = parse cg f e s.
  Proof.
    intros f f' e s Hle H. induction Hle as [|f' Hle IH]; [reflexivity|].
    rewrite parse_S; [exact IH|]. rewrite IH. exact H.
  Qed.
End WF.
