(* Computing the two tables of the well-formedness check, the check for pest grammars, and the
   termination theorem at the level of a pest grammar (surface syntax, any start rule). *)
From MS Require Import Peg.Syntax Peg.Desugar Peg.Interp Peg.Wf.
From Coq Require Import Lia PeanoNat.

Local Open Scope nat_scope.

Fixpoint bools_eqb (a b : list bool) : bool :=
  match a, b with
  | [], [] => true
  | x :: a', y :: b' => Bool.eqb x y && bools_eqb a' b'
  | _, _ => false
  end.

Fixpoint nats_eqb (a b : list nat) : bool :=
  match a, b with
  | [], [] => true
  | x :: a', y :: b' => Nat.eqb x y && nats_eqb a' b'
  | _, _ => false
  end.

(* least fixpoint of "body is nullable", from all-false *)
Definition null_step (cg : cgrammar) (nl : list bool) : list bool :=
  map (fun r => null nl (cbody r)) cg.

Fixpoint iter_nl (fuel : nat) (cg : cgrammar) (nl : list bool) : list bool :=
  match fuel with
  | O => nl
  | S f => let nl' := null_step cg nl in if bools_eqb nl' nl then nl else iter_nl f cg nl'
  end.

Definition compute_nl (cg : cgrammar) : list bool :=
  iter_nl (S (length cg)) cg (map (fun _ => false) cg).

(* rank = 1 + the largest rank of a rule callable at the left edge (0 if none); iterated from 0.
   With left recursion the iteration does not stabilise and the check below fails. *)
Fixpoint lcmax (nl : list bool) (rk : list nat) (e : cexp) : nat :=
  match e with
  | CCall j => S (nth j rk 0)
  | CSeq a b => Nat.max (lcmax nl rk a) (if null nl a then lcmax nl rk b else 0)
  | CChoice a b => Nat.max (lcmax nl rk a) (lcmax nl rk b)
  | CStar a | CPos a | CNeg a => lcmax nl rk a
  | _ => 0
  end.

Definition rk_step (cg : cgrammar) (nl : list bool) (rk : list nat) : list nat :=
  map (fun r => lcmax nl rk (cbody r)) cg.

Fixpoint iter_rk (fuel : nat) (cg : cgrammar) (nl : list bool) (rk : list nat) : list nat :=
  match fuel with
  | O => rk
  | S f => let rk' := rk_step cg nl rk in if nats_eqb rk' rk then rk else iter_rk f cg nl rk'
  end.

Definition compute_rk (cg : cgrammar) (nl : list bool) : list nat :=
  iter_rk (S (length cg)) cg nl (map (fun _ => 0) cg).

(* ---- the check for a pest grammar ---- *)
Definition tables (g : grammar) : cgrammar * list bool * list nat :=
  let cg := desugar g in
  let nl := compute_nl cg in
  (cg, nl, compute_rk cg nl).

Definition wf (g : grammar) : bool :=
  let '(cg, nl, rk) := tables g in wfb cg nl rk.

(* recursion depth that is always enough for an input of n scalars *)
Definition fuel_bound (g : grammar) (n : nat) : nat :=
  let '(cg, nl, rk) := tables g in S n * Kx cg rk.

Lemma length_desugar_from : forall ws cm g i, length (desugar_from ws cm i g) = 3 * length g.
Proof. induction g as [|r g IH]; intros i; cbn [desugar_from length]; [reflexivity|]. rewrite IH. lia. Qed.

Lemma length_desugar : forall g, length (desugar g) = 3 * length g.
Proof. intros. apply length_desugar_from. Qed.

Lemma cidx_lt : forall g i m, i < length g -> cidx i m < length (desugar g).
Proof. intros g i m H. rewrite length_desugar. unfold cidx. destruct m; cbn [mode_idx]; lia. Qed.

Theorem peg_terminates : forall g, wf g = true ->
  forall i input fuel, i < length g -> fuel_bound g (length input) <= fuel ->
  parse_rule g fuel i input <> OutOfFuel.
Proof.
  intros g Hwf i input fuel Hi Hf. unfold wf, fuel_bound, tables in *. unfold parse_rule.
  set (cg := desugar g) in *. set (nl := compute_nl cg) in *. set (rk := compute_rk cg nl) in *.
  pose proof (cidx_lt g i NonAtomic Hi) as Hlt. fold cg in Hlt.
  destruct (nth_error cg (cidx i NonAtomic)) as [r|] eqn:En.
  2:{ apply nth_error_None in En. lia. }
  pose proof (body_size cg _ _ En) as Hsz. pose proof (csize_pos (cbody r)) as Hpos.
  apply (terminates cg nl rk Hwf fuel (CCall (cidx i NonAtomic)) (start input) (Rx rk)).
  - cbn [wfe]. apply Nat.ltb_lt. exact Hlt.
  - apply lc_top.
  - cbn [csize]. lia.
  - apply le_n.
  - unfold bound. cbn [start rest csize]. pose proof (Kx_eq cg rk) as HK. unfold M' in *.
    cbn [Nat.mul] in Hf. lia.
Qed.

(* the statement in "exists a bounded fuel" form *)
Corollary peg_terminates_ex : forall g, wf g = true -> forall i input, i < length g ->
  exists fuel, fuel <= fuel_bound g (length input) /\ parse_rule g fuel i input <> OutOfFuel.
Proof.
  intros g Hwf i input Hi. exists (fuel_bound g (length input)). split; [apply le_n|].
  apply peg_terminates; auto.
Qed.

(* any larger fuel gives the same answer as the bound (so the result does not depend on the fuel) *)
Corollary peg_result_stable : forall g, wf g = true -> forall i input fuel, i < length g ->
  fuel_bound g (length input) <= fuel ->
  parse_rule g fuel i input = parse_rule g (fuel_bound g (length input)) i input.
Proof.
  intros g Hwf i input fuel Hi Hf. unfold parse_rule. apply parse_mono; [exact Hf|].
  apply (peg_terminates g Hwf i input _ Hi (le_n _)).
Qed.

Definition steps_of (r : res) : option N :=
  match r with Ok _ _ n => Some n | Fail n => Some n | OutOfFuel => None end.
