(* The loader model never runs out of fuel when given at least as much fuel as the project has modules:
   every nested load registers a module of the project that was not in the cache, so the nesting depth is
   bounded by the number of modules (this is also why the real loader terminates on cyclic imports).
   Hence `run fuel g = Ok st` (the hypothesis of the C11 theorems) or an explicit error - never OutOfFuel. *)
From Coq Require Import PeanoNat.
From MS Require Import Base.Str Modules.Model Modules.Proofs.

Definition uncached_b (c : list (mod_id * nat)) (k : mod_id) : bool :=
  match lookup k c with None => true | Some _ => false end.

Definition keys (g : project) : list mod_id := nodup N.eq_dec (map fst (modules g)).

(* number of modules of the project not yet in the cache *)
Definition mu (g : project) (c : list (mod_id * nat)) : nat := length (filter (uncached_b c) (keys g)).

Definition sub (c c' : list (mod_id * nat)) : Prop := forall k, uncached_b c' k = true -> uncached_b c k = true.

Lemma sub_refl c : sub c c.
Proof. intros k H. exact H. Qed.

Lemma sub_trans a b c : sub a b -> sub b c -> sub a c.
Proof. intros H1 H2 k H. apply H1. apply H2. exact H. Qed.

Lemma sub_cons c m i : sub c ((m, i) :: c).
Proof.
  intros k H. unfold uncached_b in *. cbn [lookup] in H. destruct (m =? k); [discriminate|exact H].
Qed.

Lemma filter_length_le {A} (p q : A -> bool) (l : list A) :
  (forall x, q x = true -> p x = true) -> (length (filter q l) <= length (filter p l))%nat.
Proof.
  intro H. induction l as [|a l IH]; cbn [filter]; [apply le_n|].
  destruct (q a) eqn:Eq.
  - rewrite (H a Eq). cbn [length]. apply le_n_S. exact IH.
  - destruct (p a); cbn [length]; [apply le_S|]; exact IH.
Qed.

Lemma filter_length_lt {A} (p q : A -> bool) (l : list A) (x : A) :
  (forall y, q y = true -> p y = true) -> In x l -> p x = true -> q x = false ->
  (length (filter q l) < length (filter p l))%nat.
Proof.
  intros H Hin Hp Hq. induction l as [|a l IH]; [destruct Hin|]. cbn [filter].
  destruct Hin as [->|Hin].
  - rewrite Hp, Hq. cbn [length]. apply le_n_S. apply filter_length_le. exact H.
  - specialize (IH Hin). destruct (q a) eqn:Eq.
    + rewrite (H a Eq). cbn [length]. apply le_n_S. exact IH.
    + destruct (p a); cbn [length]; [apply le_S|]; exact IH.
Qed.

Lemma mu_sub g c c' : sub c c' -> (mu g c' <= mu g c)%nat.
Proof. intro H. unfold mu. apply filter_length_le. exact H. Qed.

Lemma mu_register g c m i acts :
  find_module g m = Some acts -> lookup m c = None -> (mu g ((m, i) :: c) < mu g c)%nat.
Proof.
  intros Hf Hl. unfold mu. apply (filter_length_lt _ _ _ m).
  - apply sub_cons.
  - unfold keys. apply nodup_In. unfold find_module in Hf. apply lookup_In in Hf.
    apply (in_map fst) in Hf. exact Hf.
  - unfold uncached_b. rewrite Hl. reflexivity.
  - unfold uncached_b. cbn [lookup]. rewrite N.eqb_refl. reflexivity.
Qed.

(* ---- the cache only grows ------------------------------------------------------------------------ *)

Definition ld_sub (ld : mod_id -> state -> result (nat * state)) : Prop :=
  forall m st j st', ld m st = Ok (j, st') -> sub (cache st) (cache st').

Lemma exec_sub ld : ld_sub ld -> forall me i acts en st st',
  exec ld me i acts en st = Ok st' -> sub (cache st) (cache st').
Proof.
  intros Hld me i acts. induction acts as [|a rest IH]; intros en st st' H.
  - cbn in H. inversion H; subst. apply sub_refl.
  - assert (Hlocal : not_import a -> sub (cache st) (cache st')).
    { intro Hni. rewrite (exec_local ld me i a rest en st Hni) in H.
      destruct (local_step me i a en st) as [[en1 st1]| |] eqn:El; try discriminate.
      apply local_step_spec in El. destruct El as [Hc _]. rewrite <- Hc. eapply IH. exact H. }
    destruct a as [m f|t|x n|x t|x|w x t|w x|w x|w x]; try (apply Hlocal; intros ? ? ?; discriminate).
    cbn [exec] in H. destruct (ld m st) as [[j st1]| |] eqn:Eld; try discriminate.
    destruct (bind_import f m j en st1) as [en1| |]; try discriminate.
    eapply sub_trans; [eapply Hld; exact Eld|]. apply (IH _ _ _ H).
Qed.

Lemma load_sub g : forall fuel, ld_sub (load fuel g).
Proof.
  induction fuel as [|f IH]; intros m st j st' H; cbn [load] in H;
    destruct (lookup m (cache st)) as [i|] eqn:El.
  - inversion H; subst. apply sub_refl.
  - discriminate.
  - inversion H; subst. apply sub_refl.
  - destruct (find_module g m) as [acts|]; [|discriminate].
    match type of H with match ?X with _ => _ end = _ => destruct X as [st2| |] eqn:Eex end; try discriminate.
    inversion H; subst. cbn [cache].
    apply exec_sub in Eex; [|exact IH]. cbn [cache] in Eex.
    eapply sub_trans; [apply sub_cons|]. eapply sub_trans; [exact Eex|apply sub_cons].
Qed.

(* ---- enough fuel ----------------------------------------------------------------------------------- *)

Lemma exec_fuel g ld (f : nat) : ld_sub ld ->
  (forall m st, (mu g (cache st) < f)%nat -> ld m st <> OutOfFuel) ->
  forall me i acts en st, (mu g (cache st) < f)%nat -> exec ld me i acts en st <> OutOfFuel.
Proof.
  intros Hsub Hld me i acts. induction acts as [|a rest IH]; intros en st Hmu.
  - cbn. discriminate.
  - assert (Hlocal : not_import a -> exec ld me i (a :: rest) en st <> OutOfFuel).
    { intro Hni. rewrite (exec_local ld me i a rest en st Hni).
      destruct (local_step me i a en st) as [[en1 st1]| |] eqn:El; try discriminate.
      - apply local_step_spec in El. destruct El as [Hc _]. apply IH. rewrite Hc. exact Hmu.
      - exfalso. destruct a; cbn [local_step] in El; try discriminate;
          repeat match type of El with
                 | match ?X with _ => _ end = _ => destruct X eqn:?; try discriminate
                 end;
          unfold add_export in *;
          repeat match goal with
                 | H : match ?X with _ => _ end = OutOfFuel |- _ => destruct X; try discriminate
                 end;
          unfold resolve in *;
          repeat match goal with
                 | H : match ?X with _ => _ end = OutOfFuel |- _ => destruct X; try discriminate
                 end. }
    destruct a as [m f'|t|x n|x t|x|w x t|w x|w x|w x]; try (apply Hlocal; intros ? ? ?; discriminate).
    cbn [exec]. destruct (ld m st) as [[j st1]| |] eqn:Eld.
    + destruct (bind_import f' m j en st1) as [en1| |] eqn:Eb; try discriminate.
      * apply IH. cbn [emit cache]. eapply Nat.le_lt_trans; [apply mu_sub; eapply Hsub; exact Eld|exact Hmu].
      * exfalso. destruct f'; cbn [bind_import] in Eb; [discriminate|].
        clear - Eb. revert en Eb. induction xs as [|x xs IHx]; intros en Eb; cbn [bind_names] in Eb; [discriminate|].
        destruct (lookup_export st1 j x); [eapply IHx; exact Eb|discriminate].
    + discriminate.
    + exfalso. exact (Hld m st Hmu Eld).
Qed.

Lemma load_fuel g : forall fuel m st, (mu g (cache st) < fuel)%nat -> load fuel g m st <> OutOfFuel.
Proof.
  induction fuel as [|f IH]; intros m st Hmu; [inversion Hmu|].
  cbn [load]. destruct (lookup m (cache st)) as [i|] eqn:El; [discriminate|].
  destruct (find_module g m) as [acts|] eqn:Ef; [|discriminate].
  match goal with |- match ?X with _ => _ end <> _ => destruct X as [st2| |] eqn:Eex end; try discriminate.
  exfalso. revert Eex. apply (exec_fuel g (load f g) f (load_sub g f) IH).
  cbn [cache]. eapply Nat.lt_le_trans; [eapply mu_register; eassumption|]. apply Nat.lt_succ_r. exact Hmu.
Qed.

Lemma filter_le_length {A} (p : A -> bool) (l : list A) : (length (filter p l) <= length l)%nat.
Proof. induction l as [|a l IH]; cbn [filter length]; [apply le_n|]. destruct (p a); cbn [length]; [apply le_n_S|apply le_S]; exact IH. Qed.

Lemma mu_bound g c : (mu g c <= length (modules g))%nat.
Proof.
  unfold mu. eapply Nat.le_trans; [apply filter_le_length|].
  unfold keys. eapply Nat.le_trans; [apply NoDup_incl_length; [apply NoDup_nodup|]|rewrite map_length; apply le_n].
  intros x H. apply nodup_In in H. exact H.
Qed.

(* with fuel >= the number of modules a run ends normally or with an explicit error: the hypothesis
   `run fuel g = Ok st` of the C11 theorems is never lost to the fuel device *)
Theorem run_never_out_of_fuel : forall (fuel : nat) (g : project),
  (length (modules g) <= fuel)%nat -> run fuel g <> OutOfFuel.
Proof.
  intros fuel g Hf. unfold run. destruct (find_module g (entry g)) as [acts|] eqn:Ef; [|discriminate].
  match goal with |- match ?X with _ => _ end <> _ => destruct X as [st| |] eqn:Eex end; try discriminate.
  exfalso. revert Eex. apply (exec_fuel g (load fuel g) fuel (load_sub g fuel) (load_fuel g fuel)).
  cbn [cache]. eapply Nat.lt_le_trans; [eapply (mu_register g [] (entry g) O acts Ef); reflexivity|].
  eapply Nat.le_trans; [apply mu_bound|exact Hf].
Qed.
