(* Model of mscript's run-time module loader.

   Code modelled (bytecode/src/interpreter.rs, instruction.rs, file.rs; compiler/src/ast/import.rs):
     import m              ==>  module_entry "<path>#__module__" ; store m
     import a, b from m    ==>  module_entry "<path>#__module__" ; split_lookup_store a b ; pop
     export x: T = v       ==>  ... ; store x ; export_name x          (MScriptFile::add_export: write once)
     import type T from m  ==>  the names form with NO value name: module_entry ; split_lookup_store ; pop  -  `Names []`;
                                `export type T ..` exists at compile time only (no action): a module may have an EMPTY export map
     Program::process_jump_request (Module key):
        module_cache hit   -> the cached export map is the value of the jump, nothing runs
        miss               -> process_standard_jump_request: add_file registers the file and pre-inserts
                              key -> its (still empty) export map, then `__module__` of the file runs to
                              `ret_mod`; the returned export map is inserted under key again.
     Program::execute pre-inserts the entry file's key before running it.

   A module is identified by the (normalised, see fixes/import-path-normalise.diff) path of its file:
   `mod_id`.  A module's top level is abstracted to a list of actions.  An export map is one
   `instance`; instance ids are allocated in creation order, so "two importers got the same instance"
   is equality of ids.  Mutable exported state (a growable list, a closure over a module counter) lives
   in a heap of cells, as the Gc pointers of the interpreter do. *)
From MS Require Import Base.Str.

Definition mod_id := N.
Definition name := N.
Definition tag := N.

Inductive value :=
| VInt (n : N)            (* scalar: copied by value *)
| VList (loc : nat)       (* growable list: shared reference *)
| VFun (loc : nat).       (* closure over the module's counter cell: shared reference *)

Inductive form := Whole | Names (xs : list name).
Inductive via := ViaModule (m : mod_id) | ViaLocal.            (* `m.x`  /  `x` *)

Inductive action :=
| Import (m : mod_id) (f : form)
| Effect (t : tag)                        (* print "<module>:<t>" *)
| ExportInt (x : name) (n : N)            (* export x: int = n *)
| ExportList (x : name) (t : tag)         (* export x: [str...] = ["t"] *)
| ExportCounter (x : name)                (* counter = 0 ; export x: fn() -> int = fn() -> int { modify counter = counter + 1; return counter } *)
| Push (v : via) (x : name) (t : tag)     (* m.x.push("t")  /  x.push("t") *)
| ShowList (v : via) (x : name)           (* print m.x      /  print x *)
| Call (v : via) (x : name)               (* print m.x()    /  print x() *)
| ShowInt (v : via) (x : name).           (* print m.x      /  print x   (an int) *)

Record project := { entry : mod_id; modules : list (mod_id * list action) }.

Inductive event :=
| EInit (m : mod_id) (inst : nat)         (* top level of m starts running; its export map is `inst` *)
| EDone (m : mod_id)                      (* ret_mod of m *)
| EGot (importer m : mod_id) (inst : nat) (* an import statement of `importer` received export map `inst` for m *)
| EOut (me : mod_id) (line : list N).     (* a line printed by module `me` *)

Definition exports := list (name * value).

Record state := mkState {
  cache : list (mod_id * nat);            (* Program::module_cache : key -> export map *)
  insts : list exports;                   (* export maps by id *)
  heap : list (list tag);                 (* cells *)
  trace : list event }.

Record env := mkEnv {
  mods : list (mod_id * nat);             (* module variables bound by `import m` *)
  vars : list (name * value) }.           (* variables bound by `import a, b from m` and by `export x = ..` *)

Inductive result (A : Type) := Ok (a : A) | Err (code : N) | OutOfFuel.
Arguments Ok {A} a.
Arguments Err {A} code.
Arguments OutOfFuel {A}.

(* failure classes *)
Definition e_nofile : N := 1.        (* MScriptFile::open fails *)
Definition e_noexport : N := 2.      (* "<name> does not exist on <module>" *)
Definition e_double : N := 3.        (* "Double export: name is already exported" *)
Definition e_unbound : N := 4.       (* load before store *)
Definition e_type : N := 5.          (* wrong kind of value for the operation *)

Fixpoint lookup {B} (k : N) (l : list (N * B)) : option B :=
  match l with
  | [] => None
  | (k', v) :: t => if k' =? k then Some v else lookup k t
  end.

Definition find_module (g : project) (m : mod_id) : option (list action) := lookup m (modules g).

Definition lookup_export (st : state) (i : nat) (x : name) : option value :=
  match nth_error (insts st) i with Some ex => lookup x ex | None => None end.

Definition emit (e : event) (st : state) : state :=
  mkState (cache st) (insts st) (heap st) (trace st ++ [e]).

Fixpoint set_nth {A} (n : nat) (f : A -> A) (l : list A) : list A :=
  match l, n with
  | [], _ => []
  | a :: t, O => f a :: t
  | a :: t, S n' => a :: set_nth n' f t
  end.

(* MScriptFile::add_export on export map i : update_once *)
Definition add_export (i : nat) (x : name) (v : value) (st : state) : result state :=
  match lookup_export st i x with
  | Some _ => Err e_double
  | None => Ok (mkState (cache st) (set_nth i (fun ex => ex ++ [(x, v)]) (insts st)) (heap st) (trace st))
  end.

Definition resolve (w : via) (x : name) (en : env) (st : state) : result value :=
  match w with
  | ViaLocal => match lookup x (vars en) with Some v => Ok v | None => Err e_unbound end
  | ViaModule m =>
      match lookup m (mods en) with
      | None => Err e_unbound
      | Some i => match lookup_export st i x with Some v => Ok v | None => Err e_noexport end
      end
  end.

Definition bind_var (x : name) (v : value) (en : env) : env := mkEnv (mods en) ((x, v) :: vars en).

(* every statement that is not an import: touches neither the cache nor the loader *)
Definition local_step (me : mod_id) (i : nat) (a : action) (en : env) (st : state) : result (env * state) :=
  match a with
  | Import _ _ => Err e_type   (* not a local step *)
  | Effect t => Ok (en, emit (EOut me [0; t]) st)
  | ExportInt x n =>
      match add_export i x (VInt n) st with
      | Ok st' => Ok (bind_var x (VInt n) en, st') | Err c => Err c | OutOfFuel => OutOfFuel end
  | ExportList x t =>
      let loc := length (heap st) in
      match add_export i x (VList loc) (mkState (cache st) (insts st) (heap st ++ [[t]]) (trace st)) with
      | Ok st' => Ok (bind_var x (VList loc) en, st') | Err c => Err c | OutOfFuel => OutOfFuel end
  | ExportCounter x =>
      let loc := length (heap st) in
      match add_export i x (VFun loc) (mkState (cache st) (insts st) (heap st ++ [[]]) (trace st)) with
      | Ok st' => Ok (bind_var x (VFun loc) en, st') | Err c => Err c | OutOfFuel => OutOfFuel end
  | Push w x t =>
      match resolve w x en st with
      | Ok (VList loc) => Ok (en, mkState (cache st) (insts st) (set_nth loc (fun c => c ++ [t]) (heap st)) (trace st))
      | Ok _ => Err e_type | Err c => Err c | OutOfFuel => OutOfFuel
      end
  | ShowList w x =>
      match resolve w x en st with
      | Ok (VList loc) => Ok (en, emit (EOut me (1 :: nth loc (heap st) [])) st)
      | Ok _ => Err e_type | Err c => Err c | OutOfFuel => OutOfFuel
      end
  | Call w x =>
      match resolve w x en st with
      | Ok (VFun loc) =>
          let st' := mkState (cache st) (insts st) (set_nth loc (fun c => c ++ [0]) (heap st)) (trace st) in
          Ok (en, emit (EOut me [2; N.of_nat (length (nth loc (heap st') []))]) st')
      | Ok _ => Err e_type | Err c => Err c | OutOfFuel => OutOfFuel
      end
  | ShowInt w x =>
      match resolve w x en st with
      | Ok (VInt n) => Ok (en, emit (EOut me [2; n]) st)
      | Ok _ => Err e_type | Err c => Err c | OutOfFuel => OutOfFuel
      end
  end.

(* `store m`  /  `split_lookup_store xs ; pop` on the export map j that module_entry delivered *)
Fixpoint bind_names (xs : list name) (j : nat) (en : env) (st : state) : result env :=
  match xs with
  | [] => Ok en
  | x :: rest =>
      match lookup_export st j x with
      | None => Err e_noexport
      | Some v => bind_names rest j (bind_var x v en) st        (* the value the export has NOW *)
      end
  end.

Definition bind_import (f : form) (m : mod_id) (j : nat) (en : env) (st : state) : result env :=
  match f with
  | Whole => Ok (mkEnv ((m, j) :: mods en) (vars en))
  | Names xs => bind_names xs j en st
  end.

(* the top level of module `me` (export map i), `ld` being Program::process_jump_request(Module ..) *)
Fixpoint exec (ld : mod_id -> state -> result (nat * state)) (me : mod_id) (i : nat)
              (acts : list action) (en : env) (st : state) : result state :=
  match acts with
  | [] => Ok st
  | Import m f :: rest =>
      match ld m st with
      | Ok (j, st1) =>
          match bind_import f m j en st1 with
          | Ok en' => exec ld me i rest en' (emit (EGot me m j) st1)
          | Err c => Err c
          | OutOfFuel => OutOfFuel
          end
      | Err c => Err c
      | OutOfFuel => OutOfFuel
      end
  | a :: rest =>
      match local_step me i a en st with
      | Ok (en', st') => exec ld me i rest en' st'
      | Err c => Err c
      | OutOfFuel => OutOfFuel
      end
  end.

Definition empty_env : env := mkEnv [] [].

(* process_jump_request, JumpRequestDestination::Module(key) *)
Fixpoint load (fuel : nat) (g : project) (m : mod_id) (st : state) : result (nat * state) :=
  match lookup m (cache st) with
  | Some i => Ok (i, st)                                               (* cache HIT *)
  | None =>
      match fuel with
      | O => OutOfFuel
      | S f =>
          match find_module g m with
          | None => Err e_nofile
          | Some acts =>
              let i := length (insts st) in
              (* add_file: new MScriptFile (fresh export map), key pre-inserted *)
              let st1 := mkState ((m, i) :: cache st) (insts st ++ [[]]) (heap st) (trace st ++ [EInit m i]) in
              match exec (load f g) m i acts empty_env st1 with
              | Ok st2 =>                                               (* ret_mod; insert under key *)
                  Ok (i, mkState ((m, i) :: cache st2) (insts st2) (heap st2) (trace st2 ++ [EDone m]))
              | Err c => Err c
              | OutOfFuel => OutOfFuel
              end
          end
      end
  end.

(* Program::execute *)
Definition run (fuel : nat) (g : project) : result state :=
  match find_module g (entry g) with
  | None => Err e_nofile
  | Some acts =>
      let st0 := mkState [(entry g, O)] [[]] [] [EInit (entry g) O] in
      match exec (load fuel g) (entry g) O acts empty_env st0 with
      | Ok st => Ok (emit (EDone (entry g)) st)
      | Err c => Err c
      | OutOfFuel => OutOfFuel
      end
  end.

(* ---- vocabulary of the specification --------------------------------------------------------------- *)

(* modules in the order their top level started *)
Definition init_mods (tr : list event) : list mod_id :=
  flat_map (fun e => match e with EInit m _ => [m] | _ => [] end) tr.

(* the modules a top level imports, in statement order *)
Definition imports_of (acts : list action) : list mod_id :=
  flat_map (fun a => match a with Import m _ => [m] | _ => [] end) acts.

Definition imports (g : project) (m : mod_id) : list mod_id :=
  match find_module g m with Some acts => imports_of acts | None => [] end.

(* depth-first, first-visit (pre-)order.  visit vis m o : starting with `vis` already visited, a visit of m
   newly visits exactly the modules o, in that order *)
Inductive visit (g : project) : list mod_id -> mod_id -> list mod_id -> Prop :=
| visit_seen vis m : In m vis -> visit g vis m []
| visit_new vis m o : ~ In m vis -> visits g (vis ++ [m]) (imports g m) o -> visit g vis m (m :: o)
with visits (g : project) : list mod_id -> list mod_id -> list mod_id -> Prop :=
| visits_nil vis : visits g vis [] []
| visits_cons vis m ms o1 o2 : visit g vis m o1 -> visits g (vis ++ o1) ms o2 -> visits g vis (m :: ms) (o1 ++ o2).

(* the part of a trace produced by (a stretch of) the top level of `me`: its own lines and bindings,
   and - nested, complete, closed before the next own event - the top levels of modules it loads *)
Inductive block_of : mod_id -> list event -> Prop :=
| blk_nil me : block_of me []
| blk_out me l rest : block_of me rest -> block_of me (EOut me l :: rest)
| blk_got me m j rest : block_of me rest -> block_of me (EGot me m j :: rest)
| blk_load me m j body rest :
    block_of m body -> block_of me rest -> block_of me (EInit m j :: body ++ EDone m :: rest).

(* output lines, for the correspondence driver *)
Definition out_lines (tr : list event) : list (N * list N) :=
  flat_map (fun e => match e with EOut me l => [(me, l)] | _ => [] end) tr.

Definition summary (r : result state) : N * list (N * list N) * list mod_id :=
  match r with
  | Ok st => (0, out_lines (trace st), init_mods (trace st))
  | Err c => (c, [], [])
  | OutOfFuel => (99, [], [])
  end.
