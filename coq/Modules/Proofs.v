(* Theorems about the module loader model (Modules/Model.v): for ALL projects (any number of modules,
   any import graph, any statements), by induction on the loader's recursion and on statement lists. *)
From Coq Require Import PeanoNat.
From MS Require Import Base.Str Modules.Model.

(* ---- small facts ------------------------------------------------------------------------------ *)

Lemma lookup_In {B} (k : N) (l : list (N * B)) (v : B) : lookup k l = Some v -> In (k, v) l.
Proof.
  induction l as [|[k' v'] t IH]; cbn [lookup]; [discriminate|].
  destruct (k' =? k) eqn:E.
  - intro H. inversion H; subst. apply N.eqb_eq in E. subst. left. reflexivity.
  - intro H. right. apply IH. exact H.
Qed.

Lemma lookup_None {B} (k : N) (l : list (N * B)) : lookup k l = None -> forall v, ~ In (k, v) l.
Proof.
  induction l as [|[k' v'] t IH]; cbn [lookup]; intros H v K; [destruct K|].
  destruct (k' =? k) eqn:E; [discriminate|].
  destruct K as [K|K].
  - inversion K; subst. rewrite N.eqb_refl in E. discriminate.
  - exact (IH H v K).
Qed.

Lemma lookup_app_some {B} (k : N) (l l' : list (N * B)) (v : B) :
  lookup k l = Some v -> lookup k (l ++ l') = Some v.
Proof.
  induction l as [|[k' v'] t IH]; cbn [lookup app]; [discriminate|].
  destruct (k' =? k); [trivial|exact IH].
Qed.

Lemma init_mods_app (a b : list event) : init_mods (a ++ b) = init_mods a ++ init_mods b.
Proof. unfold init_mods. apply flat_map_app. Qed.

Lemma In_init_mods (m : mod_id) (i : nat) (tr : list event) : In (EInit m i) tr -> In m (init_mods tr).
Proof.
  intro H. unfold init_mods. apply in_flat_map. exists (EInit m i). split; [exact H|left; reflexivity].
Qed.

Lemma init_mods_In (m : mod_id) (tr : list event) : In m (init_mods tr) -> exists i, In (EInit m i) tr.
Proof.
  unfold init_mods. intro H. apply in_flat_map in H. destruct H as [e [He Hm]].
  destruct e; cbn in Hm; try contradiction. destruct Hm as [Hm|[]]. subst. exists inst. exact He.
Qed.

Lemma NoDup_snoc {A} (l : list A) (a : A) : NoDup l -> ~ In a l -> NoDup (l ++ [a]).
Proof.
  induction l as [|x l IH]; intros Hnd Hin; cbn [app].
  - constructor; [intros []|constructor].
  - inversion Hnd as [|? ? Hx Hl]; subst. constructor.
    + intro K. apply in_app_or in K. destruct K as [K|[K|[]]]; [contradiction|].
      subst. apply Hin. left. reflexivity.
    + apply IH; [exact Hl|]. intro K. apply Hin. right. exact K.
Qed.

(* with each module started at most once, a module has one export map *)
Lemma init_unique (tr : list event) (m : mod_id) (i1 i2 : nat) :
  NoDup (init_mods tr) -> In (EInit m i1) tr -> In (EInit m i2) tr -> i1 = i2.
Proof.
  induction tr as [|e tr IH]; intros Hnd H1 H2; [destruct H1|].
  change (e :: tr) with ([e] ++ tr) in Hnd. rewrite init_mods_app in Hnd.
  destruct H1 as [H1|H1], H2 as [H2|H2].
  - congruence.
  - subst e. cbn in Hnd. inversion Hnd as [|? ? Hx _]; subst. exfalso. apply Hx. eapply In_init_mods. exact H2.
  - subst e. cbn in Hnd. inversion Hnd as [|? ? Hx _]; subst. exfalso. apply Hx. eapply In_init_mods. exact H1.
  - apply IH; try assumption. destruct e; cbn in Hnd; try exact Hnd. inversion Hnd; assumption.
Qed.

(* ---- block_of ---------------------------------------------------------------------------------- *)

Lemma block_of_app (me : mod_id) (a b : list event) : block_of me a -> block_of me b -> block_of me (a ++ b).
Proof.
  intros Ha Hb. induction Ha as [me|me l rest Hr IH|me m j rest Hr IH|me m j body rest Hbody _ Hrest IH]; cbn [app].
  - exact Hb.
  - constructor. apply IH. exact Hb.
  - constructor. apply IH. exact Hb.
  - rewrite <- app_assoc. cbn [app]. apply blk_load; [exact Hbody|apply IH; exact Hb].
Qed.

Definition is_out (me : mod_id) (e : event) : Prop := exists l, e = EOut me l.

Lemma block_of_outs (me : mod_id) (outs : list event) : Forall (is_out me) outs -> block_of me outs.
Proof.
  induction 1 as [|e outs [l He] _ IH]; [constructor|]. subst. constructor. exact IH.
Qed.

Lemma init_mods_outs (me : mod_id) (outs : list event) : Forall (is_out me) outs -> init_mods outs = [].
Proof.
  induction 1 as [|e outs [l He] _ IH]; [reflexivity|]. subst. cbn. exact IH.
Qed.

(* ---- the invariant ------------------------------------------------------------------------------ *)

(* cache entries are exactly the modules whose top level has started, with the export map created then;
   no module has started twice; every export map handed to an importer is that module's own *)
Definition Inv (st : state) : Prop :=
  (forall m i, In (m, i) (cache st) <-> In (EInit m i) (trace st)) /\
  NoDup (init_mods (trace st)) /\
  (forall a m j, In (EGot a m j) (trace st) -> In (EInit m j) (trace st)).

(* export maps only grow: an exported name keeps its value (write once) *)
Definition ext (st st' : state) : Prop :=
  forall k x v, lookup_export st k x = Some v -> lookup_export st' k x = Some v.

Lemma ext_refl st : ext st st.
Proof. intros k x v H. exact H. Qed.

Lemma ext_trans a b c : ext a b -> ext b c -> ext a c.
Proof. intros H1 H2 k x v H. apply H2. apply H1. exact H. Qed.

Lemma ext_same_insts st st' : insts st' = insts st -> ext st st'.
Proof. intros E k x v H. unfold lookup_export in *. rewrite E. exact H. Qed.

Lemma Inv_outs (me : mod_id) (st st' : state) (outs : list event) :
  Inv st -> cache st' = cache st -> trace st' = trace st ++ outs -> Forall (is_out me) outs -> Inv st'.
Proof.
  intros [H1 [H2 H3]] Hc Ht Ho.
  assert (Hno : forall e, In e outs -> exists l, e = EOut me l) by (apply Forall_forall; exact Ho).
  unfold Inv. rewrite Hc, Ht. repeat split.
  - intro H. apply in_or_app. left. apply H1. exact H.
  - intro H. apply in_app_or in H. destruct H as [H|H]; [apply H1; exact H|].
    destruct (Hno _ H) as [l E]. discriminate.
  - rewrite init_mods_app, (init_mods_outs me outs Ho), app_nil_r. exact H2.
  - intros a m j H. apply in_app_or in H. destruct H as [H|H].
    + apply in_or_app. left. eapply H3. exact H.
    + destruct (Hno _ H) as [l E]. discriminate.
Qed.

(* ---- statements other than imports ------------------------------------------------------------ *)

Lemma nth_error_set_nth_other {A} (f : A -> A) (l : list A) (i k : nat) :
  k <> i -> nth_error (set_nth i f l) k = nth_error l k.
Proof.
  revert i k. induction l as [|a l IH]; intros i k Hne; [destruct i; reflexivity|].
  destruct i, k; cbn; try reflexivity; try congruence. apply IH. congruence.
Qed.

Lemma nth_error_set_nth_same {A} (f : A -> A) (l : list A) (i : nat) :
  nth_error (set_nth i f l) i = option_map f (nth_error l i).
Proof.
  revert i. induction l as [|a l IH]; intro i; [destruct i; reflexivity|].
  destruct i; cbn; [reflexivity|apply IH].
Qed.

Lemma add_export_spec (i : nat) (x : name) (v : value) (st st' : state) :
  add_export i x v st = Ok st' ->
  cache st' = cache st /\ trace st' = trace st /\ heap st' = heap st /\ ext st st'.
Proof.
  unfold add_export. destruct (lookup_export st i x) eqn:E; [discriminate|].
  intro H. inversion H; subst; clear H. cbn. repeat split.
  intros k y w Hk. unfold lookup_export in *. cbn [insts].
  destruct (Nat.eq_dec k i) as [->|Hne].
  - rewrite nth_error_set_nth_same. destruct (nth_error (insts st) i); cbn in *; [|discriminate].
    apply lookup_app_some. exact Hk.
  - rewrite nth_error_set_nth_other by exact Hne. exact Hk.
Qed.

Lemma local_step_spec (me : mod_id) (i : nat) (a : action) (en en' : env) (st st' : state) :
  local_step me i a en st = Ok (en', st') ->
  cache st' = cache st /\ ext st st' /\
  exists outs, trace st' = trace st ++ outs /\ Forall (is_out me) outs.
Proof.
  assert (Hone : forall l, Forall (is_out me) [EOut me l]) by (intro l; constructor; [exists l; reflexivity|constructor]).
  destruct a; cbn [local_step]; intro H.
  - discriminate.
  - inversion H; subst. cbn. repeat split; [apply ext_same_insts; reflexivity|]. eexists. split; [reflexivity|apply Hone].
  - destruct (add_export i x (VInt n) st) eqn:E; try discriminate. inversion H; subst.
    apply add_export_spec in E. destruct E as [Ec [Et [_ Ee]]]. repeat split; try assumption.
    exists []. rewrite app_nil_r. split; [exact Et|constructor].
  - match type of H with match ?X with _ => _ end = _ => destruct X eqn:E end; try discriminate. inversion H; subst.
    apply add_export_spec in E. destruct E as [Ec [Et [_ Ee]]]. cbn in *. repeat split; try assumption.
    exists []. rewrite app_nil_r. split; [exact Et|constructor].
  - match type of H with match ?X with _ => _ end = _ => destruct X eqn:E end; try discriminate. inversion H; subst.
    apply add_export_spec in E. destruct E as [Ec [Et [_ Ee]]]. cbn in *. repeat split; try assumption.
    exists []. rewrite app_nil_r. split; [exact Et|constructor].
  - destruct (resolve v x en st) as [[n|loc|loc]| |]; try discriminate. inversion H; subst. cbn.
    repeat split; [apply ext_same_insts; reflexivity|]. exists []. rewrite app_nil_r. split; [reflexivity|constructor].
  - destruct (resolve v x en st) as [[n|loc|loc]| |]; try discriminate. inversion H; subst. cbn.
    repeat split; [apply ext_same_insts; reflexivity|]. eexists. split; [reflexivity|apply Hone].
  - destruct (resolve v x en st) as [[n|loc|loc]| |]; try discriminate. inversion H; subst. cbn.
    repeat split; [apply ext_same_insts; reflexivity|]. eexists. split; [reflexivity|apply Hone].
  - destruct (resolve v x en st) as [[n|loc|loc]| |]; try discriminate. inversion H; subst. cbn.
    repeat split; [apply ext_same_insts; reflexivity|]. eexists. split; [reflexivity|apply Hone].
Qed.

Definition not_import (a : action) : Prop := forall m f, a <> Import m f.

Lemma exec_local (ld : mod_id -> state -> result (nat * state)) me i a rest en st :
  not_import a ->
  exec ld me i (a :: rest) en st =
  match local_step me i a en st with
  | Ok (en', st') => exec ld me i rest en' st'
  | Err c => Err c
  | OutOfFuel => OutOfFuel
  end.
Proof. intro H. destruct a; try reflexivity. exfalso. eapply H. reflexivity. Qed.

Lemma imports_of_local a rest : not_import a -> imports_of (a :: rest) = imports_of rest.
Proof. intro H. destruct a; try reflexivity. exfalso. eapply H. reflexivity. Qed.

(* ---- the loader ---------------------------------------------------------------------------------- *)

(* what one module_entry contributes to the trace: nothing (cache hit) or one complete, closed block *)
Definition shape (m : mod_id) (j : nat) (seg : list event) : Prop :=
  seg = [] \/ exists body, seg = EInit m j :: body ++ [EDone m] /\ block_of m body.

Definition ld_spec (g : project) (ld : mod_id -> state -> result (nat * state)) : Prop :=
  forall m st j st', Inv st -> ld m st = Ok (j, st') ->
  exists seg, trace st' = trace st ++ seg /\ Inv st' /\ ext st st' /\ In (m, j) (cache st')
              /\ visit g (init_mods (trace st)) m (init_mods seg) /\ shape m j seg.

Definition exec_post (g : project) (me : mod_id) (acts : list action) (st st' : state) : Prop :=
  exists seg, trace st' = trace st ++ seg /\ Inv st' /\ ext st st'
              /\ visits g (init_mods (trace st)) (imports_of acts) (init_mods seg) /\ block_of me seg.

Lemma Inv_emit_got (st : state) (a m : mod_id) (j : nat) :
  Inv st -> In (m, j) (cache st) -> Inv (emit (EGot a m j) st).
Proof.
  intros [H1 [H2 H3]] Hin. unfold Inv, emit. cbn [cache trace]. repeat split.
  - intro H. apply in_or_app. left. apply H1. exact H.
  - intro H. apply in_app_or in H. destruct H as [H|[H|[]]]; [apply H1; exact H|discriminate].
  - rewrite init_mods_app. cbn. rewrite app_nil_r. exact H2.
  - intros a' m' j' H. apply in_or_app. left. apply in_app_or in H. destruct H as [H|[H|[]]].
    + eapply H3. exact H.
    + inversion H; subst. apply H1. exact Hin.
Qed.

Lemma exec_spec (g : project) (ld : mod_id -> state -> result (nat * state)) : ld_spec g ld ->
  forall me i acts en st st', Inv st -> exec ld me i acts en st = Ok st' -> exec_post g me acts st st'.
Proof.
  intros Hld me i acts. induction acts as [|a rest IH]; intros en st st' Hinv Hex.
  - cbn in Hex. inversion Hex; subst. exists []. rewrite app_nil_r.
    split; [reflexivity|]. split; [exact Hinv|]. split; [apply ext_refl|]. split; constructor.
  - assert (Hlocal : not_import a -> exec_post g me (a :: rest) st st').
    { intro Hni. rewrite (exec_local ld me i a rest en st Hni) in Hex.
      destruct (local_step me i a en st) as [[en1 st1]| |] eqn:El; try discriminate.
      apply local_step_spec in El. destruct El as [Hc [He [outs [Ht Ho]]]].
      assert (Hinv1 : Inv st1) by (eapply Inv_outs; eassumption).
      destruct (IH en1 st1 st' Hinv1 Hex) as [seg [Ht' [Hinv' [He' [Hv Hb]]]]].
      exists (outs ++ seg). rewrite Ht', Ht, <- app_assoc. split; [reflexivity|].
      split; [exact Hinv'|]. split; [eapply ext_trans; eassumption|]. split.
      - rewrite (imports_of_local a rest Hni). rewrite init_mods_app, (init_mods_outs me outs Ho). cbn [app].
        rewrite Ht, init_mods_app, (init_mods_outs me outs Ho), app_nil_r in Hv. exact Hv.
      - apply block_of_app; [apply block_of_outs; exact Ho|exact Hb]. }
    destruct a as [m f|t|x n|x t|x|w x t|w x|w x|w x]; try (apply Hlocal; intros ? ? ?; discriminate).
    clear Hlocal. cbn [exec] in Hex.
    destruct (ld m st) as [[j st1]| |] eqn:Eld; try discriminate.
    destruct (bind_import f m j en st1) as [en1| |] eqn:Eb; try discriminate.
    destruct (Hld m st j st1 Hinv Eld) as [seg1 [Ht1 [Hinv1 [He1 [Hin1 [Hv1 Hs1]]]]]].
    assert (Hinv2 : Inv (emit (EGot me m j) st1)) by (apply Inv_emit_got; assumption).
    destruct (IH en1 _ st' Hinv2 Hex) as [seg2 [Ht2 [Hinv' [He2 [Hv2 Hb2]]]]].
    exists (seg1 ++ EGot me m j :: seg2). split.
    { rewrite Ht2. cbn [emit trace]. rewrite Ht1. rewrite <- !app_assoc. reflexivity. }
    split; [exact Hinv'|]. split.
    { eapply ext_trans; [exact He1|]. eapply ext_trans; [|exact He2]. apply ext_same_insts. reflexivity. }
    split.
    + cbn [imports_of flat_map app]. change (flat_map _ rest) with (imports_of rest).
      rewrite init_mods_app. cbn [init_mods flat_map app]. change (flat_map _ seg2) with (init_mods seg2).
      apply visits_cons; [exact Hv1|].
      cbn [emit trace] in Hv2. rewrite Ht1 in Hv2. rewrite !init_mods_app in Hv2. cbn in Hv2.
      rewrite app_nil_r in Hv2. exact Hv2.
    + destruct Hs1 as [->|[body [-> Hbody]]]; cbn [app].
      * apply blk_got. exact Hb2.
      * rewrite <- app_assoc. cbn [app]. apply blk_load; [exact Hbody|]. apply blk_got. exact Hb2.
Qed.

Lemma load_spec (g : project) : forall fuel, ld_spec g (load fuel g).
Proof.
  assert (Hhit : forall fuel m st j st' i, Inv st -> lookup m (cache st) = Some i ->
                 load fuel g m st = Ok (j, st') ->
                 exists seg, trace st' = trace st ++ seg /\ Inv st' /\ ext st st' /\ In (m, j) (cache st')
                   /\ visit g (init_mods (trace st)) m (init_mods seg) /\ shape m j seg).
  { intros fuel m st j st' i Hinv El H.
    assert (H' : Ok (i, st) = Ok (j, st')) by (destruct fuel; cbn [load] in H; rewrite El in H; exact H).
    inversion H'; subst. exists []. rewrite app_nil_r. apply lookup_In in El.
    split; [reflexivity|]. split; [exact Hinv|]. split; [apply ext_refl|]. split; [exact El|]. split.
    - apply visit_seen. destruct Hinv as [H1 _]. eapply In_init_mods. apply H1. exact El.
    - left. reflexivity. }
  induction fuel as [|f IHf]; intros m st j st' Hinv H.
  - destruct (lookup m (cache st)) as [i|] eqn:El; [eapply Hhit; eassumption|].
    cbn [load] in H. rewrite El in H. discriminate.
  - destruct (lookup m (cache st)) as [i|] eqn:El; [eapply Hhit; eassumption|].
    cbn [load] in H. rewrite El in H.
    destruct (find_module g m) as [acts|] eqn:Ef; [|discriminate].
    set (i := length (insts st)) in *.
    set (st1 := mkState ((m, i) :: cache st) (insts st ++ [[]]) (heap st) (trace st ++ [EInit m i])) in *.
    destruct (exec (load f g) m i acts empty_env st1) as [st2| |] eqn:Eex; try discriminate.
    inversion H; subst j st'; clear H.
    destruct Hinv as [H1 [H2 H3]].
    assert (Hfresh : ~ In m (init_mods (trace st))).
    { intro K. apply init_mods_In in K. destruct K as [i' K]. apply H1 in K.
      eapply lookup_None; eassumption. }
    assert (Hinv1 : Inv st1).
    { unfold Inv, st1. cbn [cache trace]. repeat split.
      - intros [K|K]; apply in_or_app; [right; inversion K; subst; left; reflexivity|left; apply H1; exact K].
      - intro K. apply in_app_or in K. destruct K as [K|[K|[]]]; [right; apply H1; exact K|left; inversion K; reflexivity].
      - rewrite init_mods_app. cbn. apply NoDup_snoc; assumption.
      - intros a m' j' K. apply in_or_app. left. apply in_app_or in K. destruct K as [K|[K|[]]]; [|discriminate].
        eapply H3. exact K. }
    destruct (exec_spec g (load f g) IHf m i acts empty_env st1 st2 Hinv1 Eex) as [seg2 [Ht2 [Hinv2 [He2 [Hv2 Hb2]]]]].
    assert (Hmi : In (EInit m i) (trace st2)).
    { rewrite Ht2. apply in_or_app. left. unfold st1. cbn [trace]. apply in_or_app. right. left. reflexivity. }
    exists (EInit m i :: seg2 ++ [EDone m]). cbn [trace cache]. split.
    { rewrite Ht2. unfold st1. cbn [trace]. rewrite <- !app_assoc. reflexivity. }
    destruct Hinv2 as [G1 [G2 G3]]. split.
    { unfold Inv. cbn [cache trace]. repeat split.
      - intros [K|K]; apply in_or_app; left; [inversion K; subst; exact Hmi|apply G1; exact K].
      - intro K. apply in_app_or in K. destruct K as [K|[K|[]]]; [right; apply G1; exact K|discriminate].
      - rewrite init_mods_app. cbn. rewrite app_nil_r. exact G2.
      - intros a m' j' K. apply in_or_app. left. apply in_app_or in K. destruct K as [K|[K|[]]]; [|discriminate].
        eapply G3. exact K. }
    split.
    { eapply ext_trans; [|eapply ext_trans; [exact He2|apply ext_same_insts; reflexivity]].
      intros k x v Hk. unfold lookup_export, st1 in *. cbn [insts].
      destruct (nth_error (insts st) k) as [ex|] eqn:En; [|discriminate].
      rewrite nth_error_app1; [rewrite En; exact Hk|]. apply nth_error_Some. congruence. }
    split; [left; reflexivity|]. split.
    + cbn [init_mods flat_map app]. change (flat_map _ (seg2 ++ [EDone m])) with (init_mods (seg2 ++ [EDone m])).
      rewrite init_mods_app. cbn. rewrite app_nil_r.
      apply visit_new; [exact Hfresh|].
      unfold imports. rewrite Ef.
      unfold st1 in Hv2. cbn [trace] in Hv2. rewrite init_mods_app in Hv2. cbn in Hv2. exact Hv2.
    + right. exists seg2. split; [reflexivity|exact Hb2].
Qed.

(* ---- theorems about whole runs -------------------------------------------------------------- *)

Lemma run_inv (fuel : nat) (g : project) (st : state) : run fuel g = Ok st ->
  Inv st /\ exists body, trace st = EInit (entry g) O :: body ++ [EDone (entry g)] /\ block_of (entry g) body
                         /\ visits g [entry g] (imports g (entry g)) (init_mods body).
Proof.
  unfold run. destruct (find_module g (entry g)) as [acts|] eqn:Ef; [|discriminate].
  set (st0 := mkState [(entry g, O)] [[]] [] [EInit (entry g) O]).
  destruct (exec (load fuel g) (entry g) O acts empty_env st0) as [st1| |] eqn:Eex; try discriminate.
  intro H. inversion H; subst st; clear H.
  assert (Hinv0 : Inv st0).
  { unfold Inv, st0. cbn. repeat split.
    - intros [K|[]]. inversion K. left. reflexivity.
    - intros [K|[]]. inversion K. left. reflexivity.
    - constructor; [intros []|constructor].
    - intros a m j [K|[]]. discriminate. }
  destruct (exec_spec g (load fuel g) (load_spec g fuel) (entry g) O acts empty_env st0 st1 Hinv0 Eex)
    as [seg [Ht [[G1 [G2 G3]] [_ [Hv Hb]]]]].
  split.
  - unfold Inv, emit. cbn [cache trace]. repeat split.
    + intro K. apply in_or_app. left. apply G1. exact K.
    + intro K. apply in_app_or in K. destruct K as [K|[K|[]]]; [apply G1; exact K|discriminate].
    + rewrite init_mods_app. cbn. rewrite app_nil_r. exact G2.
    + intros a m j K. apply in_or_app. left. apply in_app_or in K. destruct K as [K|[K|[]]]; [|discriminate].
      eapply G3. exact K.
  - exists seg. cbn [emit trace]. rewrite Ht. unfold st0. cbn [trace app]. split; [reflexivity|].
    split; [exact Hb|]. unfold imports. rewrite Ef. exact Hv.
Qed.

(* C11, first half.  For every project and every run that completes:
   - each module's top level starts at most once (NoDup), and the modules appear in the trace in
     depth-first first-visit order of the import graph from the entry (imports in statement order);
   - the trace is one block of the entry module: every loaded module's top level is a contiguous block
     (up to the blocks of the modules it loads itself), closed by its ret_mod before the importing module's
     next event. *)
Theorem init_once_in_order : forall (fuel : nat) (g : project) (st : state), run fuel g = Ok st ->
  NoDup (init_mods (trace st)) /\
  visit g [] (entry g) (init_mods (trace st)) /\
  exists body, trace st = EInit (entry g) O :: body ++ [EDone (entry g)] /\ block_of (entry g) body.
Proof.
  intros fuel g st H. destruct (run_inv fuel g st H) as [[_ [H2 _]] [body [Ht [Hb Hv]]]].
  split; [exact H2|]. split.
  - rewrite Ht. cbn [init_mods flat_map app]. change (flat_map _ (body ++ [EDone (entry g)])) with (init_mods (body ++ [EDone (entry g)])).
    rewrite init_mods_app. cbn. rewrite app_nil_r. apply visit_new; [intros []|exact Hv].
  - exists body. split; assumption.
Qed.

(* C11, second half: whoever imports m, in whichever form and however often, receives the same export map,
   namely the one created when m's top level ran *)
Theorem shared_instance : forall (fuel : nat) (g : project) (st : state), run fuel g = Ok st ->
  forall a b m i1 i2, In (EGot a m i1) (trace st) -> In (EGot b m i2) (trace st) ->
  i1 = i2 /\ In (EInit m i1) (trace st).
Proof.
  intros fuel g st H a b m i1 i2 Ha Hb. destruct (run_inv fuel g st H) as [[_ [H2 H3]] _].
  split; [|eapply H3; exact Ha]. eapply init_unique; [exact H2|eapply H3; exact Ha|eapply H3; exact Hb].
Qed.

(* every import statement that executes is answered: a module that is imported has run (exactly once, by the above) *)
Theorem imported_has_run : forall (fuel : nat) (g : project) (st : state), run fuel g = Ok st ->
  forall a m i, In (EGot a m i) (trace st) -> In m (init_mods (trace st)).
Proof.
  intros fuel g st H a m i Ha. destruct (run_inv fuel g st H) as [[_ [_ H3]] _].
  eapply In_init_mods. eapply H3. exact Ha.
Qed.

(* exported names are write-once: during any module load, a name already exported by any export map keeps its
   value, so every importer that looks a name up - at import time (names form) or later (m.x) - sees the same
   value / the same shared cell *)
Theorem exports_write_once : forall (fuel : nat) (g : project) (m : mod_id) (st st' : state) (j : nat),
  Inv st -> load fuel g m st = Ok (j, st') -> ext st st'.
Proof.
  intros fuel g m st st' j Hinv H. destruct (load_spec g fuel m st j st' Hinv H) as [seg [_ [_ [He _]]]]. exact He.
Qed.

(* names not exported are not visible: looking one up through a module fails *)
Theorem only_exports_visible : forall (en : env) (st : state) (m : mod_id) (i : nat) (x : name),
  lookup m (mods en) = Some i -> lookup_export st i x = None -> resolve (ViaModule m) x en st = Err e_noexport.
Proof. intros en st m i x H1 H2. unfold resolve. rewrite H1, H2. reflexivity. Qed.

Theorem only_exports_importable : forall (st : state) (en : env) (j : nat) (x : name) (xs : list name),
  lookup_export st j x = None -> bind_names (x :: xs) j en st = Err e_noexport.
Proof. intros st en j x xs H. cbn [bind_names]. rewrite H. reflexivity. Qed.

(* ---- the depth-first order is unique ------------------------------------------------------------ *)

Scheme visit_mind := Minimality for visit Sort Prop
  with visits_mind := Minimality for visits Sort Prop.
Combined Scheme visit_visits_ind from visit_mind, visits_mind.

Lemma visit_det_both (g : project) :
  (forall vis m o, visit g vis m o -> forall o', visit g vis m o' -> o = o') /\
  (forall vis ms o, visits g vis ms o -> forall o', visits g vis ms o' -> o = o').
Proof.
  apply visit_visits_ind.
  - intros vis m Hin o' H. inversion H; subst; [reflexivity|contradiction].
  - intros vis m o Hnin _ IH o' H. inversion H; subst; [contradiction|]. f_equal. apply IH. assumption.
  - intros vis o' H. inversion H; subst. reflexivity.
  - intros vis m ms o1 o2 _ IH1 _ IH2 o' H. inversion H; subst.
    assert (o1 = o0) by (apply IH1; assumption). subst. f_equal. apply IH2. assumption.
Qed.

Theorem visit_det : forall g vis m o o', visit g vis m o -> visit g vis m o' -> o = o'.
Proof. intros g vis m o o' H1 H2. eapply (proj1 (visit_det_both g)); eassumption. Qed.
