(* Theorems about Types/Compat.v.

   Main result (`cmp_clean_skel`, `eq_complex_same_skeleton`): for annotation types (no `nil` type and no
   empty fixed-shape list at any depth), whenever `==` or eq_complex -- with ANY flag combination, hence in
   particular the five used at call sites, and in either argument order, hence also for the swapped call of
   reassignment.rs -- answers true, both types have the same kind skeleton.  Skeleton equality is an
   equivalence relation, so no chain of accepted stores can change the kind found at any access path.

   The two hypotheses are necessary: `empty_fixed_list_launders` (a `[]` annotation accepts `[str...]` and is
   accepted as `[int...]`) and, for the pinned tree, `orig_refuted_length` (zip without a length check). *)
From Coq Require Import List Bool NArith Lia.
From MS Require Import Types.OpTable Types.Compat.
Import ListNotations.

(* ------------------------------------------------------------------ small facts *)

Lemma oand_true : forall a b, oand a b = Some true -> a = Some true /\ b = Some true.
Proof.
  intros [[|]|] [[|]|]; cbn; intro H; try discriminate; split; reflexivity.
Qed.

Lemma all2_true : forall f l1 l2, all2 f l1 l2 = Some true -> length l1 = length l2 ->
  Forall2 (fun x y => f x y = Some true) l1 l2.
Proof.
  induction l1 as [|x l1 IH]; intros [|y l2] H Hl; cbn in *; try discriminate; try constructor.
  - apply oand_true in H. tauto.
  - apply oand_true in H. apply IH; [tauto | lia].
Qed.

Lemma all1_true : forall f l, all1 f l = Some true -> Forall (fun x => f x = Some true) l.
Proof.
  induction l as [|x l IH]; cbn; intro H; constructor; apply oand_true in H; [tauto | apply IH; tauto].
Qed.

Lemma strip_skel : forall t, skel (strip t) = skel t.
Proof. induction t; cbn; auto. Qed.

Lemma strip_clean : forall t, clean t = true -> clean (strip t) = true.
Proof. induction t; cbn; auto. Qed.

Lemma strip_not_alias : forall t n x, strip t <> TAlias n x.
Proof. induction t; cbn; intros; try discriminate; auto. Qed.

Lemma kind_eqb_refl : forall k, kind_eqb k k = true.
Proof. destruct k; reflexivity. Qed.

(* reflexivity of the skeleton equality test, by a hand-rolled nested induction *)
Fixpoint sk_eqb_refl (s : sk) : sk_eqb s s = true.
Proof.
  destruct s as [k| |s|ss|a b|ps r|n]; cbn.
  - apply kind_eqb_refl.
  - reflexivity.
  - apply sk_eqb_refl.
  - induction ss as [|x ss IH]; [reflexivity|]. rewrite (sk_eqb_refl x). exact IH.
  - rewrite (sk_eqb_refl a), (sk_eqb_refl b). reflexivity.
  - apply andb_true_intro. split.
    + induction ps as [|x ps IH]; [reflexivity|]. rewrite (sk_eqb_refl x). exact IH.
    + destruct r as [x|]; [apply sk_eqb_refl | reflexivity].
  - apply N.eqb_refl.
Qed.

Lemma collapse_const : forall s ss, ss <> [] -> Forall (fun x => x = s) ss -> collapse ss = L s.
Proof.
  intros s [|x ss] Hne H; [congruence|]. inversion H as [|? ? Hx Hr]; subst. cbn.
  assert (forallb (sk_eqb s) ss = true) as ->; [|reflexivity].
  apply forallb_forall. intros y Hy. rewrite Forall_forall in Hr. rewrite (Hr y Hy). apply sk_eqb_refl.
Qed.

Lemma forall2_map_skel : forall l1 l2, Forall2 (fun x y => skel x = skel y) l1 l2 -> map skel l1 = map skel l2.
Proof. induction 1; cbn; congruence. Qed.

Lemma clean_mixed : forall ts, clean (TMixed ts) = true -> ts <> [] /\ Forall (fun x => clean x = true) ts.
Proof.
  intros ts H. cbn in H. apply andb_prop in H. destruct H as [H1 H2]. split.
  - destruct ts; [discriminate | congruence].
  - apply Forall_forall. apply forallb_forall. exact H2.
Qed.

Lemma clean_not_nil : forall t, clean t = true -> is_nil_ty t = false.
Proof. destruct t; cbn; auto; discriminate. Qed.

Lemma len_ok_true : forall l1 l2 : list ty, len_ok true l1 l2 = true -> length l1 = length l2.
Proof. intros. apply PeanoNat.Nat.eqb_eq. exact H. Qed.

(* ------------------------------------------------------------------ the list cases, shared by `==` and eq_complex *)

Section ListCases.
  Variable f : ty -> ty -> option bool.
  Hypothesis IH : forall a b, clean a = true -> clean b = true -> f a b = Some true -> skel a = skel b.

  Lemma mixed_mixed : forall t1 t2, clean (TMixed t1) = true -> clean (TMixed t2) = true ->
    oand (Some (len_ok true t1 t2)) (all2 f t1 t2) = Some true -> skel (TMixed t1) = skel (TMixed t2).
  Proof.
    intros t1 t2 C1 C2 H. apply oand_true in H. destruct H as [Hl H]. inversion Hl as [Hl'].
    apply len_ok_true in Hl'. apply all2_true in H; [|exact Hl'].
    apply clean_mixed in C1. apply clean_mixed in C2. destruct C1 as [_ C1], C2 as [_ C2].
    cbn. f_equal. apply forall2_map_skel.
    clear Hl Hl'. induction H as [|x y l1 l2 Hxy H IH2]; constructor.
    - inversion C1; inversion C2; subst. apply IH; assumption.
    - inversion C1; inversion C2; subst. apply IH2; assumption.
  Qed.

  (* expected `[T...]`, supplied `[T1, .., Tn]`: every `f t2 x` holds *)
  Lemma open_mixed : forall t2 t1, clean t2 = true -> clean (TMixed t1) = true ->
    all1 (fun x => f t2 x) t1 = Some true -> skel (TMixed t1) = L (skel t2).
  Proof.
    intros t2 t1 C2 C1 H. apply all1_true in H. apply clean_mixed in C1. destruct C1 as [Hne C1].
    cbn. apply collapse_const.
    - destruct t1; [congruence | discriminate].
    - apply Forall_forall. intros s Hs. apply in_map_iff in Hs. destruct Hs as [x [<- Hx]].
      rewrite Forall_forall in H, C1. symmetry. apply IH; auto.
  Qed.

  (* expected `[T1, .., Tn]`, supplied `[T...]`: every `f x t2` holds (each slot expects an element) *)
  Lemma mixed_open : forall t2 t1, clean t2 = true -> clean (TMixed t1) = true ->
    all1 (fun x => f x t2) t1 = Some true -> skel (TMixed t1) = L (skel t2).
  Proof.
    intros t2 t1 C2 C1 H. apply all1_true in H. apply clean_mixed in C1. destruct C1 as [Hne C1].
    cbn. apply collapse_const.
    - destruct t1; [congruence | discriminate].
    - apply Forall_forall. intros s Hs. apply in_map_iff in Hs. destruct Hs as [x [<- Hx]].
      rewrite Forall_forall in H, C1. apply IH; auto.
  Qed.
End ListCases.

(* ------------------------------------------------------------------ main theorem *)

Theorem cmp_clean_skel : forall n md t u,
  clean t = true -> clean u = true -> cmp true n md t u = Some true -> skel t = skel u.
Proof.
  induction n as [|n IH]; intros md t u Ct Cu H; [discriminate|].
  cbn [cmp] in H. destruct md as [f|].
  - (* eq_complex *)
    pose proof (strip_clean t Ct) as Cl. pose proof (strip_clean u Cu) as Cr.
    rewrite <- (strip_skel t), <- (strip_skel u).
    remember (strip t) as lhs eqn:El. remember (strip u) as rhs eqn:Er.
    destruct (if is_list_ty lhs && is_list_ty rhs then Some false else cmp true n None lhs rhs) as [[|]|] eqn:E;
      try discriminate.
    + destruct (is_list_ty lhs && is_list_ty rhs); [discriminate|]. apply (IH None); assumption.
    + assert (Nl : is_nil_ty lhs = false) by (apply clean_not_nil; exact Cl).
      assert (Nr : is_nil_ty rhs = false) by (apply clean_not_nil; exact Cr).
      assert (Tail :
        (if is_nil_ty lhs && force_rhs f then Some true
         else if negb (force_rhs f) &&
                 ((is_nil_ty lhs && (match get_opt rhs with Some _ => true | None => false end)) ||
                  ((match get_opt lhs with Some _ => true | None => false end) && is_nil_ty rhs))
         then Some true
         else match get_opt lhs, get_opt rhs with
              | Some x, Some y => cmp true n (Some f) x y
              | Some x, None => if negb (sig_check f) then cmp true n (Some f) x rhs else Some false
              | None, Some x => if lhs_unwrap f then cmp true n (Some f) x lhs else Some false
              | None, None => Some (is_str lhs && is_str rhs && negb (enforce_len f))
              end) = Some true -> skel lhs = skel rhs).
      { rewrite Nl, Nr. cbn [andb]. rewrite andb_false_r. cbn [orb andb]. rewrite andb_false_r. cbn [andb].
        destruct (get_opt lhs) as [x|] eqn:Gl; destruct (get_opt rhs) as [y|] eqn:Gr.
        - destruct lhs; try discriminate; destruct rhs; try discriminate. cbn in Gl, Gr. inversion Gl; inversion Gr; subst.
          intro H'. cbn. apply (IH (Some f)); auto.
        - destruct lhs; try discriminate. cbn in Gl. inversion Gl; subst.
          destruct (sig_check f); cbn; [discriminate|]. intro H'. apply (IH (Some f)); auto.
        - destruct rhs; try discriminate. cbn in Gr. inversion Gr; subst.
          destruct (lhs_unwrap f); [|discriminate]. intro H'. cbn. symmetry. apply (IH (Some f)); auto.
        - intro H'. inversion H' as [H'']. apply andb_prop in H''. destruct H'' as [H'' _].
          apply andb_prop in H''. destruct H'' as [S1 S2].
          destruct lhs as [[] ?| | | | | | | |]; try discriminate; destruct rhs as [[] ?| | | | | | | |]; try discriminate; reflexivity. }
      destruct lhs as [k1 l1| |a|a|t1|k1 v1|p1 r1|n1 a|n1]; destruct rhs as [k2 l2| |b|b|t2|k2 v2|p2 r2|n2 b|n2];
        try (apply Tail; exact H).
      * (* Open / Open *) cbn. f_equal. apply (IH (Some f)); auto.
      * (* Open a / Mixed t2 *)
        symmetry. apply (open_mixed (cmp true n (Some f))); auto. intros; apply (IH (Some f)); auto.
      * (* Mixed t1 / Open b *)
        apply (mixed_open (cmp true n (Some f))); auto. intros; apply (IH (Some f)); auto.
      * (* Mixed / Mixed *)
        apply (mixed_mixed (cmp true n (Some f))); auto. intros; apply (IH (Some f)); auto.
  - (* == *)
    destruct t as [k1 l1| |a|a|t1|k1 v1|p1 r1|n1 a|n1]; destruct u as [k2 l2| |b|b|t2|k2 v2|p2 r2|n2 b|n2];
      try discriminate.
    + (* native *) inversion H as [H']. apply andb_prop in H'. destruct H' as [H' _]. apply kind_eqb_eq in H'. subst. reflexivity.
    + (* T? == U? *) cbn. apply (IH None); auto.
    + (* Open / Open *) cbn. f_equal. apply (IH (Some classless)); auto.
    + (* Open a / Mixed t2 *)
      symmetry. apply (open_mixed (cmp true n (Some classless))); auto. intros; apply (IH (Some classless)); auto.
    + (* Mixed t1 / Open b *)
      apply (mixed_open (cmp true n (Some classless))); auto. intros; apply (IH (Some classless)); auto.
    + (* Mixed / Mixed *)
      apply (mixed_mixed (cmp true n (Some classless))); auto. intros; apply (IH (Some classless)); auto.
    + (* map *)
      apply oand_true in H. destruct H as [H1 H2]. cbn in Ct, Cu. apply andb_prop in Ct, Cu.
      cbn. f_equal; apply (IH None); tauto.
    + (* fn *)
      destruct (Nat.eqb (length p1) (length p2)) eqn:El; cbn [negb] in H; [|discriminate].
      apply PeanoNat.Nat.eqb_eq in El. apply oand_true in H. destruct H as [Hr Hp].
      cbn in Ct, Cu. apply andb_prop in Ct, Cu. destruct Ct as [Cp1 Cr1], Cu as [Cp2 Cr2].
      cbn. f_equal.
      * apply forall2_map_skel. apply all2_true in Hp; [|exact El].
        assert (F1 : Forall (fun x => clean x = true) p1) by (apply Forall_forall; apply forallb_forall; exact Cp1).
        assert (F2 : Forall (fun x => clean x = true) p2) by (apply Forall_forall; apply forallb_forall; exact Cp2).
        clear El Cp1 Cp2. induction Hp as [|x y l1 l2 Hxy Hp IH2]; constructor.
        -- inversion F1; inversion F2; subst. apply (IH (Some sig_flags)); assumption.
        -- inversion F1; inversion F2; subst. apply IH2; assumption.
      * destruct r1 as [x|], r2 as [y|]; try discriminate; [|reflexivity].
        cbn. f_equal. apply (IH (Some classless)); auto.
    + (* alias == alias *) apply oand_true in H. destruct H as [_ H]. cbn. apply (IH None); auto.
    + (* class *) inversion H as [H']. apply N.eqb_eq in H'. subst. reflexivity.
Qed.

(* the call sites.  expected = first argument of eq_complex, except for reassignment.rs which calls
   value_ty.eq_complex(target_ty): the conclusion is symmetric, so one statement covers both. *)
Theorem eq_complex_same_skeleton : forall fuel f t u,
  clean t = true -> clean u = true -> eq_complex fuel f t u = Some true -> skel t = skel u.
Proof. intros fuel f t u. apply (cmp_clean_skel fuel (Some f)). Qed.

(* ------------------------------------------------------------------ what a skeleton means *)

Inductive val :=
  | VNil | VNat (k : kind) | VList (vs : list val) | VMap (kvs : list (val * val))
  | VFn (ps : list sk) (r : option sk) | VObj (class : N).

(* run-time values of a skeleton; `nil` inhabits every type (its use is one of the language's own dynamic
   failures), a function value carries the skeleton it was declared with *)
Fixpoint has_sk (s : sk) (v : val) {struct s} : Prop :=
  v = VNil \/
  match s with
  | K k => v = VNat k
  | SNil => False
  | L s' => exists vs, v = VList vs /\ Forall (has_sk s') vs
  | M ss => exists vs, v = VList vs /\
              (fix go (ss : list sk) (vs : list val) : Prop :=
                 match ss, vs with
                 | [], [] => True
                 | s' :: ss', v' :: vs' => has_sk s' v' /\ go ss' vs'
                 | _, _ => False
                 end) ss vs
  | SMap a b => exists kvs, v = VMap kvs /\ Forall (fun kv => has_sk a (fst kv) /\ has_sk b (snd kv)) kvs
  | SFn ps r => v = VFn ps r
  | SClass n => v = VObj n
  end.

Definition has_ty (t : ty) (v : val) : Prop := has_sk (skel t) v.

(* "a value of type u can be stored where t is expected" *)
Definition compat (t u : ty) : Prop := forall v, has_ty u v -> has_ty t v.

Theorem eq_complex_compat : forall fuel f t u,
  clean t = true -> clean u = true -> eq_complex fuel f t u = Some true -> compat t u /\ compat u t.
Proof.
  intros fuel f t u Ct Cu H. unfold compat, has_ty.
  rewrite (eq_complex_same_skeleton fuel f t u Ct Cu H). split; auto.
Qed.

(* ------------------------------------------------------------------ the hypotheses are necessary *)

Definition t_int := TNat KInt None.
Definition t_str := TNat KStr None.

(* pinned tree: `[int]` accepts `[int, str]` (zip stops at the shorter list) *)
Lemma orig_refuted_length :
  eq_complex_orig 10 fl_assign (TMixed [t_int]) (TMixed [t_int; t_str]) = Some true /\
  skel (TMixed [t_int]) <> skel (TMixed [t_int; t_str]) /\
  eq_complex 10 fl_assign (TMixed [t_int]) (TMixed [t_int; t_str]) = Some false.
Proof. repeat split; try reflexivity. cbn. discriminate. Qed.

(* the empty fixed-shape list type accepts an open list of anything and is accepted as an open list of
   anything: a `[str...]` becomes a `[int...]` in two accepted steps *)
Lemma empty_fixed_list_launders :
  eq_complex 10 fl_assign (TMixed []) (TOpen t_str) = Some true /\
  eq_complex 10 fl_assign (TOpen t_int) (TMixed []) = Some true /\
  skel (TOpen t_str) <> skel (TOpen t_int) /\
  clean (TMixed []) = false.
Proof. repeat split; try reflexivity. cbn. discriminate. Qed.

(* non-vacuity: T? accepts T; a fixed list is accepted as an open list; element-wise optional lists;
   an optional is NOT accepted as its base type at any call site (only under lhs_unwrap, which no call site sets); unrelated kinds are refused *)
Example compat_examples :
  eq_complex 20 fl_assign (TOpt t_int) t_int = Some true /\
  eq_complex 20 fl_assign t_int (TOpt t_int) = Some false /\
  eq_complex 20 fl_return t_int (TOpt t_int) = Some false /\
  eq_complex 20 fl_reassign t_int (TOpt t_int) = Some false /\
  eq_complex 20 fl_unwrapping t_int (TOpt t_int) = Some true /\
  eq_complex 20 fl_assign (TOpen t_int) (TMixed [t_int; t_int]) = Some true /\
  eq_complex 20 fl_assign (TOpen (TOpt t_int)) (TMixed [t_int; TNil]) = Some true /\
  eq_complex 20 fl_assign (TOpen t_int) (TMixed [t_int; t_str]) = Some false /\
  eq_complex 20 fl_assign (TAlias 1%N t_int) t_int = Some true /\
  eq_complex 20 fl_assign (TFn [t_int] (Some t_int)) (TFn [t_int] (Some t_int)) = Some true /\
  eq_complex 20 fl_assign (TFn [TOpt t_int] (Some t_int)) (TFn [t_int] (Some t_int)) = Some false /\
  eq_complex 20 fl_assign (TFn [t_int] (Some (TOpt t_int))) (TFn [t_int] (Some t_int)) = Some true /\
  eq_complex 20 fl_assign t_int t_str = Some false.
Proof. vm_compute. repeat split; reflexivity. Qed.

(* /repo 4ab7445: two list types go straight to the list arms with the caller's flags, so under the signature check
   of a function type's parameters `[int?...]` is no longer `[int...]` (outside a signature it still accepts it) *)
Example list_param_under_signature_check :
  eq_complex 20 fl_assign (TFn [TOpen (TOpt t_int)] (Some t_int)) (TFn [TOpen t_int] (Some t_int)) = Some false /\
  eq_complex 20 fl_assign (TFn [TMixed [TOpt t_int; t_int]] (Some t_int)) (TFn [TMixed [t_int; t_int]] (Some t_int)) = Some false /\
  eq_complex 20 fl_assign (TFn [TOpen t_int] (Some t_int)) (TFn [TOpen t_int] (Some t_int)) = Some true /\
  eq_complex 20 fl_assign (TOpen (TOpt t_int)) (TOpen t_int) = Some true.
Proof. vm_compute. repeat split; reflexivity. Qed.

(* ------------------------------------------------------------------ fuel is sufficient *)

Lemma size_strip_le : forall t, size (strip t) <= size t.
Proof. induction t; cbn [strip size]; try lia. Qed.

Lemma size_pos : forall t, 1 <= size t.
Proof. destruct t; cbn [size]; lia. Qed.

Lemma size_in : forall x l, In x l -> size x <= fold_right (fun y acc => size y + acc) 0 l.
Proof.
  induction l as [|y l IH]; cbn [In fold_right]; intros H; [contradiction|].
  destruct H as [<-|H]; [lia | specialize (IH H); lia].
Qed.

Lemma oand_some : forall a b, a <> None -> b <> None -> oand a b <> None.
Proof. intros [?|] [?|]; cbn; congruence. Qed.

Lemma all2_some : forall f l1 l2,
  (forall x y, In x l1 -> In y l2 -> f x y <> None) -> all2 f l1 l2 <> None.
Proof.
  induction l1 as [|x l1 IH]; intros [|y l2] H; cbn [all2]; try discriminate.
  apply oand_some; [apply H; left; reflexivity | apply IH; intros; apply H; right; assumption].
Qed.

Lemma all1_some : forall f l, (forall x, In x l -> f x <> None) -> all1 f l <> None.
Proof.
  induction l as [|x l IH]; intros H; cbn [all1]; try discriminate.
  apply oand_some; [apply H; left; reflexivity | apply IH; intros; apply H; right; assumption].
Qed.

Definition weight (md : option flags) (t u : ty) : nat :=
  match md with
  | None => 2 * (size t + size u)
  | Some _ => 2 * (size (strip t) + size (strip u)) + 1
  end.

Lemma cmp_fuel_weight : forall fixed n md t u, weight md t u < n -> cmp fixed n md t u <> None.
Proof.
  intros fixed. induction n as [|n IH]; intros md t u W; [lia|].
  cbn [cmp]. destruct md as [f|].
  - (* eq_complex *)
    cbn [weight] in W.
    pose proof (size_strip_le (strip t)) as Sl. pose proof (size_strip_le (strip u)) as Sr.
    remember (strip t) as lhs eqn:El. remember (strip u) as rhs eqn:Er.
    assert (T : (if is_list_ty lhs && is_list_ty rhs then Some false else cmp fixed n None lhs rhs) <> None)
      by (destruct (is_list_ty lhs && is_list_ty rhs); [discriminate | apply IH; cbn [weight]; lia]).
    destruct (if is_list_ty lhs && is_list_ty rhs then Some false else cmp fixed n None lhs rhs) as [[|]|];
      [discriminate| |congruence].
    assert (Sub : forall a b, size (strip a) + size (strip b) < size lhs + size rhs -> cmp fixed n (Some f) a b <> None)
      by (intros a b Hab; apply IH; cbn [weight]; lia).
    assert (SubL : forall a b, size a + size b < size lhs + size rhs -> cmp fixed n (Some f) a b <> None)
      by (intros a b Hab; apply Sub; pose proof (size_strip_le a); pose proof (size_strip_le b); lia).
    destruct lhs as [k1 l1| |a|a|t1|k1 v1|p1 r1|n1 a|n1]; destruct rhs as [k2 l2| |b|b|t2|k2 v2|p2 r2|n2 b|n2];
      cbn [is_nil_ty get_opt is_str andb orb negb];
      repeat match goal with
             | |- context [if ?c then _ else _] => destruct c
             end;
      try discriminate;
      try (apply SubL; cbn [size]; lia);
      try (apply oand_some; [discriminate|]; apply all2_some; intros x y Hx Hy; apply SubL;
           apply size_in in Hx; apply size_in in Hy; cbn [size]; lia);
      try (apply all1_some; intros x Hx; apply SubL; apply size_in in Hx; cbn [size]; lia).
  - (* == *)
    cbn [weight] in W.
    assert (SubE : forall g a b, size a + size b + 1 < size t + size u -> cmp fixed n (Some g) a b <> None).
    { intros g a b Hab. apply IH. cbn [weight]. pose proof (size_strip_le a). pose proof (size_strip_le b). lia. }
    assert (SubT : forall a b, size a + size b < size t + size u -> cmp fixed n None a b <> None)
      by (intros a b Hab; apply IH; cbn [weight]; lia).
    destruct t as [k1 l1| |a|a|t1|k1 v1|p1 r1|n1 a|n1]; destruct u as [k2 l2| |b|b|t2|k2 v2|p2 r2|n2 b|n2];
      try discriminate;
      try (apply SubT; cbn [size]; lia);
      try (apply SubE; cbn [size]; lia);
      try (apply oand_some; [discriminate|]; apply all2_some; intros x y Hx Hy; apply SubE;
           apply size_in in Hx; apply size_in in Hy; cbn [size]; lia);
      try (apply all1_some; intros x Hx; apply SubE; apply size_in in Hx; cbn [size]; lia).
    + (* map *) apply oand_some; apply SubT; cbn [size]; lia.
    + (* fn *)
      destruct (negb (Nat.eqb (length p1) (length p2))); [discriminate|].
      apply oand_some.
      * destruct r1 as [x|], r2 as [y|]; try discriminate. apply SubE. cbn [size]. lia.
      * apply all2_some. intros x y Hx Hy. apply SubE. apply size_in in Hx. apply size_in in Hy. cbn [size]. lia.
    + (* alias *) apply oand_some; [discriminate|]. apply SubT. cbn [size]. lia.
Qed.

Theorem cmp_fuel : forall fixed n md t u,
  2 * (size t + size u) + 2 <= n -> cmp fixed n md t u <> None.
Proof.
  intros fixed n md t u H. apply cmp_fuel_weight.
  pose proof (size_strip_le t). pose proof (size_strip_le u). destruct md; cbn [weight]; lia.
Qed.
