(* The type-compatibility relation of mscript: compiler/src/ast/type.rs `TypeLayout::eq_complex`
   (expected type = self, supplied type = rhs, five flags) together with the `==` it starts with
   (the derived `PartialEq` of TypeLayout, which for lists is the hand-written `ListType::eq` of list.rs
   and for function types the hand-written `FunctionType::eq` of function.rs -- both call back into
   eq_complex).

   Fragment: native kinds (str with its optional compile-time length), the type of the `nil` literal,
   T?, open lists [T...], fixed-shape lists [T1, .., Tn], map[K, V], function types, aliases, classes as
   opaque names.  Outside: generics (untyped parameters), `Self`, modules, callback wrappers.

   `fixed` selects the version of the code: false = without, true = with
   /verif/fixes/c02-mixed-list-length.diff (fixed-shape lists of different lengths are different types);
   both follow /repo 4ab7445 (two list types skip the `==` shortcut of eq_complex).

   Recursion is on explicit fuel (`==` and eq_complex are mutually recursive and eq_complex swaps its
   arguments in one arm); `None` = out of fuel, which every theorem excludes and `cmp_fuel` shows never
   happens with fuel > 2 * (size t + size u) + 1. *)
From Coq Require Import List Bool NArith Lia.
From MS Require Import Types.OpTable.
Import ListNotations.

Inductive ty :=
  | TNat (k : kind) (len : option N)      (* Native; `len` only means something for str (StrWrapper) *)
  | TNil                                  (* Optional(None): the type of the literal `nil` *)
  | TOpt (t : ty)                         (* Optional(Some t) : `T?` *)
  | TOpen (t : ty)                        (* List(Open t) : `[T...]` *)
  | TMixed (ts : list ty)                 (* List(Mixed ts) : `[T1, .., Tn]` *)
  | TMap (k v : ty)
  | TFn (ps : list ty) (r : option ty)    (* parameters, return type (None = void) *)
  | TAlias (n : N) (t : ty)
  | TClass (n : N).

(* TypecheckFlags without executing_class (classes are opaque here) *)
Record flags := { lhs_unwrap : bool; force_rhs : bool; sig_check : bool; enforce_len : bool }.

Definition classless : flags := {| lhs_unwrap := false; force_rhs := false; sig_check := false; enforce_len := false |}.
Definition sig_flags : flags := {| lhs_unwrap := false; force_rhs := false; sig_check := true; enforce_len := false |}.
(* the call sites *)
Definition fl_assign : flags := classless.          (* assignment_type.rs: use_class(..).lhs_unwrap(false); expected = declared *)
Definition fl_argument : flags := classless.        (* function_arguments.rs: lhs_unwrap(false); expected = parameter *)
Definition fl_return : flags := classless.          (* return.rs: lhs_unwrap(false); expected = declared return type *)
Definition fl_reassign : flags := classless.        (* reassignment.rs: lhs_unwrap(false); expected = type of the target *)
Definition fl_unwrapping : flags :=                 (* no call site uses lhs_unwrap(true) any more; kept to pin what the flag does *)
  {| lhs_unwrap := true; force_rhs := false; sig_check := false; enforce_len := false |}.
Definition fl_or : flags := classless.              (* math_expr.rs optional_or: use_class(..); expected = unwrapped primary *)

(* disregard_distractors(false) *)
Fixpoint strip (t : ty) : ty := match t with TAlias _ t' => strip t' | _ => t end.

Definition is_nil_ty (t : ty) : bool := match t with TNil => true | _ => false end.
Definition get_opt (t : ty) : option ty := match t with TOpt x => Some x | _ => None end.
Definition is_optional (t : ty) : bool := match t with TNil | TOpt _ => true | _ => false end.
Definition is_str (t : ty) : bool := match t with TNat KStr _ => true | _ => false end.
Definition is_list_ty (t : ty) : bool := match t with TOpen _ | TMixed _ => true | _ => false end.

Definition oand (a b : option bool) : option bool :=
  match a, b with Some x, Some y => Some (x && y) | _, _ => None end.

(* `iter().zip().all()` : pairs beyond the shorter list are not looked at *)
Fixpoint all2 (f : ty -> ty -> option bool) (l1 l2 : list ty) : option bool :=
  match l1, l2 with
  | x :: l1', y :: l2' => oand (f x y) (all2 f l1' l2')
  | _, _ => Some true
  end.

Fixpoint all1 (f : ty -> option bool) (l : list ty) : option bool :=
  match l with [] => Some true | x :: l' => oand (f x) (all1 f l') end.

Definition len_ok (fixed : bool) (l1 l2 : list ty) : bool :=
  if fixed then Nat.eqb (length l1) (length l2) else true.

(* md = None     : `t == u`        (derived PartialEq)
   md = Some f   : `t.eq_complex(u, f)` *)
Fixpoint cmp (fixed : bool) (fuel : nat) (md : option flags) (t u : ty) {struct fuel} : option bool :=
  match fuel with
  | O => None
  | S n =>
    let eqc := fun f a b => cmp fixed n (Some f) a b in
    let teq := fun a b => cmp fixed n None a b in
    match md with
    | None =>
        match t, u with
        | TNat k1 l1, TNat k2 l2 =>
            Some (kind_eqb k1 k2 &&
                  match k1, l1, l2 with
                  | KStr, Some a, Some b => N.eqb a b      (* StrWrapper::eq: unknown length equals anything *)
                  | _, _, _ => true
                  end)
        | TNil, TNil => Some true
        | TOpt a, TOpt b => teq a b
        (* ListType::eq, all with classless flags *)
        | TMixed t1, TMixed t2 => oand (Some (len_ok fixed t1 t2)) (all2 (eqc classless) t1 t2)
        | TOpen a, TOpen b => eqc classless a b
        | TMixed t1, TOpen t2 => all1 (fun x => eqc classless x t2) t1      (* every slot expects an element *)
        | TOpen t2, TMixed t1 => all1 (fun x => eqc classless t2 x) t1
        | TMap k1 v1, TMap k2 v2 => oand (teq k1 k2) (teq v1 v2)
        (* FunctionType::eq *)
        | TFn p1 r1, TFn p2 r2 =>
            if negb (Nat.eqb (length p1) (length p2)) then Some false
            else oand (match r1, r2 with
                       | None, None => Some true
                       | Some a, Some b => eqc classless a b       (* eq_for_signature_checking *)
                       | _, _ => Some false
                       end)
                      (all2 (eqc sig_flags) p1 p2)
        | TAlias n1 a, TAlias n2 b => oand (Some (N.eqb n1 n2)) (teq a b)
        | TClass n1, TClass n2 => Some (N.eqb n1 n2)
        | _, _ => Some false
        end
    | Some f =>
        let lhs := strip t in
        let rhs := strip u in
        (* `!both_lists && lhs == rhs` (since /repo 4ab7445): two list types never take the `==` shortcut --
           which for lists is ListType::eq, i.e. the list arms with CLASSLESS flags -- but go straight to the
           list arms below with the CALLER's flags (so under sig_check `[int?...]` no longer equals `[int...]`) *)
        match (if is_list_ty lhs && is_list_ty rhs then Some false else teq lhs rhs) with
        | None => None
        | Some true => Some (if force_rhs f then negb (is_optional rhs) else true)
        | Some false =>
            match lhs, rhs with
            | TMixed t1, TMixed t2 => oand (Some (len_ok fixed t1 t2)) (all2 (eqc f) t1 t2)
            | TOpen a, TOpen b => eqc f a b
            | TMixed t1, TOpen t2 => all1 (fun x => eqc f x t2) t1
            | TOpen t2, TMixed t1 => all1 (fun x => eqc f t2 x) t1
            | _, _ =>
                if is_nil_ty lhs && force_rhs f then Some true
                else if negb (force_rhs f) &&
                        ((is_nil_ty lhs && (match get_opt rhs with Some _ => true | None => false end)) ||
                         ((match get_opt lhs with Some _ => true | None => false end) && is_nil_ty rhs))
                then Some true
                else match get_opt lhs, get_opt rhs with
                     | Some x, Some y => eqc f x y
                     | Some x, None => if negb (sig_check f) then eqc f x rhs else Some false
                     | None, Some x => if lhs_unwrap f then eqc f x lhs      (* sides swap here *)
                                       else Some false
                     | None, None => Some (is_str lhs && is_str rhs && negb (enforce_len f))
                     end
            end
        end
    end
  end.

Definition eq_complex (fuel : nat) (f : flags) (t u : ty) : option bool := cmp true fuel (Some f) t u.
Definition eq_complex_orig (fuel : nat) (f : flags) (t u : ty) : option bool := cmp false fuel (Some f) t u.

(* ------------------------------------------------------------------ kind skeletons *)

(* what is left of a type when optionality, aliases and string lengths are forgotten and a fixed-shape
   list whose element types all have the same skeleton is identified with the open list of it (the code
   itself does so: `try_coerce_to_open`) *)
Inductive sk :=
  | K (k : kind) | SNil | L (s : sk) | M (ss : list sk) | SMap (a b : sk)
  | SFn (ps : list sk) (r : option sk) | SClass (n : N).

Fixpoint sk_eqb (a b : sk) {struct a} : bool :=
  match a, b with
  | K k1, K k2 => kind_eqb k1 k2
  | SNil, SNil => true
  | L x, L y => sk_eqb x y
  | M xs, M ys =>
      (fix go (xs ys : list sk) : bool :=
         match xs, ys with
         | [], [] => true
         | x :: xs', y :: ys' => sk_eqb x y && go xs' ys'
         | _, _ => false
         end) xs ys
  | SMap a1 b1, SMap a2 b2 => sk_eqb a1 a2 && sk_eqb b1 b2
  | SFn p1 r1, SFn p2 r2 =>
      (fix go (xs ys : list sk) : bool :=
         match xs, ys with
         | [], [] => true
         | x :: xs', y :: ys' => sk_eqb x y && go xs' ys'
         | _, _ => false
         end) p1 p2 &&
      match r1, r2 with
      | None, None => true
      | Some x, Some y => sk_eqb x y
      | _, _ => false
      end
  | SClass n1, SClass n2 => N.eqb n1 n2
  | _, _ => false
  end.

Definition collapse (ss : list sk) : sk :=
  match ss with
  | [] => M []
  | s :: rest => if forallb (sk_eqb s) rest then L s else M ss
  end.

Fixpoint skel (t : ty) : sk :=
  match t with
  | TNat k _ => K k
  | TNil => SNil
  | TOpt t' => skel t'
  | TAlias _ t' => skel t'
  | TOpen t' => L (skel t')
  | TMixed ts => collapse (map skel ts)
  | TMap a b => SMap (skel a) (skel b)
  | TFn ps r => SFn (map skel ps) (option_map skel r)
  | TClass n => SClass n
  end.

(* a type that can be written as an annotation once `[]` is refused (c02-empty-list-type.diff):
   no `nil` type, no empty fixed-shape list, at any depth *)
Fixpoint clean (t : ty) : bool :=
  match t with
  | TNat _ _ | TClass _ => true
  | TNil => false
  | TOpt t' | TAlias _ t' | TOpen t' => clean t'
  | TMixed ts => negb (match ts with [] => true | _ => false end) && forallb clean ts
  | TMap a b => clean a && clean b
  | TFn ps r => forallb clean ps && match r with Some x => clean x | None => true end
  end.

Fixpoint size (t : ty) : nat :=
  match t with
  | TNat _ _ | TNil | TClass _ => 1
  | TOpt t' | TAlias _ t' | TOpen t' => S (size t')
  | TMixed ts => S (fold_right (fun x acc => size x + acc) 0 ts)
  | TMap a b => S (size a + size b)
  | TFn ps r => S (fold_right (fun x acc => size x + acc) 0 ps + match r with Some x => size x | None => 0 end)
  end.
