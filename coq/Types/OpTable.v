(* Operator tables of mscript at the level of value KINDS.

   static side : compiler/src/ast/type.rs  `TypeLayout::get_output_type` (native part, after the
                 generic / optional / alias preludes) + `supports_negate` / `is_boolean` for the two
                 prefix operators (math_expr.rs map_prefix);
   run-time side: bytecode/src/instruction.rs `bin_op` / `bin_op_assign` / `equ` / `neq` / `neg` / `not`
                 dispatching to bytecode/src/variables/ops.rs (`apply_math_bin_op_if_applicable`,
                 `apply_bool_bin_op_if_applicable`), ops/{add,sub,mul,div,rem,bitops,ord}.rs and
                 primitive.rs `equals` / `runtime_addr_check` / `negate`.

   Both tables exist in two versions selected by a boolean:
     fixed = false : the tables as found in the pinned tree (F4 of DESIGN section 7 and friends);
     fixed = true  : the tables after /verif/fixes/c02-optable.diff.
   `out_type` / `rt_kind` (no suffix) are the FIXED tables; these are what the correspondence check
   compares the binary against.  The `_orig` lemmas document exactly which cells were unsound.

   The run-time table gives the kind of the result when none of the language's own dynamic failures
   (zero divisor, overflow, failed conversion of a repeat count / shift amount) occurs; those depend on
   the VALUES and are the subject of C05.  `RErr` is an `anyhow` error ("<A + B> is invalid", "cannot
   compare", "unknown operation", "cannot negate"), `RPanic` a Rust panic (none is left in the tables: the
   ordering operators used to panic with "boolean comparison on a non-boolean"): both are run-time TYPE
   errors in the sense of property C02. *)
From Coq Require Import List Bool.
Import ListNotations.

Inductive kind := KInt | KBigInt | KFloat | KByte | KBool | KStr.

(* math_expr.rs `enum Op` without `Unwrap` (`?=`, which is about optionals, not kinds) *)
Inductive op :=
  | Add | Sub | Mul | Div | Mod
  | Lt | Gt | Lte | Gte | Eq | Neq
  | And | Or | Xor                     (* && || ^   (logical) *)
  | BXor | BOr | BAnd | Ls | Rs        (* xor | & << >> (bitwise) *)
  | AddA | SubA | MulA | DivA | ModA   (* += -= *= /= %= *)
  | Is.

Inductive unop := Neg | Not.

Definition all_kinds := [KInt; KBigInt; KFloat; KByte; KBool; KStr].
Definition all_ops := [Add; Sub; Mul; Div; Mod; Lt; Gt; Lte; Gte; Eq; Neq; And; Or; Xor;
                       BXor; BOr; BAnd; Ls; Rs; AddA; SubA; MulA; DivA; ModA; Is].
Definition all_unops := [Neg; Not].

Definition kind_eqb (a b : kind) : bool :=
  match a, b with
  | KInt, KInt | KBigInt, KBigInt | KFloat, KFloat | KByte, KByte | KBool, KBool | KStr, KStr => true
  | _, _ => false
  end.

Lemma kind_eqb_eq : forall a b, kind_eqb a b = true <-> a = b.
Proof. destruct a, b; cbn; split; intro H; try reflexivity; try discriminate. Qed.

Lemma all_kinds_complete : forall k, In k all_kinds.
Proof. destruct k; cbn; tauto. Qed.
Lemma all_ops_complete : forall o, In o all_ops.
Proof. destruct o; cbn; tauto. Qed.
Lemma all_unops_complete : forall o, In o all_unops.
Proof. destruct o; cbn; tauto. Qed.

Definition is_assign (o : op) : bool :=
  match o with AddA | SubA | MulA | DivA | ModA => true | _ => false end.

Definition base_of (o : op) : op :=
  match o with AddA => Add | SubA => Sub | MulA => Mul | DivA => Div | ModA => Mod | o => o end.

Definition is_num (k : kind) : bool :=
  match k with KInt | KBigInt | KFloat | KByte => true | _ => false end.

(* ------------------------------------------------------------------ static table *)

(* the `let matched = match (me, other, op) { ... }` of get_output_type, arm by arm, same order *)
Definition matched (fixed : bool) (o : op) (me other : kind) : option kind :=
  match o with
  | And | Or | Xor =>
      match me, other with KBool, KBool => Some KBool | _, _ => None end
  | Lt | Gt | Lte | Gte | Eq | Neq =>
      match me, other, o with
      | KStr, KStr, (Eq | Neq) => Some KBool                      (* first arm of the Rust match *)
      | _, _, _ => if is_num me && is_num other then Some KBool else None
      end
  | BXor | BAnd | BOr | Ls | Rs =>
      match me, other with
      | KInt, KInt | KInt, KByte => Some KInt
      | KInt, KBigInt => Some (if fixed then KBigInt else KInt)    (* F4: typed int, yields bigint *)
      | KBigInt, (KBigInt | KInt | KByte) => Some KBigInt
      | KByte, KByte => Some (if fixed then KByte else KInt)       (* F4: typed int, yields byte *)
      | KByte, KInt => Some KInt
      | KByte, KBigInt => Some (if fixed then KBigInt else KInt)   (* F4: typed int, yields bigint *)
      | _, _ => None
      end
  | Add | Sub | Mul | Div | Mod =>
      match me, other with
      | KInt, KInt => Some KInt
      | KInt, KBigInt => Some KBigInt
      | KInt, KFloat => Some KFloat
      | KFloat, (KFloat | KInt | KBigInt) => Some KFloat
      | KBigInt, (KBigInt | KInt) => Some KBigInt
      | KBigInt, KFloat => Some KFloat
      | _, _ =>
          (* `(x, Byte, ..) | (Byte, x, ..) => *x` : F4 -- x unrestricted in the pinned tree *)
          let byte_arm :=
            match me, other with
            | x, KByte => if fixed then (if is_num x then Some x else None) else Some x
            | KByte, x => if fixed then (if is_num x then Some x else None) else Some x
            | _, _ => None
            end in
          match byte_arm with
          | Some k => Some k
          | None =>
              match me, other, o with
              | KStr, _, Add => Some KStr
              | _, KStr, Add => Some KStr
              | KStr, (KInt | KBigInt), Mul => Some KStr
              | (KInt | KBigInt), KStr, Mul => Some KStr
              | _, _, _ => None
              end
          end
      end
  | AddA | SubA | MulA | DivA | ModA | Is => None     (* never reach the table: handled before it *)
  end.

(* get_output_type for two native operands (no generic / optional / alias involved) *)
Definition out_type_gen (fixed : bool) (o : op) (k1 k2 : kind) : option kind :=
  match o with
  | Is => Some KBool
  | AddA | SubA | MulA | DivA | ModA =>
      match matched fixed (base_of o) k1 k2 with
      | Some t =>
          (* fix: the variable keeps its declared type, so the result must be storable in it.
             pinned tree: no such check (`a: int = 1; a += 2.5` leaves a float in an `int`) *)
          if fixed then (if kind_eqb t k1 then Some t else None) else Some t
      | None => None
      end
  | Eq | Neq =>
      (* `matches!(op, Eq | Neq) && lhs == other && lhs.supports_equ()` comes first *)
      if kind_eqb k1 k2 then Some KBool else matched fixed o k1 k2
  | _ => matched fixed o k1 k2
  end.

Definition out_type := out_type_gen true.
Definition out_type_orig := out_type_gen false.

(* prefix operators: the result type is the operand type (`Expr::UnaryMinus | UnaryNot => val.for_type`) *)
Definition out_un_gen (fixed : bool) (o : unop) (k : kind) : option kind :=
  match o with
  | Neg => (* supports_negate: pinned tree = every native but str / byte, so `-true` compiled *)
      match k with
      | KInt | KBigInt | KFloat => Some k
      | KBool => if fixed then None else Some KBool
      | _ => None
      end
  | Not => match k with KBool => Some KBool | _ => None end
  end.
Definition out_un := out_un_gen true.
Definition out_un_orig := out_un_gen false.

(* ------------------------------------------------------------------ run-time table *)

Inductive rt := ROk (k : kind) | RErr | RPanic.

(* apply_math_bin_op_if_applicable!(@no_f64 ..) *)
Definition math_no_f64 (a b : kind) : option kind :=
  match a, b with
  | KInt, KInt => Some KInt
  | KInt, KBigInt => Some KBigInt
  | KInt, KByte => Some KInt
  | KBigInt, KBigInt => Some KBigInt
  | KBigInt, KInt => Some KBigInt
  | KBigInt, KByte => Some KBigInt
  | KByte, KByte => Some KByte
  | KByte, KInt => Some KInt
  | KByte, KBigInt => Some KBigInt
  | _, _ => None
  end.

(* apply_math_bin_op_if_applicable!(..) *)
Definition math (a b : kind) : option kind :=
  match math_no_f64 a b with
  | Some k => Some k
  | None =>
      match a, b with
      | KInt, KFloat | KFloat, KFloat | KFloat, KInt | KFloat, KBigInt | KFloat, KByte
      | KBigInt, KFloat | KByte, KFloat => Some KFloat
      | _, _ => None
      end
  end.

Definition of_opt (x : option kind) : rt := match x with Some k => ROk k | None => RErr end.

(* Primitive::equals on two of the six kinds *)
Definition rt_equals (a b : kind) : rt :=
  if is_num a && is_num b then ROk KBool
  else match a, b with
       | KStr, KStr | KBool, KBool => ROk KBool
       | _, _ => RErr                                   (* "cannot compare A with B" *)
       end.

Definition rt_base (fixed : bool) (o : op) (a b : kind) : rt :=
  match o with
  | Add =>
      match math a b with
      | Some k => ROk k
      | None => match a, b with
                | KStr, _ | _, KStr => ROk KStr          (* str + any, any + str *)
                | _, _ => RErr
                end
      end
  | Sub | Div | Mod => of_opt (math a b)
  | Mul =>
      match math a b with
      | Some k => ROk k
      | None => match a, b with
                | KStr, (KInt | KBigInt) | (KInt | KBigInt), KStr => ROk KStr
                | _, _ => RErr
                end
      end
  | Lt | Gt | Lte | Gte =>
      (* bin_op guards the four ordering operators: "<A > B> is invalid" unless both operands are numbers (fix
         "nil-ordering-comparison"; before it the operands reached apply_bool_bin_op_if_applicable, whose
         `_ => panic!("boolean comparison on a non-boolean")` was an `RPanic` here) *)
      if is_num a && is_num b then ROk KBool else RErr
  | Eq | Neq => rt_equals a b
  | And | Or | Xor => match a, b with KBool, KBool => ROk KBool | _, _ => RErr end
  | BXor | BOr | BAnd | Ls | Rs => of_opt (math_no_f64 a b)
  | Is => (* runtime_addr_check falls back to `equals`; the fix answers `false` for incomparable kinds *)
      if fixed then ROk KBool else rt_equals a b
  | AddA | SubA | MulA | DivA | ModA => RErr             (* not a base operator *)
  end.

(* bin_op_assign applies the base operator to the primitives *)
Definition rt_kind_gen (fixed : bool) (o : op) (a b : kind) : rt := rt_base fixed (base_of o) a b.
Definition rt_kind := rt_kind_gen true.
Definition rt_kind_orig := rt_kind_gen false.

Definition rt_un (o : unop) (k : kind) : rt :=
  match o with
  | Neg => match k with KInt | KBigInt | KFloat => ROk k | _ => RErr end   (* "cannot negate" *)
  | Not => match k with KBool => ROk KBool | _ => RErr end                 (* "not can only negate booleans" *)
  end.

(* ------------------------------------------------------------------ soundness, by exhaustion *)

Definition cell_sound (fixed : bool) (o : op) (a b : kind) : bool :=
  match out_type_gen fixed o a b with
  | None => true
  | Some t =>
      match rt_kind_gen fixed o a b with
      | ROk k => kind_eqb k t && (if is_assign o then kind_eqb t a else true)
      | _ => false
      end
  end.

Definition cells : list (op * kind * kind) :=
  flat_map (fun o => flat_map (fun a => map (fun b => (o, a, b)) all_kinds) all_kinds) all_ops.

Lemma cells_complete : forall o a b, In (o, a, b) cells.
Proof.
  intros o a b. unfold cells.
  apply in_flat_map. exists o. split; [apply all_ops_complete|].
  apply in_flat_map. exists a. split; [apply all_kinds_complete|].
  apply in_map. apply all_kinds_complete.
Qed.

Lemma all_cells_sound : forallb (fun c => match c with (o, a, b) => cell_sound true o a b end) cells = true.
Proof. vm_compute. reflexivity. Qed.

Lemma cell_sound_all : forall o a b, cell_sound true o a b = true.
Proof.
  intros o a b.
  pose proof (proj1 (forallb_forall _ _) all_cells_sound (o, a, b) (cells_complete o a b)) as H.
  exact H.
Qed.

(* THE table theorem: whatever the static table accepts, the run-time table computes, with that kind.
   The domain (25 operators x 6 x 6 kinds = 900 cells) is finite and is covered completely. *)
Theorem op_table_sound : forall o k1 k2 t,
  out_type o k1 k2 = Some t -> rt_kind o k1 k2 = ROk t.
Proof.
  intros o k1 k2 t H. pose proof (cell_sound_all o k1 k2) as S.
  unfold cell_sound in S. unfold out_type in H. rewrite H in S.
  unfold rt_kind. destruct (rt_kind_gen true o k1 k2) as [k| |]; try discriminate.
  apply andb_prop in S. destruct S as [S _]. apply kind_eqb_eq in S. now subst.
Qed.

(* an accepted compound assignment leaves a value of the variable's own kind in the variable *)
Theorem op_assign_keeps_kind : forall o k1 k2 t,
  is_assign o = true -> out_type o k1 k2 = Some t -> t = k1.
Proof.
  intros o k1 k2 t A H. pose proof (cell_sound_all o k1 k2) as S.
  unfold cell_sound in S. unfold out_type in H. rewrite H in S. rewrite A in S.
  destruct (rt_kind_gen true o k1 k2) as [k| |]; try discriminate.
  apply andb_prop in S. destruct S as [_ S]. now apply kind_eqb_eq in S.
Qed.

Theorem un_table_sound : forall o k t, out_un o k = Some t -> rt_un o k = ROk t /\ t = k.
Proof. intros o k t. destruct o, k; cbn; intro H; inversion H; subst; split; reflexivity. Qed.

(* ------------------------------------------------------------------ the pinned tree's tables are NOT sound *)

Definition bad_cells_orig : list (op * kind * kind) :=
  filter (fun c => match c with (o, a, b) => negb (cell_sound false o a b) end) cells.

(* the complete list of unsound cells of the tables as found (documentation of the finding) *)
Lemma bad_cells_orig_count : length bad_cells_orig = 106%nat.
Proof. vm_compute. reflexivity. Qed.

(* `true + 0b1` compiles (typed bool) and the run-time table has no such cell *)
Lemma op_table_orig_refuted_bool_byte :
  out_type_orig Add KBool KByte = Some KBool /\ rt_kind_orig Add KBool KByte = RErr.
Proof. split; reflexivity. Qed.
(* `byte & byte` is typed int and yields a byte; `int & bigint` is typed int and yields a bigint *)
Lemma op_table_orig_refuted_bitwise :
  out_type_orig BAnd KByte KByte = Some KInt /\ rt_kind_orig BAnd KByte KByte = ROk KByte /\
  out_type_orig BAnd KInt KBigInt = Some KInt /\ rt_kind_orig BAnd KInt KBigInt = ROk KBigInt.
Proof. repeat split; reflexivity. Qed.
(* `a: int = 1; a += 2.5` is accepted and leaves a float in `a` *)
Lemma op_table_orig_refuted_assign :
  out_type_orig AddA KInt KFloat = Some KFloat /\ rt_kind_orig AddA KInt KFloat = ROk KFloat.
Proof. split; reflexivity. Qed.
(* `1 is "x"` is typed bool and dies with "cannot compare Int with Str" *)
Lemma op_table_orig_refuted_is :
  out_type_orig Is KInt KStr = Some KBool /\ rt_kind_orig Is KInt KStr = RErr.
Proof. split; reflexivity. Qed.
(* `-true` compiles and dies with "cannot negate true" *)
Lemma un_table_orig_refuted : out_un_orig Neg KBool = Some KBool /\ rt_un Neg KBool = RErr.
Proof. split; reflexivity. Qed.

(* the fix only removes or corrects unsound cells: every cell that was sound keeps its entry *)
Lemma fix_is_conservative : forall o a b,
  cell_sound false o a b = true -> is_assign o = false -> o <> Is ->
  out_type o a b = out_type_orig o a b.
Proof. intros o a b; destruct o, a, b; vm_compute; intros; try reflexivity; try discriminate; try congruence. Qed.
