(* Compatibility when the SUPPLIED type is the type of a literal: `nil`, `[]`, `[x, nil]`, `[[], [1]]` ...
   Such a type cannot be written as an annotation (it is not `clean`), and the expression it belongs to can be
   given several annotation types (`nil` is a value of every T?, `[]` of every [T...]).  Theorem: whenever
   eq_complex accepts an annotation type t against a literal type u -- in either argument order, with any
   flags -- u can be completed to an annotation type u' (`inst u u'`: the literal's values are values of u')
   that has the same kind skeleton as t. *)
From Coq Require Import List Bool NArith Lia.
From MS Require Import Types.OpTable Types.Compat Types.CompatProofs.
Import ListNotations.

(* types of expressions: annotation types, `nil`, and list literals built from them.  (A one-element
   literal `[e]` has the OPEN type [T...]: it is covered when T is an annotation type.) *)
Fixpoint expr_ty (u : ty) : bool :=
  match u with
  | TNil => true
  | TMixed us => forallb expr_ty us
  | _ => clean u
  end.

Inductive inst : ty -> ty -> Prop :=
  | I_clean : forall u, clean u = true -> inst u u
  | I_nil : forall t, clean t = true -> inst TNil (TOpt t)
  | I_empty : forall t, clean t = true -> inst (TMixed []) (TOpen t)
  | I_mixed : forall us us', us <> [] -> Forall2 inst us us' -> inst (TMixed us) (TMixed us').

Lemma clean_expr : forall u, clean u = true -> expr_ty u = true.
Proof.
  fix IH 1. intros u C. destruct u; cbn [expr_ty]; try exact C; try discriminate.
  cbn in C. apply andb_prop in C. destruct C as [_ C].
  induction ts as [|x ts IHts]; [reflexivity|]. cbn in C |- *. apply andb_prop in C. destruct C as [Cx Cts].
  rewrite (IH x Cx). cbn. apply IHts. exact Cts.
Qed.

(* forward: expected t (annotation) against supplied u (expression type)
   backward: the swapped call of reassignment.rs, value u first, target t second *)
Definition Fwd (n : nat) : Prop := forall md t u,
  clean t = true -> expr_ty u = true -> cmp true n md t u = Some true ->
  exists u', inst u u' /\ clean u' = true /\ skel u' = skel t.
Definition Bwd (n : nat) : Prop := forall md u t,
  expr_ty u = true -> clean t = true -> cmp true n md u t = Some true ->
  exists u', inst u u' /\ clean u' = true /\ skel u' = skel t.

Lemma strip_expr : forall u, expr_ty u = true -> expr_ty (strip u) = true.
Proof.
  induction u; cbn [strip]; auto. intro H. cbn [expr_ty] in H. apply clean_expr. apply strip_clean. exact H.
Qed.

Lemma strip_nonclean_shape : forall u, expr_ty u = true -> clean (strip u) = false ->
  strip u = u /\ (u = TNil \/ exists us, u = TMixed us).
Proof.
  intros u E C. destruct u; cbn [strip] in *; cbn [expr_ty] in E; try congruence; try (split; [reflexivity|]; eauto).
  - (* alias: clean *) apply strip_clean in E. cbn [strip] in E. congruence.
Qed.

Lemma forallb_Forall : forall (f : ty -> bool) l, forallb f l = true -> Forall (fun x => f x = true) l.
Proof. intros. apply Forall_forall. apply forallb_forall. assumption. Qed.

(* pointwise completion of the elements of a list literal *)
Lemma complete_all : forall (P : ty -> ty -> Prop) us ts,
  Forall2 (fun x y => exists x', inst x x' /\ clean x' = true /\ skel x' = skel y) us ts ->
  exists us', Forall2 inst us us' /\ Forall (fun x => clean x = true) us' /\ map skel us' = map skel ts.
Proof.
  intros P us ts H. induction H as [|x y us ts [x' [I [C S]]] H IH].
  - exists []. repeat split; constructor.
  - destruct IH as [us' [I' [C' S']]]. exists (x' :: us'). repeat split; try constructor; auto. cbn. congruence.
Qed.

Lemma complete_const : forall us s,
  Forall (fun x => exists x', inst x x' /\ clean x' = true /\ skel x' = s) us ->
  exists us', Forall2 inst us us' /\ Forall (fun x => clean x = true) us' /\ Forall (fun x => skel x = s) us'.
Proof.
  intros us s H. induction H as [|x us [x' [I [C S]]] H IH].
  - exists []. repeat split; constructor.
  - destruct IH as [us' [I' [C' S']]]. exists (x' :: us'). repeat split; constructor; auto.
Qed.

Lemma clean_mixed_intro : forall us, us <> [] -> Forall (fun x => clean x = true) us -> clean (TMixed us) = true.
Proof.
  intros us Hne H. cbn. destruct us; [congruence|]. cbn [negb andb].
  apply forallb_forall. apply Forall_forall. exact H.
Qed.

Lemma forall2_len : forall A B (R : A -> B -> Prop) l1 l2, Forall2 R l1 l2 -> length l1 = length l2.
Proof. induction 1; cbn; congruence. Qed.

Lemma skel_mixed_const : forall us s, us <> [] -> Forall (fun x => skel x = s) us -> skel (TMixed us) = L s.
Proof.
  intros us s Hne H. cbn. apply collapse_const.
  - destruct us; [congruence | discriminate].
  - apply Forall_forall. intros y Hy. apply in_map_iff in Hy. destruct Hy as [x [<- Hx]].
    rewrite Forall_forall in H. apply H. exact Hx.
Qed.

(* the list arms, for a supplied (or, swapped, first) fixed-shape literal *)
Section Lists.
  Variable n : nat.
  Hypothesis F : Fwd n.
  Hypothesis B : Bwd n.

  (* expected [a...], supplied literal [us] : every `eqc a x` holds *)
  Lemma lit_into_open : forall g a us, clean a = true -> forallb expr_ty us = true ->
    all1 (fun x => cmp true n (Some g) a x) us = Some true ->
    exists u', inst (TMixed us) u' /\ clean u' = true /\ skel u' = L (skel a).
  Proof.
    intros g a us Ca Eu H. apply all1_true in H. apply forallb_Forall in Eu.
    assert (Hx : Forall (fun x => exists x', inst x x' /\ clean x' = true /\ skel x' = skel a) us).
    { apply Forall_forall. intros x Hin. rewrite Forall_forall in H, Eu. apply (F (Some g) a x); auto. }
    destruct us as [|x0 us0].
    - exists (TOpen a). repeat split; [apply I_empty; exact Ca | exact Ca].
    - destruct (complete_const _ _ Hx) as [us' [I [C S]]].
      assert (Hne : us' <> []) by (inversion I; discriminate).
      exists (TMixed us'). repeat split.
      + apply I_mixed; [discriminate | exact I].
      + apply clean_mixed_intro; assumption.
      + apply skel_mixed_const; assumption.
  Qed.

  (* swapped: value literal [us] first, target [a...] second: every `eqc x a` holds (each slot of the literal
     against the element type), pointwise backward *)
  Lemma lit_first_open : forall g a us, clean a = true -> forallb expr_ty us = true ->
    all1 (fun x => cmp true n (Some g) x a) us = Some true ->
    exists u', inst (TMixed us) u' /\ clean u' = true /\ skel u' = L (skel a).
  Proof.
    intros g a us Ca Eu H. apply all1_true in H. apply forallb_Forall in Eu.
    assert (Hx : Forall (fun x => exists x', inst x x' /\ clean x' = true /\ skel x' = skel a) us).
    { apply Forall_forall. intros x Hin. rewrite Forall_forall in H, Eu. apply (B (Some g) x a); auto. }
    destruct us as [|x0 us0].
    - exists (TOpen a). repeat split; [apply I_empty; exact Ca | exact Ca].
    - destruct (complete_const _ _ Hx) as [us' [I [C S]]].
      assert (Hne : us' <> []) by (inversion I; discriminate).
      exists (TMixed us'). repeat split.
      + apply I_mixed; [discriminate | exact I].
      + apply clean_mixed_intro; assumption.
      + apply skel_mixed_const; assumption.
  Qed.

  (* expected [ts], supplied literal [us], same length, pointwise forward *)
  Lemma lit_into_mixed : forall g ts us, clean (TMixed ts) = true -> forallb expr_ty us = true ->
    oand (Some (len_ok true ts us)) (all2 (fun x y => cmp true n (Some g) x y) ts us) = Some true ->
    exists u', inst (TMixed us) u' /\ clean u' = true /\ skel u' = skel (TMixed ts).
  Proof.
    intros g ts us Ct Eu H. apply oand_true in H. destruct H as [Hl H].
    assert (Hl' : length ts = length us) by (apply len_ok_true; congruence).
    apply all2_true in H; [|exact Hl'].
    apply clean_mixed in Ct. destruct Ct as [Hne Ct]. apply forallb_Forall in Eu.
    assert (Hp : Forall2 (fun x y => exists x', inst x x' /\ clean x' = true /\ skel x' = skel y) us ts).
    { clear Hl Hl' Hne. induction H as [|y x ts us Hyx H IH]; [constructor|].
      inversion Ct; inversion Eu; subst. constructor; [apply (F (Some g) y x); auto | apply IH; auto]. }
    destruct (complete_all (fun _ _ => True) _ _ Hp) as [us' [I [C S]]].
    assert (Hne' : us <> []) by (destruct us, ts; cbn in Hl'; congruence).
    exists (TMixed us'). repeat split.
    - apply I_mixed; assumption.
    - apply clean_mixed_intro; [|exact C]. apply forall2_len in I. destruct us, us'; cbn in I; congruence.
    - cbn. rewrite S. reflexivity.
  Qed.

  (* swapped: value literal [us] first, target [ts] second, pointwise backward *)
  Lemma lit_first_mixed : forall g us ts, forallb expr_ty us = true -> clean (TMixed ts) = true ->
    oand (Some (len_ok true us ts)) (all2 (fun x y => cmp true n (Some g) x y) us ts) = Some true ->
    exists u', inst (TMixed us) u' /\ clean u' = true /\ skel u' = skel (TMixed ts).
  Proof.
    intros g us ts Eu Ct H. apply oand_true in H. destruct H as [Hl H].
    assert (Hl' : length us = length ts) by (apply len_ok_true; congruence).
    apply all2_true in H; [|exact Hl'].
    apply clean_mixed in Ct. destruct Ct as [Hne Ct]. apply forallb_Forall in Eu.
    assert (Hp : Forall2 (fun x y => exists x', inst x x' /\ clean x' = true /\ skel x' = skel y) us ts).
    { clear Hl Hl' Hne. induction H as [|x y us ts Hxy H IH]; [constructor|].
      inversion Ct; inversion Eu; subst. constructor; [apply (B (Some g) x y); auto | apply IH; auto]. }
    destruct (complete_all (fun _ _ => True) _ _ Hp) as [us' [I [C S]]].
    assert (Hne' : us <> []) by (destruct us, ts; cbn in Hl'; congruence).
    exists (TMixed us'). repeat split.
    - apply I_mixed; assumption.
    - apply clean_mixed_intro; [|exact C]. apply forall2_len in I. destruct us, us'; cbn in I; congruence.
    - cbn. rewrite S. reflexivity.
  Qed.
End Lists.

Lemma nonclean_expr_shape : forall u, expr_ty u = true -> clean u = false ->
  u = TNil \/ exists us, u = TMixed us /\ forallb expr_ty us = true.
Proof.
  intros u E C. destruct u; cbn [expr_ty] in E; try congruence; [left; reflexivity | right; eauto].
Qed.

Lemma clean_opt_inv : forall x, clean (TOpt x) = true -> clean x = true.
Proof. intros x H. exact H. Qed.

Ltac done_ex w := exists w; repeat split; auto.

Theorem lit_both : forall n, Fwd n /\ Bwd n.
Proof.
  induction n as [|n [F B]]; [split; intros md a b _ _ H; discriminate|].
  split.
  - (* ---------------- forward *)
    intros md t u Ct Eu H.
    destruct (clean u) eqn:Cu.
    { exists u. repeat split; [apply I_clean; exact Cu | exact Cu | symmetry; apply (cmp_clean_skel (S n) md t u); auto]. }
    cbn [cmp] in H. destruct md as [f|].
    + pose proof (strip_clean t Ct) as Cl. rewrite <- (strip_skel t).
      remember (strip t) as lhs eqn:El.
      assert (Su : strip u = u) by (destruct (nonclean_expr_shape u Eu Cu) as [->|[us [-> _]]]; reflexivity).
      rewrite Su in H.
      destruct (if is_list_ty lhs && is_list_ty u then Some false else cmp true n None lhs u) as [[|]|] eqn:E;
        try discriminate.
      { destruct (is_list_ty lhs && is_list_ty u); [discriminate|]. apply (F None lhs u); auto. }
      assert (Nl : is_nil_ty lhs = false) by (apply clean_not_nil; exact Cl).
      destruct (nonclean_expr_shape u Eu Cu) as [->|[us [-> Eus]]].
      * (* supplied `nil` *)
        destruct lhs as [k1 l1| |a|a|t1|k1 v1|p1 r1|n1 a|n1]; cbn [is_nil_ty get_opt is_str andb orb negb] in H; rewrite ?andb_false_r in H; cbn [andb] in H; try discriminate;
          try (destruct (force_rhs f); cbn in H; rewrite ?andb_false_r in H; discriminate).
        -- (* T? <- nil *)
           destruct (force_rhs f); cbn [negb andb] in H.
           ++ destruct (sig_check f); cbn in H; [discriminate|].
              destruct (F (Some f) a TNil Cl eq_refl H) as [u' [I [C S]]]. done_ex u'.
           ++ exists (TOpt a). repeat split; auto. apply I_nil. exact Cl.
      * (* supplied list literal *)
        destruct lhs as [k1 l1| |a|a|t1|k1 v1|p1 r1|n1 a|n1]; cbn [is_nil_ty get_opt is_str andb orb negb] in H; rewrite ?andb_false_r in H; cbn [andb] in H; try discriminate;
          try (destruct (force_rhs f); cbn in H; rewrite ?andb_false_r in H; discriminate).
        -- (* T? <- [..] *)
           assert (H' : (if negb (sig_check f) then cmp true n (Some f) a (TMixed us) else Some false) = Some true)
             by (destruct (force_rhs f); cbn [negb andb] in H; exact H).
           destruct (sig_check f); cbn in H'; [discriminate|].
           destruct (F (Some f) a (TMixed us) Cl Eu H') as [u' [I [C S]]]. done_ex u'.
        -- (* [a...] <- [..] *)
           apply (lit_into_open n F f a us); auto.
        -- (* [t1] <- [..] *)
           apply (lit_into_mixed n F f t1 us); auto.
    + (* == *)
      destruct (nonclean_expr_shape u Eu Cu) as [->|[us [-> Eus]]].
      * destruct t; try discriminate.
      * destruct t as [k1 l1| |a|a|t1|k1 v1|p1 r1|n1 a|n1]; try discriminate.
        -- apply (lit_into_open n F classless a us); auto.
        -- apply (lit_into_mixed n F classless t1 us); auto.
  - (* ---------------- backward (value first, target second) *)
    intros md u t Eu Ct H.
    destruct (clean u) eqn:Cu.
    { exists u. repeat split; [apply I_clean; exact Cu | exact Cu | apply (cmp_clean_skel (S n) md u t); auto]. }
    cbn [cmp] in H. destruct md as [f|].
    + pose proof (strip_clean t Ct) as Cr. rewrite <- (strip_skel t).
      remember (strip t) as rhs eqn:Er.
      assert (Su : strip u = u) by (destruct (nonclean_expr_shape u Eu Cu) as [->|[us [-> _]]]; reflexivity).
      rewrite Su in H.
      destruct (if is_list_ty u && is_list_ty rhs then Some false else cmp true n None u rhs) as [[|]|] eqn:E;
        try discriminate.
      { destruct (is_list_ty u && is_list_ty rhs); [discriminate|]. apply (B None u rhs); auto. }
      assert (Nr : is_nil_ty rhs = false) by (apply clean_not_nil; exact Cr).
      destruct (nonclean_expr_shape u Eu Cu) as [->|[us [-> Eus]]].
      * (* the value is `nil` *)
        destruct (force_rhs f) eqn:Ff.
        -- exists (TOpt rhs). repeat split; auto. apply I_nil. exact Cr.
        -- destruct rhs as [k2 l2| |b|b|t2|k2 v2|p2 r2|n2 b|n2]; cbn [is_nil_ty get_opt is_str andb orb negb] in H;
             rewrite ?Ff in H; cbn [negb andb orb] in H; try discriminate.
           exists (TOpt b). repeat split; auto. apply I_nil. exact Cr.
      * (* the value is a list literal *)
        destruct rhs as [k2 l2| |b|b|t2|k2 v2|p2 r2|n2 b|n2]; cbn [is_nil_ty get_opt is_str andb orb negb] in H; rewrite ?andb_false_r in H; cbn [andb] in H; try discriminate;
          try (destruct (force_rhs f); cbn in H; rewrite ?andb_false_r in H; discriminate).
        -- (* [..] -> T? *)
           assert (H' : (if lhs_unwrap f then cmp true n (Some f) b (TMixed us) else Some false) = Some true)
             by (destruct (force_rhs f); cbn [negb andb] in H; exact H).
           destruct (lhs_unwrap f); [|discriminate].
           destruct (F (Some f) b (TMixed us) Cr Eu H') as [u' [I [C S]]]. done_ex u'.
        -- (* [..] -> [b...] *)
           apply (lit_first_open n B f b us); auto.
        -- (* [..] -> [t2] *)
           apply (lit_first_mixed n B f us t2); auto.
    + destruct (nonclean_expr_shape u Eu Cu) as [->|[us [-> Eus]]].
      * destruct t; try discriminate.
      * destruct t as [k2 l2| |b|b|t2|k2 v2|p2 r2|n2 b|n2]; try discriminate.
        -- apply (lit_first_open n B classless b us); auto.
        -- apply (lit_first_mixed n B classless us t2); auto.
Qed.

(* what a completion means: the values of the literal are values of the completed type *)
Theorem eq_complex_literal : forall fuel f t u,
  clean t = true -> expr_ty u = true -> eq_complex fuel f t u = Some true ->
  exists u', inst u u' /\ clean u' = true /\ skel u' = skel t.
Proof. intros fuel f t u. apply (proj1 (lit_both fuel) (Some f)). Qed.

Theorem eq_complex_literal_swapped : forall fuel f u t,
  expr_ty u = true -> clean t = true -> eq_complex fuel f u t = Some true ->
  exists u', inst u u' /\ clean u' = true /\ skel u' = skel t.
Proof. intros fuel f u t. apply (proj2 (lit_both fuel) (Some f)). Qed.
