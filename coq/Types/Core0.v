(* Core-0: the operator tables lifted to whole programs over the six native kinds.

   A small checker (`check`) in the shape of the compiler's -- expression types come from `out_type` / `out_un`,
   an initializer or re-binding must have the variable's kind (eq_complex on native kinds is kind equality),
   `x op= e` goes through the op-assign cell, conditions must be bool, a block's own declarations stay local --
   and a KIND-LEVEL execution (`exec`): values are abstracted to their kinds, the run-time tables `rt_kind` /
   `rt_un` decide the kind of every intermediate result or the type error, an undefined variable and a
   non-bool condition are type errors, branch decisions come from an arbitrary oracle (so the statement holds
   for every run), loops consume fuel.

   Theorem `core0_sound`: a checked program, started in a store that agrees with the static environment, never
   reaches a type error -- for every oracle, every fuel, expressions of every depth, any nesting of if / while --
   and leaves a store that still agrees.  This is layer (c) of C02 for the fragment {native kinds; literals,
   variables, all 25 binary and 2 prefix operators; declaration, re-binding, op-assign, if/else, while, print}.
   Everything else (lists, maps, optionals, functions, classes) is covered by search only. *)
From Coq Require Import List Bool Arith Lia.
From MS Require Import Types.OpTable.
Import ListNotations.

Inductive expr :=
  | ELit (k : kind)
  | EVar (x : nat)
  | EBin (o : op) (a b : expr)        (* o not an op-assign *)
  | EUn (o : unop) (a : expr).

Inductive stmt :=
  | SDecl (x : nat) (ann : option kind) (e : expr)       (* `x: K = e` / `x = e` (new variable or re-binding) *)
  | SOpAssign (o : op) (x : nat) (e : expr)              (* `x op= e` *)
  | SIf (c : expr) (th el : list stmt)
  | SWhile (c : expr) (body : list stmt)
  | SPrint (e : expr).

Definition env := nat -> option kind.
Definition upd (g : env) (x : nat) (k : kind) : env := fun y => if Nat.eqb y x then Some k else g y.

(* ------------------------------------------------------------------ the checker *)

Fixpoint ty (g : env) (e : expr) : option kind :=
  match e with
  | ELit k => Some k
  | EVar x => g x                                     (* "use of undeclared variable" *)
  | EBin o a b =>
      if is_assign o then None
      else match ty g a, ty g b with
           | Some k1, Some k2 => out_type o k1 k2
           | _, _ => None
           end
  | EUn o a => match ty g a with Some k => out_un o k | None => None end
  end.

Definition kind_opt_eqb (a : option kind) (k : kind) : bool :=
  match a with Some k' => kind_eqb k' k | None => true end.

Fixpoint check (g : env) (s : stmt) {struct s} : option env :=
  let check_list :=
    fix check_list (g : env) (ss : list stmt) {struct ss} : option env :=
      match ss with
      | [] => Some g
      | s :: ss' => match check g s with Some g' => check_list g' ss' | None => None end
      end in
  match s with
  | SDecl x ann e =>
      match ty g e with
      | Some k =>
          (* declared type accepts the value; an existing variable keeps its kind *)
          if kind_opt_eqb ann k && kind_opt_eqb (g x) k then Some (upd g x k) else None
      | None => None
      end
  | SOpAssign o x e =>
      if is_assign o then
        match g x, ty g e with
        | Some k1, Some k2 => match out_type o k1 k2 with Some _ => Some g | None => None end
        | _, _ => None
        end
      else None
  | SIf c th el =>
      match ty g c with
      | Some KBool =>
          match check_list g th, check_list g el with
          | Some _, Some _ => Some g                  (* what a block declares stays in the block *)
          | _, _ => None
          end
      | _ => None
      end
  | SWhile c body =>
      match ty g c with
      | Some KBool => match check_list g body with Some _ => Some g | None => None end
      | _ => None
      end
  | SPrint e => match ty g e with Some _ => Some g | None => None end
  end.

Fixpoint check_list (g : env) (ss : list stmt) : option env :=
  match ss with
  | [] => Some g
  | s :: ss' => match check g s with Some g' => check_list g' ss' | None => None end
  end.

(* ------------------------------------------------------------------ kind-level execution *)

Fixpoint ev (r : env) (e : expr) : rt :=
  match e with
  | ELit k => ROk k
  | EVar x => match r x with Some k => ROk k | None => RErr end     (* load before store / not in scope *)
  | EBin o a b =>
      match ev r a, ev r b with
      | ROk k1, ROk k2 => rt_kind o k1 k2
      | ROk _, bad => bad
      | bad, _ => bad
      end
  | EUn o a => match ev r a with ROk k => rt_un o k | bad => bad end
  end.

Inductive outcome :=
  | Done (r : env) (oracle : list bool)
  | TypeError
  | OutOfFuel
  | OracleExhausted.

Fixpoint exec (fuel : nat) (oracle : list bool) (r : env) (s : stmt) {struct fuel} : outcome :=
  match fuel with
  | O => OutOfFuel
  | S n =>
    let exec_list :=
      fix exec_list (oracle : list bool) (r : env) (ss : list stmt) {struct ss} : outcome :=
        match ss with
        | [] => Done r oracle
        | s :: ss' => match exec n oracle r s with Done r' o' => exec_list o' r' ss' | bad => bad end
        end in
    match s with
    | SDecl x _ e => match ev r e with ROk k => Done (upd r x k) oracle | _ => TypeError end
    | SOpAssign o x e =>
        match r x, ev r e with
        | Some k1, ROk k2 => match rt_kind o k1 k2 with ROk k => Done (upd r x k) oracle | _ => TypeError end
        | _, _ => TypeError
        end
    | SIf c th el =>
        match ev r c with
        | ROk KBool =>
            match oracle with
            | [] => OracleExhausted
            | b :: o' => exec_list o' r (if b then th else el)
            end
        | _ => TypeError                        (* "if statement can only test booleans" *)
        end
    | SWhile c body =>
        match ev r c with
        | ROk KBool =>
            match oracle with
            | [] => OracleExhausted
            | false :: o' => Done r o'
            | true :: o' =>
                match exec_list o' r body with
                | Done r' o'' => exec n o'' r' (SWhile c body)
                | bad => bad
                end
            end
        | _ => TypeError                        (* "while statement can only test booleans" *)
        end
    | SPrint e => match ev r e with ROk _ => Done r oracle | _ => TypeError end
    end
  end.

Fixpoint exec_list (fuel : nat) (oracle : list bool) (r : env) (ss : list stmt) : outcome :=
  match ss with
  | [] => Done r oracle
  | s :: ss' => match exec fuel oracle r s with Done r' o' => exec_list fuel o' r' ss' | bad => bad end
  end.

(* ------------------------------------------------------------------ soundness *)

Definition agrees (g r : env) : Prop := forall x k, g x = Some k -> r x = Some k.

Lemma agrees_upd : forall g r x k, agrees g r -> agrees (upd g x k) (upd r x k).
Proof. intros g r x k A y k'. unfold upd. destruct (Nat.eqb y x); auto. Qed.

(* an update of the store with the kind the variable already has statically keeps agreement with g *)
Lemma agrees_upd_same : forall g r x k, agrees g r -> kind_opt_eqb (g x) k = true -> agrees g (upd r x k).
Proof.
  intros g r x k A H y k' Hy. unfold upd. destruct (Nat.eqb y x) eqn:E; [|auto].
  apply Nat.eqb_eq in E. subst y. rewrite Hy in H. cbn in H. apply kind_eqb_eq in H. congruence.
Qed.

Theorem expr_sound : forall g r e t, agrees g r -> ty g e = Some t -> ev r e = ROk t.
Proof.
  intros g r e. induction e as [k|x|o a IHa b IHb|o a IHa]; intros t A H; cbn in *.
  - congruence.
  - rewrite (A x t H). reflexivity.
  - destruct (is_assign o); [discriminate|].
    destruct (ty g a) as [k1|]; [|discriminate]. destruct (ty g b) as [k2|]; [|discriminate].
    rewrite (IHa k1 A eq_refl), (IHb k2 A eq_refl). apply op_table_sound. exact H.
  - destruct (ty g a) as [k|]; [|discriminate]. rewrite (IHa k A eq_refl).
    apply (un_table_sound o k t H).
Qed.

(* the nested list functions are the top-level ones *)
Lemma check_list_eq : forall ss g,
  (fix cl (g : env) (ss : list stmt) {struct ss} : option env :=
     match ss with [] => Some g | s :: ss' => match check g s with Some g' => cl g' ss' | None => None end end) g ss
  = check_list g ss.
Proof. induction ss as [|s ss IH]; intro g; cbn; [reflexivity|]. destruct (check g s); [apply IH | reflexivity]. Qed.

Lemma exec_list_eq : forall n ss oracle r,
  (fix el (oracle : list bool) (r : env) (ss : list stmt) {struct ss} : outcome :=
     match ss with
     | [] => Done r oracle
     | s :: ss' => match exec n oracle r s with Done r' o' => el o' r' ss' | bad => bad end
     end) oracle r ss
  = exec_list n oracle r ss.
Proof.
  induction ss as [|s ss IH]; intros oracle r; cbn; [reflexivity|].
  destruct (exec n oracle r s); try reflexivity. apply IH.
Qed.

(* a statement only adds variables or re-states the kind a variable already has *)
Definition ext (g g' : env) : Prop := forall x k, g x = Some k -> g' x = Some k.

Lemma ext_refl : forall g, ext g g.
Proof. intros g x k H. exact H. Qed.

Lemma ext_trans : forall a b c, ext a b -> ext b c -> ext a c.
Proof. intros a b c H1 H2 x k H. auto. Qed.

Lemma ext_check : forall s g g', check g s = Some g' -> ext g g'.
Proof.
  intros s g g' C. destruct s as [x ann e|o x e|c th el|c body|e]; cbn [check] in C.
  - destruct (ty g e) as [k|]; [|discriminate].
    destruct (kind_opt_eqb ann k && kind_opt_eqb (g x) k) eqn:K; [|discriminate]. inversion C; subst.
    apply andb_prop in K. destruct K as [_ K].
    intros y k' Hy. unfold upd. destruct (Nat.eqb y x) eqn:E; [|exact Hy].
    apply Nat.eqb_eq in E. subst y. rewrite Hy in K. cbn in K. apply kind_eqb_eq in K. congruence.
  - destruct (is_assign o); [|discriminate]. destruct (g x); [|discriminate]. destruct (ty g e); [|discriminate].
    destruct (out_type o k k0); [|discriminate]. inversion C; subst. apply ext_refl.
  - destruct (ty g c) as [[]|]; try discriminate. rewrite (check_list_eq th), (check_list_eq el) in C.
    destruct (check_list g th); [|discriminate]. destruct (check_list g el); [|discriminate]. inversion C; subst. apply ext_refl.
  - destruct (ty g c) as [[]|]; try discriminate. rewrite check_list_eq in C.
    destruct (check_list g body); [|discriminate]. inversion C; subst. apply ext_refl.
  - destruct (ty g e); [|discriminate]. inversion C; subst. apply ext_refl.
Qed.

Lemma ext_check_list : forall ss g g', check_list g ss = Some g' -> ext g g'.
Proof.
  induction ss as [|s ss IH]; intros g g' C; cbn in C.
  - inversion C; subst. apply ext_refl.
  - destruct (check g s) as [g1|] eqn:C1; [|discriminate].
    apply (ext_trans g g1 g'); [apply (ext_check s); exact C1 | apply IH; exact C].
Qed.

Lemma agrees_ext : forall g g' r, ext g g' -> agrees g' r -> agrees g r.
Proof. intros g g' r E A x k H. apply A. apply E. exact H. Qed.

Definition good (o : outcome) (g : env) : Prop :=
  match o with
  | TypeError => False
  | Done r' _ => agrees g r'
  | _ => True
  end.

Lemma good_weaken : forall o g g', ext g g' -> good o g' -> good o g.
Proof. intros [r o'| | |] g g' E G; cbn in *; auto. apply (agrees_ext g g'); assumption. Qed.

Definition P_stmt (fuel : nat) : Prop := forall s g g' r oracle,
  check g s = Some g' -> agrees g r -> good (exec fuel oracle r s) g'.
Definition P_list (fuel : nat) : Prop := forall ss g g' r oracle,
  check_list g ss = Some g' -> agrees g r -> good (exec_list fuel oracle r ss) g'.

Lemma list_from_stmt : forall fuel, P_stmt fuel -> P_list fuel.
Proof.
  intros fuel PS ss. induction ss as [|s ss IH]; intros g g' r oracle C A; cbn in C |- *.
  - inversion C; subst. exact A.
  - destruct (check g s) as [g1|] eqn:C1; [|discriminate].
    pose proof (PS s g g1 r oracle C1 A) as G.
    destruct (exec fuel oracle r s) as [r1 o1| | |]; cbn in G |- *; auto.
    apply (IH g1 g' r1 o1 C G).
Qed.

Lemma sound_stmt : forall fuel, P_stmt fuel.
Proof.
  induction fuel as [|n IH]; [intros s g g' r oracle C A; exact I|].
  pose proof (list_from_stmt n IH) as IHl.
  intros s g g' r oracle C A.
  destruct s as [x ann e|o x e|c th el|c body|e]; cbn [check] in C; cbn [exec]; rewrite ?exec_list_eq.
  - (* declaration / re-binding *)
    destruct (ty g e) as [k|] eqn:T; [|discriminate].
    destruct (kind_opt_eqb ann k && kind_opt_eqb (g x) k) eqn:K; [|discriminate]. inversion C; subst.
    rewrite (expr_sound g r e k A T). cbn. apply agrees_upd. exact A.
  - (* x op= e *)
    destruct (is_assign o) eqn:Ao; [|discriminate].
    destruct (g x) as [k1|] eqn:Gx; [|discriminate]. destruct (ty g e) as [k2|] eqn:T; [|discriminate].
    destruct (out_type o k1 k2) as [t|] eqn:O; [|discriminate]. inversion C; subst.
    rewrite (A x k1 Gx), (expr_sound g' r e k2 A T). fold (rt_kind o k1 k2). rewrite (op_table_sound o k1 k2 t O). cbn.
    apply agrees_upd_same; [exact A|]. rewrite Gx. cbn. apply kind_eqb_eq.
    symmetry. apply (op_assign_keeps_kind o k1 k2 t Ao O).
  - (* if / else *)
    destruct (ty g c) as [[]|] eqn:T; try discriminate. rewrite (check_list_eq th), (check_list_eq el) in C.
    destruct (check_list g th) as [g1|] eqn:C1; [|discriminate]. destruct (check_list g el) as [g2|] eqn:C2; [|discriminate].
    inversion C; subst. rewrite (expr_sound g' r c KBool A T).
    destruct oracle as [|b o']; [exact I|].
    destruct b; rewrite exec_list_eq.
    + apply (good_weaken _ g' g1); [apply (ext_check_list th); exact C1 | apply (IHl th g' g1 r o' C1 A)].
    + apply (good_weaken _ g' g2); [apply (ext_check_list el); exact C2 | apply (IHl el g' g2 r o' C2 A)].
  - (* while *)
    destruct (ty g c) as [[]|] eqn:T; try discriminate. rewrite check_list_eq in C.
    destruct (check_list g body) as [g1|] eqn:C1; [|discriminate]. inversion C; subst.
    rewrite (expr_sound g' r c KBool A T).
    destruct oracle as [|b o']; [exact I|]. destruct b; [|exact A]. rewrite exec_list_eq.
    pose proof (IHl body g' g1 r o' C1 A) as G.
    destruct (exec_list n o' r body) as [r1 o1| | |]; cbn in G |- *; auto.
    apply (IH (SWhile c body) g' g' r1 o1).
    + cbn [check]. rewrite T, check_list_eq, C1. reflexivity.
    + apply (agrees_ext g' g1); [apply (ext_check_list body); exact C1 | exact G].
  - (* print *)
    destruct (ty g e) as [k|] eqn:T; [|discriminate]. inversion C; subst.
    rewrite (expr_sound g' r e k A T). cbn. exact A.
Qed.

(* every checked program, every oracle, every fuel: no type error, and the final store still agrees *)
Theorem core0_sound : forall fuel ss g g' r oracle,
  check_list g ss = Some g' -> agrees g r ->
  exec_list fuel oracle r ss <> TypeError /\
  (forall r' o', exec_list fuel oracle r ss = Done r' o' -> agrees g' r').
Proof.
  intros fuel ss g g' r oracle C A.
  pose proof (list_from_stmt fuel (sound_stmt fuel) ss g g' r oracle C A) as G.
  split.
  - intro E. rewrite E in G. exact G.
  - intros r' o' E. rewrite E in G. exact G.
Qed.

(* non-vacuity: a program with nested control flow is accepted and runs to completion; the run-time model does
   have type errors (an unchecked program reaches one) *)
Definition empty_env : env := fun _ => None.

Example core0_accepts :
  let p := [ SDecl 0 (Some KInt) (ELit KInt);
             SDecl 1 None (EBin Add (EVar 0) (ELit KFloat));
             SWhile (EBin Lt (EVar 0) (ELit KByte))
               [ SOpAssign AddA 0 (ELit KByte);
                 SIf (EBin Eq (EVar 1) (ELit KBigInt)) [ SDecl 2 None (ELit KStr); SPrint (EBin Add (EVar 2) (EVar 0)) ] [ SOpAssign MulA 1 (EVar 0) ] ];
             SPrint (EUn Neg (EVar 1)) ] in
  (exists g', check_list empty_env p = Some g' /\ g' 1 = Some KFloat) /\
  (exists r' o', exec_list 20 [true; false; true; true; false] empty_env p = Done r' o').
Proof. cbn. split; eexists; [split; reflexivity | eexists; vm_compute; reflexivity]. Qed.

Example core0_model_has_type_errors :
  check_list empty_env [SDecl 0 None (EBin Add (ELit KBool) (ELit KByte))] = None /\
  exec_list 5 [] empty_env [SDecl 0 None (EBin Add (ELit KBool) (ELit KByte))] = TypeError /\
  check_list empty_env [SDecl 0 (Some KInt) (ELit KInt); SOpAssign AddA 0 (ELit KFloat)] = None /\
  check_list empty_env [SIf (ELit KInt) [] []] = None /\
  exec_list 5 [true] empty_env [SIf (ELit KInt) [] []] = TypeError /\
  exec_list 5 [] empty_env [SPrint (EVar 3)] = TypeError.
Proof. vm_compute. repeat split; reflexivity. Qed.
