(* Abstract specification of lists and maps (property C13).

   A container is an identity (a location).  The state maps every list identity to a mathematical
   sequence (`list val`, manipulated with the standard library: nth, firstn, skipn, ++, rev) and every
   map identity to a finite map (an association list without duplicate keys whose ORDER IS NOT
   OBSERVABLE: keys / values / pairs are bags).  Variables denote identities, so an alias is just a
   second name for the same identity, and `clone` creates a new identity with the same contents.
   An index outside 0 <= i < len (read, write, op=, remove) is a failure, never a value.
   The failure is classless here (Err); Stuck / Fuel / Range mean "this history is outside the
   specification" (ill-typed, nested deeper than the rendering fuel, i32 overflow in op=).

   Shared with the impl-model (Model.v): the syntax of operations and observations, the rendering of a
   value (`deep`: what print shows), the value-level meaning of op= (`binop_apply`) and of the callback
   family (`apply_fn`, `apply_pred`), and key lookup `mget`.  Everything else is defined here afresh. *)
From MS Require Export Containers.Model.
From Coq Require Export Permutation.

Record sstate := {
  vecs : loc -> option (list val);
  maps : loc -> option (list (key * val));
  snext : loc;
  senv : var -> option loc }.

Definition ss0 : sstate :=
  {| vecs := fun _ => None; maps := fun _ => None; snext := 0; senv := fun _ => None |}.

Definition upd {A} (f : N -> option A) (l : N) (a : A) : N -> option A :=
  fun l' => if l =? l' then Some a else f l'.

Definition slook (ss : sstate) : look :=
  fun l => match vecs ss l with
           | Some xs => KVec xs
           | None => match maps ss l with Some _ => KMap | None => KNone end
           end.

Definition s_vec (ss : sstate) (x : var) : res (loc * list val) :=
  match senv ss x with
  | Some l => match vecs ss l with Some xs => Ok (l, xs) | None => Fail Stuck end
  | None => Fail Stuck
  end.

Definition s_map (ss : sstate) (x : var) : res (loc * list (key * val)) :=
  match senv ss x with
  | Some l => match maps ss l with Some kv => Ok (l, kv) | None => Fail Stuck end
  | None => Fail Stuck
  end.

Definition s_setvec (ss : sstate) (l : loc) (xs : list val) : sstate :=
  {| vecs := upd (vecs ss) l xs; maps := maps ss; snext := snext ss; senv := senv ss |}.
Definition s_setmap (ss : sstate) (l : loc) (kv : list (key * val)) : sstate :=
  {| vecs := vecs ss; maps := upd (maps ss) l kv; snext := snext ss; senv := senv ss |}.
Definition s_bind (ss : sstate) (x : var) (l : loc) : sstate :=
  {| vecs := vecs ss; maps := maps ss; snext := snext ss; senv := upd (senv ss) x l |}.
Definition s_newvec (ss : sstate) (x : var) (xs : list val) : sstate :=
  {| vecs := upd (vecs ss) (snext ss) xs; maps := maps ss; snext := snext ss + 1;
     senv := upd (senv ss) x (snext ss) |}.
Definition s_newmap (ss : sstate) (x : var) (kv : list (key * val)) : sstate :=
  {| vecs := vecs ss; maps := upd (maps ss) (snext ss) kv; snext := snext ss + 1;
     senv := upd (senv ss) x (snext ss) |}.

(* ---------------------------------------------------------------- sequences *)

Definition in_range (xs : list val) (i : Z) : bool := ((0 <=? i) && (i <? Z.of_nat (length xs)))%Z.

(* indices are mscript ints; outside 0 <= i < len there is no element: failure *)
Definition seq_get (xs : list val) (i : Z) : res val :=
  if negb (in_i32 i) then Fail Stuck
  else if in_range xs i then Ok (nth (Z.to_nat i) xs VNil) else Fail Err.

Definition seq_set (xs : list val) (i : Z) (x : val) : list val :=
  firstn (Z.to_nat i) xs ++ x :: skipn (S (Z.to_nat i)) xs.

Definition seq_del (xs : list val) (i : Z) : list val :=
  firstn (Z.to_nat i) xs ++ skipn (S (Z.to_nat i)) xs.

Fixpoint seq_map (lk : look) (f : mapfn) (xs : list val) : res (list val) :=
  match xs with
  | [] => Ok []
  | x :: xs => do y <- apply_fn lk f x; do ys <- seq_map lk f xs; Ok (y :: ys)
  end.

Fixpoint seq_filter (lk : look) (p : pred) (xs : list val) : res (list val) :=
  match xs with
  | [] => Ok []
  | x :: xs => do b <- apply_pred lk p x; do ys <- seq_filter lk p xs; Ok (if b then x :: ys else ys)
  end.

(* equality of values = equality of what they denote (their rendering); only values of the same kind
   (or nil) are comparable *)
Fixpoint oval_eqb (a b : oval) : bool :=
  match a, b with
  | OInt x, OInt y => (x =? y)%Z
  | OStr x, OStr y => str_eqb x y
  | ONil, ONil => true
  | OList xs, OList ys =>
    (fix go (xs ys : list oval) : bool :=
       match xs, ys with
       | [], [] => true
       | x :: xs, y :: ys => oval_eqb x y && go xs ys
       | _, _ => false
       end) xs ys
  | _, _ => false
  end.

Definition comparable (lk : look) (a b : val) : bool :=
  match a, b with
  | VNil, _ | _, VNil => true
  | VInt _, VInt _ => true
  | VStr _, VStr _ => true
  | VRef la, VRef lb => match lk la, lk lb with KVec _, KVec _ => true | _, _ => false end
  | _, _ => false
  end.

Definition sem_eq (lk : look) (a b : val) : res bool :=
  if comparable lk a b then
    do x <- deep depth_fuel lk a; do y <- deep depth_fuel lk b; Ok (oval_eqb x y)
  else Fail Stuck.

(* index of the first element equal to p *)
Fixpoint seq_index_of (lk : look) (xs : list val) (p : val) : res (option nat) :=
  match xs with
  | [] => Ok None
  | x :: xs =>
    do e <- sem_eq lk x p;
    if e then Ok (Some O) else do r <- seq_index_of lk xs p; Ok (option_map S r)
  end.

(* ---------------------------------------------------------------- finite maps *)

Definition fm_has (kv : list (key * val)) (k : key) : bool :=
  existsb (fun p => key_eqb (fst p) k) kv.

Definition fm_put (kv : list (key * val)) (k : key) (v : val) : list (key * val) :=
  if fm_has kv k then map (fun p => if key_eqb (fst p) k then (fst p, v) else p) kv
  else kv ++ [(k, v)].

Definition fm_del (kv : list (key * val)) (k : key) : list (key * val) :=
  filter (fun p => negb (key_eqb (fst p) k)) kv.

(* ---------------------------------------------------------------- operations *)

Definition s_operand (ss : sstate) (o : operand) : res val :=
  match o with
  | OLit v => if scalar_lit v then Ok v else Fail Stuck
  | OVar x => match senv ss x with
              | Some l => match slook ss l with KNone => Fail Stuck | _ => Ok (VRef l) end
              | None => Fail Stuck
              end
  | OElem x i | OCall x i => do lxs <- s_vec ss x; seq_get (snd lxs) i
  end.

Fixpoint s_operands (ss : sstate) (os : list operand) : res (list val) :=
  match os with
  | [] => Ok []
  | o :: os => do v <- s_operand ss o; do vs <- s_operands ss os; Ok (v :: vs)
  end.

Definition s_render (ss : sstate) (v : val) : res obs :=
  do o <- deep depth_fuel (slook ss) v; Ok (ObsVal o).

Fixpoint s_maplit (ss : sstate) (kv : list (key * val)) (kvs : list (key * operand)) : res (list (key * val)) :=
  match kvs with
  | [] => Ok kv
  | (k, o) :: kvs => do v <- s_operand ss o; s_maplit ss (fm_put kv k v) kvs
  end.

Definition sstep (ss : sstate) (c : cop) : res (sstate * list obs) :=
  match c with
  | NewVec dst es => do vs <- s_operands ss es; Ok (s_newvec ss dst vs, [])
  | Alias dst src =>
    match senv ss src with
    | Some l => match slook ss l with KNone => Fail Stuck | _ => Ok (s_bind ss dst l, []) end
    | None => Fail Stuck
    end
  | Push v x =>
    do lxs <- s_vec ss v; do y <- s_operand ss x; Ok (s_setvec ss (fst lxs) (snd lxs ++ [y]), [])
  | Remove v i =>
    do lxs <- s_vec ss v; do x <- seq_get (snd lxs) i; do o <- s_render ss x;
    Ok (s_setvec ss (fst lxs) (seq_del (snd lxs) i), [o])
  | IndexRead v i =>
    do lxs <- s_vec ss v; do x <- seq_get (snd lxs) i; do o <- s_render ss x; Ok (ss, [o])
  | IndexWrite v i x =>
    do y <- s_operand ss x; do lxs <- s_vec ss v; do _ <- seq_get (snd lxs) i;
    Ok (s_setvec ss (fst lxs) (seq_set (snd lxs) i y), [])
  | OpAssign v i op x =>
    do lxs <- s_vec ss v; do cur <- seq_get (snd lxs) i; do y <- binop_apply op cur x;
    Ok (s_setvec ss (fst lxs) (seq_set (snd lxs) i y), [])
  | Reverse v => do lxs <- s_vec ss v; Ok (s_setvec ss (fst lxs) (rev (snd lxs)), [])
  | Join dst a b =>
    do la <- s_vec ss a; do lb <- s_vec ss b;
    Ok (s_bind (s_setvec ss (fst la) (snd la ++ snd lb)) dst (fst la), [])
  | Clear v => do lxs <- s_vec ss v; Ok (s_setvec ss (fst lxs) [], [])
  | Clone dst src => do lxs <- s_vec ss src; Ok (s_newvec ss dst (snd lxs), [])
  | MapF dst src f =>
    do lxs <- s_vec ss src; do ys <- seq_map (slook ss) f (snd lxs); Ok (s_newvec ss dst ys, [])
  | MapElem dst src w i =>
    (* the sequence obtained by replacing every element with the value w[i] has NOW *)
    do lxs <- s_vec ss src; do ys <- seq_map (slook ss) (FConst (s_operand ss (OElem w i))) (snd lxs);
    Ok (s_newvec ss dst ys, [])
  | MapKeyElem dst src m k =>
    do lxs <- s_vec ss src;
    do ys <- seq_map (slook ss) (FConst (do lkv <- s_map ss m; Ok (opt_val (mget (snd lkv) k)))) (snd lxs);
    Ok (s_newvec ss dst ys, [])
  | FilterF dst src p =>
    do lxs <- s_vec ss src; do ys <- seq_filter (slook ss) p (snd lxs); Ok (s_newvec ss dst ys, [])
  | IndexOf v x =>
    do lxs <- s_vec ss v; do y <- s_operand ss x;
    do r <- seq_index_of (slook ss) (snd lxs) y;
    Ok (ss, [ObsVal (match r with Some n => OInt (Z.of_nat n) | None => ONil end)])
  | Len v => do lxs <- s_vec ss v; Ok (ss, [ObsVal (OInt (Z.of_nat (length (snd lxs))))])
  | Eq a b =>
    do la <- s_vec ss a; do lb <- s_vec ss b;
    do x <- deep (S depth_fuel) (slook ss) (VRef (fst la));
    do y <- deep (S depth_fuel) (slook ss) (VRef (fst lb));
    Ok (ss, [ObsBool (oval_eqb x y)])
  | Print v => do lxs <- s_vec ss v; do o <- s_render ss (VRef (fst lxs)); Ok (ss, [o])
  | Concat v i j =>
    do lxs <- s_vec ss v;
    do x <- seq_get (snd lxs) i; do sx <- show_scalar x;
    do y <- seq_get (snd lxs) j; do sy <- show_scalar y;
    Ok (ss, [ObsVal (OStr (sx ++ sy))])
  | MapLit dst kvs => do kv <- s_maplit ss [] kvs; Ok (s_newmap ss dst kv, [])
  | MapGet m k =>
    do lkv <- s_map ss m; do o <- s_render ss (opt_val (mget (snd lkv) k)); Ok (ss, [o])
  | MapSet m k x =>
    do y <- s_operand ss x; do lkv <- s_map ss m;
    Ok (s_setmap ss (fst lkv) (fm_put (snd lkv) k y), [])
  | MapOpAssign m k op x =>
    do lkv <- s_map ss m; do y <- binop_apply op (opt_val (mget (snd lkv) k)) x;
    Ok (s_setmap ss (fst lkv) (fm_put (snd lkv) k y), [])
  | Replace m k x =>
    do lkv <- s_map ss m; do y <- s_operand ss x;
    do o <- s_render ss (opt_val (mget (snd lkv) k));
    Ok (s_setmap ss (fst lkv) (fm_put (snd lkv) k y), [o])
  | MapRemove m k =>
    do lkv <- s_map ss m; do o <- s_render ss (opt_val (mget (snd lkv) k));
    Ok (s_setmap ss (fst lkv) (fm_del (snd lkv) k), [o])
  | ContainsKey m k => do lkv <- s_map ss m; Ok (ss, [ObsBool (fm_has (snd lkv) k)])
  | MapLen m => do lkv <- s_map ss m; Ok (ss, [ObsVal (OInt (Z.of_nat (length (snd lkv))))])
  | Keys m => do lkv <- s_map ss m; Ok (ss, [ObsBag (map (fun p => key_oval (fst p)) (snd lkv))])
  | Values m =>
    do lkv <- s_map ss m; do os <- deep_all (slook ss) (map snd (snd lkv)); Ok (ss, [ObsBag os])
  | Pairs m =>
    do lkv <- s_map ss m; do os <- deep_all (slook ss) (map snd (snd lkv));
    Ok (ss, [ObsBag (pair_ovals (snd lkv) os)])
  | MapClear m => do lkv <- s_map ss m; Ok (s_setmap ss (fst lkv) [], [])
  | MapClone dst src => do lkv <- s_map ss src; Ok (s_newmap ss dst (snd lkv), [])
  end.

Fixpoint srun_from (ss : sstate) (h : list cop) : list obs * option fail :=
  match h with
  | [] => ([], None)
  | c :: h =>
    match sstep ss c with
    | Ok (ss', o) => let (os, f) := srun_from ss' h in (o ++ os, f)
    | Fail f => ([], Some f)
    end
  end.

Definition spec_run (h : list cop) : list obs * option fail := srun_from ss0 h.

(* ---------------------------------------------------------------- comparing runs *)

Inductive obs_eq : obs -> obs -> Prop :=
| oe_val o : obs_eq (ObsVal o) (ObsVal o)
| oe_bool b : obs_eq (ObsBool b) (ObsBool b)
| oe_bag l l' : Permutation l l' -> obs_eq (ObsBag l) (ObsBag l').

(* the specification says something about the history: it ran to the end, or stopped with a failure *)
Definition defined (f : option fail) : Prop :=
  match f with
  | None | Some Err | Some Panic => True
  | Some Stuck | Some Fuel | Some Range => False
  end.

(* stopped with a failure (exit 1 or a Rust panic, exit 101: both stop the program) / ran to the end *)
Definition stops (f : option fail) : bool := match f with Some _ => true | None => false end.

(* same observations (bags up to permutation), and the run ends the same way *)
Definition refines (impl spec : list obs * option fail) : Prop :=
  Forall2 obs_eq (fst impl) (fst spec) /\ snd impl = snd spec.

(* weaker reading used for the pre-fix behaviour: a Rust panic also stops the program *)
Definition refines_stops (impl spec : list obs * option fail) : Prop :=
  Forall2 obs_eq (fst impl) (fst spec) /\ stops (snd impl) = stops (snd spec).
