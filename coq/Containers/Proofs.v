(* The impl-model of the containers (Model.v, fixed behaviour) refines the specification (Spec.v)
   for ALL operation histories. *)
From MS Require Import Containers.Model Containers.Spec.
From Coq Require Import Permutation.

Local Open Scope N_scope.

(* ---------------------------------------------------------------- equality tests *)

Lemma str_eqb_eq : forall a b : str, str_eqb a b = true <-> a = b.
Proof.
  unfold str_eqb. induction a as [|x a IH]; destruct b as [|y b]; split; intro H; try discriminate; try reflexivity.
  - apply andb_true_iff in H. destruct H as [H1 H2]. apply N.eqb_eq in H1. apply IH in H2. congruence.
  - inversion H; subst. apply andb_true_iff. split. apply N.eqb_refl. apply IH. reflexivity.
Qed.

Lemma key_eqb_eq : forall a b, key_eqb a b = true <-> a = b.
Proof.
  destruct a, b; cbn [key_eqb]; split; intro H; try discriminate; try congruence.
  - apply Z.eqb_eq in H. congruence.
  - inversion H. apply Z.eqb_refl.
  - apply str_eqb_eq in H. congruence.
  - inversion H. apply str_eqb_eq. reflexivity.
Qed.

Lemma key_eqb_refl : forall a, key_eqb a a = true.
Proof. intro a. apply key_eqb_eq. reflexivity. Qed.

Lemma key_eqb_neq : forall a b, key_eqb a b = false <-> a <> b.
Proof.
  intros a b. split; intro H.
  - intro E. apply key_eqb_eq in E. congruence.
  - destruct (key_eqb a b) eqn:E; [apply key_eqb_eq in E; contradiction | reflexivity].
Qed.

Lemma key_eqb_sym : forall a b, key_eqb a b = key_eqb b a.
Proof.
  intros a b. destruct (key_eqb a b) eqn:E.
  - apply key_eqb_eq in E. subst. symmetry. apply key_eqb_refl.
  - symmetry. apply key_eqb_neq. apply key_eqb_neq in E. congruence.
Qed.

(* ---------------------------------------------------------------- heap / environment *)

Lemma hget_hset : forall h l c l', hget (hset h l c) l' = if l =? l' then Some c else hget h l'.
Proof. reflexivity. Qed.

(* ---------------------------------------------------------------- sequences: index arithmetic *)

Lemma in_i32_bounds : forall i, in_i32 i = true -> (-2147483648 <= i <= 2147483647)%Z.
Proof. unfold in_i32, i32_min, i32_max. intros i H. apply andb_true_iff in H. lia. Qed.

(* the three outcomes of the bounds check, in terms of the specification's 0 <= i < len *)
Lemma vec_index_cases : forall xs i,
  (in_i32 i = false /\ vec_index xs i = Fail Stuck) \/
  (in_i32 i = true /\ in_range xs i = false /\ vec_index xs i = Fail Err) \/
  (in_i32 i = true /\ in_range xs i = true /\ vec_index xs i = Ok (Z.to_nat i) /\ (Z.to_nat i < length xs)%nat).
Proof.
  intros xs i. unfold vec_index. destruct (in_i32 i) eqn:Hi; cbn [negb]; [right | left; auto].
  pose proof (in_i32_bounds i Hi) as Hb. unfold in_range, as_usize, two64, isize_max.
  destruct (i <? 0)%Z eqn:Hn.
  - left. split; [reflexivity|]. split.
    + apply andb_false_iff. left. lia.
    + assert (Hm : (9223372036854775807 <? 18446744073709551616 + i)%Z = true) by lia.
      rewrite Hm, orb_true_r. reflexivity.
  - destruct (i >=? Z.of_nat (length xs))%Z eqn:Hl.
    + left. split; [reflexivity|]. split; [|reflexivity]. apply andb_false_iff. right. lia.
    + right. assert (Hm : (9223372036854775807 <? i)%Z = false) by lia. rewrite Hm. cbn [orb].
      split; [reflexivity|]. split; [apply andb_true_iff; lia|]. split; [reflexivity | lia].
Qed.

Lemma nth_error_nth_lt : forall (xs : list val) n, (n < length xs)%nat -> nth_error xs n = Some (nth n xs VNil).
Proof. intros xs n H. apply nth_error_nth'. exact H. Qed.

(* reading: bounds check + dereference = the specification's partial `nth` *)
Lemma bind_index : forall A (k : val -> res A) xs i,
  (do n <- vec_index xs i; do x <- vec_at xs n; k x) = (do x <- seq_get xs i; k x).
Proof.
  intros A k xs i. unfold seq_get.
  destruct (vec_index_cases xs i) as [[Hi E] | [[Hi [Hr E]] | [Hi [Hr [E Hl]]]]]; rewrite E, Hi; cbn [negb bind]; try reflexivity.
  - rewrite Hr. reflexivity.
  - rewrite Hr. unfold vec_at. rewrite (nth_error_nth_lt _ _ Hl). reflexivity.
Qed.

Lemma bind_ret : forall A (r : res A), (do x <- r; Ok x) = r.
Proof. intros A [a|e]; reflexivity. Qed.

Lemma index_get : forall xs i, (do n <- vec_index xs i; vec_at xs n) = seq_get xs i.
Proof.
  intros xs i. rewrite <- (bind_ret _ (seq_get xs i)), <- bind_index.
  destruct (vec_index xs i); cbn [bind]; [|reflexivity]. rewrite bind_ret. reflexivity.
Qed.

Lemma vec_set_at_spec : forall xs n x, (n < length xs)%nat ->
  vec_set_at xs n x = firstn n xs ++ x :: skipn (S n) xs.
Proof.
  induction xs as [|y xs IH]; intros n x H; cbn [length] in H; [lia|].
  destruct n as [|n]; cbn [vec_set_at firstn skipn app]; [reflexivity|].
  rewrite IH by lia. reflexivity.
Qed.

Lemma vec_remove_at_spec : forall xs n, (n < length xs)%nat ->
  vec_remove_at xs n = firstn n xs ++ skipn (S n) xs.
Proof.
  induction xs as [|y xs IH]; intros n H; cbn [length] in H; [lia|].
  destruct n as [|n]; cbn [vec_remove_at firstn skipn app]; [reflexivity|].
  rewrite IH by lia. reflexivity.
Qed.

(* ---------------------------------------------------------------- map / filter: the bridge loop *)

Lemma nth_error_skipn_cons : forall (xs : list val) n x, nth_error xs n = Some x -> skipn n xs = x :: skipn (S n) xs.
Proof.
  induction xs as [|y xs IH]; intros [|n] x H; cbn in H; try discriminate.
  - inversion H. reflexivity.
  - cbn [skipn]. rewrite (IH n x H). reflexivity.
Qed.

Lemma map_loop_spec : forall lk f xs fuel idx acc,
  (idx < length xs)%nat -> (length xs - idx <= fuel)%nat ->
  map_loop fuel lk f xs idx acc = do ys <- seq_map lk f (skipn idx xs); Ok (acc ++ ys).
Proof.
  intros lk f xs. induction fuel as [|fuel IH]; intros idx acc Hi Hf; [lia|].
  cbn [map_loop]. unfold vec_at. rewrite (nth_error_nth_lt _ _ Hi). cbn [bind].
  rewrite (nth_error_skipn_cons _ _ _ (nth_error_nth_lt _ _ Hi)). cbn [seq_map].
  destruct (apply_fn lk f (nth idx xs VNil)) as [y|e]; cbn [bind]; [|reflexivity].
  destruct (Nat.ltb (S idx) (length xs)) eqn:Hl.
  - apply Nat.ltb_lt in Hl. rewrite IH by lia.
    destruct (seq_map lk f (skipn (S idx) xs)) as [ys|e]; cbn [bind]; [|reflexivity].
    rewrite <- app_assoc. reflexivity.
  - apply Nat.ltb_ge in Hl. rewrite skipn_all2 by lia. cbn [seq_map bind]. reflexivity.
Qed.

Lemma vec_map_spec : forall lk f xs, vec_map false lk f xs = seq_map lk f xs.
Proof.
  intros lk f xs. unfold vec_map. cbn [negb andb]. destruct xs as [|x xs]; [reflexivity|].
  cbn [is_nil]. rewrite map_loop_spec by (cbn [length]; lia).
  cbn [skipn]. destruct (seq_map lk f (x :: xs)); reflexivity.
Qed.

Lemma filter_loop_spec : forall lk p xs fuel idx acc,
  (idx < length xs)%nat -> (length xs - idx <= fuel)%nat ->
  filter_loop fuel lk p xs idx acc = do ys <- seq_filter lk p (skipn idx xs); Ok (acc ++ ys).
Proof.
  intros lk p xs. induction fuel as [|fuel IH]; intros idx acc Hi Hf; [lia|].
  cbn [filter_loop]. unfold vec_at. rewrite (nth_error_nth_lt _ _ Hi). cbn [bind].
  rewrite (nth_error_skipn_cons _ _ _ (nth_error_nth_lt _ _ Hi)). cbn [seq_filter].
  destruct (apply_pred lk p (nth idx xs VNil)) as [b|e]; cbn [bind]; [|reflexivity].
  destruct (Nat.ltb (S idx) (length xs)) eqn:Hl.
  - apply Nat.ltb_lt in Hl. destruct b; cbn [bind]; rewrite IH by lia;
      destruct (seq_filter lk p (skipn (S idx) xs)) as [ys|e]; cbn [bind]; try reflexivity.
    rewrite <- app_assoc. reflexivity.
  - apply Nat.ltb_ge in Hl. rewrite skipn_all2 by lia. cbn [seq_filter bind].
    destruct b; cbn [bind]; rewrite ?app_nil_r; reflexivity.
Qed.

Lemma vec_filter_spec : forall lk p xs, vec_filter false lk p xs = seq_filter lk p xs.
Proof.
  intros lk p xs. unfold vec_filter. cbn [negb andb]. destruct xs as [|x xs]; [reflexivity|].
  cbn [is_nil]. rewrite filter_loop_spec by (cbn [length]; lia).
  cbn [skipn]. destruct (seq_filter lk p (x :: xs)); reflexivity.
Qed.

(* ---------------------------------------------------------------- monadic list traversals *)

Fixpoint mapM {A B} (f : A -> res B) (l : list A) : res (list B) :=
  match l with
  | [] => Ok []
  | x :: l => do y <- f x; do ys <- mapM f l; Ok (y :: ys)
  end.

Fixpoint all2M {A} (f : A -> A -> res bool) (xs ys : list A) : res bool :=
  match xs, ys with
  | x :: xs, y :: ys => do r <- f x y; if r then all2M f xs ys else Ok false
  | _, _ => Ok true
  end.

Lemma mapM_ext : forall A B (f g : A -> res B) l, (forall x, f x = g x) -> mapM f l = mapM g l.
Proof. intros A B f g l H. induction l as [|x l IH]; cbn [mapM]; [reflexivity|]. rewrite H, IH. reflexivity. Qed.

Lemma all2M_ext : forall A (f g : A -> A -> res bool) xs ys, (forall x y, f x y = g x y) -> all2M f xs ys = all2M g xs ys.
Proof.
  intros A f g xs. induction xs as [|x xs IH]; intros [|y ys] H; cbn [all2M]; try reflexivity.
  rewrite H. destruct (g x y) as [[|]|]; cbn [bind]; auto.
Qed.

Lemma mapM_length : forall A B (f : A -> res B) l r, mapM f l = Ok r -> length r = length l.
Proof.
  intros A B f. induction l as [|x l IH]; intros r H; cbn [mapM] in H.
  - inversion H. reflexivity.
  - destruct (f x); cbn [bind] in H; [|discriminate]. destruct (mapM f l) eqn:E; cbn [bind] in H; [|discriminate].
    inversion H. cbn [length]. rewrite (IH _ eq_refl). reflexivity.
Qed.

Lemma deep_unfold : forall n lk l,
  deep (S n) lk (VRef l) =
  match lk l with
  | KVec xs => do os <- mapM (deep n lk) xs; Ok (OList os)
  | KMap => Fail Stuck
  | KNone => Fail Stuck
  end.
Proof.
  intros n lk l. cbn [deep]. destruct (lk l) as [xs| |]; try reflexivity.
  f_equal. induction xs as [|x xs IH]; [reflexivity|]. cbn [mapM]. rewrite <- IH. reflexivity.
Qed.

Lemma veq_unfold : forall n lk la lb,
  veq (S n) lk (VRef la) (VRef lb) =
  match lk la, lk lb with
  | KVec xs, KVec ys => if negb (Nat.eqb (length xs) (length ys)) then Ok false else all2M (veq n lk) xs ys
  | KNone, _ | _, KNone => Fail Stuck
  | _, _ => Ok false
  end.
Proof.
  intros n lk la lb. cbn [veq]. destruct (lk la) as [xs| |]; destruct (lk lb) as [ys| |]; try reflexivity.
  destruct (negb (Nat.eqb (length xs) (length ys))); [reflexivity|].
  revert ys. induction xs as [|x xs IH]; intros [|y ys]; try reflexivity.
  cbn [all2M]. destruct (veq n lk x y) as [[|]|]; cbn [bind]; try reflexivity. apply IH.
Qed.

Lemma deep_all_mapM : forall lk vs, deep_all lk vs = mapM (deep depth_fuel lk) vs.
Proof. intros lk vs. induction vs as [|v vs IH]; cbn [deep_all mapM]; [reflexivity|]. rewrite IH. reflexivity. Qed.

(* ---------------------------------------------------------------- the functions of `look` only see its graph *)

Section Ext.
  Variables lk1 lk2 : look.
  Hypothesis Hlk : forall l, lk1 l = lk2 l.

  Lemma deep_ext : forall n v, deep n lk1 v = deep n lk2 v.
  Proof.
    induction n as [|n IH]; intros [z|s| |l]; try reflexivity.
    rewrite !deep_unfold, Hlk. destruct (lk2 l); try reflexivity.
    rewrite (mapM_ext _ _ _ _ xs IH). reflexivity.
  Qed.

  Lemma deep_all_ext : forall vs, deep_all lk1 vs = deep_all lk2 vs.
  Proof. intro vs. rewrite !deep_all_mapM. apply mapM_ext. apply deep_ext. Qed.

  Lemma veq_ext : forall n a b, veq n lk1 a b = veq n lk2 a b.
  Proof.
    induction n as [|n IH]; intros [x|x| |la] [y|y| |lb]; try reflexivity.
    rewrite !veq_unfold, !Hlk. destruct (lk2 la), (lk2 lb); try reflexivity.
    rewrite (all2M_ext _ _ _ xs xs0 IH). reflexivity.
  Qed.

  Lemma equals_ext : forall n a b, equals n lk1 a b = equals n lk2 a b.
  Proof.
    intros n [x|x| |la] [y|y| |lb]; try reflexivity.
    unfold equals. rewrite !Hlk, veq_ext. reflexivity.
  Qed.

  Lemma find_from_ext : forall n xs idx p, find_from n lk1 idx xs p = find_from n lk2 idx xs p.
  Proof.
    intros n xs. induction xs as [|x xs IH]; intros idx p; cbn [find_from]; [reflexivity|].
    rewrite equals_ext. destruct (equals n lk2 x p) as [[[|]|]|]; cbn [bind]; auto.
  Qed.

  Lemma apply_fn_ext : forall f x, apply_fn lk1 f x = apply_fn lk2 f x.
  Proof. intros [c|c|s| |r] [z|t| |l]; try reflexivity. cbn [apply_fn]. rewrite Hlk. reflexivity. Qed.

  Lemma apply_pred_ext : forall p x, apply_pred lk1 p x = apply_pred lk2 p x.
  Proof.
    intros p x. destruct p, x; cbn [apply_pred]; rewrite ?equals_ext, ?Hlk; reflexivity.
  Qed.

  Lemma seq_map_ext : forall f xs, seq_map lk1 f xs = seq_map lk2 f xs.
  Proof. intros f xs. induction xs as [|x xs IH]; cbn [seq_map]; [reflexivity|]. rewrite apply_fn_ext, IH. reflexivity. Qed.

  Lemma seq_filter_ext : forall p xs, seq_filter lk1 p xs = seq_filter lk2 p xs.
  Proof. intros p xs. induction xs as [|x xs IH]; cbn [seq_filter]; [reflexivity|]. rewrite apply_pred_ext, IH. reflexivity. Qed.
End Ext.

(* ---------------------------------------------------------------- which failures rendering can produce *)

Definition undef (f : fail) : Prop := match f with Stuck | Fuel | Range => True | Err | Panic => False end.

Lemma mapM_fail : forall A B (f : A -> res B) l e, mapM f l = Fail e -> exists x, In x l /\ f x = Fail e.
Proof.
  intros A B f. induction l as [|x l IH]; intros e H; cbn [mapM] in H; [discriminate|].
  destruct (f x) eqn:E; cbn [bind] in H.
  - destruct (mapM f l) eqn:E2; cbn [bind] in H; [discriminate|]. inversion H; subst.
    destruct (IH _ eq_refl) as [y [Hy Hf]]. exists y. split; [right; exact Hy | exact Hf].
  - inversion H; subst. exists x. split; [left; reflexivity | exact E].
Qed.

Lemma deep_fail : forall n lk v e, deep n lk v = Fail e -> undef e.
Proof.
  induction n as [|n IH]; intros lk [z|s| |l] e H; try discriminate.
  - cbn in H. inversion H. exact I.
  - rewrite deep_unfold in H. destruct (lk l) as [xs| |]; try (inversion H; exact I).
    destruct (mapM (deep n lk) xs) eqn:E; cbn [bind] in H; [discriminate|]. inversion H; subst.
    destruct (mapM_fail _ _ _ _ _ E) as [x [_ Hx]]. apply (IH _ _ _ Hx).
Qed.

Lemma deep_all_fail : forall lk vs e, deep_all lk vs = Fail e -> undef e.
Proof.
  intros lk vs e H. rewrite deep_all_mapM in H. destruct (mapM_fail _ _ _ _ _ H) as [x [_ Hx]]. apply (deep_fail _ _ _ _ Hx).
Qed.

(* ---------------------------------------------------------------- equality: slice comparison = equality of renderings *)

Fixpoint ovals_eqb (xs ys : list oval) : bool :=
  match xs, ys with
  | [], [] => true
  | x :: xs, y :: ys => oval_eqb x y && ovals_eqb xs ys
  | _, _ => false
  end.

Lemma oval_eqb_list : forall xs ys, oval_eqb (OList xs) (OList ys) = ovals_eqb xs ys.
Proof.
  intros xs. induction xs as [|x xs IH]; intros [|y ys]; reflexivity.
Qed.

Lemma ovals_eqb_length : forall xs ys, length xs <> length ys -> ovals_eqb xs ys = false.
Proof.
  induction xs as [|x xs IH]; intros [|y ys] H; cbn [length] in H; try reflexivity; try congruence.
  cbn [ovals_eqb]. rewrite IH by congruence. apply andb_false_r.
Qed.

Lemma veq_deep : forall n lk a b x y,
  deep n lk a = Ok x -> deep n lk b = Ok y -> veq n lk a b = Ok (oval_eqb x y).
Proof.
  induction n as [|n IH]; intros lk a b x y Ha Hb.
  - destruct a, b; cbn in Ha, Hb; try discriminate; inversion Ha; inversion Hb; reflexivity.
  - destruct a as [za|sa| |la]; destruct b as [zb|sb| |lb];
      try (cbn in Ha, Hb; inversion Ha; inversion Hb; reflexivity).
    + (* scalar / ref *) rewrite deep_unfold in Hb. destruct (lk lb); try discriminate.
      destruct (mapM (deep n lk) xs); cbn [bind] in Hb; inversion Hb. cbn in Ha. inversion Ha. reflexivity.
    + rewrite deep_unfold in Hb. destruct (lk lb); try discriminate.
      destruct (mapM (deep n lk) xs); cbn [bind] in Hb; inversion Hb. cbn in Ha. inversion Ha. reflexivity.
    + rewrite deep_unfold in Hb. destruct (lk lb); try discriminate.
      destruct (mapM (deep n lk) xs); cbn [bind] in Hb; inversion Hb. cbn in Ha. inversion Ha. reflexivity.
    + rewrite deep_unfold in Ha. destruct (lk la); try discriminate.
      destruct (mapM (deep n lk) xs); cbn [bind] in Ha; inversion Ha. cbn in Hb. inversion Hb. reflexivity.
    + rewrite deep_unfold in Ha. destruct (lk la); try discriminate.
      destruct (mapM (deep n lk) xs); cbn [bind] in Ha; inversion Ha. cbn in Hb. inversion Hb. reflexivity.
    + rewrite deep_unfold in Ha. destruct (lk la); try discriminate.
      destruct (mapM (deep n lk) xs); cbn [bind] in Ha; inversion Ha. cbn in Hb. inversion Hb. reflexivity.
    + rewrite deep_unfold in Ha, Hb. rewrite veq_unfold.
      destruct (lk la) as [xs| |]; try discriminate. destruct (lk lb) as [ys| |]; try discriminate.
      destruct (mapM (deep n lk) xs) as [os|] eqn:Exs; cbn [bind] in Ha; [|discriminate].
      destruct (mapM (deep n lk) ys) as [os'|] eqn:Eys; cbn [bind] in Hb; [|discriminate].
      inversion Ha; inversion Hb; subst. rewrite oval_eqb_list.
      pose proof (mapM_length _ _ _ _ _ Exs) as Lx. pose proof (mapM_length _ _ _ _ _ Eys) as Ly.
      destruct (Nat.eqb (length xs) (length ys)) eqn:El; cbn [negb].
      * apply Nat.eqb_eq in El. clear Lx Ly Ha Hb. revert ys os os' El Exs Eys.
        induction xs as [|x0 xs IHxs]; intros [|y0 ys] os os' El Exs Eys; cbn [length] in El; try discriminate;
          cbn [mapM] in Exs, Eys.
        -- inversion Exs; inversion Eys. reflexivity.
        -- destruct (deep n lk x0) as [ox|] eqn:Ex; cbn [bind] in Exs; [|discriminate].
           destruct (mapM (deep n lk) xs) as [oxs|] eqn:Exs'; cbn [bind] in Exs; [|discriminate].
           destruct (deep n lk y0) as [oy|] eqn:Ey; cbn [bind] in Eys; [|discriminate].
           destruct (mapM (deep n lk) ys) as [oys|] eqn:Eys'; cbn [bind] in Eys; [|discriminate].
           inversion Exs; inversion Eys; subst. cbn [all2M ovals_eqb].
           rewrite (IH _ _ _ _ _ Ex Ey). cbn [bind]. destruct (oval_eqb ox oy); cbn [andb]; [|reflexivity].
           apply (IHxs ys oxs oys); [lia | reflexivity | exact Eys'].
      * apply Nat.eqb_neq in El. rewrite ovals_eqb_length by lia. reflexivity.
Qed.

Lemma deep_nil_l : forall n lk b y, deep n lk b = Ok y ->
  oval_eqb ONil y = match b with VNil => true | _ => false end.
Proof.
  intros n lk b y H. destruct n; destruct b as [z|s| |l]; try (cbn in H; inversion H; reflexivity).
  rewrite deep_unfold in H. destruct (lk l); try discriminate.
  destruct (mapM (deep n lk) xs); cbn [bind] in H; inversion H. reflexivity.
Qed.

Lemma deep_nil_r : forall n lk a x, deep n lk a = Ok x ->
  oval_eqb x ONil = match a with VNil => true | _ => false end.
Proof.
  intros n lk a x H. destruct n; destruct a as [z|s| |l]; try (cbn in H; inversion H; reflexivity).
  rewrite deep_unfold in H. destruct (lk l); try discriminate.
  destruct (mapM (deep n lk) xs); cbn [bind] in H; inversion H. reflexivity.
Qed.

Lemma deep_int : forall n lk z, deep n lk (VInt z) = Ok (OInt z).
Proof. destruct n; reflexivity. Qed.
Lemma deep_str : forall n lk s, deep n lk (VStr s) = Ok (OStr s).
Proof. destruct n; reflexivity. Qed.
Lemma deep_nilv : forall n lk, deep n lk VNil = Ok ONil.
Proof. destruct n; reflexivity. Qed.

Opaque depth_fuel.

(* Primitive::equals agrees with equality of renderings wherever the latter is defined *)
Lemma sem_eq_equals : forall lk a b r, sem_eq lk a b = Ok r -> equals depth_fuel lk a b = Ok (Some r).
Proof.
  intros lk a b r H. unfold sem_eq in H.
  destruct (comparable lk a b) eqn:C; [|discriminate].
  destruct (deep depth_fuel lk a) as [x|] eqn:Ha; cbn [bind] in H; [|discriminate].
  destruct (deep depth_fuel lk b) as [y|] eqn:Hb; cbn [bind] in H; [|discriminate].
  inversion H; subst; clear H.
  destruct a as [za|sa| |la]; destruct b as [zb|sb| |lb]; cbn [comparable] in C; try discriminate;
    try rewrite deep_int in Ha; try rewrite deep_str in Ha; try rewrite deep_nilv in Ha;
    try rewrite deep_int in Hb; try rewrite deep_str in Hb; try rewrite deep_nilv in Hb;
    try (inversion Ha; inversion Hb; reflexivity).
  - (* nil, ref *) inversion Ha; subst. rewrite (deep_nil_l _ _ _ _ Hb). reflexivity.
  - (* ref, nil *) inversion Hb; subst. rewrite (deep_nil_r _ _ _ _ Ha). reflexivity.
  - (* ref, ref *) cbn [equals]. destruct (lk la); try discriminate. destruct (lk lb); try discriminate.
    rewrite (veq_deep _ _ _ _ _ _ Ha Hb). reflexivity.
Qed.

Lemma sem_eq_fail : forall lk a b e, sem_eq lk a b = Fail e -> undef e.
Proof.
  intros lk a b e H. unfold sem_eq in H. destruct (comparable lk a b); [|inversion H; exact I].
  destruct (deep depth_fuel lk a) eqn:Ha; cbn [bind] in H; [|inversion H; subst; apply (deep_fail _ _ _ _ Ha)].
  destruct (deep depth_fuel lk b) eqn:Hb; cbn [bind] in H; [discriminate|inversion H; subst; apply (deep_fail _ _ _ _ Hb)].
Qed.

Lemma find_from_spec : forall lk xs p r, seq_index_of lk xs p = Ok r ->
  forall idx, find_from depth_fuel lk idx xs p = Ok (option_map (fun k => (idx + k)%nat) r).
Proof.
  intros lk xs p. induction xs as [|x xs IH]; intros r H idx; cbn [seq_index_of] in H.
  - inversion H. reflexivity.
  - destruct (sem_eq lk x p) as [e|] eqn:E; cbn [bind] in H; [|discriminate].
    cbn [find_from]. rewrite (sem_eq_equals _ _ _ _ E). cbn [bind]. destruct e.
    + inversion H. cbn [option_map]. rewrite Nat.add_0_r. reflexivity.
    + destruct (seq_index_of lk xs p) as [r'|] eqn:E2; cbn [bind] in H; [|discriminate].
      inversion H; subst. rewrite (IH _ eq_refl). destruct r'; cbn [option_map]; [|reflexivity].
      f_equal. f_equal. lia.
Qed.

Lemma seq_index_of_fail : forall lk xs p e, seq_index_of lk xs p = Fail e -> undef e.
Proof.
  intros lk xs p. induction xs as [|x xs IH]; intros e H; cbn [seq_index_of] in H; [discriminate|].
  destruct (sem_eq lk x p) as [b|] eqn:E; cbn [bind] in H; [|inversion H; subst; apply (sem_eq_fail _ _ _ _ E)].
  destruct b; [discriminate|]. destruct (seq_index_of lk xs p) eqn:E2; cbn [bind] in H; [discriminate|].
  inversion H; subst. apply (IH _ eq_refl).
Qed.

(* ---------------------------------------------------------------- finite maps *)

Definition keys_of (kv : list (key * val)) : list key := map fst kv.

Lemma mget_none : forall kv k, mget kv k = None <-> ~ In k (keys_of kv).
Proof.
  induction kv as [|[k' v] kv IH]; intros k; cbn [mget keys_of map fst In].
  - split; auto.
  - destruct (key_eqb k' k) eqn:E.
    + apply key_eqb_eq in E. subst. split; [discriminate | intro H; exfalso; apply H; left; reflexivity].
    + apply key_eqb_neq in E. rewrite IH. unfold keys_of. split; intro H.
      * intros [H1|H1]; [congruence | auto].
      * intro H1. apply H. right. exact H1.
Qed.

Lemma mget_in : forall kv k v, NoDup (keys_of kv) -> (mget kv k = Some v <-> In (k, v) kv).
Proof.
  induction kv as [|[k' v'] kv IH]; intros k v ND; cbn [mget In].
  - split; [discriminate | contradiction].
  - cbn [keys_of map fst] in ND. inversion ND as [|? ? Hn ND']; subst.
    destruct (key_eqb k' k) eqn:E.
    + apply key_eqb_eq in E. subst. split; intro H.
      * inversion H. left. reflexivity.
      * destruct H as [H|H]; [inversion H; reflexivity|].
        exfalso. apply Hn. unfold keys_of. apply (in_map fst) in H. exact H.
    + apply key_eqb_neq in E. rewrite (IH k v ND'). split; intro H.
      * right. exact H.
      * destruct H as [H|H]; [inversion H; congruence | exact H].
Qed.

Lemma nodup_keys_nodup : forall kv, NoDup (keys_of kv) -> NoDup kv.
Proof. intros kv H. apply (NoDup_map_inv fst). exact H. Qed.

(* two association lists without duplicate keys denote the same finite map *)
Definition msim (kv kv' : list (key * val)) : Prop :=
  NoDup (keys_of kv) /\ NoDup (keys_of kv') /\ forall k, mget kv k = mget kv' k.

Lemma msim_perm : forall kv kv', msim kv kv' -> Permutation kv kv'.
Proof.
  intros kv kv' [N1 [N2 H]]. apply NoDup_Permutation; try (apply nodup_keys_nodup; assumption).
  intros [k v]. rewrite <- (mget_in kv k v N1), <- (mget_in kv' k v N2), H. reflexivity.
Qed.

Lemma msim_refl_nil : msim [] [].
Proof. repeat split; try constructor. Qed.

Lemma msim_self : forall kv, NoDup (keys_of kv) -> msim kv kv.
Proof. intros kv H. repeat split; assumption. Qed.

Lemma keys_mreplace : forall kv k v, keys_of (mreplace kv k v) = keys_of kv.
Proof.
  induction kv as [|[k' v'] kv IH]; intros k v; cbn [mreplace]; [reflexivity|].
  destruct (key_eqb k' k); cbn [keys_of map fst]; [reflexivity|]. f_equal. apply IH.
Qed.

Lemma mget_mreplace : forall kv k v k', mget kv k <> None ->
  mget (mreplace kv k v) k' = if key_eqb k k' then Some v else mget kv k'.
Proof.
  induction kv as [|[k0 v0] kv IH]; intros k v k' H; cbn [mget] in H; [congruence|].
  cbn [mreplace]. destruct (key_eqb k0 k) eqn:E.
  - apply key_eqb_eq in E. subst. cbn [mget]. destruct (key_eqb k k'); reflexivity.
  - cbn [mget]. destruct (key_eqb k0 k') eqn:E2.
    + apply key_eqb_eq in E2. subst. rewrite key_eqb_sym, E. reflexivity.
    + apply IH. exact H.
Qed.

Lemma nodup_minsert : forall kv k v, NoDup (keys_of kv) -> NoDup (keys_of (minsert kv k v)).
Proof.
  intros kv k v H. unfold minsert. destruct (mget kv k) eqn:E.
  - rewrite keys_mreplace. exact H.
  - cbn [keys_of map fst]. constructor; [apply mget_none; exact E | exact H].
Qed.

Lemma mget_minsert : forall kv k v k', mget (minsert kv k v) k' = if key_eqb k k' then Some v else mget kv k'.
Proof.
  intros kv k v k'. unfold minsert. destruct (mget kv k) eqn:E.
  - apply mget_mreplace. congruence.
  - reflexivity.
Qed.

Lemma fm_has_mget : forall kv k, fm_has kv k = match mget kv k with Some _ => true | None => false end.
Proof.
  induction kv as [|[k' v] kv IH]; intros k; cbn [fm_has existsb mget fst]; [reflexivity|].
  destruct (key_eqb k' k); cbn [orb]; [reflexivity | apply IH].
Qed.

Lemma keys_fm_put_has : forall kv k v,
  keys_of (map (fun p : key * val => if key_eqb (fst p) k then (fst p, v) else p) kv) = keys_of kv.
Proof.
  induction kv as [|[k' v'] kv IH]; intros k v; cbn [map keys_of fst]; [reflexivity|].
  f_equal; [destruct (key_eqb k' k); reflexivity | apply IH].
Qed.

Lemma mget_fm_put_has : forall kv k v k',
  mget (map (fun p : key * val => if key_eqb (fst p) k then (fst p, v) else p) kv) k' =
  match mget kv k' with Some v' => Some (if key_eqb k k' then v else v') | None => None end.
Proof.
  induction kv as [|[k0 v0] kv IH]; intros k v k'; cbn [map mget fst]; [reflexivity|].
  destruct (key_eqb k0 k) eqn:E; cbn [mget].
  - apply key_eqb_eq in E. subst. destruct (key_eqb k k') eqn:E3; [reflexivity | rewrite IH, E3; reflexivity].
  - destruct (key_eqb k0 k') eqn:E2.
    + apply key_eqb_eq in E2. subst. rewrite key_eqb_sym, E. reflexivity.
    + apply IH.
Qed.

Lemma keys_app : forall kv kv', keys_of (kv ++ kv') = keys_of kv ++ keys_of kv'.
Proof. intros. unfold keys_of. apply map_app. Qed.

Lemma mget_app : forall kv kv' k, mget (kv ++ kv') k = match mget kv k with Some v => Some v | None => mget kv' k end.
Proof.
  induction kv as [|[k0 v0] kv IH]; intros kv' k; cbn [app mget]; [reflexivity|].
  destruct (key_eqb k0 k); [reflexivity | apply IH].
Qed.

Lemma nodup_fm_put : forall kv k v, NoDup (keys_of kv) -> NoDup (keys_of (fm_put kv k v)).
Proof.
  intros kv k v H. unfold fm_put. rewrite fm_has_mget. destruct (mget kv k) eqn:E.
  - rewrite keys_fm_put_has. exact H.
  - rewrite keys_app. cbn [keys_of map fst]. apply (Permutation_NoDup (Permutation_cons_append _ _)).
    constructor; [apply mget_none; exact E | exact H].
Qed.

Lemma mget_fm_put : forall kv k v k', mget (fm_put kv k v) k' = if key_eqb k k' then Some v else mget kv k'.
Proof.
  intros kv k v k'. unfold fm_put. rewrite fm_has_mget. destruct (mget kv k) eqn:E.
  - rewrite mget_fm_put_has. destruct (key_eqb k k') eqn:E2.
    + apply key_eqb_eq in E2. subst. rewrite E. reflexivity.
    + destruct (mget kv k'); reflexivity.
  - rewrite mget_app. cbn [mget]. destruct (key_eqb k k') eqn:E2.
    + apply key_eqb_eq in E2. subst. rewrite E. reflexivity.
    + destruct (mget kv k'); reflexivity.
Qed.

Lemma msim_put : forall kv kv' k v, msim kv kv' -> msim (minsert kv k v) (fm_put kv' k v).
Proof.
  intros kv kv' k v [N1 [N2 H]]. split; [apply nodup_minsert; exact N1|]. split; [apply nodup_fm_put; exact N2|].
  intro k'. rewrite mget_minsert, mget_fm_put, H. reflexivity.
Qed.

Lemma keys_mremove_incl : forall kv k x, In x (keys_of (mremove kv k)) -> In x (keys_of kv).
Proof.
  induction kv as [|[k0 v0] kv IH]; intros k x H; cbn [mremove] in H; [exact H|].
  destruct (key_eqb k0 k); cbn [keys_of map fst In] in *; [right; exact H|].
  destruct H as [H|H]; [left; exact H | right; apply (IH k x H)].
Qed.

Lemma nodup_mremove : forall kv k, NoDup (keys_of kv) -> NoDup (keys_of (mremove kv k)).
Proof.
  induction kv as [|[k0 v0] kv IH]; intros k H; cbn [mremove]; [exact H|].
  cbn [keys_of map fst] in H. inversion H as [|? ? Hn H']; subst.
  destruct (key_eqb k0 k); [exact H'|]. cbn [keys_of map fst]. constructor; [|apply IH; exact H'].
  intro Hi. apply Hn. apply (keys_mremove_incl _ _ _ Hi).
Qed.

Lemma mget_mremove : forall kv k k', NoDup (keys_of kv) ->
  mget (mremove kv k) k' = if key_eqb k k' then None else mget kv k'.
Proof.
  induction kv as [|[k0 v0] kv IH]; intros k k' H; cbn [mremove mget].
  - destruct (key_eqb k k'); reflexivity.
  - cbn [keys_of map fst] in H. inversion H as [|? ? Hn H']; subst.
    destruct (key_eqb k0 k) eqn:E.
    + apply key_eqb_eq in E. subst. destruct (key_eqb k k') eqn:E2; [|reflexivity].
      apply key_eqb_eq in E2. subst. apply mget_none. exact Hn.
    + cbn [mget]. destruct (key_eqb k0 k') eqn:E2.
      * apply key_eqb_eq in E2. subst. rewrite key_eqb_sym, E. reflexivity.
      * apply IH. exact H'.
Qed.

Lemma keys_fm_del_incl : forall kv k x, In x (keys_of (fm_del kv k)) -> In x (keys_of kv).
Proof.
  intros kv k x H. unfold keys_of, fm_del in *. apply in_map_iff in H. destruct H as [p [Hp Hi]].
  apply filter_In in Hi. destruct Hi as [Hi _]. apply in_map_iff. exists p. split; assumption.
Qed.

Lemma nodup_fm_del : forall kv k, NoDup (keys_of kv) -> NoDup (keys_of (fm_del kv k)).
Proof.
  induction kv as [|[k0 v0] kv IH]; intros k H; cbn [fm_del filter fst]; [exact H|].
  cbn [keys_of map fst] in H. inversion H as [|? ? Hn H']; subst.
  destruct (negb (key_eqb k0 k)); [|apply IH; exact H'].
  cbn [keys_of map fst]. constructor; [|apply IH; exact H'].
  intro Hi. apply Hn. apply (keys_fm_del_incl _ _ _ Hi).
Qed.

Lemma mget_fm_del : forall kv k k', mget (fm_del kv k) k' = if key_eqb k k' then None else mget kv k'.
Proof.
  induction kv as [|[k0 v0] kv IH]; intros k k'; cbn [fm_del filter fst mget].
  - destruct (key_eqb k k'); reflexivity.
  - destruct (key_eqb k0 k) eqn:E; cbn [negb].
    + apply key_eqb_eq in E. subst. fold (fm_del kv k). rewrite IH. destruct (key_eqb k k'); reflexivity.
    + cbn [mget]. fold (fm_del kv k). destruct (key_eqb k0 k') eqn:E2.
      * apply key_eqb_eq in E2. subst. rewrite key_eqb_sym, E. reflexivity.
      * apply IH.
Qed.

Lemma msim_del : forall kv kv' k, msim kv kv' -> msim (mremove kv k) (fm_del kv' k).
Proof.
  intros kv kv' k [N1 [N2 H]]. split; [apply nodup_mremove; exact N1|]. split; [apply nodup_fm_del; exact N2|].
  intro k'. rewrite (mget_mremove _ _ _ N1), mget_fm_del, H. reflexivity.
Qed.

(* bags: traversing a permuted list gives a permuted result *)
Lemma mapM_perm : forall A B (f : A -> res B) l l', Permutation l l' ->
  forall r', mapM f l' = Ok r' -> exists r, mapM f l = Ok r /\ Permutation r r'.
Proof.
  intros A B f l l' P. induction P as [|x l l' P IH|x y l|l l' l'' P1 IH1 P2 IH2]; intros r' H.
  - exists r'. split; [exact H | apply Permutation_refl].
  - cbn [mapM] in *. destruct (f x) as [y|]; cbn [bind] in *; [|discriminate].
    destruct (mapM f l') as [ys'|] eqn:E; cbn [bind] in H; [|discriminate]. inversion H; subst.
    destruct (IH _ eq_refl) as [ys [E2 P2]]. rewrite E2. cbn [bind]. exists (y :: ys). split; [reflexivity|].
    apply perm_skip. exact P2.
  - cbn [mapM] in *. destruct (f x) as [a|]; cbn [bind] in *.
    + destruct (f y) as [b|]; cbn [bind] in *; [|discriminate].
      destruct (mapM f l) as [ys|]; cbn [bind] in *; [|discriminate]. inversion H; subst.
      exists (b :: a :: ys). split; [reflexivity | apply perm_swap].
    + destruct (f y); cbn [bind] in H; discriminate.
  - destruct (IH2 _ H) as [r2 [E2 Q2]]. destruct (IH1 _ E2) as [r1 [E1 Q1]].
    exists r1. split; [exact E1 | apply (Permutation_trans Q1 Q2)].
Qed.

Lemma pairs_mapM : forall lk kv,
  (do os <- deep_all lk (map snd kv); Ok (pair_ovals kv os)) =
  mapM (fun p : key * val => do o <- deep depth_fuel lk (snd p); Ok (OList [key_oval (fst p); o])) kv.
Proof.
  intros lk kv. induction kv as [|[k v] kv IH]; cbn [map snd deep_all mapM fst]; [reflexivity|].
  destruct (deep depth_fuel lk v) as [o|]; cbn [bind]; [|reflexivity].
  rewrite <- IH. destruct (deep_all lk (map snd kv)); reflexivity.
Qed.

(* ---------------------------------------------------------------- the invariant *)

Definition R (st : state) (ss : sstate) : Prop :=
  next st = snext ss /\
  (forall x, eget (env st) x = senv ss x) /\
  (forall l, match hget (hp st) l with
             | Some (CVec xs) => vecs ss l = Some xs /\ maps ss l = None
             | Some (CMap kv) => vecs ss l = None /\ exists kv', maps ss l = Some kv' /\ msim kv kv'
             | None => vecs ss l = None /\ maps ss l = None
             end) /\
  (forall l, next st <= l -> hget (hp st) l = None).

Lemma R0 : R st0 ss0.
Proof. repeat split; reflexivity. Qed.

Lemma R_look : forall st ss, R st ss -> forall l, hlook (hp st) l = slook ss l.
Proof.
  intros st ss [_ [_ [H _]]] l. specialize (H l). unfold hlook, slook.
  destruct (hget (hp st) l) as [[xs|kv]|].
  - destruct H as [H1 _]. rewrite H1. reflexivity.
  - destruct H as [H1 [kv' [H2 _]]]. rewrite H1, H2. reflexivity.
  - destruct H as [H1 H2]. rewrite H1, H2. reflexivity.
Qed.

Lemma R_get_vec : forall st ss x, R st ss -> get_vec st x = s_vec ss x.
Proof.
  intros st ss x [_ [He [H _]]]. unfold get_vec, s_vec. rewrite He. destruct (senv ss x) as [l|]; [|reflexivity].
  specialize (H l). destruct (hget (hp st) l) as [[xs|kv]|].
  - destruct H as [H1 _]. rewrite H1. reflexivity.
  - destruct H as [H1 _]. rewrite H1. reflexivity.
  - destruct H as [H1 _]. rewrite H1. reflexivity.
Qed.

Lemma s_vec_inv : forall ss x l xs, s_vec ss x = Ok (l, xs) -> senv ss x = Some l /\ vecs ss l = Some xs.
Proof.
  intros ss x l xs H. unfold s_vec in H. destruct (senv ss x) as [l'|]; [|discriminate].
  destruct (vecs ss l') as [xs'|] eqn:E; [|discriminate]. inversion H; subst. auto.
Qed.

Lemma s_map_inv : forall ss x l kv, s_map ss x = Ok (l, kv) -> senv ss x = Some l /\ maps ss l = Some kv.
Proof.
  intros ss x l kv H. unfold s_map in H. destruct (senv ss x) as [l'|]; [|discriminate].
  destruct (maps ss l') as [kv'|] eqn:E; [|discriminate]. inversion H; subst. auto.
Qed.

Lemma R_vecs : forall st ss l xs, R st ss -> vecs ss l = Some xs -> hget (hp st) l = Some (CVec xs) /\ maps ss l = None.
Proof.
  intros st ss l xs [_ [_ [H _]]] Hv. specialize (H l). destruct (hget (hp st) l) as [[xs'|kv]|].
  - destruct H as [H1 H2]. rewrite H1 in Hv. inversion Hv; subst. auto.
  - destruct H as [H1 _]. congruence.
  - destruct H as [H1 _]. congruence.
Qed.

Lemma R_maps : forall st ss l kv', R st ss -> maps ss l = Some kv' ->
  exists kv, hget (hp st) l = Some (CMap kv) /\ msim kv kv' /\ vecs ss l = None.
Proof.
  intros st ss l kv' [_ [_ [H _]]] Hm. specialize (H l). destruct (hget (hp st) l) as [[xs'|kv]|].
  - destruct H as [_ H2]. congruence.
  - destruct H as [H1 [kv2 [H2 H3]]]. rewrite H2 in Hm. inversion Hm; subst. exists kv. auto.
  - destruct H as [_ H2]. congruence.
Qed.

(* what the model finds for a map variable: the same location, a representation of the same finite map *)
Lemma R_get_map : forall st ss x, R st ss ->
  match s_map ss x with
  | Ok (l, kv') => exists kv, get_map st x = Ok (l, kv) /\ msim kv kv' /\ maps ss l = Some kv'
  | Fail e => get_map st x = Fail e
  end.
Proof.
  intros st ss x HR. pose proof HR as [_ [He [H _]]]. unfold get_map, s_map. rewrite He.
  destruct (senv ss x) as [l|]; [|reflexivity].
  destruct (maps ss l) as [kv'|] eqn:Em.
  - destruct (R_maps _ _ _ _ HR Em) as [kv [H1 [H2 _]]]. exists kv. rewrite H1. auto.
  - specialize (H l). destruct (hget (hp st) l) as [[xs|kv]|]; try reflexivity.
    destruct H as [_ [kv' [H2 _]]]. congruence.
Qed.

Lemma allocated : forall st ss l c, R st ss -> hget (hp st) l = Some c -> l < next st.
Proof.
  intros st ss l c [_ [_ [_ H]]] Hg. destruct (N.ltb_spec l (next st)) as [Hl|Hl]; [exact Hl|].
  rewrite (H l Hl) in Hg. discriminate.
Qed.

Lemma R_upd_vec : forall st ss l xs0 xs, R st ss -> vecs ss l = Some xs0 ->
  R (upd_vec st l xs) (s_setvec ss l xs).
Proof.
  intros st ss l xs0 xs HR Hv. destruct (R_vecs _ _ _ _ HR Hv) as [Hg Hm].
  pose proof (allocated _ _ _ _ HR Hg) as Hlt. destruct HR as [Hn [He [H Hf]]].
  split; [exact Hn|]. split; [exact He|]. split.
  - intro l'. cbn [upd_vec set_hp hp s_setvec vecs maps]. rewrite hget_hset. unfold upd.
    destruct (l =? l') eqn:E.
    + apply N.eqb_eq in E. subst. auto.
    + apply H.
  - intros l' Hl. cbn [upd_vec set_hp hp next] in *. rewrite hget_hset.
    destruct (l =? l') eqn:E; [apply N.eqb_eq in E; lia | apply Hf; exact Hl].
Qed.

Lemma R_upd_map : forall st ss l kv0 kv kv', R st ss -> maps ss l = Some kv0 -> msim kv kv' ->
  R (upd_map st l kv) (s_setmap ss l kv').
Proof.
  intros st ss l kv0 kv kv' HR Hm Hs. destruct (R_maps _ _ _ _ HR Hm) as [kv1 [Hg [_ Hv]]].
  pose proof (allocated _ _ _ _ HR Hg) as Hlt. destruct HR as [Hn [He [H Hf]]].
  split; [exact Hn|]. split; [exact He|]. split.
  - intro l'. cbn [upd_map set_hp hp s_setmap vecs maps]. rewrite hget_hset. unfold upd.
    destruct (l =? l') eqn:E.
    + apply N.eqb_eq in E. subst. split; [exact Hv|]. exists kv'. auto.
    + apply H.
  - intros l' Hl. cbn [upd_map set_hp hp next] in *. rewrite hget_hset.
    destruct (l =? l') eqn:E; [apply N.eqb_eq in E; lia | apply Hf; exact Hl].
Qed.

Lemma R_bind : forall st ss x l, R st ss -> R (bind_var st x l) (s_bind ss x l).
Proof.
  intros st ss x l [Hn [He [H Hf]]]. split; [exact Hn|]. split; [|split; [exact H | exact Hf]].
  intro y. cbn [bind_var env eget s_bind senv]. unfold upd. destruct (x =? y); [reflexivity | apply He].
Qed.

Lemma R_fresh : forall st ss, R st ss -> vecs ss (snext ss) = None /\ maps ss (snext ss) = None.
Proof.
  intros st ss [Hn [_ [H Hf]]]. specialize (H (snext ss)). rewrite (Hf (snext ss)) in H by lia. exact H.
Qed.

Lemma R_alloc_vec : forall st ss x xs, R st ss -> R (alloc st x (CVec xs)) (s_newvec ss x xs).
Proof.
  intros st ss x xs HR. destruct (R_fresh _ _ HR) as [Fv Fm]. destruct HR as [Hn [He [H Hf]]].
  split; [cbn [alloc next s_newvec snext]; rewrite Hn; reflexivity|]. split; [|split].
  - intro y. cbn [alloc env eget s_newvec senv]. unfold upd. rewrite Hn. destruct (x =? y); [reflexivity | apply He].
  - intro l'. cbn [alloc hp s_newvec vecs maps]. rewrite hget_hset, Hn. unfold upd.
    destruct (snext ss =? l') eqn:E; [apply N.eqb_eq in E; subst; auto | apply H].
  - intros l' Hl. cbn [alloc hp next] in *. rewrite hget_hset.
    destruct (next st =? l') eqn:E; [apply N.eqb_eq in E; lia | apply Hf; lia].
Qed.

Lemma R_alloc_map : forall st ss x kv kv', R st ss -> msim kv kv' -> R (alloc st x (CMap kv)) (s_newmap ss x kv').
Proof.
  intros st ss x kv kv' HR Hs. destruct (R_fresh _ _ HR) as [Fv Fm]. destruct HR as [Hn [He [H Hf]]].
  split; [cbn [alloc next s_newmap snext]; rewrite Hn; reflexivity|]. split; [|split].
  - intro y. cbn [alloc env eget s_newmap senv]. unfold upd. rewrite Hn. destruct (x =? y); [reflexivity | apply He].
  - intro l'. cbn [alloc hp s_newmap vecs maps]. rewrite hget_hset, Hn. unfold upd.
    destruct (snext ss =? l') eqn:E; [apply N.eqb_eq in E; subst; split; [exact Fv | exists kv'; auto] | apply H].
  - intros l' Hl. cbn [alloc hp next] in *. rewrite hget_hset.
    destruct (next st =? l') eqn:E; [apply N.eqb_eq in E; lia | apply Hf; lia].
Qed.

Lemma R_operand : forall st ss o, R st ss -> eval_operand st o = s_operand ss o.
Proof.
  intros st ss o HR. destruct o as [v|x|x i|x i]; cbn [eval_operand s_operand].
  - reflexivity.
  - destruct HR as [_ [He [H _]]]. rewrite He. destruct (senv ss x) as [l|]; [|reflexivity].
    specialize (H l). unfold slook. destruct (hget (hp st) l) as [[xs|kv]|].
    + destruct H as [H1 _]. rewrite H1. reflexivity.
    + destruct H as [H1 [kv' [H2 _]]]. rewrite H1, H2. reflexivity.
    + destruct H as [H1 H2]. rewrite H1, H2. reflexivity.
  - rewrite (R_get_vec _ _ _ HR). destruct (s_vec ss x) as [[l xs]|]; cbn [bind snd]; [|reflexivity].
    apply index_get.
  - rewrite (R_get_vec _ _ _ HR). destruct (s_vec ss x) as [[l xs]|]; cbn [bind snd]; [|reflexivity].
    apply index_get.
Qed.

Lemma R_operands : forall st ss os, R st ss -> eval_operands st os = s_operands ss os.
Proof.
  intros st ss os HR. induction os as [|o os IH]; cbn [eval_operands s_operands]; [reflexivity|].
  rewrite (R_operand _ _ _ HR), IH. reflexivity.
Qed.

Lemma R_render : forall st ss v, R st ss -> render st v = s_render ss v.
Proof. intros st ss v HR. unfold render, s_render. rewrite (deep_ext _ _ (R_look _ _ HR)). reflexivity. Qed.

Lemma R_maplit : forall st ss kvs kv kv', R st ss -> msim kv kv' ->
  match s_maplit ss kv' kvs with
  | Ok r' => exists r, map_lit st kv kvs = Ok r /\ msim r r'
  | Fail e => map_lit st kv kvs = Fail e
  end.
Proof.
  intros st ss kvs. induction kvs as [|[k o] kvs IH]; intros kv kv' HR Hs; cbn [s_maplit map_lit].
  - exists kv. auto.
  - rewrite (R_operand _ _ _ HR). destruct (s_operand ss o) as [v|]; cbn [bind]; [|reflexivity].
    apply IH; [exact HR | apply msim_put; exact Hs].
Qed.

(* ---------------------------------------------------------------- one step *)

Definition pairf (lk : look) (p : key * val) : res oval :=
  do o <- deep depth_fuel lk (snd p); Ok (OList [key_oval (fst p); o]).

Lemma pairs_bind : forall A (k : list oval -> res A) lk kv,
  (do os <- deep_all lk (map snd kv); k (pair_ovals kv os)) = (do r <- mapM (pairf lk) kv; k r).
Proof.
  intros A k lk kv. unfold pairf. rewrite <- pairs_mapM. destruct (deep_all lk (map snd kv)); reflexivity.
Qed.

Lemma pairf_ext : forall lk1 lk2, (forall l, lk1 l = lk2 l) -> forall p, pairf lk1 p = pairf lk2 p.
Proof. intros lk1 lk2 H p. unfold pairf. rewrite (deep_ext _ _ H). reflexivity. Qed.

Lemma pairf_fail : forall lk p e, pairf lk p = Fail e -> undef e.
Proof.
  intros lk p e H. unfold pairf in H. destruct (deep depth_fuel lk (snd p)) eqn:E; cbn [bind] in H; [discriminate|].
  inversion H; subst. apply (deep_fail _ _ _ _ E).
Qed.

Definition sim_result (st : state) (c : cop) (r : res (sstate * list obs)) : Prop :=
  match r with
  | Ok (ss', os) => exists st' os', step false st c = Ok (st', os') /\ R st' ss' /\ Forall2 obs_eq os' os
  | Fail e => undef e \/ step false st c = Fail e
  end.

Lemma obs_eq_refl : forall o, obs_eq o o.
Proof. intros [o|b|l]; constructor. apply Permutation_refl. Qed.

Ltac done_ok := eexists; eexists; split; [reflexivity | split; [ | repeat constructor; try apply obs_eq_refl]].
Ltac same_fail := right; reflexivity.

Lemma step_sim : forall st ss c, R st ss -> sim_result st c (sstep ss c).
Proof.
  intros st ss c HR. unfold sim_result. destruct c; cbn [sstep step].
  - (* NewVec *)
    rewrite (R_operands _ _ _ HR). destruct (s_operands ss es) as [vs|e]; cbn [bind]; [|same_fail].
    done_ok. apply R_alloc_vec. exact HR.
  - (* Alias *)
    pose proof HR as [_ [He _]]. rewrite He. destruct (senv ss src) as [l|]; [|same_fail].
    rewrite <- (R_look _ _ HR l). unfold hlook. destruct (hget (hp st) l) as [[xs|kv]|]; [| |same_fail];
      (done_ok; apply R_bind; exact HR).
  - (* Push *)
    rewrite (R_get_vec _ _ _ HR), (R_operand _ _ _ HR).
    destruct (s_vec ss v) as [[l xs]|e] eqn:Ev; cbn [bind fst snd]; [|same_fail].
    destruct (s_operand ss x) as [y|e]; cbn [bind]; [|same_fail].
    done_ok. eapply R_upd_vec; [exact HR | apply (s_vec_inv _ _ _ _ Ev)].
  - (* Remove *)
    rewrite (R_get_vec _ _ _ HR).
    destruct (s_vec ss v) as [[l xs]|e] eqn:Ev; cbn [bind fst snd]; [|same_fail].
    unfold seq_get, in_range. destruct (in_i32 i) eqn:Hi; cbn [negb bind]; [|left; exact I].
    destruct (i <? 0)%Z eqn:Hn.
    { assert (E : (0 <=? i)%Z = false) by lia. rewrite E. cbn [andb bind]. same_fail. }
    assert (E : (0 <=? i)%Z = true) by lia. rewrite E. cbn [andb].
    destruct (i >=? Z.of_nat (length xs))%Z eqn:Hl.
    { assert (E2 : (i <? Z.of_nat (length xs))%Z = false) by lia. rewrite E2. cbn [bind]. same_fail. }
    assert (E2 : (i <? Z.of_nat (length xs))%Z = true) by lia. rewrite E2. cbn [bind].
    assert (Hlt : (Z.to_nat i < length xs)%nat) by lia.
    unfold vec_at. rewrite (nth_error_nth_lt _ _ Hlt). cbn [bind]. rewrite (R_render _ _ _ HR).
    destruct (s_render ss (nth (Z.to_nat i) xs VNil)) as [o|e]; cbn [bind]; [|same_fail].
    done_ok. rewrite vec_remove_at_spec by exact Hlt. eapply R_upd_vec; [exact HR | apply (s_vec_inv _ _ _ _ Ev)].
  - (* IndexRead *)
    rewrite (R_get_vec _ _ _ HR).
    destruct (s_vec ss v) as [[l xs]|e] eqn:Ev; cbn [bind fst snd]; [|same_fail].
    rewrite bind_index. destruct (seq_get xs i) as [x|e]; cbn [bind]; [|same_fail].
    rewrite (R_render _ _ _ HR). destruct (s_render ss x) as [o|e]; cbn [bind]; [|same_fail].
    done_ok. exact HR.
  - (* IndexWrite *)
    rewrite (R_operand _ _ _ HR). destruct (s_operand ss x) as [y|e]; cbn [bind]; [|same_fail].
    rewrite (R_get_vec _ _ _ HR).
    destruct (s_vec ss v) as [[l xs]|e] eqn:Ev; cbn [bind fst snd]; [|same_fail].
    unfold seq_get.
    destruct (vec_index_cases xs i) as [[Hi E] | [[Hi [Hr E]] | [Hi [Hr [E Hl]]]]]; rewrite E, Hi; cbn [negb bind].
    + left; exact I.
    + rewrite Hr. cbn [bind]. same_fail.
    + rewrite Hr. cbn [bind]. done_ok. rewrite vec_set_at_spec by exact Hl.
      eapply R_upd_vec; [exact HR | apply (s_vec_inv _ _ _ _ Ev)].
  - (* OpAssign *)
    rewrite (R_get_vec _ _ _ HR).
    destruct (s_vec ss v) as [[l xs]|e] eqn:Ev; cbn [bind fst snd]; [|same_fail].
    unfold seq_get.
    destruct (vec_index_cases xs i) as [[Hi E] | [[Hi [Hr E]] | [Hi [Hr [E Hl]]]]]; rewrite E, Hi; cbn [negb bind].
    + left; exact I.
    + rewrite Hr. cbn [bind]. same_fail.
    + rewrite Hr. cbn [bind]. unfold vec_at. rewrite (nth_error_nth_lt _ _ Hl). cbn [bind].
      destruct (binop_apply op (nth (Z.to_nat i) xs VNil) x) as [y|e]; cbn [bind]; [|same_fail].
      done_ok. rewrite vec_set_at_spec by exact Hl.
      eapply R_upd_vec; [exact HR | apply (s_vec_inv _ _ _ _ Ev)].
  - (* Reverse *)
    rewrite (R_get_vec _ _ _ HR).
    destruct (s_vec ss v) as [[l xs]|e] eqn:Ev; cbn [bind fst snd]; [|same_fail].
    done_ok. rewrite <- rev_alt. eapply R_upd_vec; [exact HR | apply (s_vec_inv _ _ _ _ Ev)].
  - (* Join *)
    rewrite !(R_get_vec _ _ _ HR).
    destruct (s_vec ss a) as [[la xs]|e] eqn:Ea; cbn [bind fst snd]; [|same_fail].
    destruct (s_vec ss b) as [[lb ys]|e] eqn:Eb; cbn [bind fst snd]; [|same_fail].
    done_ok. apply R_bind. eapply R_upd_vec; [exact HR | apply (s_vec_inv _ _ _ _ Ea)].
  - (* Clear *)
    rewrite (R_get_vec _ _ _ HR).
    destruct (s_vec ss v) as [[l xs]|e] eqn:Ev; cbn [bind fst snd]; [|same_fail].
    done_ok. eapply R_upd_vec; [exact HR | apply (s_vec_inv _ _ _ _ Ev)].
  - (* Clone *)
    rewrite (R_get_vec _ _ _ HR).
    destruct (s_vec ss src) as [[l xs]|e] eqn:Ev; cbn [bind fst snd]; [|same_fail].
    done_ok. apply R_alloc_vec. exact HR.
  - (* MapF *)
    rewrite (R_get_vec _ _ _ HR).
    destruct (s_vec ss src) as [[l xs]|e] eqn:Ev; cbn [bind fst snd]; [|same_fail].
    rewrite vec_map_spec, (seq_map_ext _ _ (R_look _ _ HR)).
    destruct (seq_map (slook ss) f xs) as [ys|e]; cbn [bind]; [|same_fail].
    done_ok. apply R_alloc_vec. exact HR.
  - (* MapElem *)
    rewrite (R_get_vec _ _ _ HR).
    destruct (s_vec ss src) as [[l xs]|e] eqn:Ev; cbn [bind fst snd]; [|same_fail].
    rewrite vec_map_spec, (seq_map_ext _ _ (R_look _ _ HR)), (R_operand _ _ (OElem w i) HR).
    destruct (seq_map (slook ss) (FConst (s_operand ss (OElem w i))) xs) as [ys|e]; cbn [bind]; [|same_fail].
    done_ok. apply R_alloc_vec. exact HR.
  - (* MapKeyElem *)
    rewrite (R_get_vec _ _ _ HR).
    destruct (s_vec ss src) as [[l xs]|e] eqn:Ev; cbn [bind fst snd]; [|same_fail].
    rewrite vec_map_spec, (seq_map_ext _ _ (R_look _ _ HR)).
    assert (Hr : (do lkv <- get_map st m; Ok (opt_val (mget (snd lkv) k))) =
                 (do lkv <- s_map ss m; Ok (opt_val (mget (snd lkv) k)))).
    { pose proof (R_get_map st ss m HR) as Hm. destruct (s_map ss m) as [[lm kv']|e]; [|rewrite Hm; reflexivity].
      destruct Hm as [kv [E [[_ [_ Hg]] _]]]. rewrite E. cbn [bind snd]. rewrite Hg. reflexivity. }
    rewrite Hr.
    destruct (seq_map (slook ss) (FConst (do lkv <- s_map ss m; Ok (opt_val (mget (snd lkv) k)))) xs) as [ys|e]; cbn [bind]; [|same_fail].
    done_ok. apply R_alloc_vec. exact HR.
  - (* FilterF *)
    rewrite (R_get_vec _ _ _ HR).
    destruct (s_vec ss src) as [[l xs]|e] eqn:Ev; cbn [bind fst snd]; [|same_fail].
    rewrite vec_filter_spec, (seq_filter_ext _ _ (R_look _ _ HR)).
    destruct (seq_filter (slook ss) p xs) as [ys|e]; cbn [bind]; [|same_fail].
    done_ok. apply R_alloc_vec. exact HR.
  - (* IndexOf *)
    rewrite (R_get_vec _ _ _ HR), (R_operand _ _ _ HR).
    destruct (s_vec ss v) as [[l xs]|e] eqn:Ev; cbn [bind fst snd]; [|same_fail].
    destruct (s_operand ss x) as [y|e]; cbn [bind]; [|same_fail].
    rewrite (find_from_ext _ _ (R_look _ _ HR)).
    destruct (seq_index_of (slook ss) xs y) as [r|e] eqn:E; cbn [bind].
    + rewrite (find_from_spec _ _ _ _ E 0%nat). cbn [bind].
      destruct r as [n|]; cbn [option_map Nat.add]; (done_ok; exact HR).
    + left. apply (seq_index_of_fail _ _ _ _ E).
  - (* Len *)
    rewrite (R_get_vec _ _ _ HR).
    destruct (s_vec ss v) as [[l xs]|e] eqn:Ev; cbn [bind fst snd]; [|same_fail].
    done_ok. exact HR.
  - (* Eq *)
    rewrite !(R_get_vec _ _ _ HR).
    destruct (s_vec ss a) as [[la xs]|e] eqn:Ea; cbn [bind fst snd]; [|same_fail].
    destruct (s_vec ss b) as [[lb ys]|e] eqn:Eb; cbn [bind fst snd]; [|same_fail].
    rewrite (veq_ext _ _ (R_look _ _ HR)).
    destruct (deep (S depth_fuel) (slook ss) (VRef la)) as [x|e] eqn:Dx; cbn [bind]; [|left; apply (deep_fail _ _ _ _ Dx)].
    destruct (deep (S depth_fuel) (slook ss) (VRef lb)) as [y|e] eqn:Dy; cbn [bind]; [|left; apply (deep_fail _ _ _ _ Dy)].
    rewrite (veq_deep _ _ _ _ _ _ Dx Dy). cbn [bind]. done_ok. exact HR.
  - (* Print *)
    rewrite (R_get_vec _ _ _ HR).
    destruct (s_vec ss v) as [[l xs]|e] eqn:Ev; cbn [bind fst snd]; [|same_fail].
    rewrite (R_render _ _ _ HR). destruct (s_render ss (VRef l)) as [o|e]; cbn [bind]; [|same_fail].
    done_ok. exact HR.
  - (* Concat *)
    rewrite (R_get_vec _ _ _ HR).
    destruct (s_vec ss v) as [[l xs]|e] eqn:Ev; cbn [bind fst snd]; [|same_fail].
    rewrite bind_index. destruct (seq_get xs i) as [x|e]; cbn [bind]; [|same_fail].
    destruct (show_scalar x) as [sx|e]; cbn [bind]; [|same_fail].
    rewrite bind_index. destruct (seq_get xs j) as [y|e]; cbn [bind]; [|same_fail].
    destruct (show_scalar y) as [sy|e]; cbn [bind]; [|same_fail].
    done_ok. exact HR.
  - (* MapLit *)
    pose proof (R_maplit st ss kvs [] [] HR msim_refl_nil) as H.
    destruct (s_maplit ss [] kvs) as [r'|e]; cbn [bind].
    + destruct H as [r [E Hs]]. rewrite E. cbn [bind]. done_ok. apply R_alloc_map; assumption.
    + rewrite H. same_fail.
  - (* MapGet *)
    pose proof (R_get_map st ss m HR) as Hm.
    destruct (s_map ss m) as [[l kv']|e]; cbn [bind fst snd]; [|rewrite Hm; same_fail].
    destruct Hm as [kv [E [Hs Hmm]]]. rewrite E. cbn [bind fst snd].
    destruct Hs as [N1 [N2 Hg]]. rewrite Hg, (R_render _ _ _ HR).
    destruct (s_render ss (opt_val (mget kv' k))) as [o|e]; cbn [bind]; [|same_fail].
    done_ok. exact HR.
  - (* MapSet *)
    rewrite (R_operand _ _ _ HR). destruct (s_operand ss x) as [y|e]; cbn [bind]; [|same_fail].
    pose proof (R_get_map st ss m HR) as Hm.
    destruct (s_map ss m) as [[l kv']|e]; cbn [bind fst snd]; [|rewrite Hm; same_fail].
    destruct Hm as [kv [E [Hs Hmm]]]. rewrite E. cbn [bind fst snd].
    done_ok. eapply R_upd_map; [exact HR | exact Hmm | apply msim_put; exact Hs].
  - (* MapOpAssign *)
    pose proof (R_get_map st ss m HR) as Hm.
    destruct (s_map ss m) as [[l kv']|e]; cbn [bind fst snd]; [|rewrite Hm; same_fail].
    destruct Hm as [kv [E [Hs Hmm]]]. rewrite E. cbn [bind fst snd].
    pose proof Hs as [N1 [N2 Hg]]. rewrite Hg.
    destruct (binop_apply op (opt_val (mget kv' k)) x) as [y|e]; cbn [bind]; [|same_fail].
    done_ok. eapply R_upd_map; [exact HR | exact Hmm | apply msim_put; exact Hs].
  - (* Replace *)
    pose proof (R_get_map st ss m HR) as Hm.
    destruct (s_map ss m) as [[l kv']|e]; cbn [bind fst snd]; [|rewrite Hm; same_fail].
    destruct Hm as [kv [E [Hs Hmm]]]. rewrite E. cbn [bind fst snd].
    rewrite (R_operand _ _ _ HR). destruct (s_operand ss x) as [y|e]; cbn [bind]; [|same_fail].
    pose proof Hs as [N1 [N2 Hg]]. rewrite Hg, (R_render _ _ _ HR).
    destruct (s_render ss (opt_val (mget kv' k))) as [o|e]; cbn [bind]; [|same_fail].
    done_ok. eapply R_upd_map; [exact HR | exact Hmm | apply msim_put; exact Hs].
  - (* MapRemove *)
    pose proof (R_get_map st ss m HR) as Hm.
    destruct (s_map ss m) as [[l kv']|e]; cbn [bind fst snd]; [|rewrite Hm; same_fail].
    destruct Hm as [kv [E [Hs Hmm]]]. rewrite E. cbn [bind fst snd].
    pose proof Hs as [N1 [N2 Hg]]. rewrite Hg, (R_render _ _ _ HR).
    destruct (s_render ss (opt_val (mget kv' k))) as [o|e]; cbn [bind]; [|same_fail].
    done_ok. eapply R_upd_map; [exact HR | exact Hmm | apply msim_del; exact Hs].
  - (* ContainsKey *)
    pose proof (R_get_map st ss m HR) as Hm.
    destruct (s_map ss m) as [[l kv']|e]; cbn [bind fst snd]; [|rewrite Hm; same_fail].
    destruct Hm as [kv [E [Hs Hmm]]]. rewrite E. cbn [bind fst snd].
    pose proof Hs as [N1 [N2 Hg]]. rewrite fm_has_mget, <- Hg. done_ok. exact HR.
  - (* MapLen *)
    pose proof (R_get_map st ss m HR) as Hm.
    destruct (s_map ss m) as [[l kv']|e]; cbn [bind fst snd]; [|rewrite Hm; same_fail].
    destruct Hm as [kv [E [Hs Hmm]]]. rewrite E. cbn [bind fst snd].
    rewrite (Permutation_length (msim_perm _ _ Hs)). done_ok. exact HR.
  - (* Keys *)
    pose proof (R_get_map st ss m HR) as Hm.
    destruct (s_map ss m) as [[l kv']|e]; cbn [bind fst snd]; [|rewrite Hm; same_fail].
    destruct Hm as [kv [E [Hs Hmm]]]. rewrite E. cbn [bind fst snd].
    eexists; eexists; split; [reflexivity | split; [exact HR|]].
    constructor; [|constructor]. constructor. apply Permutation_map. apply msim_perm. exact Hs.
  - (* Values *)
    pose proof (R_get_map st ss m HR) as Hm.
    destruct (s_map ss m) as [[l kv']|e]; cbn [bind fst snd]; [|rewrite Hm; same_fail].
    destruct Hm as [kv [E [Hs Hmm]]]. rewrite E. cbn [bind fst snd].
    unfold render_all. rewrite (deep_all_ext _ _ (R_look _ _ HR)), !deep_all_mapM.
    destruct (mapM (deep depth_fuel (slook ss)) (map snd kv')) as [os'|e] eqn:Ev; cbn [bind].
    + destruct (mapM_perm _ _ _ _ _ (Permutation_map snd (msim_perm _ _ Hs)) _ Ev) as [os [E2 P2]].
      rewrite E2. cbn [bind]. eexists; eexists; split; [reflexivity | split; [exact HR|]].
      constructor; [|constructor]. constructor. exact P2.
    + left. destruct (mapM_fail _ _ _ _ _ Ev) as [x [_ Hx]]. apply (deep_fail _ _ _ _ Hx).
  - (* Pairs *)
    pose proof (R_get_map st ss m HR) as Hm.
    destruct (s_map ss m) as [[l kv']|e]; cbn [bind fst snd]; [|rewrite Hm; same_fail].
    destruct Hm as [kv [E [Hs Hmm]]]. rewrite E. cbn [bind fst snd].
    unfold render_all. rewrite (pairs_bind _ (fun r => Ok (st, [ObsBag r]))), (pairs_bind _ (fun r => Ok (ss, [ObsBag r]))).
    rewrite (mapM_ext _ _ _ _ kv (pairf_ext _ _ (R_look _ _ HR))).
    destruct (mapM (pairf (slook ss)) kv') as [os'|e] eqn:Ev; cbn [bind].
    + destruct (mapM_perm _ _ _ _ _ (msim_perm _ _ Hs) _ Ev) as [os [E2 P2]].
      rewrite E2. cbn [bind]. eexists; eexists; split; [reflexivity | split; [exact HR|]].
      constructor; [|constructor]. constructor. exact P2.
    + left. destruct (mapM_fail _ _ _ _ _ Ev) as [x [_ Hx]]. apply (pairf_fail _ _ _ Hx).
  - (* MapClear *)
    pose proof (R_get_map st ss m HR) as Hm.
    destruct (s_map ss m) as [[l kv']|e]; cbn [bind fst snd]; [|rewrite Hm; same_fail].
    destruct Hm as [kv [E [Hs Hmm]]]. rewrite E. cbn [bind fst snd].
    done_ok. eapply R_upd_map; [exact HR | exact Hmm | apply msim_refl_nil].
  - (* MapClone *)
    pose proof (R_get_map st ss src HR) as Hm.
    destruct (s_map ss src) as [[l kv']|e]; cbn [bind fst snd]; [|rewrite Hm; same_fail].
    destruct Hm as [kv [E [Hs Hmm]]]. rewrite E. cbn [bind fst snd].
    done_ok. apply R_alloc_map; assumption.
Qed.

(* ---------------------------------------------------------------- all histories *)

Lemma run_sim : forall h st ss os f, R st ss -> srun_from ss h = (os, f) -> defined f ->
  exists os', run_from false st h = (os', f) /\ Forall2 obs_eq os' os.
Proof.
  induction h as [|c h IH]; intros st ss os f HR Hs Hd; cbn [srun_from run_from] in *.
  - inversion Hs; subst. exists []. split; [reflexivity | constructor].
  - pose proof (step_sim st ss c HR) as Hc. unfold sim_result in Hc.
    destruct (sstep ss c) as [[ss' o]|e].
    + destruct Hc as [st' [o' [E [HR' Ho]]]]. rewrite E.
      destruct (srun_from ss' h) as [os1 f1] eqn:Er. inversion Hs; subst.
      destruct (IH st' ss' os1 f HR' Er Hd) as [os1' [E1 F1]]. rewrite E1.
      exists (o' ++ os1'). split; [reflexivity | apply Forall2_app; assumption].
    + inversion Hs; subst. destruct Hc as [Hu|E].
      * destruct e; cbn in Hu, Hd; contradiction.
      * rewrite E. exists []. split; [reflexivity | constructor].
Qed.

(* THE theorem: for every history on which the specification is defined (well-typed, nesting within the
   rendering fuel, op= within i32), the impl-model produces the same observations - keys / values / pairs as
   bags - and ends the same way: to the end, or stopped by a failure at the same operation. *)
Theorem containers_refine : forall h, defined (snd (spec_run h)) -> refines (run false h) (spec_run h).
Proof.
  intros h Hd. unfold spec_run, run in *. destruct (srun_from ss0 h) as [os f] eqn:E. cbn [snd] in Hd.
  destruct (run_sim h st0 ss0 os f R0 E Hd) as [os' [E' F]]. rewrite E'. split; [exact F | reflexivity].
Qed.

(* ---------------------------------------------------------------- out of range: a failure, never a value *)

Lemma vec_index_out : forall xs i, in_i32 i = true -> in_range xs i = false -> vec_index xs i = Fail Err.
Proof.
  intros xs i Hi Hr. destruct (vec_index_cases xs i) as [[Hi' _] | [[_ [_ E]] | [_ [Hr' _]]]]; congruence.
Qed.

Theorem out_of_range_fails : forall legacy st v l xs i,
  get_vec st v = Ok (l, xs) -> in_i32 i = true -> in_range xs i = false ->
  step legacy st (IndexRead v i) = Fail Err /\
  (forall op y, step legacy st (OpAssign v i op y) = Fail Err) /\
  (forall x, exists f, step legacy st (IndexWrite v i x) = Fail f) /\
  (forall j, step legacy st (Concat v i j) = Fail Err) /\
  (forall dst, step legacy st (NewVec dst [OElem v i]) = Fail Err) /\
  step legacy st (Remove v i) = Fail (if legacy && (0 <=? i)%Z then Panic else Err).
Proof.
  intros legacy st v l xs i Hg Hi Hr. pose proof (vec_index_out xs i Hi Hr) as E.
  repeat split; try intros; cbn [step eval_operands eval_operand]; rewrite ?Hg; cbn [bind fst snd]; rewrite ?E; try reflexivity.
  - destruct (eval_operand st x) as [y|f]; cbn [bind]; eexists; reflexivity.
  - rewrite Hi. cbn [negb]. unfold in_range in Hr.
    destruct (i <? 0)%Z eqn:Hn.
    + assert (H0 : (0 <=? i)%Z = false) by lia. rewrite H0, andb_false_r. reflexivity.
    + assert (H0 : (0 <=? i)%Z = true) by lia. rewrite H0 in *. cbn [andb] in Hr.
      assert (H1 : (i >=? Z.of_nat (length xs))%Z = true) by lia. rewrite H1, andb_true_r.
      destruct legacy; reflexivity.
Qed.

(* ---------------------------------------------------------------- aliases *)

Definition sv (a b x : var) : var := if x =? a then b else x.

Definition so (a b : var) (o : operand) : operand :=
  match o with
  | OLit v => OLit v
  | OVar x => OVar (sv a b x)
  | OElem x i => OElem (sv a b x) i
  | OCall x i => OCall (sv a b x) i
  end.

(* every USE of variable a replaced by b (binding occurrences stay) *)
Definition subst_uses (a b : var) (c : cop) : cop :=
  match c with
  | NewVec dst es => NewVec dst (map (so a b) es)
  | Alias dst src => Alias dst (sv a b src)
  | Push v x => Push (sv a b v) (so a b x)
  | Remove v i => Remove (sv a b v) i
  | IndexRead v i => IndexRead (sv a b v) i
  | IndexWrite v i x => IndexWrite (sv a b v) i (so a b x)
  | OpAssign v i op x => OpAssign (sv a b v) i op x
  | Reverse v => Reverse (sv a b v)
  | Join dst x y => Join dst (sv a b x) (sv a b y)
  | Clear v => Clear (sv a b v)
  | Clone dst src => Clone dst (sv a b src)
  | MapF dst src f => MapF dst (sv a b src) f
  | MapElem dst src w i => MapElem dst (sv a b src) (sv a b w) i
  | MapKeyElem dst src m k => MapKeyElem dst (sv a b src) (sv a b m) k
  | FilterF dst src p => FilterF dst (sv a b src) p
  | IndexOf v x => IndexOf (sv a b v) (so a b x)
  | Len v => Len (sv a b v)
  | Eq x y => Eq (sv a b x) (sv a b y)
  | Print v => Print (sv a b v)
  | Concat v i j => Concat (sv a b v) i j
  | MapLit dst kvs => MapLit dst (map (fun p => (fst p, so a b (snd p))) kvs)
  | MapGet m k => MapGet (sv a b m) k
  | MapSet m k x => MapSet (sv a b m) k (so a b x)
  | MapOpAssign m k op x => MapOpAssign (sv a b m) k op x
  | Replace m k x => Replace (sv a b m) k (so a b x)
  | MapRemove m k => MapRemove (sv a b m) k
  | ContainsKey m k => ContainsKey (sv a b m) k
  | MapLen m => MapLen (sv a b m)
  | Keys m => Keys (sv a b m)
  | Values m => Values (sv a b m)
  | Pairs m => Pairs (sv a b m)
  | MapClear m => MapClear (sv a b m)
  | MapClone dst src => MapClone dst (sv a b src)
  end.

Section Alias.
  Variables (st : state) (a b : var).
  Hypothesis Hab : eget (env st) a = eget (env st) b.

  Lemma eget_sv : forall x, eget (env st) (sv a b x) = eget (env st) x.
  Proof. intro x. unfold sv. destruct (x =? a) eqn:E; [apply N.eqb_eq in E; subst; symmetry; exact Hab | reflexivity]. Qed.

  Lemma get_vec_sv : forall x, get_vec st (sv a b x) = get_vec st x.
  Proof. intro x. unfold get_vec. rewrite eget_sv. reflexivity. Qed.

  Lemma get_map_sv : forall x, get_map st (sv a b x) = get_map st x.
  Proof. intro x. unfold get_map. rewrite eget_sv. reflexivity. Qed.

  Lemma operand_so : forall o, eval_operand st (so a b o) = eval_operand st o.
  Proof. intros [v|x|x i|x i]; cbn [so eval_operand]; rewrite ?eget_sv, ?get_vec_sv; reflexivity. Qed.

  Lemma elem_sv : forall w i, eval_operand st (OElem (sv a b w) i) = eval_operand st (OElem w i).
  Proof. intros w i. exact (operand_so (OElem w i)). Qed.

  Lemma operands_so : forall os, eval_operands st (map (so a b) os) = eval_operands st os.
  Proof. induction os as [|o os IH]; cbn [map eval_operands]; [reflexivity|]. rewrite operand_so, IH. reflexivity. Qed.

  Lemma map_lit_so : forall kvs kv, map_lit st kv (map (fun p => (fst p, so a b (snd p))) kvs) = map_lit st kv kvs.
  Proof.
    induction kvs as [|[k o] kvs IH]; intro kv; cbn [map map_lit fst snd]; [reflexivity|].
    rewrite operand_so. destruct (eval_operand st o); cbn [bind]; [apply IH | reflexivity].
  Qed.

  (* every alias sees every update and makes every update: an operation cannot tell which of two names of
     the same container it was given *)
  Theorem alias_indistinguishable : forall legacy c, step legacy st (subst_uses a b c) = step legacy st c.
  Proof.
    intros legacy c. destruct c; cbn [subst_uses step];
      rewrite ?operands_so, ?operand_so, ?elem_sv, ?get_vec_sv, ?get_map_sv, ?eget_sv, ?map_lit_so; reflexivity.
  Qed.
End Alias.

Theorem alias_binds_same_container : forall legacy st dst src st' os,
  step legacy st (Alias dst src) = Ok (st', os) ->
  eget (env st') dst = eget (env st') src /\ hp st' = hp st /\ os = [].
Proof.
  intros legacy st dst src st' os H. cbn [step] in H.
  destruct (eget (env st) src) as [l|] eqn:E; [|discriminate].
  destruct (hget (hp st) l); [|discriminate]. inversion H; subst.
  split; [|split; reflexivity]. cbn [bind_var env eget]. rewrite N.eqb_refl.
  destruct (dst =? src) eqn:E2; [reflexivity | symmetry; exact E].
Qed.

(* ---------------------------------------------------------------- what an operation writes *)

(* the one existing container an operation mutates: its receiver *)
Definition target (st : state) (c : cop) : option loc :=
  match c with
  | Push v _ | Remove v _ | IndexWrite v _ _ | OpAssign v _ _ _ | Reverse v | Clear v | Join _ v _
  | MapSet v _ _ | MapOpAssign v _ _ _ | Replace v _ _ | MapRemove v _ | MapClear v => eget (env st) v
  | _ => None
  end.

Lemma get_vec_inv : forall st x l xs, get_vec st x = Ok (l, xs) ->
  eget (env st) x = Some l /\ hget (hp st) l = Some (CVec xs).
Proof.
  intros st x l xs H. unfold get_vec in H. destruct (eget (env st) x) as [l'|]; [|discriminate].
  destruct (hget (hp st) l') as [[xs'|kv]|] eqn:E; try discriminate. inversion H; subst. auto.
Qed.

Lemma get_map_inv : forall st x l kv, get_map st x = Ok (l, kv) ->
  eget (env st) x = Some l /\ hget (hp st) l = Some (CMap kv).
Proof.
  intros st x l kv H. unfold get_map in H. destruct (eget (env st) x) as [l'|]; [|discriminate].
  destruct (hget (hp st) l') as [[xs'|kv']|] eqn:E; try discriminate. inversion H; subst. auto.
Qed.

Ltac bind_inv H :=
  repeat match type of H with
  | bind ?r _ = Ok _ => let E := fresh "E" in destruct r as [[? ?]|] eqn:E; cbn [bind fst snd] in H; [|discriminate]
  | bind ?r _ = Ok _ => let E := fresh "E" in destruct r eqn:E; cbn [bind fst snd] in H; [|discriminate]
  | (if ?b then _ else _) = Ok _ => destruct b; try discriminate
  end.

(* an operation (fixed behaviour) changes the heap only at its receiver or at a freshly allocated location *)
Lemma step_frame : forall st c st' os, step false st c = Ok (st', os) ->
  forall l, l <> next st -> target st c <> Some l -> hget (hp st') l = hget (hp st) l.
Proof.
  intros st c st' os H l Hn Ht. destruct c; cbn [step target] in *; bind_inv H;
    repeat (match goal with E : get_vec _ _ = Ok _ |- _ => apply get_vec_inv in E; destruct E as [?Ee ?Eh] end);
    repeat (match goal with E : get_map _ _ = Ok _ |- _ => apply get_map_inv in E; destruct E as [?Ee ?Eh] end);
    try (inversion H; subst; clear H;
         cbn [alloc upd_vec upd_map set_hp bind_var hp]; try reflexivity;
         rewrite hget_hset;
         match goal with |- context [?a =? l] => destruct (a =? l) eqn:Eq; [apply N.eqb_eq in Eq; subst; congruence | reflexivity] end).
  - (* Alias *) destruct (eget (env st) src); [|discriminate]. destruct (hget (hp st) l0); [|discriminate].
    inversion H; subst. reflexivity.
Qed.

(* ---------------------------------------------------------------- clone independence *)

Definition wf (st : state) : Prop := forall l, next st <= l -> hget (hp st) l = None.

Lemma wf0 : wf st0.
Proof. intros l _. reflexivity. Qed.

Lemma wf_lt : forall st l c, wf st -> hget (hp st) l = Some c -> l < next st.
Proof.
  intros st l c H Hg. destruct (N.ltb_spec l (next st)) as [Hl|Hl]; [exact Hl|]. rewrite (H l Hl) in Hg. discriminate.
Qed.

Lemma wf_alloc : forall st x c, wf st -> wf (alloc st x c).
Proof.
  intros st x c H l Hl. cbn [alloc hp next] in *. rewrite hget_hset.
  destruct (next st =? l) eqn:E; [apply N.eqb_eq in E; lia | apply H; lia].
Qed.

Lemma wf_upd_vec : forall st l xs c, wf st -> hget (hp st) l = Some c -> wf (upd_vec st l xs).
Proof.
  intros st l xs c H Hg l' Hl. cbn [upd_vec set_hp hp next] in *. rewrite hget_hset.
  pose proof (wf_lt _ _ _ H Hg). destruct (l =? l') eqn:E; [apply N.eqb_eq in E; lia | apply H; exact Hl].
Qed.

Lemma wf_upd_map : forall st l kv c, wf st -> hget (hp st) l = Some c -> wf (upd_map st l kv).
Proof.
  intros st l kv c H Hg l' Hl. cbn [upd_map set_hp hp next] in *. rewrite hget_hset.
  pose proof (wf_lt _ _ _ H Hg). destruct (l =? l') eqn:E; [apply N.eqb_eq in E; lia | apply H; exact Hl].
Qed.

Lemma wf_bind : forall st x l, wf st -> wf (bind_var st x l).
Proof. intros st x l H. exact H. Qed.

Lemma step_wf : forall st c st' os, wf st -> step false st c = Ok (st', os) -> wf st' /\ next st <= next st'.
Proof.
  intros st c st' os Hw H. destruct c; cbn [step] in *; bind_inv H;
    repeat (match goal with E : get_vec _ _ = Ok _ |- _ => apply get_vec_inv in E; destruct E as [?Ee ?Eh] end);
    repeat (match goal with E : get_map _ _ = Ok _ |- _ => apply get_map_inv in E; destruct E as [?Ee ?Eh] end);
    try (inversion H; subst; clear H; split; [| cbn [alloc upd_vec upd_map set_hp bind_var next]; lia];
         eauto using wf_alloc, wf_upd_vec, wf_upd_map, wf_bind).
  - (* Alias *) destruct (eget (env st) src); [|discriminate]. destruct (hget (hp st) l); [|discriminate].
    inversion H; subst. split; [apply wf_bind; exact Hw | cbn [bind_var next]; lia].
Qed.

(* the states a history passes through *)
Fixpoint exec (st : state) (h : list cop) : option state :=
  match h with
  | [] => Some st
  | c :: h => match step false st c with Ok (st', _) => exec st' h | Fail _ => None end
  end.

(* no operation of the history is applied to the container at location l *)
Fixpoint untouched (l : loc) (st : state) (h : list cop) : Prop :=
  match h with
  | [] => True
  | c :: h => target st c <> Some l /\ forall st' os, step false st c = Ok (st', os) -> untouched l st' h
  end.

Lemma frame : forall h st st' l, wf st -> l < next st -> untouched l st h -> exec st h = Some st' ->
  hget (hp st') l = hget (hp st) l.
Proof.
  induction h as [|c h IH]; intros st st' l Hw Hl Hu He; cbn [exec untouched] in *.
  - inversion He. reflexivity.
  - destruct (step false st c) as [[st1 os]|] eqn:Es; [|discriminate]. destruct Hu as [Ht Hu].
    destruct (step_wf _ _ _ _ Hw Es) as [Hw1 Hn].
    rewrite (IH st1 st' l Hw1 ltac:(lia) (Hu _ _ eq_refl) He).
    apply (step_frame _ _ _ _ Es); [lia | exact Ht].
Qed.

(* a clone is a NEW container with the contents its original has at that moment; whatever is done afterwards
   to the original (through any of its names) leaves the clone as it is, and vice versa *)
Theorem clone_independent : forall st a c st1 o1, wf st -> step false st (Clone c a) = Ok (st1, o1) ->
  exists la xs,
    get_vec st a = Ok (la, xs) /\ eget (env st1) c = Some (next st) /\ la <> next st /\
    hget (hp st1) (next st) = Some (CVec xs) /\ hget (hp st1) la = Some (CVec xs) /\
    (forall h st2, untouched (next st) st1 h -> exec st1 h = Some st2 -> hget (hp st2) (next st) = Some (CVec xs)) /\
    (forall h st2, untouched la st1 h -> exec st1 h = Some st2 -> hget (hp st2) la = Some (CVec xs)).
Proof.
  intros st a c st1 o1 Hw H. pose proof (step_wf _ _ _ _ Hw H) as [Hw1 _]. cbn [step] in H.
  destruct (get_vec st a) as [[la xs]|] eqn:E; cbn [bind snd] in H; [|discriminate]. inversion H; subst; clear H.
  destruct (get_vec_inv _ _ _ _ E) as [Ee Eh]. pose proof (wf_lt _ _ _ Hw Eh) as Hlt.
  exists la, xs. split; [reflexivity|]. split; [cbn [alloc env eget]; rewrite N.eqb_refl; reflexivity|].
  split; [lia|].
  assert (H1 : hget (hp (alloc st c (CVec xs))) (next st) = Some (CVec xs)).
  { cbn [alloc hp]. rewrite hget_hset, N.eqb_refl. reflexivity. }
  assert (H2 : hget (hp (alloc st c (CVec xs))) la = Some (CVec xs)).
  { cbn [alloc hp]. rewrite hget_hset. destruct (next st =? la) eqn:E2; [apply N.eqb_eq in E2; lia | exact Eh]. }
  split; [exact H1|]. split; [exact H2|]. split; intros h st2 Hu He.
  - rewrite (frame h _ st2 (next st) Hw1 ltac:(cbn [alloc next]; lia) Hu He). exact H1.
  - rewrite (frame h _ st2 la Hw1 ltac:(cbn [alloc next]; lia) Hu He). exact H2.
Qed.

(* the same for maps: `m.clone()` is a new map with the entries its original has at that moment *)
Theorem map_clone_independent : forall st a c st1 o1, wf st -> step false st (MapClone c a) = Ok (st1, o1) ->
  exists la kv,
    get_map st a = Ok (la, kv) /\ eget (env st1) c = Some (next st) /\ la <> next st /\
    hget (hp st1) (next st) = Some (CMap kv) /\ hget (hp st1) la = Some (CMap kv) /\
    (forall h st2, untouched (next st) st1 h -> exec st1 h = Some st2 -> hget (hp st2) (next st) = Some (CMap kv)) /\
    (forall h st2, untouched la st1 h -> exec st1 h = Some st2 -> hget (hp st2) la = Some (CMap kv)).
Proof.
  intros st a c st1 o1 Hw H. pose proof (step_wf _ _ _ _ Hw H) as [Hw1 _]. cbn [step] in H.
  destruct (get_map st a) as [[la kv]|] eqn:E; cbn [bind snd] in H; [|discriminate]. inversion H; subst; clear H.
  destruct (get_map_inv _ _ _ _ E) as [Ee Eh]. pose proof (wf_lt _ _ _ Hw Eh) as Hlt.
  exists la, kv. split; [reflexivity|]. split; [cbn [alloc env eget]; rewrite N.eqb_refl; reflexivity|].
  split; [lia|].
  assert (H1 : hget (hp (alloc st c (CMap kv))) (next st) = Some (CMap kv)).
  { cbn [alloc hp]. rewrite hget_hset, N.eqb_refl. reflexivity. }
  assert (H2 : hget (hp (alloc st c (CMap kv))) la = Some (CMap kv)).
  { cbn [alloc hp]. rewrite hget_hset. destruct (next st =? la) eqn:E2; [apply N.eqb_eq in E2; lia | exact Eh]. }
  split; [exact H1|]. split; [exact H2|]. split; intros h st2 Hu He.
  - rewrite (frame h _ st2 (next st) Hw1 ltac:(cbn [alloc next]; lia) Hu He). exact H1.
  - rewrite (frame h _ st2 la Hw1 ltac:(cbn [alloc next]; lia) Hu He). exact H2.
Qed.

(* ---------------------------------------------------------------- the behaviour before the fixes refutes the property *)

(* a.join(b) emptied b (Vec::append) *)
Lemma join_legacy_refuted :
  exists h, defined (snd (spec_run h)) /\ ~ refines_stops (run true h) (spec_run h).
Proof.
  exists [NewVec 0 [OLit (VInt 1); OLit (VInt 2)]; NewVec 1 [OLit (VInt 7)]; Join 2 0 1; Print 1].
  split; [vm_compute; exact I|]. vm_compute. intros [H _]. inversion H as [|? ? ? ? Ho _]; subst. inversion Ho.
Qed.

(* a.join(a) panicked: GcCell already borrowed *)
Lemma join_self_legacy_refuted :
  exists h, defined (snd (spec_run h)) /\ ~ refines_stops (run true h) (spec_run h).
Proof.
  exists [NewVec 0 [OLit (VInt 1)]; Join 1 0 0; Print 0].
  split; [vm_compute; exact I|]. vm_compute. intros [H _]. inversion H.
Qed.

(* map / filter on the empty list panicked in the callback bridge *)
Lemma map_empty_legacy_refuted :
  exists h, defined (snd (spec_run h)) /\ ~ refines_stops (run true h) (spec_run h).
Proof.
  exists [NewVec 0 []; MapF 1 0 (FAdd 1); Print 1].
  split; [vm_compute; exact I|]. vm_compute. intros [H _]. inversion H.
Qed.

Lemma filter_empty_legacy_refuted :
  exists h, defined (snd (spec_run h)) /\ ~ refines_stops (run true h) (spec_run h).
Proof.
  exists [NewVec 0 []; FilterF 1 0 PTrue; Print 1].
  split; [vm_compute; exact I|]. vm_compute. intros [H _]. inversion H.
Qed.

(* remove out of range stopped the program, but with a Rust panic instead of an mscript error *)
Lemma remove_legacy_panics :
  run true [NewVec 0 [OLit (VInt 1)]; Remove 0 1] = ([], Some Panic) /\
  run false [NewVec 0 [OLit (VInt 1)]; Remove 0 1] = ([], Some Err) /\
  spec_run [NewVec 0 [OLit (VInt 1)]; Remove 0 1] = ([], Some Err).
Proof. vm_compute. auto. Qed.

(* ---------------------------------------------------------------- the specification's equality is equality *)

Section OvalInd.
  Variable P : oval -> Prop.
  Hypothesis Hi : forall z, P (OInt z).
  Hypothesis Hs : forall s, P (OStr s).
  Hypothesis Hn : P ONil.
  Hypothesis Hl : forall l, Forall P l -> P (OList l).
  Fixpoint oval_ind' (o : oval) : P o :=
    match o with
    | OInt z => Hi z
    | OStr s => Hs s
    | ONil => Hn
    | OList l => Hl l ((fix go (l : list oval) : Forall P l :=
                          match l with [] => Forall_nil P | x :: l => Forall_cons x (oval_ind' x) (go l) end) l)
    end.
End OvalInd.

Lemma oval_eqb_eq : forall a b, oval_eqb a b = true <-> a = b.
Proof.
  induction a as [x|x| |xs IH] using oval_ind'; intros [y|y| |ys]; split; intro H; try discriminate; try reflexivity.
  - cbn in H. apply Z.eqb_eq in H. congruence.
  - inversion H. cbn. apply Z.eqb_refl.
  - cbn in H. apply str_eqb_eq in H. congruence.
  - inversion H. cbn. apply str_eqb_eq. reflexivity.
  - rewrite oval_eqb_list in H. f_equal. revert ys H. induction IH as [|x xs Hx _ IHxs]; intros [|y ys] H; cbn [ovals_eqb] in H; try discriminate.
    + reflexivity.
    + apply andb_true_iff in H. destruct H as [H1 H2]. apply Hx in H1. rewrite (IHxs _ H2), H1. reflexivity.
  - inversion H; subst. rewrite oval_eqb_list. clear H. induction IH as [|x xs Hx _ IHxs]; cbn [ovals_eqb]; [reflexivity|].
    rewrite IHxs, andb_true_r. apply Hx. reflexivity.
Qed.
