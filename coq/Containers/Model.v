(* Executable impl-model of the container part of the mscript interpreter heap.

   vectors   GcVector = Gc<GcCell<Vec<Primitive>>>                bytecode/src/variables/primitive.rs
   maps      GcMap    = Gc<GcCell<HashMap<Primitive, Primitive>>>
   methods   BuiltInFunction::run  Vec* / Map* arms, MapOp / FilterOp      bytecode/src/function.rs
   bridge    Function::run  BeginNotificationBridge (wait_for / then / finish loop)
   index     vec_op "[i]" (bounds check, ArrayPtr), map_op (MapPtr), ptr_mut, bin_op_assign,
             make_vector / vec_op "+reg" (list literal), make_map / fast_map_insert (map literal)
                                                                           bytecode/src/instruction.rs
   equality  Primitive::equals (index_of, ==) and the derived PartialEq (slice comparison)

   A container lives at a location; variables hold locations, so an alias is a second variable
   (or a container element) holding the same location.  Failures of the Rust code are explicit:
   Err (anyhow error, exit 1), Panic (Rust panic, exit 101).  `legacy = true` is the behaviour of the
   tree before the fixes fixes/c13-*.diff (remove / join / map / filter), `legacy = false` after.
   Two repaired defects have no legacy rendering because the model has no element VIEWS (ArrayPtr / MapPtr /
   Lookup stored as values): list literals and map callbacks that stored the view of `x[i]` instead of its value. *)
From MS Require Export Base.Str.
From Coq Require Export ZArith.

Definition loc := N.
Definition var := N.

Inductive val :=
| VInt (z : Z)            (* Primitive::Int, i32 *)
| VStr (s : str)          (* Primitive::Str *)
| VNil                    (* Primitive::Optional(None) *)
| VRef (l : loc).         (* Primitive::Vector / Primitive::Map: a shared pointer *)

(* map keys: the scalar kinds (a HashMap key is compared with the derived, structural equality) *)
Inductive key := KInt (z : Z) | KStr (s : str).

Inductive cont :=
| CVec (xs : list val)
| CMap (kv : list (key * val)).      (* no duplicate keys; the order stands for the HashMap's iteration order *)

(* failure classes.  Stuck: the history is not a well-typed program (unbound name, vector method on a map,
   incomparable kinds ...) - the compiler rejects it.  Fuel: nesting deeper than the rendering fuel.
   Range: op= arithmetic left the i32 range (subject of property C05, not of this model). *)
Inductive fail := Err | Panic | Stuck | Fuel | Range.

Inductive res (A : Type) := Ok (a : A) | Fail (f : fail).
Arguments Ok {A} a.
Arguments Fail {A} f.

Definition bind {A B} (r : res A) (k : A -> res B) : res B :=
  match r with Ok a => k a | Fail f => Fail f end.
Notation "'do' x <- r ; k" := (bind r (fun x => k)) (at level 200, x pattern, r at level 100, k at level 200).

(* ---------------------------------------------------------------- heap and environment *)

Definition heap := list (loc * cont).

Fixpoint hget (h : heap) (l : loc) : option cont :=
  match h with
  | [] => None
  | (l', c) :: h => if l' =? l then Some c else hget h l
  end.

(* a write shadows the older binding of the location *)
Definition hset (h : heap) (l : loc) (c : cont) : heap := (l, c) :: h.

Record state := { hp : heap; next : loc; env : list (var * loc) }.

Definition st0 : state := {| hp := []; next := 0; env := [] |}.

Fixpoint eget (e : list (var * loc)) (x : var) : option loc :=
  match e with
  | [] => None
  | (y, l) :: e => if y =? x then Some l else eget e x
  end.

Definition set_hp (st : state) (h : heap) : state := {| hp := h; next := next st; env := env st |}.
Definition bind_var (st : state) (x : var) (l : loc) : state :=
  {| hp := hp st; next := next st; env := (x, l) :: env st |}.
(* allocation of a fresh container, bound to a variable *)
Definition alloc (st : state) (x : var) (c : cont) : state :=
  {| hp := hset (hp st) (next st) c; next := next st + 1; env := (x, next st) :: env st |}.

Definition get_vec (st : state) (x : var) : res (loc * list val) :=
  match eget (env st) x with
  | Some l => match hget (hp st) l with Some (CVec xs) => Ok (l, xs) | _ => Fail Stuck end
  | None => Fail Stuck
  end.

Definition get_map (st : state) (x : var) : res (loc * list (key * val)) :=
  match eget (env st) x with
  | Some l => match hget (hp st) l with Some (CMap kv) => Ok (l, kv) | _ => Fail Stuck end
  | None => Fail Stuck
  end.

(* ---------------------------------------------------------------- index arithmetic *)

Definition two64 : Z := 18446744073709551616%Z.
Definition i32_min : Z := (-2147483648)%Z.
Definition i32_max : Z := 2147483647%Z.
Definition in_i32 (z : Z) : bool := ((i32_min <=? z) && (z <=? i32_max))%Z.

(* `*int as usize` (try_into_numeric_index): two's complement wrap, 64-bit *)
Definition as_usize (i : Z) : Z := if (i <? 0)%Z then (two64 + i)%Z else i.

Definition isize_max : Z := 9223372036854775807%Z.

(* vec_op "[i]": `if idx >= len { bail!("index out of bounds") }`, then an ArrayPtr that is dereferenced.
   A Vec never holds more than isize::MAX elements, so an index above isize::MAX (every negative int
   after the cast) is out of bounds whatever the length: the model states that consequence explicitly.
   Indices are mscript ints (i32); anything else is not a program. *)
Definition vec_index (xs : list val) (i : Z) : res nat :=
  if negb (in_i32 i) then Fail Stuck
  else
    let idx := as_usize i in
    if ((idx >=? Z.of_nat (length xs)) || (isize_max <? idx))%Z then Fail Err else Ok (Z.to_nat idx).

(* Vec indexing `v[n]` / `get(n).unwrap()`: a Rust panic when out of range *)
Definition vec_at (xs : list val) (n : nat) : res val :=
  match nth_error xs n with Some x => Ok x | None => Fail Panic end.

(* `*slot = x` *)
Fixpoint vec_set_at (xs : list val) (n : nat) (x : val) : list val :=
  match xs, n with
  | [], _ => []
  | _ :: xs, O => x :: xs
  | y :: xs, S n => y :: vec_set_at xs n x
  end.

(* Vec::remove: shifts the tail left *)
Fixpoint vec_remove_at (xs : list val) (n : nat) : list val :=
  match xs, n with
  | [], _ => []
  | _ :: xs, O => xs
  | y :: xs, S n => y :: vec_remove_at xs n
  end.

(* ---------------------------------------------------------------- rendering (what `print` shows) *)

Inductive oval :=
| OInt (z : Z) | OStr (s : str) | ONil
| OList (l : list oval).

Inductive vkind := KVec (xs : list val) | KMap | KNone.

Definition look := loc -> vkind.

Definition hlook (h : heap) : look :=
  fun l => match hget h l with Some (CVec xs) => KVec xs | Some (CMap _) => KMap | None => KNone end.

(* Display for Primitive::Vector recurses through the shared pointers; fuel bounds the nesting *)
Fixpoint deep (n : nat) (lk : look) (v : val) : res oval :=
  match v with
  | VInt z => Ok (OInt z)
  | VStr s => Ok (OStr s)
  | VNil => Ok ONil
  | VRef l =>
    match n with
    | O => Fail Fuel
    | S n =>
      match lk l with
      | KVec xs =>
        do os <- (fix go (xs : list val) : res (list oval) :=
                    match xs with
                    | [] => Ok []
                    | x :: xs => do o <- deep n lk x; do os <- go xs; Ok (o :: os)
                    end) xs;
        Ok (OList os)
      | KMap => Fail Stuck         (* a map inside a list is never rendered (HashMap order): outside the model *)
      | KNone => Fail Stuck
      end
    end
  end.

Definition depth_fuel : nat := 6.

(* ---------------------------------------------------------------- equality *)

(* derived PartialEq on Primitive, used by the slice comparison `v1[..] == v2[..]`:
   same variant and equal payload; GcVector compares the pointed-to vectors, GcMap is never equal *)
Fixpoint veq (n : nat) (lk : look) (a b : val) : res bool :=
  match a, b with
  | VInt x, VInt y => Ok (x =? y)%Z
  | VStr x, VStr y => Ok (str_eqb x y)
  | VNil, VNil => Ok true
  | VRef la, VRef lb =>
    match n with
    | O => Fail Fuel
    | S n =>
      match lk la, lk lb with
      | KVec xs, KVec ys =>
        if negb (Nat.eqb (length xs) (length ys)) then Ok false
        else (fix go (xs ys : list val) : res bool :=
                match xs, ys with
                | x :: xs, y :: ys => do r <- veq n lk x y; if r then go xs ys else Ok false
                | _, _ => Ok true
                end) xs ys
      | KNone, _ | _, KNone => Fail Stuck
      | _, _ => Ok false
      end
    end
  | _, _ => Ok false
  end.

(* Primitive::equals: nil only equals nil; vectors by slice comparison; scalars of the same kind;
   anything else is `bail!("cannot compare ..")`.  The caller decides what that failure becomes. *)
Definition equals (n : nat) (lk : look) (a b : val) : res (option bool) :=
  match a, b with
  | VNil, x | x, VNil => Ok (Some (match x with VNil => true | _ => false end))
  | VRef la, VRef lb =>
    match lk la, lk lb with
    | KVec _, KVec _ => do r <- veq n lk a b; Ok (Some r)
    | KNone, _ | _, KNone => Fail Stuck
    | _, _ => Ok None                              (* Map with anything *)
    end
  | VInt x, VInt y => Ok (Some (x =? y)%Z)
  | VStr x, VStr y => Ok (Some (str_eqb x y))
  | _, _ => Ok None
  end.

(* VecIndexOf: `view.iter().enumerate().find(|(_, x)| x.equals(p).expect(..))` *)
Fixpoint find_from (n : nat) (lk : look) (idx : nat) (xs : list val) (p : val) : res (option nat) :=
  match xs with
  | [] => Ok None
  | x :: xs =>
    do r <- equals n lk x p;
    match r with
    | None => Fail Panic                           (* "the compiler allowed an illegal type comparison" *)
    | Some true => Ok (Some idx)
    | Some false => find_from n lk (S idx) xs p
    end
  end.

(* ---------------------------------------------------------------- strings and op= *)

Fixpoint digits (u : Decimal.uint) : str :=
  match u with
  | Decimal.Nil => []
  | Decimal.D0 u => 48 :: digits u | Decimal.D1 u => 49 :: digits u | Decimal.D2 u => 50 :: digits u
  | Decimal.D3 u => 51 :: digits u | Decimal.D4 u => 52 :: digits u | Decimal.D5 u => 53 :: digits u
  | Decimal.D6 u => 54 :: digits u | Decimal.D7 u => 55 :: digits u | Decimal.D8 u => 56 :: digits u
  | Decimal.D9 u => 57 :: digits u
  end.

Definition show_Z (z : Z) : str :=
  match z with
  | Z0 => [48]
  | Zpos p => digits (Pos.to_uint p)
  | Zneg p => 45 :: digits (Pos.to_uint p)
  end.

Definition s_nil : str := [110; 105; 108].

(* Display at depth 0 of a scalar (strings unquoted); containers are not concatenated (the compiler rejects it) *)
Definition show_scalar (v : val) : res str :=
  match v with
  | VInt z => Ok (show_Z z)
  | VStr s => Ok s
  | VNil => Ok s_nil
  | VRef _ => Fail Stuck
  end.

Inductive binop := Add | Sub | Mul.

Definition arith (op : binop) (x y : Z) : res val :=
  let r := match op with Add => (x + y)%Z | Sub => (x - y)%Z | Mul => (x * y)%Z end in
  if in_i32 r then Ok (VInt r) else Fail Range.

Fixpoint repeat_str (s : str) (n : nat) : str :=
  match n with O => [] | S n => s ++ repeat_str s n end.

(* ops.rs: <num op num>, <str + any>, <any + str> (concatenation of what print shows, so nil + "x" = "nilx");
   nil on either side of an arithmetic operator is "<Nil + Int> is invalid" *)
Definition binop_apply (op : binop) (cur x : val) : res val :=
  match op, cur, x with
  | _, VInt a, VInt b => arith op a b
  | Add, VStr a, VStr b => Ok (VStr (a ++ b))
  | Add, VStr a, VInt b => Ok (VStr (a ++ show_Z b))
  | Add, VInt a, VStr b => Ok (VStr (show_Z a ++ b))
  | Add, VNil, VStr b => Ok (VStr (s_nil ++ b))
  | _, VNil, (VInt _ | VNil) | _, VInt _, VNil => Fail Err
  | _, _, _ => Fail Stuck
  end.

(* ---------------------------------------------------------------- callbacks of map / filter *)

(* the callback is a closure of the program; the model takes it from a fixed family
     FAdd c : fn(x: int) -> int { return x + c }       FMul c : x * c
     FSuffix s : fn(x: T) -> str { return x + s }      FLen : fn(x: [T...]) -> int { return x.len() }
     PGt c : x > c      PNe v : x != v      PLenGt c : x.len() > c     PTrue / PFalse
     FConst r : a callback whose body does not depend on x and evaluates to r (a value or a failure);
                used for `fn(x: T) -> U { return w[i] }` and `{ return m[k] }` (MapElem / MapKeyElem below) *)
Inductive mapfn := FAdd (c : Z) | FMul (c : Z) | FSuffix (s : str) | FLen | FConst (r : res val).
Inductive pred := PGt (c : Z) | PNe (v : val) | PLenGt (c : Z) | PTrue | PFalse.

Definition apply_fn (lk : look) (f : mapfn) (x : val) : res val :=
  match f, x with
  | FAdd c, VInt z => arith Add z c
  | FMul c, VInt z => arith Mul z c
  | FSuffix s, VInt z => Ok (VStr (show_Z z ++ s))
  | FSuffix s, VStr t => Ok (VStr (t ++ s))
  | FLen, VRef l => match lk l with KVec xs => Ok (VInt (Z.of_nat (length xs))) | _ => Fail Stuck end
  | FConst r, _ => r
  | _, _ => Fail Stuck
  end.

Definition scalar_lit (v : val) : bool := match v with VRef _ => false | _ => true end.

Definition apply_pred (lk : look) (p : pred) (x : val) : res bool :=
  match p, x with
  | PGt c, VInt z => Ok (z >? c)%Z
  | PNe v, _ =>
    if scalar_lit v then
      do r <- equals 0 lk x v;
      match r with Some b => Ok (negb b) | None => Fail Stuck end
    else Fail Stuck
  | PLenGt c, VRef l => match lk l with KVec xs => Ok (Z.of_nat (length xs) >? c)%Z | _ => Fail Stuck end
  | PTrue, _ => Ok true
  | PFalse, _ => Ok false
  | _, _ => Fail Stuck
  end.

(* the notification bridge (Function::run):
     loop { call = bridge.wait_for()?; ret = jump_callback(call)?; if !bridge.then(ret)? { break } } ; finish
   MapOp:    wait_for: this = index; index += 1; underlying[this]   (Vec index: panics when out of range)
             then:     result.push(ret); continue iff index < len
   FilterOp: then:     if ret { result.push(underlying[index - 1]) }; continue iff index < len *)
Fixpoint map_loop (fuel : nat) (lk : look) (f : mapfn) (xs : list val) (idx : nat) (acc : list val) : res (list val) :=
  match fuel with
  | O => Fail Fuel
  | S fuel =>
    do x <- vec_at xs idx;
    do y <- apply_fn lk f x;
    let acc := acc ++ [y] in
    if Nat.ltb (S idx) (length xs) then map_loop fuel lk f xs (S idx) acc else Ok acc
  end.

Fixpoint filter_loop (fuel : nat) (lk : look) (p : pred) (xs : list val) (idx : nat) (acc : list val) : res (list val) :=
  match fuel with
  | O => Fail Fuel
  | S fuel =>
    do x <- vec_at xs idx;
    do b <- apply_pred lk p x;
    do acc <- (if b then do y <- vec_at xs idx; Ok (acc ++ [y]) else Ok acc);
    if Nat.ltb (S idx) (length xs) then filter_loop fuel lk p xs (S idx) acc else Ok acc
  end.

(* fixes/c13-map-filter-empty.diff: the arms return a fresh empty vector for an empty receiver
   instead of entering the do-while loop *)
Definition vec_map (legacy : bool) (lk : look) (f : mapfn) (xs : list val) : res (list val) :=
  if negb legacy && is_nil xs then Ok [] else map_loop (S (length xs)) lk f xs 0 [].
Definition vec_filter (legacy : bool) (lk : look) (p : pred) (xs : list val) : res (list val) :=
  if negb legacy && is_nil xs then Ok [] else filter_loop (S (length xs)) lk p xs 0 [].

(* ---------------------------------------------------------------- HashMap *)

Definition key_eqb (a b : key) : bool :=
  match a, b with
  | KInt x, KInt y => (x =? y)%Z
  | KStr x, KStr y => str_eqb x y
  | _, _ => false
  end.

Fixpoint mget (kv : list (key * val)) (k : key) : option val :=
  match kv with
  | [] => None
  | (k', v) :: kv => if key_eqb k' k then Some v else mget kv k
  end.

(* HashMap::insert: an existing key keeps its slot and gets the new value; a new key goes to an
   unspecified position - the model puts it in front *)
Fixpoint mreplace (kv : list (key * val)) (k : key) (v : val) : list (key * val) :=
  match kv with
  | [] => []
  | (k', v') :: kv => if key_eqb k' k then (k', v) :: kv else (k', v') :: mreplace kv k v
  end.

Definition minsert (kv : list (key * val)) (k : key) (v : val) : list (key * val) :=
  match mget kv k with Some _ => mreplace kv k v | None => (k, v) :: kv end.

Fixpoint mremove (kv : list (key * val)) (k : key) : list (key * val) :=
  match kv with
  | [] => []
  | (k', v) :: kv => if key_eqb k' k then kv else (k', v) :: mremove kv k
  end.

Definition key_val (k : key) : val := match k with KInt z => VInt z | KStr s => VStr s end.
Definition key_oval (k : key) : oval := match k with KInt z => OInt z | KStr s => OStr s end.

(* ---------------------------------------------------------------- operations *)

Inductive operand :=
| OLit (v : val)                 (* a literal: int, str or nil *)
| OVar (x : var)                 (* a container variable (nested list, list as map value) *)
| OElem (x : var) (i : Z)        (* x[i] read from a list *)
| OCall (x : var) (i : Z).       (* f() where f = fn() -> T { return x[i] }: the `ret` instruction hands the VALUE of
                                    the element to the caller (fixes/c13-return-element-value.diff), not a view *)

Inductive cop :=
| NewVec (dst : var) (es : list operand)          (* dst: [T...] = [e1, .., en] *)
| Alias (dst src : var)                           (* dst = src *)
| Push (v : var) (x : operand)
| Remove (v : var) (i : Z)                        (* print v.remove(i) *)
| IndexRead (v : var) (i : Z)                     (* print v[i] *)
| IndexWrite (v : var) (i : Z) (x : operand)      (* v[i] = x *)
| OpAssign (v : var) (i : Z) (op : binop) (x : val)   (* v[i] op= x *)
| Reverse (v : var)
| Join (dst a b : var)                            (* dst = a.join(b) *)
| Clear (v : var)
| Clone (dst src : var)
| MapF (dst src : var) (f : mapfn)
| MapElem (dst src w : var) (i : Z)               (* dst = src.map(fn(x: T) -> U { return w[i] }) *)
| MapKeyElem (dst src m : var) (k : key)          (* dst = src.map(fn(x: T) -> V { return m[k] }) *)
| FilterF (dst src : var) (p : pred)
| IndexOf (v : var) (x : operand)                 (* print v.index_of(x) *)
| Len (v : var)
| Eq (a b : var)                                  (* print a == b *)
| Print (v : var)                                 (* print v *)
| Concat (v : var) (i j : Z)                      (* print "" + v[i] + v[j] *)
| MapLit (dst : var) (kvs : list (key * operand)) (* dst = map[K, V] { k1: e1, .. } *)
| MapGet (m : var) (k : key)                      (* print m[k] *)
| MapSet (m : var) (k : key) (x : operand)
| MapOpAssign (m : var) (k : key) (op : binop) (x : val)
| Replace (m : var) (k : key) (x : operand)       (* print m.replace(k, x) *)
| MapRemove (m : var) (k : key)                   (* print m.remove(k) *)
| ContainsKey (m : var) (k : key)
| MapLen (m : var)
| Keys (m : var) | Values (m : var) | Pairs (m : var)
| MapClear (m : var)
| MapClone (dst src : var).

Inductive obs :=
| ObsVal (o : oval)
| ObsBool (b : bool)
| ObsBag (l : list oval).        (* keys / values / pairs: compared up to permutation *)

Definition eval_operand (st : state) (o : operand) : res val :=
  match o with
  | OLit v => if scalar_lit v then Ok v else Fail Stuck
  | OVar x => match eget (env st) x with
              | Some l => match hget (hp st) l with Some _ => Ok (VRef l) | None => Fail Stuck end
              | None => Fail Stuck
              end
  | OElem x i | OCall x i =>
    do lxs <- get_vec st x;
    do n <- vec_index (snd lxs) i;
    vec_at (snd lxs) n
  end.

Fixpoint eval_operands (st : state) (os : list operand) : res (list val) :=
  match os with
  | [] => Ok []
  | o :: os => do v <- eval_operand st o; do vs <- eval_operands st os; Ok (v :: vs)
  end.

Fixpoint deep_all (lk : look) (vs : list val) : res (list oval) :=
  match vs with
  | [] => Ok []
  | v :: vs => do o <- deep depth_fuel lk v; do os <- deep_all lk vs; Ok (o :: os)
  end.

Definition render (st : state) (v : val) : res obs :=
  do o <- deep depth_fuel (hlook (hp st)) v; Ok (ObsVal o).

Definition render_all (st : state) (vs : list val) : res (list oval) := deep_all (hlook (hp st)) vs.

Definition pair_ovals (kv : list (key * val)) (os : list oval) : list oval :=
  map (fun p => OList [key_oval (fst (fst p)); snd p]) (combine kv os).

Definition opt_val (o : option val) : val := match o with Some v => v | None => VNil end.

Definition upd_vec (st : state) (l : loc) (xs : list val) : state := set_hp st (hset (hp st) l (CVec xs)).
Definition upd_map (st : state) (l : loc) (kv : list (key * val)) : state := set_hp st (hset (hp st) l (CMap kv)).

Fixpoint map_lit (st : state) (kv : list (key * val)) (kvs : list (key * operand)) : res (list (key * val)) :=
  match kvs with
  | [] => Ok kv
  | (k, o) :: kvs => do v <- eval_operand st o; map_lit st (minsert kv k v) kvs
  end.

Definition step (legacy : bool) (st : state) (c : cop) : res (state * list obs) :=
  match c with
  | NewVec dst es =>
    do vs <- eval_operands st es; Ok (alloc st dst (CVec vs), [])
  | Alias dst src =>
    match eget (env st) src with
    | Some l => match hget (hp st) l with Some _ => Ok (bind_var st dst l, []) | None => Fail Stuck end
    | None => Fail Stuck
    end
  | Push v x =>
    do lxs <- get_vec st v; do y <- eval_operand st x;
    Ok (upd_vec st (fst lxs) (snd lxs ++ [y]), [])
  | Remove v i =>
    do lxs <- get_vec st v;
    let xs := snd lxs in
    if negb (in_i32 i) then Fail Stuck
    (* `i32 -> usize try_into` fails for a negative int *)
    else if (i <? 0)%Z then Fail Err
    else if (i >=? Z.of_nat (length xs))%Z then
      (* Vec::remove panics "removal index (is i) should be < len"; fixes/c13-remove-bounds.diff: bail! *)
      Fail (if legacy then Panic else Err)
    else
      do x <- vec_at xs (Z.to_nat i);
      do o <- render st x;
      Ok (upd_vec st (fst lxs) (vec_remove_at xs (Z.to_nat i)), [o])
  | IndexRead v i =>
    do lxs <- get_vec st v; do n <- vec_index (snd lxs) i; do x <- vec_at (snd lxs) n;
    do o <- render st x; Ok (st, [o])
  | IndexWrite v i x =>
    do y <- eval_operand st x;
    do lxs <- get_vec st v; do n <- vec_index (snd lxs) i;
    Ok (upd_vec st (fst lxs) (vec_set_at (snd lxs) n y), [])
  | OpAssign v i op x =>
    do lxs <- get_vec st v; do n <- vec_index (snd lxs) i; do cur <- vec_at (snd lxs) n;
    do y <- binop_apply op cur x;
    Ok (upd_vec st (fst lxs) (vec_set_at (snd lxs) n y), [])
  | Reverse v =>
    do lxs <- get_vec st v; Ok (upd_vec st (fst lxs) (rev_append (snd lxs) []), [])
  | Join dst a b =>
    do la <- get_vec st a; do lb <- get_vec st b;
    if legacy then
      (* borrow_mut of both cells, then Vec::append which moves the elements out of the argument *)
      if fst la =? fst lb then Fail Panic
      else
        let st1 := upd_vec st (fst la) (snd la ++ snd lb) in
        let st2 := upd_vec st1 (fst lb) [] in
        Ok (bind_var st2 dst (fst la), [])
    else
      (* fixes/c13-join.diff: extend from a copy of the argument *)
      Ok (bind_var (upd_vec st (fst la) (snd la ++ snd lb)) dst (fst la), [])
  | Clear v =>
    do lxs <- get_vec st v; Ok (upd_vec st (fst lxs) [], [])
  | Clone dst src =>
    do lxs <- get_vec st src; Ok (alloc st dst (CVec (snd lxs)), [])
  | MapF dst src f =>
    do lxs <- get_vec st src;
    do ys <- vec_map legacy (hlook (hp st)) f (snd lxs);
    Ok (alloc st dst (CVec ys), [])
  | MapElem dst src w i =>
    (* the callback is only entered for a non-empty receiver; each call evaluates w[i] (bounds check -> Err)
       and `ret` moves the value out of the element view before MapOp::then pushes it *)
    do lxs <- get_vec st src;
    do ys <- vec_map legacy (hlook (hp st)) (FConst (eval_operand st (OElem w i))) (snd lxs);
    Ok (alloc st dst (CVec ys), [])
  | MapKeyElem dst src m k =>
    do lxs <- get_vec st src;
    do ys <- vec_map legacy (hlook (hp st))
               (FConst (do lkv <- get_map st m; Ok (opt_val (mget (snd lkv) k)))) (snd lxs);
    Ok (alloc st dst (CVec ys), [])
  | FilterF dst src p =>
    do lxs <- get_vec st src;
    do ys <- vec_filter legacy (hlook (hp st)) p (snd lxs);
    Ok (alloc st dst (CVec ys), [])
  | IndexOf v x =>
    do lxs <- get_vec st v; do y <- eval_operand st x;
    do r <- find_from depth_fuel (hlook (hp st)) 0 (snd lxs) y;
    Ok (st, [ObsVal (match r with Some n => OInt (Z.of_nat n) | None => ONil end)])
  | Len v =>
    do lxs <- get_vec st v; Ok (st, [ObsVal (OInt (Z.of_nat (length (snd lxs))))])
  | Eq a b =>
    do la <- get_vec st a; do lb <- get_vec st b;
    do r <- veq (S depth_fuel) (hlook (hp st)) (VRef (fst la)) (VRef (fst lb));
    Ok (st, [ObsBool r])
  | Print v =>
    do lxs <- get_vec st v; do o <- render st (VRef (fst lxs)); Ok (st, [o])
  | Concat v i j =>
    do lxs <- get_vec st v;
    do n <- vec_index (snd lxs) i; do x <- vec_at (snd lxs) n; do sx <- show_scalar x;
    do m <- vec_index (snd lxs) j; do y <- vec_at (snd lxs) m; do sy <- show_scalar y;
    Ok (st, [ObsVal (OStr (sx ++ sy))])
  | MapLit dst kvs =>
    do kv <- map_lit st [] kvs; Ok (alloc st dst (CMap kv), [])
  | MapGet m k =>
    do lkv <- get_map st m;
    (* GcMap::get: `.cloned().unwrap_or(Optional(None))` *)
    do o <- render st (opt_val (mget (snd lkv) k)); Ok (st, [o])
  | MapSet m k x =>
    do y <- eval_operand st x; do lkv <- get_map st m;
    Ok (upd_map st (fst lkv) (minsert (snd lkv) k y), [])
  | MapOpAssign m k op x =>
    do lkv <- get_map st m;
    do y <- binop_apply op (opt_val (mget (snd lkv) k)) x;
    Ok (upd_map st (fst lkv) (minsert (snd lkv) k y), [])
  (* replace / remove hand back the previous value as a [val]: the bare value when there was one, VNil when
     there was none ([opt_val]) -- like every other optional at run time.  (Before
     fixes/c13-map-replace-remove-bare-optional.diff the implementation wrapped a present value once more,
     Optional(Some(v)): it printed like v but [v] == [result] was false; [val] has no such wrapper, the check
     vlib/c13.py uses the result again to tell the two apart.) *)
  | Replace m k x =>
    do lkv <- get_map st m; do y <- eval_operand st x;
    do o <- render st (opt_val (mget (snd lkv) k));
    Ok (upd_map st (fst lkv) (minsert (snd lkv) k y), [o])
  | MapRemove m k =>
    do lkv <- get_map st m;
    do o <- render st (opt_val (mget (snd lkv) k));
    Ok (upd_map st (fst lkv) (mremove (snd lkv) k), [o])
  | ContainsKey m k =>
    do lkv <- get_map st m;
    Ok (st, [ObsBool (match mget (snd lkv) k with Some _ => true | None => false end)])
  | MapLen m =>
    do lkv <- get_map st m; Ok (st, [ObsVal (OInt (Z.of_nat (length (snd lkv))))])
  | Keys m =>
    do lkv <- get_map st m; Ok (st, [ObsBag (map (fun p => key_oval (fst p)) (snd lkv))])
  | Values m =>
    do lkv <- get_map st m; do os <- render_all st (map snd (snd lkv)); Ok (st, [ObsBag os])
  | Pairs m =>
    do lkv <- get_map st m; do os <- render_all st (map snd (snd lkv));
    Ok (st, [ObsBag (pair_ovals (snd lkv) os)])
  | MapClear m =>
    do lkv <- get_map st m; Ok (upd_map st (fst lkv) [], [])
  | MapClone dst src =>
    do lkv <- get_map st src; Ok (alloc st dst (CMap (snd lkv)), [])
  end.

(* a history runs until its first failure: the observations printed so far and how it ended *)
Fixpoint run_from (legacy : bool) (st : state) (h : list cop) : list obs * option fail :=
  match h with
  | [] => ([], None)
  | c :: h =>
    match step legacy st c with
    | Ok (st', o) => let (os, f) := run_from legacy st' h in (o ++ os, f)
    | Fail f => ([], Some f)
    end
  end.

Definition run (legacy : bool) (h : list cop) : list obs * option fail := run_from legacy st0 h.
