(* Proofs for property C08: the implementation's representation of objects (cells, a copy of the
   field -> cell map in every reference, identity tokens) refines the abstract store
   (identity -> field -> value) for ALL class tables and ALL histories; two constructions never share a
   cell; references with the same identity are the same reference; a method updates the cells of its
   receiver only; `is` is true exactly for equal identities. *)
From MS Require Export Objects.Spec.
From Coq Require Import Lia.

(* ---------------------------------------------------------------- results *)

Definition rrel {A B} (P : A -> B -> Prop) (r1 : res A) (r2 : res B) : Prop :=
  match r1, r2 with
  | Ok a, Ok b => P a b
  | Fail f, Fail g => f = g
  | _, _ => False
  end.

Lemma rrel_bind : forall {A B A' B'} (P : A -> B -> Prop) (Q : A' -> B' -> Prop) r1 r2 k1 k2,
  rrel P r1 r2 -> (forall a b, P a b -> rrel Q (k1 a) (k2 b)) -> rrel Q (bind r1 k1) (bind r2 k2).
Proof.
  intros A B A' B' P Q r1 r2 k1 k2 H HK. destruct r1, r2; cbn in *; try contradiction; auto.
Qed.

Lemma rrel_weaken : forall {A B} (P Q : A -> B -> Prop) r1 r2,
  rrel P r1 r2 -> (forall a b, P a b -> Q a b) -> rrel Q r1 r2.
Proof. intros A B P Q r1 r2 H HPQ. destruct r1, r2; cbn in *; auto. Qed.

Lemma rrel_eq : forall {A} (r1 r2 : res A), r1 = r2 -> rrel eq r1 r2.
Proof. intros A r1 r2 ->. destruct r2; cbn; auto. Qed.

Definition orel {A B} (P : A -> B -> Prop) (a : option A) (b : option B) : Prop :=
  match a, b with
  | Some x, Some y => P x y
  | None, None => True
  | _, _ => False
  end.

(* ---------------------------------------------------------------- association lists *)

Lemma aget_cons : forall {A} (h : list (N * A)) k a k',
  aget ((k, a) :: h) k' = if k =? k' then Some a else aget h k'.
Proof. reflexivity. Qed.

Lemma aget_in : forall {A} (h : list (N * A)) k a, aget h k = Some a -> In (k, a) h.
Proof.
  induction h as [|[k' a'] h IH]; cbn; intros k a H; [discriminate|].
  destruct (k' =? k) eqn:E.
  - apply N.eqb_eq in E. inversion H; subst. now left.
  - right. now apply IH.
Qed.

Lemma aget_forall : forall {A} (P : A -> Prop) (h : list (N * A)) k a,
  Forall (fun p => P (snd p)) h -> aget h k = Some a -> P a.
Proof.
  intros A P h k a HF HG. apply aget_in in HG. rewrite Forall_forall in HF. exact (HF _ HG).
Qed.

(* ---------------------------------------------------------------- fresh cells of a construction *)

Lemma alloc_range : forall fs n f c, aget (alloc_fields fs n) f = Some c -> n <= c < n + N.of_nat (length fs).
Proof.
  induction fs as [|f0 fs IH]; cbn [alloc_fields aget length]; intros n f c H; [discriminate|].
  destruct (f0 =? f).
  - inversion H; subst. lia.
  - apply IH in H. lia.
Qed.

Lemma alloc_inj : forall fs n f g c,
  aget (alloc_fields fs n) f = Some c -> aget (alloc_fields fs n) g = Some c -> f = g.
Proof.
  induction fs as [|f0 fs IH]; cbn [alloc_fields aget]; intros n f g c Hf Hg; [discriminate|].
  destruct (f0 =? f) eqn:Ef, (f0 =? g) eqn:Eg.
  - apply N.eqb_eq in Ef, Eg. congruence.
  - inversion Hf; subst. apply alloc_range in Hg. lia.
  - inversion Hg; subst. apply alloc_range in Hf. lia.
  - eapply IH; eauto.
Qed.

Lemma alloc_none : forall fs n f, aget (alloc_fields fs n) f = None <-> existsb (N.eqb f) fs = false.
Proof.
  induction fs as [|f0 fs IH]; cbn [alloc_fields aget existsb]; intros n f; [tauto|].
  rewrite (N.eqb_sym f f0). destruct (f0 =? f); cbn [orb].
  - split; discriminate.
  - apply IH.
Qed.

Lemma alloc_cells : forall fs n (h : list (cell * val)) c,
  aget (map (fun p : fld * cell => (snd p, VNil)) (alloc_fields fs n) ++ h) c =
  if (n <=? c) && (c <? n + N.of_nat (length fs)) then Some VNil else aget h c.
Proof.
  induction fs as [|f0 fs IH]; intros n h c.
  - cbn [alloc_fields map app length]. replace ((n <=? c) && (c <? n + N.of_nat 0)) with false; [reflexivity|].
    symmetry. apply andb_false_iff. destruct (N.leb_spec n c); [right; apply N.ltb_ge; lia | now left].
  - cbn [alloc_fields map app snd]. rewrite aget_cons, IH.
    destruct (N.eqb_spec n c) as [->|NE].
    + replace ((c <=? c) && (c <? c + N.of_nat (length (f0 :: fs)))) with true; [reflexivity|].
      symmetry. apply andb_true_iff. split; [apply N.leb_le; lia | apply N.ltb_lt; cbn [length]; lia].
    + destruct (N.leb_spec (n + 1) c), (N.leb_spec n c); cbn [andb]; try lia; try reflexivity.
      f_equal. cbn [length].
      destruct (N.ltb_spec c (n + 1 + N.of_nat (length fs))), (N.ltb_spec c (n + N.of_nat (S (length fs)))); try reflexivity; lia.
Qed.

(* ---------------------------------------------------------------- the simulation relation *)

Local Arguments aget : simpl never.

(* the registry: for every identity allocated so far, THE reference (class, map, token) make_object built *)
Definition registry := oid -> option oref.

Definition vok (reg : registry) (nl : lid) (v : val) : Prop :=
  match v with
  | VObj o | VSome o => reg (o_id o) = Some o
  | VList l => l < nl
  | _ => True
  end.

Definition vrel (v : val) (sv : sval) : Prop :=
  match v, sv with
  | VInt a, SInt b => a = b
  | VStr a, SStr b => a = b
  | VBool a, SBool b => a = b
  | VNil, SNil => True
  | VObj o, SObj i | VSome o, SObj i => o_id o = i
  | VList l, SList m => l = m
  | _, _ => False
  end.

Definition RV (reg : registry) (nl : lid) (v : val) (sv : sval) : Prop := vok reg nl v /\ vrel v sv.

(* (impl false)-only invariant *)
Record inv (reg : registry) (st : state) : Prop := {
  inv_id : forall i o, reg i = Some o -> o_id o = i /\ i < nid st;
  inv_cell : forall i o f c, reg i = Some o -> aget (o_map o) f = Some c ->
             c < ncell st /\ exists v, aget (cells st) c = Some v;
  inv_own : forall i o f g c, reg i = Some o -> aget (o_map o) f = Some c -> aget (o_map o) g = Some c -> f = g;
  inv_disj : forall i j o1 o2 f g c, reg i = Some o1 -> reg j = Some o2 ->
             aget (o_map o1) f = Some c -> aget (o_map o2) g = Some c -> i = j;
  inv_vcells : Forall (fun p => vok reg (nlist st) (snd p)) (cells st);
  inv_venv : Forall (fun p => vok reg (nlist st) (snd p)) (env st);
  inv_vlists : Forall (fun p => Forall (vok reg (nlist st)) (snd p)) (lists st)
}.

(* the abstract store is the abstraction of the cells through the registry *)
Record abs (reg : registry) (st : state) (ss : sstate) : Prop := {
  abs_nid : s_nobj ss = nid st;
  abs_nlist : s_nlist ss = nlist st;
  abs_none : forall i, reg i = None -> s_objs ss i = None;
  abs_obj : forall i o, reg i = Some o ->
            exists fm, s_objs ss i = Some (o_cls o, fm) /\
              forall f, match aget (o_map o) f with
                        | Some c => exists v sv, aget (cells st) c = Some v /\ fm f = Some sv /\ vrel v sv
                        | None => fm f = None
                        end;
  abs_env : forall x, orel vrel (aget (env st) x) (s_env ss x);
  abs_lists : forall l, orel (Forall2 vrel) (aget (lists st) l) (s_lists ss l)
}.

Definition RS (reg : registry) (st : state) (ss : sstate) : Prop := inv reg st /\ abs reg st ss.

Definition ext (reg reg' : registry) : Prop := forall i o, reg i = Some o -> reg' i = Some o.

Lemma ext_refl : forall reg, ext reg reg.
Proof. intros reg i o H. exact H. Qed.

Lemma ext_trans : forall a b c, ext a b -> ext b c -> ext a c.
Proof. intros a b c H1 H2 i o H. auto. Qed.

Lemma vok_mono : forall reg reg' nl nl' v, ext reg reg' -> nl <= nl' -> vok reg nl v -> vok reg' nl' v.
Proof. intros reg reg' nl nl' v HE HL. destruct v; cbn; auto. intros. lia. Qed.

Lemma RV_mono : forall reg reg' nl nl' v sv, ext reg reg' -> nl <= nl' -> RV reg nl v sv -> RV reg' nl' v sv.
Proof. intros reg reg' nl nl' v sv HE HL [H1 H2]. split; eauto using vok_mono. Qed.

Lemma RVs_mono : forall reg reg' nl nl' vs svs, ext reg reg' -> nl <= nl' ->
  Forall2 (RV reg nl) vs svs -> Forall2 (RV reg' nl') vs svs.
Proof. intros reg reg' nl nl' vs svs HE HL H. induction H; constructor; eauto using RV_mono. Qed.

Lemma Forall2_RV_split : forall reg nl vs svs, Forall2 (RV reg nl) vs svs -> Forall (vok reg nl) vs /\ Forall2 vrel vs svs.
Proof. intros reg nl vs svs H. induction H as [|v sv vs svs [H1 H2] _ [IH1 IH2]]; split; constructor; auto. Qed.

Lemma Forall2_RV_join : forall reg nl vs svs, Forall (vok reg nl) vs -> Forall2 vrel vs svs -> Forall2 (RV reg nl) vs svs.
Proof.
  intros reg nl vs svs HF H. induction H; constructor; inversion HF; subst; auto. split; auto.
Qed.

(* ---------------------------------------------------------------- primitives *)

Lemma get_sim : forall reg st ss x, RS reg st ss -> rrel (RV reg (nlist st)) (m_get st x) (s_get ss x).
Proof.
  intros reg st ss x [HI HA]. unfold m_get, s_get.
  pose proof (abs_env _ _ _ HA x) as HE. unfold orel in HE.
  destruct (aget (env st) x) eqn:E1, (s_env ss x) eqn:E2; cbn; try contradiction; auto.
  split; auto. eapply (aget_forall (vok reg (nlist st)) (env st)); [apply inv_venv; exact HI | exact E1].
Qed.

Lemma set_sim : forall reg st ss x v sv, RS reg st ss -> RV reg (nlist st) v sv -> RS reg (m_set st x v) (s_set ss x sv).
Proof.
  intros reg st ss x v sv [HI HA] [HV HR]. split.
  - destruct HI. constructor; cbn; auto.
  - destruct HA. constructor; cbn; auto.
    intros y. unfold upd. rewrite aget_cons. destruct (x =? y); cbn; auto.
Qed.

Lemma lit_sim : forall reg nl l, RV reg nl (m_lit l) (s_lit l).
Proof. intros reg nl l. destruct l; split; cbn; auto. Qed.

Lemma scalar_sim : forall v sv, vrel v sv -> m_scalar v = s_scalar sv.
Proof. intros v sv H. destruct v, sv; cbn in *; try contradiction; subst; auto. Qed.

Lemma recv_sim : forall v sv, vrel v sv -> m_recv false v = s_recv sv.
Proof. intros v sv H. destruct v, sv; cbn in *; try contradiction; auto. Qed.

Lemma obj_sim : forall reg st ss o, RS reg st ss -> reg (o_id o) = Some o ->
  exists fm, s_objs ss (o_id o) = Some (o_cls o, fm) /\
    forall f, match aget (o_map o) f with
              | Some c => exists v sv, aget (cells st) c = Some v /\ fm f = Some sv /\ vrel v sv
              | None => fm f = None
              end.
Proof. intros reg st ss o [HI HA] H. exact (abs_obj _ _ _ HA _ _ H). Qed.

Definition unwrapped (v : val) : Prop := forall o, v <> VSome o.

Lemma strip_unwrapped : forall v, unwrapped (strip v).
Proof. intros v o. destruct v; cbn; discriminate. Qed.

Lemma strip_RV : forall reg nl v sv, RV reg nl v sv -> RV reg nl (strip v) sv.
Proof. intros reg nl v sv [H1 H2]. destruct v; cbn in *; split; auto. Qed.

Lemma cls_strip : forall st v, m_cls false st v = m_cls false st (strip v).
Proof. intros st v. destruct v; reflexivity. Qed.

Lemma fread_strip : forall st v f, m_fread false st v f = m_fread false st (strip v) f.
Proof. intros st v f. destruct v; reflexivity. Qed.

Lemma fwrite_strip : forall st v f x, m_fwrite false st v f x = m_fwrite false st (strip v) f x.
Proof. intros st v f x. destruct v; reflexivity. Qed.

Lemma cls_sim0 : forall reg st ss v sv, unwrapped v -> RS reg st ss -> RV reg (nlist st) v sv -> rrel eq (m_cls false st v) (s_cls ss sv).
Proof.
  intros reg st ss v sv HU HRS [HV HR]. destruct v, sv; cbn in *; try contradiction; auto; try (exfalso; eapply HU; reflexivity). subst.
  destruct (obj_sim _ _ _ _ HRS HV) as [fm [HS _]]. unfold s_cls, s_obj. rewrite HS. cbn. reflexivity.
Qed.

Lemma cls_sim : forall reg st ss v sv, RS reg st ss -> RV reg (nlist st) v sv -> rrel eq (m_cls false st v) (s_cls ss sv).
Proof.
  intros reg st ss v sv HRS HV. rewrite cls_strip. eapply cls_sim0; [apply strip_unwrapped | exact HRS | apply strip_RV; exact HV].
Qed.

Lemma fread_sim0 : forall reg st ss o so f, unwrapped o -> RS reg st ss -> RV reg (nlist st) o so ->
  rrel (RV reg (nlist st)) (m_fread false st o f) (s_fread ss so f).
Proof.
  intros reg st ss o so f HU HRS [HV HR]. destruct o, so; cbn in *; try contradiction; auto; try (exfalso; eapply HU; reflexivity). subst.
  destruct (obj_sim _ _ _ _ HRS HV) as [fm [HS HF]]. unfold m_fread, s_fread, s_obj, field_cell. rewrite HS.
  specialize (HF f). destruct (aget (o_map o) f) as [c|]; cbn.
  - destruct HF as [v [sv [H1 [H2 H3]]]]. rewrite H1, H2. cbn. split; auto.
    destruct HRS as [HI _]. eapply (aget_forall (vok reg (nlist st)) (cells st)); [apply inv_vcells; exact HI | exact H1].
  - rewrite HF. reflexivity.
Qed.

Lemma fread_sim : forall reg st ss o so f, RS reg st ss -> RV reg (nlist st) o so ->
  rrel (RV reg (nlist st)) (m_fread false st o f) (s_fread ss so f).
Proof.
  intros reg st ss o so f HRS HV. rewrite fread_strip. apply fread_sim0; [apply strip_unwrapped | exact HRS | apply strip_RV; exact HV].
Qed.

Lemma fwrite_sim0 : forall reg st ss o so f x sx, unwrapped o -> RS reg st ss -> RV reg (nlist st) o so -> RV reg (nlist st) x sx ->
  rrel (RS reg) (m_fwrite false st o f x) (s_fwrite ss so f sx).
Proof.
  intros reg st ss o so f x sx HU HRS [HV HR] [HXV HXR]. destruct o, so; cbn in *; try contradiction; auto; try (exfalso; eapply HU; reflexivity). subst.
  destruct (obj_sim _ _ _ _ HRS HV) as [fm [HS HF]]. unfold m_fwrite, s_fwrite, s_obj, field_cell. rewrite HS.
  pose proof (HF f) as HFf. destruct (aget (o_map o) f) as [c|] eqn:Ec; cbn.
  2:{ rewrite HFf. reflexivity. }
  destruct HFf as [v [sv [H1 [H2 H3]]]]. rewrite H1, H2. cbn.
  destruct HRS as [HI HA]. split.
  - destruct HI. constructor; cbn; auto.
    intros i o' f' c' Hr Hc. destruct (inv_cell0 _ _ _ _ Hr Hc) as [Hlt [v' Hv']]. split; auto.
    rewrite aget_cons. destruct (c =? c'); eauto.
  - destruct HA. constructor; cbn; auto.
    + intros i Hn. unfold upd. destruct (N.eqb_spec (o_id o) i) as [<-|NE]; auto. congruence.
    + intros i o' Hr. unfold upd at 1. destruct (N.eqb_spec (o_id o) i) as [<-|NE].
      * assert (o' = o) by congruence. subst o'. eexists. split; [reflexivity|].
        intros g. pose proof (HF g) as HFg. destruct (aget (o_map o) g) as [c'|] eqn:Ec'.
        -- rewrite aget_cons. unfold upd. destruct (N.eqb_spec c c') as [<-|NEc].
           ++ assert (f = g) by (eapply (inv_own _ _ HI); eauto). subst g. rewrite N.eqb_refl. eauto.
           ++ destruct (N.eqb_spec f g) as [<-|NEf]; [congruence|]. exact HFg.
        -- unfold upd. destruct (N.eqb_spec f g) as [<-|NEf]; [congruence|]. exact HFg.
      * destruct (abs_obj0 _ _ Hr) as [fm' [HS' HF']]. exists fm'. split; auto.
        intros g. specialize (HF' g). destruct (aget (o_map o') g) as [c'|] eqn:Ec'; auto.
        rewrite aget_cons. destruct (N.eqb_spec c c') as [<-|NEc]; auto.
        exfalso. apply NE. eapply (inv_disj _ _ HI); eauto.
Qed.

Lemma fwrite_sim : forall reg st ss o so f x sx, RS reg st ss -> RV reg (nlist st) o so -> RV reg (nlist st) x sx ->
  rrel (RS reg) (m_fwrite false st o f x) (s_fwrite ss so f sx).
Proof.
  intros reg st ss o so f x sx HRS HV HX. rewrite fwrite_strip.
  apply fwrite_sim0; [apply strip_unwrapped | exact HRS | apply strip_RV; exact HV | exact HX].
Qed.

Lemma is_sim : forall a sa b sb, vrel a sa -> vrel b sb -> m_is false a b = s_is sa sb.
Proof.
  intros a sa b sb H1 H2. unfold m_is.
  destruct a, sa; cbn in H1; try contradiction; destruct b, sb; cbn in H2; try contradiction; subst; auto.
Qed.

Lemma unwrap_sim : forall reg nl v sv, RV reg nl v sv -> rrel (RV reg nl) (m_unwrap v) (s_unwrap sv).
Proof.
  intros reg nl v sv [HV HR]. destruct v, sv; cbn in *; try contradiction; auto; try (split; cbn; auto; fail).
Qed.

Lemma wrap_sim : forall reg nl v sv, RV reg nl v sv -> rrel (RV reg nl) (m_wrap v) (s_wrap sv).
Proof.
  intros reg nl v sv [HV HR]. destruct v, sv; cbn in *; try contradiction; auto; try (split; cbn; auto; fail).
Qed.

Lemma lread_sim : forall reg st ss v sv, RS reg st ss -> RV reg (nlist st) v sv ->
  rrel (Forall2 (RV reg (nlist st))) (m_lread st v) (s_lread ss sv).
Proof.
  intros reg st ss v sv [HI HA] [HV HR]. destruct v, sv; cbn in *; try contradiction; auto. subst.
  pose proof (abs_lists _ _ _ HA l0) as HL. unfold orel in HL.
  destruct (aget (lists st) l0) eqn:E1, (s_lists ss l0) eqn:E2; cbn; try contradiction; auto.
  apply Forall2_RV_join; auto.
  eapply (aget_forall (Forall (vok reg (nlist st))) (lists st)); [apply inv_vlists; exact HI | exact E1].
Qed.

Lemma lwrite_sim : forall reg st ss v sv xs sxs, RS reg st ss -> RV reg (nlist st) v sv ->
  Forall2 (RV reg (nlist st)) xs sxs -> rrel (RS reg) (m_lwrite st v xs) (s_lwrite ss sv sxs).
Proof.
  intros reg st ss v sv xs sxs [HI HA] [HV HR] HX. destruct v, sv; cbn in *; try contradiction; auto. subst.
  pose proof (abs_lists _ _ _ HA l0) as HL. unfold orel in HL.
  destruct (aget (lists st) l0) eqn:E1, (s_lists ss l0) eqn:E2; cbn; try contradiction; auto.
  apply Forall2_RV_split in HX. destruct HX as [HX1 HX2]. split.
  - destruct HI. constructor; cbn; auto.
  - destruct HA. constructor; cbn; auto.
    intros l'. unfold upd. rewrite aget_cons. destruct (l0 =? l'); cbn; auto.
Qed.

Lemma lnew_sim : forall reg st ss xs sxs, RS reg st ss -> Forall2 (RV reg (nlist st)) xs sxs ->
  RS reg (fst (m_lnew st xs)) (fst (s_lnew ss sxs)) /\
  RV reg (nlist (fst (m_lnew st xs))) (snd (m_lnew st xs)) (snd (s_lnew ss sxs)) /\
  nlist st <= nlist (fst (m_lnew st xs)).
Proof.
  intros reg st ss xs sxs [HI HA] HX. apply Forall2_RV_split in HX. destruct HX as [HX1 HX2].
  cbn. split; [split|split].
  - destruct HI. constructor; cbn; auto.
    + eapply Forall_impl; [|exact inv_vcells0]. intros p. apply vok_mono; [apply ext_refl | lia].
    + eapply Forall_impl; [|exact inv_venv0]. intros p. apply vok_mono; [apply ext_refl | lia].
    + constructor; cbn.
      * eapply Forall_impl; [|exact HX1]. intros p. apply vok_mono; [apply ext_refl | lia].
      * eapply Forall_impl; [|exact inv_vlists0]. intros p Hp. eapply Forall_impl; [|exact Hp].
        intros q. apply vok_mono; [apply ext_refl | lia].
  - destruct HA. constructor; cbn; auto.
    + congruence.
    + intros l'. unfold upd. rewrite aget_cons, abs_nlist0. destruct (nlist st =? l'); cbn; auto.
  - destruct HA. split; cbn; [lia | congruence].
  - lia.
Qed.

(* ---------------------------------------------------------------- construction *)

Definition reg_add (reg : registry) (o : oref) : registry :=
  fun i => if o_id o =? i then Some o else reg i.

Lemma new_sim : forall reg st ss k fs, RS reg st ss ->
  rrel (fun r1 r2 => exists reg', ext reg reg' /\ RS reg' (fst r1) (fst r2) /\
                     RV reg' (nlist st) (snd r1) (snd r2) /\ nlist (fst r1) = nlist st)
       (m_new st k fs) (s_new ss k fs).
Proof.
  intros reg st ss k fs [HI HA]. unfold m_new, s_new.
  destruct (nodupb fs); cbn [negb]; [|reflexivity]. cbn [rrel fst snd].
  set (mp := alloc_fields fs (ncell st)).
  set (o := {| o_cls := k; o_map := mp; o_id := nid st |}).
  assert (HEXT : ext reg (reg_add reg o)).
  { intros i o' H. unfold reg_add. cbn [o_id o]. destruct (N.eqb_spec (nid st) i) as [<-|NE]; auto.
    apply (inv_id _ _ HI) in H. lia. }
  exists (reg_add reg o). split; [exact HEXT|]. split; [split|split].
  - (* inv *)
    constructor; cbn [nid ncell cells env lists nlist].
    + intros i o' H. unfold reg_add in H. cbn [o_id o] in H. destruct (N.eqb_spec (nid st) i) as [<-|NE].
      * inversion H; subst o'. cbn. split; [reflexivity | lia].
      * apply (inv_id _ _ HI) in H. split; [tauto | lia].
    + intros i o' f c H Hc. unfold reg_add in H. cbn [o_id o] in H. unfold mp. rewrite alloc_cells.
      destruct (N.eqb_spec (nid st) i) as [<-|NE].
      * inversion H; subst o'. cbn [o_map o] in Hc. unfold mp in Hc. apply alloc_range in Hc.
        split; [lia|]. replace ((ncell st <=? c) && (c <? ncell st + N.of_nat (length fs))) with true; eauto.
        symmetry. apply andb_true_iff. split; [apply N.leb_le | apply N.ltb_lt]; lia.
      * destruct (inv_cell _ _ HI _ _ _ _ H Hc) as [Hlt Hv]. split; [lia|].
        replace ((ncell st <=? c) && (c <? ncell st + N.of_nat (length fs))) with false; auto.
        symmetry. apply andb_false_iff. left. apply N.leb_gt. lia.
    + intros i o' f g c H Hf Hg. unfold reg_add in H. cbn [o_id o] in H. destruct (N.eqb_spec (nid st) i) as [<-|NE].
      * inversion H; subst o'. cbn [o_map o] in *. unfold mp in *. eapply alloc_inj; eauto.
      * eapply (inv_own _ _ HI); eauto.
    + intros i j o1 o2 f g c H1 H2 Hf Hg. unfold reg_add in H1, H2. cbn [o_id o] in H1, H2.
      destruct (N.eqb_spec (nid st) i) as [<-|NE1], (N.eqb_spec (nid st) j) as [<-|NE2]; auto.
      * inversion H1; subst o1. cbn [o_map o] in Hf. unfold mp in Hf. apply alloc_range in Hf.
        destruct (inv_cell _ _ HI _ _ _ _ H2 Hg). lia.
      * inversion H2; subst o2. cbn [o_map o] in Hg. unfold mp in Hg. apply alloc_range in Hg.
        destruct (inv_cell _ _ HI _ _ _ _ H1 Hf). lia.
      * eapply (inv_disj _ _ HI); eauto.
    + apply Forall_app. split.
      * apply Forall_forall. intros p Hp. apply in_map_iff in Hp. destruct Hp as [q [<- _]]. cbn. exact I.
      * eapply Forall_impl; [|exact (inv_vcells _ _ HI)]. intros p. apply vok_mono; [exact HEXT | lia].
    + eapply Forall_impl; [|exact (inv_venv _ _ HI)]. intros p. apply vok_mono; [exact HEXT | lia].
    + eapply Forall_impl; [|exact (inv_vlists _ _ HI)]. intros p Hp. eapply Forall_impl; [|exact Hp].
      intros q. apply vok_mono; [exact HEXT | lia].
  - (* abs *)
    destruct HA as [A1 A2 A3 A4 A5 A6]. constructor; cbn [s_nobj s_nlist s_objs s_env s_lists nid ncell cells env lists nlist]; auto.
    + congruence.
    + intros i H. unfold reg_add in H. cbn [o_id o] in H. unfold upd. rewrite A1.
      destruct (nid st =? i); [discriminate | auto].
    + intros i o' H. unfold reg_add in H. cbn [o_id o] in H. unfold upd. rewrite A1.
      destruct (N.eqb_spec (nid st) i) as [<-|NE].
      * inversion H; subst o'. eexists. split; [reflexivity|]. intros f. cbn [o_map o]. fold mp.
        destruct (aget mp f) as [c|] eqn:Ec.
        -- unfold mp. rewrite alloc_cells. unfold mp in Ec. pose proof (alloc_range _ _ _ _ Ec) as HR.
           replace ((ncell st <=? c) && (c <? ncell st + N.of_nat (length fs))) with true.
           2:{ symmetry. apply andb_true_iff. split; [apply N.leb_le | apply N.ltb_lt]; lia. }
           exists VNil, SNil. split; [reflexivity|]. split; [|exact I].
           destruct (existsb (N.eqb f) fs) eqn:EX; [reflexivity|]. apply alloc_none with (n := ncell st) in EX. congruence.
        -- unfold mp in Ec. apply alloc_none in Ec. rewrite Ec. reflexivity.
      * destruct (A4 _ _ H) as [fm [HS HF]]. exists fm. split; [exact HS|]. intros f. specialize (HF f).
        destruct (aget (o_map o') f) as [c|] eqn:Ec; auto. unfold mp. rewrite alloc_cells.
        destruct (inv_cell _ _ HI _ _ _ _ H Ec) as [Hlt _].
        replace ((ncell st <=? c) && (c <? ncell st + N.of_nat (length fs))) with false; auto.
        symmetry. apply andb_false_iff. left. apply N.leb_gt. lia.
  - split; cbn; [|symmetry; apply (abs_nid _ _ _ HA)]. unfold reg_add. cbn [o_id o]. rewrite N.eqb_refl. reflexivity.
  - reflexivity.
Qed.

(* ---------------------------------------------------------------- states related at a list bound *)

Definition RSn (reg : registry) (nl : lid) (st : state) (ss : sstate) : Prop := RS reg st ss /\ nlist st = nl.

Lemma rrel_and : forall {A B} (P : A -> B -> Prop) (F : A -> Prop) r1 r2,
  rrel P r1 r2 -> (forall a, r1 = Ok a -> F a) -> rrel (fun a b => P a b /\ F a) r1 r2.
Proof. intros A B P F r1 r2 H HF. destruct r1, r2; cbn in *; auto. Qed.

Lemma fwrite_nlist : forall st o f x st', m_fwrite false st o f x = Ok st' -> nlist st' = nlist st.
Proof.
  intros st o f x st' H. unfold m_fwrite in H. destruct (field_cell false o f); cbn in H; [|discriminate].
  destruct (aget (cells st) a); inversion H; reflexivity.
Qed.

Lemma lwrite_nlist : forall st v xs st', m_lwrite st v xs = Ok st' -> nlist st' = nlist st.
Proof.
  intros st v xs st' H. destruct v; cbn in H; try discriminate.
  destruct (aget (lists st) l); inversion H; reflexivity.
Qed.

Lemma get_sim' : forall reg nl st ss x, RSn reg nl st ss -> rrel (RV reg nl) (m_get st x) (s_get ss x).
Proof. intros reg nl st ss x [H <-]. now apply get_sim. Qed.

Lemma set_sim' : forall reg nl st ss x v sv, RSn reg nl st ss -> RV reg nl v sv -> RSn reg nl (m_set st x v) (s_set ss x sv).
Proof. intros reg nl st ss x v sv [H <-] HV. split; [now apply set_sim | reflexivity]. Qed.

Lemma cls_sim' : forall reg nl st ss v sv, RSn reg nl st ss -> RV reg nl v sv -> rrel eq (m_cls false st v) (s_cls ss sv).
Proof. intros reg nl st ss v sv [H <-]. now apply cls_sim. Qed.

Lemma fread_sim' : forall reg nl st ss o so f, RSn reg nl st ss -> RV reg nl o so ->
  rrel (RV reg nl) (m_fread false st o f) (s_fread ss so f).
Proof. intros reg nl st ss o so f [H <-]. now apply fread_sim. Qed.

Lemma fwrite_sim' : forall reg nl st ss o so f x sx, RSn reg nl st ss -> RV reg nl o so -> RV reg nl x sx ->
  rrel (RSn reg nl) (m_fwrite false st o f x) (s_fwrite ss so f sx).
Proof.
  intros reg nl st ss o so f x sx [H <-] HO HX. apply rrel_and; [now apply fwrite_sim|].
  intros a. apply fwrite_nlist.
Qed.

Lemma lread_sim' : forall reg nl st ss v sv, RSn reg nl st ss -> RV reg nl v sv ->
  rrel (Forall2 (RV reg nl)) (m_lread st v) (s_lread ss sv).
Proof. intros reg nl st ss v sv [H <-]. now apply lread_sim. Qed.

Lemma lwrite_sim' : forall reg nl st ss v sv xs sxs, RSn reg nl st ss -> RV reg nl v sv ->
  Forall2 (RV reg nl) xs sxs -> rrel (RSn reg nl) (m_lwrite st v xs) (s_lwrite ss sv sxs).
Proof.
  intros reg nl st ss v sv xs sxs [H <-] HV HX. apply rrel_and; [now apply lwrite_sim|].
  intros a. apply lwrite_nlist.
Qed.

Lemma lnew_sim' : forall reg nl st ss xs sxs, RSn reg nl st ss -> Forall2 (RV reg nl) xs sxs ->
  RSn reg (nl + 1) (fst (m_lnew st xs)) (fst (s_lnew ss sxs)) /\
  RV reg (nl + 1) (snd (m_lnew st xs)) (snd (s_lnew ss sxs)).
Proof.
  intros reg nl st ss xs sxs [H <-] HX. destruct (lnew_sim _ _ _ _ _ H HX) as [H1 [H2 _]].
  split; [split; [exact H1 | reflexivity] | exact H2].
Qed.

Lemma new_sim' : forall reg nl st ss k fs, RSn reg nl st ss ->
  rrel (fun r1 r2 => exists reg', ext reg reg' /\ RSn reg' nl (fst r1) (fst r2) /\ RV reg' nl (snd r1) (snd r2))
       (m_new st k fs) (s_new ss k fs).
Proof.
  intros reg nl st ss k fs [H <-]. eapply rrel_weaken; [apply new_sim; exact H|].
  intros r1 r2 [reg' [HE [HRS [HV HN]]]]. exists reg'. split; [exact HE|]. split; [split; assumption | exact HV].
Qed.

Lemma RSn_ext_RV : forall reg nl v sv, RV reg nl v sv -> forall reg' nl', ext reg reg' -> nl <= nl' -> RV reg' nl' v sv.
Proof. intros. eapply RV_mono; eauto. Qed.

(* ---------------------------------------------------------------- the generic layer *)

Lemma gpath_sim : forall reg nl st ss p, RSn reg nl st ss -> rrel (RV reg nl) (gpath (impl false) st p) (gpath spec ss p).
Proof.
  intros reg nl st ss p H. induction p as [x|p IH f]; cbn [gpath].
  - apply get_sim'. exact H.
  - eapply rrel_bind; [exact IH|]. intros o so HO. apply fread_sim'; assumption.
Qed.

Lemma geval_sim : forall reg nl st ss e, RSn reg nl st ss -> rrel (RV reg nl) (geval (impl false) st e) (geval spec ss e).
Proof.
  intros reg nl st ss e H. destruct e; cbn [geval].
  - apply lit_sim.
  - now apply gpath_sim.
Qed.

Lemma gevals_sim : forall reg nl st ss es, RSn reg nl st ss ->
  rrel (Forall2 (RV reg nl)) (gevals (impl false) st es) (gevals spec ss es).
Proof.
  intros reg nl st ss es H. induction es as [|e es IH]; cbn [gevals].
  - constructor.
  - eapply rrel_bind; [apply geval_sim; exact H|]. intros v sv HV.
    eapply rrel_bind; [exact IH|]. intros vs svs HVS. cbn. constructor; assumption.
Qed.

Lemma gbinop_sim : forall reg nl op a sa b sb, RV reg nl a sa -> RV reg nl b sb ->
  rrel (RV reg nl) (gbinop (impl false) op a b) (gbinop spec op sa sb).
Proof.
  intros reg nl op a sa b sb [_ HA] [_ HB]. unfold gbinop. cbn [i_scalar impl spec i_lit].
  rewrite (scalar_sim _ _ HA), (scalar_sim _ _ HB).
  destruct (s_scalar sa) as [x|]; [|reflexivity]. destruct (s_scalar sb) as [y|]; [|reflexivity].
  destruct (lit_binop op x y); cbn; [apply lit_sim | reflexivity].
Qed.

Lemma gscalars_sim : forall reg nl xs sxs, Forall2 (RV reg nl) xs sxs -> gscalars (impl false) xs = gscalars spec sxs.
Proof.
  intros reg nl xs sxs H. induction H as [|x sx xs sxs [_ HX] _ IH]; cbn [gscalars]; [reflexivity|].
  cbn [i_scalar impl spec]. rewrite (scalar_sim _ _ HX). destruct (s_scalar sx); [|reflexivity]. rewrite IH. reflexivity.
Qed.

Lemma gview_sim : forall reg nl st ss v sv, RSn reg nl st ss -> RV reg nl v sv ->
  rrel eq (gview (impl false) st v) (gview spec ss sv).
Proof.
  intros reg nl st ss v sv H HV. unfold gview. cbn [i_scalar impl spec i_lread].
  rewrite (scalar_sim _ _ (proj2 HV)). destruct (s_scalar sv); [reflexivity|].
  eapply rrel_bind; [apply lread_sim'; eassumption|]. intros xs sxs HX.
  rewrite (gscalars_sim _ _ _ _ HX). apply rrel_eq. reflexivity.
Qed.

Lemma gisnil_sim : forall v sv, vrel v sv -> gisnil (impl false) v = gisnil spec sv.
Proof. intros v sv H. unfold gisnil. cbn [i_scalar impl spec]. rewrite (scalar_sim _ _ H). reflexivity. Qed.

Lemma gupd_sim : forall reg nl st ss o so f op d sd, RSn reg nl st ss -> RV reg nl o so -> RV reg nl d sd ->
  rrel (fun r1 r2 => RSn reg nl (fst r1) (fst r2) /\ RV reg nl (snd r1) (snd r2))
       (gupd (impl false) st o f op d) (gupd spec ss so f op sd).
Proof.
  intros reg nl st ss o so f op d sd H HO HD. unfold gupd. cbn [i_fread i_fwrite impl spec].
  eapply rrel_bind; [apply fread_sim'; eassumption|]. intros cur scur HC.
  eapply rrel_bind; [apply gbinop_sim; eassumption|]. intros r sr HR.
  eapply rrel_bind; [apply fwrite_sim'; eassumption|]. intros st' ss' HS. cbn. split; assumption.
Qed.

Lemma gfreads_sim : forall reg nl st ss o so fs, RSn reg nl st ss -> RV reg nl o so ->
  rrel (Forall2 (RV reg nl)) (gfreads (impl false) st o fs) (gfreads spec ss so fs).
Proof.
  intros reg nl st ss o so fs H HO. induction fs as [|f fs IH]; cbn [gfreads].
  - constructor.
  - cbn [i_fread impl spec]. eapply rrel_bind; [apply fread_sim'; eassumption|]. intros v sv HV.
    eapply rrel_bind; [exact IH|]. intros vs svs HVS. cbn. constructor; assumption.
Qed.

Lemma Forall2_nth_error : forall {A B} (P : A -> B -> Prop) xs ys k,
  Forall2 P xs ys -> orel P (nth_error xs k) (nth_error ys k).
Proof.
  intros A B P xs ys k H. revert k. induction H; intros [|k]; cbn; auto.
Qed.

Lemma gctor_sim : forall body reg nl st ss args sargs o so,
  RSn reg nl st ss -> Forall2 (RV reg nl) args sargs -> RV reg nl o so ->
  rrel (fun st' ss' => exists nl', nl <= nl' /\ RSn reg nl' st' ss')
       (gctor (impl false) body args st o) (gctor spec body sargs ss so).
Proof.
  induction body as [|[f i] body IH]; intros reg nl st ss args sargs o so H HA HO; cbn [gctor].
  - cbn. exists nl. split; [lia | exact H].
  - set (P := fun (r1 : state * val) (r2 : sstate * sval) =>
                exists nl', nl <= nl' /\ RSn reg nl' (fst r1) (fst r2) /\ RV reg nl' (snd r1) (snd r2)).
    eapply (rrel_bind P).
    + destruct i as [k|l|]; cbn [i_lit i_lnew impl spec].
      * pose proof (Forall2_nth_error _ _ _ k HA) as HN. unfold orel in HN.
        destruct (nth_error args k), (nth_error sargs k); try contradiction; cbn; [|reflexivity].
        exists nl. split; [lia|]. split; assumption.
      * cbn. exists nl. split; [lia|]. split; [exact H | apply lit_sim].
      * cbn. destruct (lnew_sim' _ _ _ _ [] [] H (Forall2_nil _)) as [H1 H2].
        exists (nl + 1). split; [lia|]. split; assumption.
    + intros r1 r2 [nl' [HL [HS HV]]]. cbn [i_fwrite impl spec].
      assert (HO' : RV reg nl' o so) by (eapply RV_mono; [apply ext_refl | exact HL | exact HO]).
      eapply rrel_bind; [apply fwrite_sim'; eassumption|]. intros st2 ss2 HS2.
      eapply rrel_weaken.
      * eapply IH; [exact HS2 | eapply RVs_mono; [apply ext_refl | exact HL | exact HA] | exact HO'].
      * intros st3 ss3 [nl3 [HL3 HS3]]. exists nl3. split; [lia | exact HS3].
Qed.

Lemma Forall2_length' : forall {A B} (P : A -> B -> Prop) xs ys, Forall2 P xs ys -> length xs = length ys.
Proof. intros A B P xs ys H. induction H; cbn; congruence. Qed.

(* the outcome of a state-changing computation: a larger registry, a larger list bound *)
Definition post {A B} (reg : registry) (nl : lid) (Q : registry -> lid -> A -> B -> Prop)
           (r1 : state * A) (r2 : sstate * B) : Prop :=
  exists reg' nl', ext reg reg' /\ nl <= nl' /\ RSn reg' nl' (fst r1) (fst r2) /\ Q reg' nl' (snd r1) (snd r2).

Lemma gnew_sim : forall ct reg nl st ss k args sargs,
  RSn reg nl st ss -> Forall2 (RV reg nl) args sargs ->
  rrel (post reg nl RV) (gnew (impl false) ct st k args) (gnew spec ct ss k sargs).
Proof.
  intros ct reg nl st ss k args sargs H HA. unfold gnew.
  destruct (nth_error ct (N.to_nat k)) as [cd|]; [|reflexivity].
  rewrite (Forall2_length' _ _ _ HA). destruct (negb (Nat.eqb (length sargs) (c_arity cd))); [reflexivity|].
  cbn [i_new impl spec].
  eapply rrel_bind; [apply new_sim'; exact H|]. intros r1 r2 [reg' [HE [HS HV]]].
  eapply rrel_bind.
  - eapply gctor_sim; [exact HS | eapply RVs_mono; [exact HE | apply N.le_refl | exact HA] | exact HV].
  - intros st2 ss2 [nl' [HL HS2]]. cbn. exists reg', nl'. split; [exact HE|]. split; [exact HL|]. split; [exact HS2|].
    eapply RV_mono; [apply ext_refl | exact HL | exact HV].
Qed.

Definition RVo (reg : registry) (nl : lid) (a : option val) (b : option sval) : Prop := orel (RV reg nl) a b.

Lemma gmeth_sim : forall ct reg nl st ss self sself m args sargs,
  RSn reg nl st ss -> RV reg nl self sself -> Forall2 (RV reg nl) args sargs ->
  rrel (post reg nl RVo) (gmeth (impl false) ct st self m args) (gmeth spec ct ss sself m sargs).
Proof.
  intros ct reg nl st ss self sself m args sargs H HSelf HA.
  assert (POST0 : forall (st' : state) (ss' : sstate) r sr, RSn reg nl st' ss' -> RVo reg nl r sr ->
            post reg nl RVo (st', r) (ss', sr)).
  { intros st' ss' r sr HS HR. exists reg, nl. split; [apply ext_refl|]. split; [lia|]. split; assumption. }
  destruct m; unfold gmeth.
  - (* MGet *) inversion HA; subst; [|reflexivity]. cbn [i_fread impl spec].
    eapply rrel_bind; [apply fread_sim'; eassumption|]. intros v sv HV. cbn. apply POST0; [exact H | exact HV].
  - (* MSet *) inversion HA as [|v sv vs svs HV HVS]; subst; [reflexivity|]. inversion HVS; subst; [|reflexivity].
    cbn [i_fwrite impl spec]. eapply rrel_bind; [apply fwrite_sim'; eassumption|]. intros st' ss' HS. cbn.
    apply POST0; [exact HS | exact I].
  - (* MInc *) inversion HA as [|v sv vs svs HV HVS]; subst; [reflexivity|]. inversion HVS; subst; [|reflexivity].
    eapply rrel_bind; [apply gupd_sim; eassumption|]. intros r1 r2 [HS HR]. cbn. apply POST0; assumption.
  - (* MTwice *) inversion HA as [|v sv vs svs HV HVS]; subst; [reflexivity|]. inversion HVS; subst; [|reflexivity].
    eapply rrel_bind; [apply gupd_sim; eassumption|]. intros r1 r2 [HS HR].
    eapply rrel_bind; [apply gupd_sim; eassumption|]. intros r3 r4 [HS' HR']. cbn. apply POST0; assumption.
  - (* MWith *) inversion HA as [|v sv vs svs HV HVS]; subst; [reflexivity|]. inversion HVS; subst; [|reflexivity].
    cbn [i_fwrite impl spec]. eapply rrel_bind; [apply fwrite_sim'; eassumption|]. intros st' ss' HS. cbn.
    apply POST0; [exact HS | exact HSelf].
  - (* MMe *) inversion HA; subst; [|reflexivity]. cbn. apply POST0; [exact H | exact HSelf].
  - (* MBump *) inversion HA as [|v sv vs svs HV HVS]; subst; [reflexivity|].
    inversion HVS as [|d sd ds sds HD HDS]; subst; [reflexivity|]. inversion HDS; subst; [|reflexivity].
    eapply rrel_bind; [apply gupd_sim; eassumption|]. intros r1 r2 [HS HR]. cbn. apply POST0; [exact HS | exact I].
  - (* MGetBare *) inversion HA; subst; [|reflexivity]. cbn [i_fread impl spec].
    eapply rrel_bind; [apply fread_sim'; eassumption|]. intros v sv HV. cbn. apply POST0; [exact H | exact HV].
  - (* MSetBare *) inversion HA as [|v sv vs svs HV HVS]; subst; [reflexivity|]. inversion HVS; subst; [|reflexivity].
    cbn [i_fwrite impl spec]. eapply rrel_bind; [apply fwrite_sim'; eassumption|]. intros st' ss' HS. cbn.
    apply POST0; [exact HS | exact I].
  - (* MPush *) inversion HA as [|v sv vs svs HV HVS]; subst; [reflexivity|]. inversion HVS; subst; [|reflexivity].
    cbn [i_fread i_lread i_lwrite impl spec].
    eapply rrel_bind; [apply fread_sim'; eassumption|]. intros l sl HL.
    eapply rrel_bind; [apply lread_sim'; eassumption|]. intros xs sxs HX.
    eapply rrel_bind.
    + apply lwrite_sim'; [eassumption | eassumption|]. apply Forall2_app; [exact HX | constructor; [exact HV | constructor]].
    + intros st' ss' HS. cbn. apply POST0; [exact HS | exact I].
  - (* MPoke *) inversion HA as [|v sv vs svs HV HVS]; subst; [reflexivity|]. inversion HVS; subst; [|reflexivity].
    cbn [i_fread impl spec].
    eapply rrel_bind; [apply fread_sim'; eassumption|]. intros o so HO.
    eapply rrel_bind; [apply gupd_sim; eassumption|]. intros r1 r2 [HS HR]. cbn. apply POST0; [exact HS | exact I].
  - (* MDup *) inversion HA; subst; [|reflexivity]. cbn [i_cls impl spec].
    eapply rrel_bind; [apply gfreads_sim; eassumption|]. intros vs svs HVS.
    eapply rrel_bind; [eapply cls_sim'; eassumption|]. intros k sk <-.
    eapply rrel_bind; [apply gnew_sim; eassumption|]. intros r1 r2 [reg' [nl' [HE [HL [HS HV]]]]]. cbn.
    exists reg', nl'. split; [exact HE|]. split; [exact HL|]. split; [exact HS | exact HV].
  - (* MRo *) inversion HA; subst; [|reflexivity]. cbn [i_fread i_scalar i_lit impl spec].
    eapply rrel_bind; [apply fread_sim'; eassumption|]. intros v sv HV.
    destruct HV as [HV0 HV1]. rewrite (scalar_sim _ _ HV1).
    destruct (s_scalar sv) as [x|]; [|reflexivity].
    destruct (lit_ro k x); cbn; [|reflexivity]. apply POST0; [exact H | apply lit_sim].
Qed.

Lemma gindex_sim : forall reg nl xs sxs i, Forall2 (RV reg nl) xs sxs ->
  rrel (RV reg nl) (gindex xs i) (gindex sxs i).
Proof.
  intros reg nl xs sxs i H. unfold gindex. destruct (negb (in_i32 i)); [reflexivity|].
  destruct (i <? 0)%Z; [reflexivity|].
  pose proof (Forall2_nth_error _ _ _ (Z.to_nat i) H) as HN. unfold orel in HN.
  destruct (nth_error xs (Z.to_nat i)), (nth_error sxs (Z.to_nat i)); try contradiction; cbn; auto.
Qed.

Definition obs_eq (reg : registry) (nl : lid) (a b : list oval) : Prop := a = b.

Theorem gstep_sim : forall ct reg nl st ss c, RSn reg nl st ss ->
  rrel (post reg nl obs_eq) (gstep (impl false) ct st c) (gstep spec ct ss c).
Proof.
  intros ct reg nl st ss c H.
  assert (POST0 : forall (st' : state) (ss' : sstate) o, RSn reg nl st' ss' -> post reg nl obs_eq (st', o) (ss', o)).
  { intros st' ss' o HS. exists reg, nl. split; [apply ext_refl|]. split; [lia|]. split; [exact HS | reflexivity]. }
  destruct c as [dst k args|dst p unwrap|p f e|p f op l|p|p|rm p m args|dst es|lp e|dst lp i|lp|p f d|dst p|a b|dst p];
    unfold gstep; cbn [i_get i_set i_lit i_recv i_is i_unwrap i_wrap i_lnew i_lread i_lwrite i_fwrite impl spec].
  - (* New *)
    eapply rrel_bind; [apply gevals_sim; exact H|]. intros vs svs HVS.
    eapply rrel_bind; [apply gnew_sim; eassumption|]. intros r1 r2 [reg' [nl' [HE [HL [HS HV]]]]]. cbn.
    exists reg', nl'. split; [exact HE|]. split; [exact HL|]. split; [apply set_sim'; assumption | reflexivity].
  - (* Bind *)
    eapply rrel_bind; [apply gpath_sim; exact H|]. intros v sv HV.
    destruct unwrap.
    + eapply rrel_bind; [eapply unwrap_sim; exact HV|]. intros u su HU. cbn. apply POST0. apply set_sim'; assumption.
    + cbn. apply POST0. apply set_sim'; assumption.
  - (* Write *)
    eapply rrel_bind; [apply geval_sim; exact H|]. intros v sv HV.
    eapply rrel_bind; [apply gpath_sim; exact H|]. intros o so HO.
    eapply rrel_bind; [apply fwrite_sim'; eassumption|]. intros st' ss' HS. cbn. now apply POST0.
  - (* OpAssign *)
    eapply rrel_bind; [apply gpath_sim; exact H|]. intros o so HO.
    eapply rrel_bind; [apply gupd_sim; [eassumption | eassumption | apply lit_sim]|]. intros r1 r2 [HS HR]. cbn. now apply POST0.
  - (* Print *)
    eapply rrel_bind; [apply gpath_sim; exact H|]. intros v sv HV.
    eapply rrel_bind; [eapply gview_sim; eassumption|]. intros w sw <-. cbn. now apply POST0.
  - (* IsNil *)
    eapply rrel_bind; [apply gpath_sim; exact H|]. intros v sv HV. rewrite (gisnil_sim _ _ (proj2 HV)). cbn. now apply POST0.
  - (* Call *)
    eapply rrel_bind; [apply gpath_sim; exact H|]. intros self sself HSelf.
    rewrite (recv_sim _ _ (proj2 HSelf)). destruct (s_recv sself); [|reflexivity]. cbn [bind].
    eapply rrel_bind; [apply gevals_sim; exact H|]. intros vs svs HVS.
    eapply rrel_bind; [apply gmeth_sim; eassumption|]. intros r1 r2 [reg' [nl' [HE [HL [HS HR]]]]].
    unfold RVo, orel in HR.
    destruct rm; destruct (snd r1) as [v|], (snd r2) as [sv|]; try contradiction; try reflexivity; cbn.
    + exists reg', nl'. split; [exact HE|]. split; [exact HL|]. split; [apply set_sim'; assumption | reflexivity].
    + eapply rrel_bind; [eapply gview_sim; eassumption|]. intros w sw <-. cbn.
      exists reg', nl'. split; [exact HE|]. split; [exact HL|]. split; [exact HS | reflexivity].
    + exists reg', nl'. split; [exact HE|]. split; [exact HL|]. split; [exact HS | reflexivity].
    + exists reg', nl'. split; [exact HE|]. split; [exact HL|]. split; [exact HS | reflexivity].
  - (* ListNew *)
    eapply rrel_bind; [apply gevals_sim; exact H|]. intros vs svs HVS. cbn.
    destruct (lnew_sim' _ _ _ _ _ _ H HVS) as [H1 H2].
    exists reg, (nl + 1). split; [apply ext_refl|]. split; [lia|]. split; [apply set_sim'; assumption | reflexivity].
  - (* ListPush *)
    eapply rrel_bind; [apply gpath_sim; exact H|]. intros lv slv HL.
    eapply rrel_bind; [apply geval_sim; exact H|]. intros v sv HV.
    eapply rrel_bind; [apply lread_sim'; eassumption|]. intros xs sxs HX.
    eapply rrel_bind.
    + apply lwrite_sim'; [eassumption | eassumption|]. apply Forall2_app; [exact HX | constructor; [exact HV | constructor]].
    + intros st' ss' HS. cbn. now apply POST0.
  - (* ListGet *)
    eapply rrel_bind; [apply gpath_sim; exact H|]. intros lv slv HL.
    eapply rrel_bind; [apply lread_sim'; eassumption|]. intros xs sxs HX.
    eapply rrel_bind; [apply gindex_sim; eassumption|]. intros v sv HV. cbn. apply POST0. apply set_sim'; assumption.
  - (* ListLen *)
    eapply rrel_bind; [apply gpath_sim; exact H|]. intros lv slv HL.
    eapply rrel_bind; [apply lread_sim'; eassumption|]. intros xs sxs HX. cbn.
    rewrite (Forall2_length' _ _ _ HX). now apply POST0.
  - (* PassAndMutate *)
    eapply rrel_bind; [apply gpath_sim; exact H|]. intros o so HO.
    rewrite (recv_sim _ _ (proj2 HO)). destruct (s_recv so); [|reflexivity]. cbn [bind].
    eapply rrel_bind; [apply gupd_sim; [eassumption | eassumption | apply lit_sim]|]. intros r1 r2 [HS HR]. cbn. now apply POST0.
  - (* ReturnSame *)
    eapply rrel_bind; [apply gpath_sim; exact H|]. intros o so HO.
    rewrite (recv_sim _ _ (proj2 HO)). destruct (s_recv so); [|reflexivity]. cbn. apply POST0. apply set_sim'; assumption.
  - (* IsTest *)
    eapply rrel_bind; [apply gpath_sim; exact H|]. intros x sx HX.
    eapply rrel_bind; [apply gpath_sim; exact H|]. intros y sy HY.
    rewrite (is_sim _ _ _ _ (proj2 HX) (proj2 HY)). destruct (s_is sx sy); [|reflexivity]. cbn. now apply POST0.
  - (* ThroughMap *)
    eapply rrel_bind; [apply gpath_sim; exact H|]. intros o so HO.
    rewrite (recv_sim _ _ (proj2 HO)). destruct (s_recv so); [|reflexivity]. cbn [bind].
    eapply rrel_bind; [eapply wrap_sim; exact HO|]. intros w sw HW. cbn. apply POST0. apply set_sim'; assumption.
Qed.

Lemma RS0 : RSn (fun _ => None) 0 st0 ss0.
Proof.
  split; [split|reflexivity].
  - constructor; cbn; intros; try discriminate; constructor.
  - constructor; cbn; intros; try discriminate; try reflexivity; exact I.
Qed.

Lemma grun_sim : forall ct h reg nl st ss, RSn reg nl st ss ->
  grun_from (impl false) ct st h = grun_from spec ct ss h.
Proof.
  induction h as [|c h IH]; intros reg nl st ss H; cbn [grun_from]; [reflexivity|].
  pose proof (gstep_sim ct _ _ _ _ c H) as HS. unfold rrel in HS.
  destruct (gstep (impl false) ct st c) as [[st' o]|f], (gstep spec ct ss c) as [[ss' o']|f']; try contradiction.
  - destruct HS as [reg' [nl' [_ [_ [HS' HO]]]]]. cbn in HS', HO. unfold obs_eq in HO. subst o'.
    rewrite (IH _ _ _ _ HS'). reflexivity.
  - congruence.
Qed.

(* REFINEMENT: for every class table and every history the (impl false)-model prints the observations of the abstract
   store (identity -> field -> value) and ends the same way, at the same operation *)
Theorem objects_refine : forall (ct : ctab) (h : list oop), run false ct h = spec_run ct h.
Proof. intros ct h. unfold run, spec_run. eapply grun_sim. exact RS0. Qed.

(* ---------------------------------------------------------------- reachable states satisfy the invariant *)

Fixpoint exec (ct : ctab) (st : state) (h : list oop) : option state :=
  match h with
  | [] => Some st
  | c :: h => match step false ct st c with Ok (st', _) => exec ct st' h | Fail _ => None end
  end.

(* the states of all histories *)
Definition reachable (ct : ctab) (st : state) : Prop := exists h, exec ct st0 h = Some st.

Lemma exec_RS : forall ct h reg nl st ss st', RSn reg nl st ss -> exec ct st h = Some st' ->
  exists reg' nl' ss', RSn reg' nl' st' ss'.
Proof.
  induction h as [|c h IH]; intros reg nl st ss st' H HE; cbn [exec] in HE.
  - inversion HE; subst. eauto.
  - pose proof (gstep_sim ct _ _ _ _ c H) as HS. unfold step in HE. unfold rrel in HS.
    destruct (gstep (impl false) ct st c) as [[st1 o]|f]; [|discriminate].
    destruct (gstep spec ct ss c) as [[ss1 o']|f']; [|contradiction].
    destruct HS as [reg' [nl' [_ [_ [HS' _]]]]]. cbn in HS'. eapply IH; eauto.
Qed.

Theorem reachable_inv : forall ct st, reachable ct st -> exists reg, inv reg st.
Proof.
  intros ct st [h HE]. destruct (exec_RS ct h _ _ _ _ _ RS0 HE) as [reg [nl [ss [[HI _] _]]]]. eauto.
Qed.

(* ---------------------------------------------------------------- references *)

Lemma gpath_vok : forall reg st p v, inv reg st -> gpath (impl false) st p = Ok v -> vok reg (nlist st) v.
Proof.
  intros reg st p. induction p as [x|p IH f]; intros v HI H; cbn [gpath] in H.
  - cbn [i_get impl] in H. unfold m_get in H. destruct (aget (env st) x) eqn:E; inversion H; subst.
    eapply (aget_forall (vok reg (nlist st)) (env st)); [apply inv_venv; exact HI | exact E].
  - destruct (gpath (impl false) st p) as [o|]; cbn [bind] in H; [|discriminate].
    cbn [i_fread impl] in H. unfold m_fread in H. destruct (field_cell false o f); cbn [bind] in H; [|discriminate].
    destruct (aget (cells st) a) eqn:E; inversion H; subst.
    eapply (aget_forall (vok reg (nlist st)) (cells st)); [apply inv_vcells; exact HI | exact E].
Qed.

(* every reference the program can get hold of is THE reference make_object built for its identity *)
Lemma ref_registered : forall reg st p o, inv reg st -> gpath (impl false) st p = Ok (VObj o) -> reg (o_id o) = Some o.
Proof. intros reg st p o HI H. exact (gpath_vok _ _ _ _ HI H). Qed.

Lemma same_id_same_ref : forall reg st a b o1 o2,
  inv reg st -> gpath (impl false) st a = Ok (VObj o1) -> gpath (impl false) st b = Ok (VObj o2) ->
  o_id o1 = o_id o2 -> o1 = o2.
Proof.
  intros reg st a b o1 o2 HI H1 H2 E. apply (ref_registered _ _ _ _ HI) in H1, H2. rewrite E in H1. congruence.
Qed.

(* ---------------------------------------------------------------- frames of the primitives *)

Lemma fwrite_inv : forall st o f x st', m_fwrite false st (VObj o) f x = Ok st' ->
  exists c, aget (o_map o) f = Some c /\ st' = set_cells st ((c, x) :: cells st).
Proof.
  intros st o f x st' H. unfold m_fwrite, field_cell in H. destruct (aget (o_map o) f) as [c|]; cbn [bind] in H; [|discriminate].
  destruct (aget (cells st) c); inversion H. eauto.
Qed.

Lemma fwrite_fread_same : forall st o f x st', m_fwrite false st (VObj o) f x = Ok st' -> m_fread false st' (VObj o) f = Ok x.
Proof.
  intros st o f x st' H. destruct (fwrite_inv _ _ _ _ _ H) as [c [Hc ->]].
  unfold m_fread, field_cell. rewrite Hc. cbn [bind set_cells cells]. rewrite aget_cons, N.eqb_refl. reflexivity.
Qed.

Lemma fread_cell : forall st o f v, m_fread false st (VObj o) f = Ok v ->
  exists c, aget (o_map o) f = Some c /\ aget (cells st) c = Some v.
Proof.
  intros st o f v H. unfold m_fread, field_cell in H. destruct (aget (o_map o) f) as [c|]; cbn [bind] in H; [|discriminate].
  destruct (aget (cells st) c) eqn:E; inversion H; subst. eauto.
Qed.

Lemma fread_frame : forall st st' o g, (forall c, aget (o_map o) g = Some c -> aget (cells st') c = aget (cells st) c) ->
  m_fread false st' (VObj o) g = m_fread false st (VObj o) g.
Proof.
  intros st st' o g H. unfold m_fread, field_cell. destruct (aget (o_map o) g) as [c|]; cbn [bind]; [|reflexivity].
  rewrite (H c eq_refl). reflexivity.
Qed.

(* cells of every registered object other than `keep` hold what they held *)
Definition unchanged_outside (reg : registry) (keep : oid) (st st' : state) : Prop :=
  forall i o' g c, reg i = Some o' -> i <> keep -> aget (o_map o') g = Some c -> aget (cells st') c = aget (cells st) c.

Lemma unchanged_refl : forall reg keep st, unchanged_outside reg keep st st.
Proof. intros reg keep st i o' g c _ _ _. reflexivity. Qed.

Lemma unchanged_trans : forall reg keep st1 st2 st3,
  unchanged_outside reg keep st1 st2 -> unchanged_outside reg keep st2 st3 -> unchanged_outside reg keep st1 st3.
Proof. intros reg keep st1 st2 st3 H1 H2 i o' g c Hr Hn Hc. rewrite (H2 _ _ _ _ Hr Hn Hc). eauto. Qed.

Lemma fwrite_unchanged : forall reg st o f x st', inv reg st -> reg (o_id o) = Some o ->
  m_fwrite false st (VObj o) f x = Ok st' -> unchanged_outside reg (o_id o) st st'.
Proof.
  intros reg st o f x st' HI Hr H. destruct (fwrite_inv _ _ _ _ _ H) as [c [Hc ->]].
  intros i o' g c' Hr' Hn Hc'. cbn [set_cells cells]. rewrite aget_cons.
  destruct (N.eqb_spec c c') as [<-|NE]; [|reflexivity].
  exfalso. apply Hn. eapply (inv_disj _ _ HI); eauto.
Qed.

Lemma fwrite_keeps_inv : forall reg st o f x st', inv reg st -> vok reg (nlist st) x ->
  m_fwrite false st (VObj o) f x = Ok st' -> inv reg st'.
Proof.
  intros reg st o f x st' HI HX H. destruct (fwrite_inv _ _ _ _ _ H) as [c [Hc ->]].
  destruct HI. constructor; cbn [set_cells nid ncell cells env lists nlist]; auto.
  intros i o' f' c' Hr Hc'. destruct (inv_cell0 _ _ _ _ Hr Hc') as [Hlt [v' Hv']]. split; auto.
  rewrite aget_cons. destruct (c =? c'); eauto.
Qed.

Lemma gbinop_vok : forall reg nl op a b r, gbinop (impl false) op a b = Ok r -> vok reg nl r.
Proof.
  intros reg nl op a b r H. unfold gbinop in H. cbn [i_scalar i_lit impl] in H.
  destruct (m_scalar a) as [x|]; [|discriminate]. destruct (m_scalar b) as [y|]; [|discriminate].
  destruct (lit_binop op x y) as [z|]; cbn [bind] in H; inversion H. destruct z; exact I.
Qed.

Lemma gupd_unchanged : forall reg st o f op d st' r, inv reg st -> reg (o_id o) = Some o ->
  gupd (impl false) st (VObj o) f op d = Ok (st', r) -> unchanged_outside reg (o_id o) st st' /\ inv reg st'.
Proof.
  intros reg st o f op d st' r HI Hr H. unfold gupd in H. cbn [i_fread i_fwrite impl] in H.
  destruct (m_fread false st (VObj o) f) as [cur|]; cbn [bind] in H; [|discriminate].
  destruct (gbinop (impl false) op cur d) as [r'|] eqn:EB; cbn [bind] in H; [|discriminate].
  destruct (m_fwrite false st (VObj o) f r') as [st1|] eqn:EW; cbn [bind] in H; inversion H; subst.
  split; [eapply fwrite_unchanged; eauto | eapply fwrite_keeps_inv; eauto using gbinop_vok].
Qed.

(* a construction leaves every cell allocated before it as it was, and makes a reference with a new identity
   whose cells are all new *)
Lemma gctor_old_cells : forall body args st o st', gctor (impl false) body args st (VObj o) = Ok st' ->
  forall n, (forall f c, aget (o_map o) f = Some c -> n <= c) ->
  forall c, c < n -> aget (cells st') c = aget (cells st) c.
Proof.
  induction body as [|[f i] body IH]; intros args st o st' H n Hn c Hc; cbn [gctor] in H.
  - inversion H. reflexivity.
  - match type of H with bind ?X _ = _ => destruct X as [[s1 v1]|] eqn:E1 end; cbn [bind fst snd] in H; [|discriminate].
    cbn [i_fwrite impl] in H.
    destruct (m_fwrite false s1 (VObj o) f v1) as [s2|] eqn:E2; cbn [bind] in H; [|discriminate].
    rewrite (IH _ _ _ _ H n Hn c Hc).
    destruct (fwrite_inv _ _ _ _ _ E2) as [c' [Hc' ->]]. cbn [set_cells cells]. rewrite aget_cons.
    destruct (N.eqb_spec c' c) as [->|NE]; [apply Hn in Hc'; lia|].
    destruct i; cbn [i_lit i_lnew impl] in E1.
    + destruct (nth_error args k); inversion E1; subst. reflexivity.
    + inversion E1; subst. reflexivity.
    + inversion E1; subst. reflexivity.
Qed.

Lemma gnew_fresh : forall ct st k args st' v, gnew (impl false) ct st k args = Ok (st', v) ->
  exists o, v = VObj o /\ o_id o = nid st /\ o_cls o = k /\
    (forall f c, aget (o_map o) f = Some c -> ncell st <= c) /\
    (forall c, c < ncell st -> aget (cells st') c = aget (cells st) c).
Proof.
  intros ct st k args st' v H. unfold gnew in H.
  destruct (nth_error ct (N.to_nat k)) as [cd|]; [|discriminate].
  destruct (negb (Nat.eqb (length args) (c_arity cd))); [discriminate|].
  cbn [i_new impl] in H. unfold m_new in H. destruct (negb (nodupb (c_fields cd))); cbn [bind] in H; [discriminate|].
  cbn [fst snd] in H.
  match type of H with bind (gctor (impl false) _ _ ?S (VObj ?O)) _ = _ => set (s1 := S) in *; set (o := O) in * end.
  destruct (gctor (impl false) (c_body cd) args s1 (VObj o)) as [s2|] eqn:EC; cbn [bind] in H; inversion H; subst.
  exists o. split; [reflexivity|]. split; [reflexivity|]. split; [reflexivity|].
  assert (HR : forall f c, aget (o_map o) f = Some c -> ncell st <= c).
  { intros f c Hc. cbn [o_map o] in Hc. apply alloc_range in Hc. lia. }
  split; [exact HR|]. intros c Hc.
  rewrite (gctor_old_cells _ _ _ _ _ EC (ncell st) HR c Hc). unfold s1. cbn [cells]. rewrite alloc_cells.
  replace ((ncell st <=? c) && (c <? ncell st + N.of_nat (length (c_fields cd)))) with false; [reflexivity|].
  symmetry. apply andb_false_iff. left. apply N.leb_gt. lia.
Qed.

(* ---------------------------------------------------------------- C08: constructions are fresh *)

(* a construction yields a reference whose identity no earlier object has and whose cells no earlier object has;
   everything allocated before keeps its content *)
Theorem construct_fresh : forall ct reg st dst k args st' os,
  inv reg st -> step false ct st (New dst k args) = Ok (st', os) ->
  exists o, aget (env st') dst = Some (VObj o) /\ o_cls o = k /\
    (forall i o', reg i = Some o' -> o_id o' <> o_id o) /\
    (forall i o' f g c, reg i = Some o' -> aget (o_map o) f = Some c -> aget (o_map o') g = Some c -> False) /\
    (forall i o' g c, reg i = Some o' -> aget (o_map o') g = Some c -> aget (cells st') c = aget (cells st) c).
Proof.
  intros ct reg st dst k args st' os HI H. unfold step, gstep in H.
  destruct (gevals (impl false) st args) as [vs|]; cbn [bind] in H; [|discriminate].
  destruct (gnew (impl false) ct st k vs) as [[st1 v]|] eqn:EN; cbn [bind fst snd] in H; inversion H; subst.
  destruct (gnew_fresh _ _ _ _ _ _ EN) as [o [-> [Hid [Hk [Hrange Hold]]]]].
  exists o. cbn [i_set impl m_set env cells]. rewrite aget_cons, N.eqb_refl.
  split; [reflexivity|]. split; [exact Hk|]. split; [|split].
  - intros i o' Hr E. destruct (inv_id _ _ HI _ _ Hr) as [E1 E2]. lia.
  - intros i o' f g c Hr Hc Hc'. apply Hrange in Hc. destruct (inv_cell _ _ HI _ _ _ _ Hr Hc'). lia.
  - intros i o' g c Hr Hc. apply Hold. destruct (inv_cell _ _ HI _ _ _ _ Hr Hc). assumption.
Qed.

(* two objects with different identities share no cell: writing a field of one never changes a field of the other *)
Theorem distinct_objects_independent : forall reg st a b o1 o2,
  inv reg st -> gpath (impl false) st a = Ok (VObj o1) -> gpath (impl false) st b = Ok (VObj o2) -> o_id o1 <> o_id o2 ->
  (forall f g c, aget (o_map o1) f = Some c -> aget (o_map o2) g = Some c -> False) /\
  (forall f x st', m_fwrite false st (VObj o1) f x = Ok st' -> forall g, m_fread false st' (VObj o2) g = m_fread false st (VObj o2) g).
Proof.
  intros reg st a b o1 o2 HI H1 H2 NE.
  pose proof (ref_registered _ _ _ _ HI H1) as R1. pose proof (ref_registered _ _ _ _ HI H2) as R2. split.
  - intros f g c Hf Hg. apply NE. eapply (inv_disj _ _ HI); eauto.
  - intros f x st' HW g. apply fread_frame. intros c Hc.
    eapply (fwrite_unchanged _ _ _ _ _ _ HI R1 HW); eauto.
Qed.

(* ---------------------------------------------------------------- C08: aliases share *)

(* two references with the same identity ARE the same reference (same cells), so an update through one is
   what a read through the other returns *)
Theorem alias_shares : forall reg st a b o1 o2,
  inv reg st -> gpath (impl false) st a = Ok (VObj o1) -> gpath (impl false) st b = Ok (VObj o2) -> o_id o1 = o_id o2 ->
  o1 = o2 /\
  (forall f x st', m_fwrite false st (VObj o1) f x = Ok st' -> m_fread false st' (VObj o2) f = Ok x) /\
  (forall f, m_fread false st (VObj o1) f = m_fread false st (VObj o2) f).
Proof.
  intros reg st a b o1 o2 HI H1 H2 E. assert (o1 = o2) by (eapply same_id_same_ref; eauto). subst o2.
  split; [reflexivity|]. split; [|reflexivity]. intros f x st' HW. eapply fwrite_fread_same; eauto.
Qed.

(* assignment (of a name or of a field), argument passing, return values, `me`, list storage and field storage
   hand on the very reference: identity and cells *)
Theorem bind_same : forall ct st dst p st' os, step false ct st (Bind dst p false) = Ok (st', os) ->
  exists v, gpath (impl false) st p = Ok v /\ aget (env st') dst = Some v /\ cells st' = cells st /\ lists st' = lists st /\ os = [].
Proof.
  intros ct st dst p st' os H. unfold step, gstep in H.
  destruct (gpath (impl false) st p) as [v|]; cbn [bind andb] in H; inversion H; subst.
  exists v. cbn [i_set impl m_set env cells lists]. rewrite aget_cons, N.eqb_refl. auto.
Qed.

Theorem return_same : forall ct st dst p st' os, step false ct st (ReturnSame dst p) = Ok (st', os) ->
  exists v, gpath (impl false) st p = Ok v /\ aget (env st') dst = Some v /\ cells st' = cells st /\ lists st' = lists st /\ os = [].
Proof.
  intros ct st dst p st' os H. unfold step, gstep in H.
  destruct (gpath (impl false) st p) as [v|]; cbn [bind] in H; [|discriminate].
  destruct (i_recv (impl false) v); cbn [bind] in H; inversion H; subst.
  exists v. cbn [i_set impl m_set env cells lists]. rewrite aget_cons, N.eqb_refl. auto.
Qed.

Theorem me_same : forall ct st d p st' os, step false ct st (Call (RBind d) p MMe []) = Ok (st', os) ->
  exists v, gpath (impl false) st p = Ok v /\ aget (env st') d = Some v /\ cells st' = cells st /\ lists st' = lists st /\ os = [].
Proof.
  intros ct st d p st' os H. unfold step, gstep in H.
  destruct (gpath (impl false) st p) as [v|]; cbn [bind] in H; [|discriminate].
  destruct (i_recv (impl false) v); cbn [bind gevals gmeth fst snd] in H; inversion H; subst.
  exists v. cbn [i_set impl m_set env cells lists]. rewrite aget_cons, N.eqb_refl. auto.
Qed.

Theorem pass_is_update : forall ct st p f d o, gpath (impl false) st p = Ok (VObj o) ->
  step false ct st (PassAndMutate p f d) = step false ct st (OpAssign p f Add d).
Proof. intros ct st p f d o H. unfold step, gstep. rewrite H. cbn [bind i_recv impl m_recv]. reflexivity. Qed.

Theorem list_holds_reference : forall ct st lp p st' os, step false ct st (ListPush lp (OPath p)) = Ok (st', os) ->
  exists lv xs v, gpath (impl false) st lp = Ok lv /\ gpath (impl false) st p = Ok v /\ m_lread st lv = Ok xs /\
    m_lread st' lv = Ok (xs ++ [v]) /\ nth_error (xs ++ [v]) (length xs) = Some v /\ cells st' = cells st.
Proof.
  intros ct st lp p st' os H. unfold step, gstep in H. cbn [geval] in H.
  destruct (gpath (impl false) st lp) as [lv|]; cbn [bind] in H; [|discriminate].
  destruct (gpath (impl false) st p) as [v|]; cbn [bind] in H; [|discriminate].
  cbn [i_lread i_lwrite impl] in H.
  destruct (m_lread st lv) as [xs|] eqn:ER; cbn [bind] in H; [|discriminate].
  destruct (m_lwrite st lv (xs ++ [v])) as [st1|] eqn:EW; cbn [bind] in H; inversion H; subst.
  exists lv, xs, v. repeat split; auto.
  - destruct lv; cbn in EW; try discriminate. destruct (aget (lists st) l); inversion EW; subst.
    cbn [m_lread set_lists lists]. rewrite aget_cons, N.eqb_refl. reflexivity.
  - rewrite nth_error_app2, Nat.sub_diag; [reflexivity | lia].
  - destruct lv; cbn in EW; try discriminate. destruct (aget (lists st) l); inversion EW; subst. reflexivity.
Qed.

Theorem field_holds_reference : forall st o f v st', m_fwrite false st (VObj o) f v = Ok st' -> m_fread false st' (VObj o) f = Ok v.
Proof. exact fwrite_fread_same. Qed.

(* ---------------------------------------------------------------- C08: a method updates its receiver only *)

Definition receiver_only (m : meth) : bool :=
  match m with MBump _ | MPoke _ _ => false | _ => true end.

Lemma gnew_unchanged : forall ct reg keep st k args st' v, inv reg st ->
  gnew (impl false) ct st k args = Ok (st', v) -> unchanged_outside reg keep st st'.
Proof.
  intros ct reg keep st k args st' v HI H. destruct (gnew_fresh _ _ _ _ _ _ H) as [o [_ [_ [_ [_ Hold]]]]].
  intros i o' g c Hr _ Hc. apply Hold. destruct (inv_cell _ _ HI _ _ _ _ Hr Hc). assumption.
Qed.

Lemma lwrite_cells : forall st v xs st', m_lwrite st v xs = Ok st' -> cells st' = cells st.
Proof.
  intros st v xs st' H. destruct v; cbn in H; try discriminate. destruct (aget (lists st) l); inversion H; reflexivity.
Qed.

(* whatever method of the family is run on a receiver, except the two that are WRITTEN to update another object
   (bump_f: its argument, poke_f_g: the object in field f), the cells of every other object are untouched *)
Theorem method_updates_receiver_only : forall ct reg st o m args st' r,
  inv reg st -> reg (o_id o) = Some o -> receiver_only m = true ->
  gmeth (impl false) ct st (VObj o) m args = Ok (st', r) -> unchanged_outside reg (o_id o) st st'.
Proof.
  intros ct reg st o m args st' r HI Hr HM H.
  destruct m; try discriminate HM; unfold gmeth in H.
  - (* MGet *) destruct args; [|discriminate]. cbn [i_fread impl] in H.
    destruct (m_fread false st (VObj o) f); cbn [bind] in H; inversion H; subst. apply unchanged_refl.
  - (* MSet *) destruct args as [|v [|]]; try discriminate. cbn [i_fwrite impl] in H.
    destruct (m_fwrite false st (VObj o) f v) eqn:EW; cbn [bind] in H; inversion H; subst. eapply fwrite_unchanged; eauto.
  - (* MInc *) destruct args as [|d [|]]; try discriminate.
    destruct (gupd (impl false) st (VObj o) f Add d) as [[s1 r1]|] eqn:EU; cbn [bind fst snd] in H; inversion H; subst.
    eapply gupd_unchanged; eauto.
  - (* MTwice *) destruct args as [|d [|]]; try discriminate.
    destruct (gupd (impl false) st (VObj o) f Add d) as [[s1 r1]|] eqn:EU; cbn [bind fst snd] in H; [|discriminate].
    destruct (gupd (impl false) s1 (VObj o) f Add d) as [[s2 r2]|] eqn:EU2; cbn [bind fst snd] in H; inversion H; subst.
    destruct (gupd_unchanged _ _ _ _ _ _ _ _ HI Hr EU) as [U1 HI1].
    destruct (gupd_unchanged _ _ _ _ _ _ _ _ HI1 Hr EU2) as [U2 _].
    eapply unchanged_trans; eauto.
  - (* MWith *) destruct args as [|v [|]]; try discriminate. cbn [i_fwrite impl] in H.
    destruct (m_fwrite false st (VObj o) f v) eqn:EW; cbn [bind] in H; inversion H; subst. eapply fwrite_unchanged; eauto.
  - (* MMe *) destruct args; inversion H; subst. apply unchanged_refl.
  - (* MGetBare *) destruct args; [|discriminate]. cbn [i_fread impl] in H.
    destruct (m_fread false st (VObj o) f); cbn [bind] in H; inversion H; subst. apply unchanged_refl.
  - (* MSetBare *) destruct args as [|v [|]]; try discriminate. cbn [i_fwrite impl] in H.
    destruct (m_fwrite false st (VObj o) f v) eqn:EW; cbn [bind] in H; inversion H; subst. eapply fwrite_unchanged; eauto.
  - (* MPush: only a list changes *) destruct args as [|x [|]]; try discriminate. cbn [i_fread i_lread i_lwrite impl] in H.
    destruct (m_fread false st (VObj o) f) as [l|]; cbn [bind] in H; [|discriminate].
    destruct (m_lread st l) as [xs|]; cbn [bind] in H; [|discriminate].
    destruct (m_lwrite st l (xs ++ [x])) as [s1|] eqn:EW; cbn [bind] in H; inversion H; subst.
    intros i o' g c _ _ _. rewrite (lwrite_cells _ _ _ _ EW). reflexivity.
  - (* MDup: only new cells *) destruct args; [|discriminate]. cbn [i_cls impl] in H.
    destruct (gfreads (impl false) st (VObj o) fs) as [vs|]; cbn [bind] in H; [|discriminate].
    cbn [m_cls bind] in H.
    destruct (gnew (impl false) ct st (o_cls o) vs) as [[s1 v1]|] eqn:EN; cbn [bind fst snd] in H; inversion H; subst.
    eapply gnew_unchanged; eauto.
  - (* MRo: reads only *) destruct args; [|discriminate]. cbn [i_fread i_scalar i_lit impl] in H.
    destruct (m_fread false st (VObj o) f) as [v|]; cbn [bind] in H; [|discriminate].
    destruct (m_scalar v) as [x|]; [|discriminate].
    destruct (lit_ro k x); cbn [bind] in H; inversion H; subst. apply unchanged_refl.
Qed.

(* a read-only method leaves the WHOLE state as it was: the receiver too (the statement C08-r3-2 broke: `-self.f` wrote f) *)
Theorem readonly_method_changes_nothing : forall ct st self k f st' r,
  gmeth (impl false) ct st self (MRo k f) [] = Ok (st', r) -> st' = st.
Proof.
  intros ct st self k f st' r H. unfold gmeth in H. cbn [i_fread i_scalar i_lit impl] in H.
  destruct (m_fread false st self f) as [v|]; cbn [bind] in H; [|discriminate].
  destruct (m_scalar v) as [x|]; [|discriminate].
  destruct (lit_ro k x); cbn [bind] in H; inversion H; reflexivity.
Qed.

(* bump_f updates its ARGUMENT only; poke_f_g updates the object in field f only *)
Theorem bump_updates_argument_only : forall ct reg st o f other d st' r,
  inv reg st -> reg (o_id other) = Some other ->
  gmeth (impl false) ct st (VObj o) (MBump f) [VObj other; d] = Ok (st', r) -> unchanged_outside reg (o_id other) st st'.
Proof.
  intros ct reg st o f other d st' r HI Hr H. unfold gmeth in H.
  destruct (gupd (impl false) st (VObj other) f Add d) as [[s1 r1]|] eqn:EU; cbn [bind fst snd] in H; inversion H; subst.
  eapply gupd_unchanged; eauto.
Qed.

Lemma gupd_strip : forall st v f op d, gupd (impl false) st v f op d = gupd (impl false) st (strip v) f op d.
Proof. intros st v f op d. destruct v; reflexivity. Qed.

Theorem poke_updates_field_object_only : forall ct reg st o f g d st' r,
  inv reg st -> reg (o_id o) = Some o ->
  gmeth (impl false) ct st (VObj o) (MPoke f g) [d] = Ok (st', r) ->
  exists v inner, m_fread false st (VObj o) f = Ok v /\ strip v = VObj inner /\ unchanged_outside reg (o_id inner) st st'.
Proof.
  intros ct reg st o f g d st' r HI Hr H. unfold gmeth in H. cbn [i_fread impl] in H.
  destruct (m_fread false st (VObj o) f) as [v|] eqn:ER; cbn [bind] in H; [|discriminate].
  rewrite gupd_strip in H.
  destruct (gupd (impl false) st (strip v) g Add d) as [[s1 r1]|] eqn:EU; cbn [bind fst snd] in H; inversion H; subst.
  assert (HV : vok reg (nlist st) v).
  { destruct (fread_cell _ _ _ _ ER) as [c [_ Hc]].
    exact (aget_forall (vok reg (nlist st)) (cells st) c v (inv_vcells _ _ HI) Hc). }
  destruct v as [| | | |inner| |inner]; try (unfold gupd in EU; cbn in EU; discriminate).
  - exists (VObj inner), inner. split; [reflexivity|]. split; [reflexivity|]. cbn [strip] in EU. eapply gupd_unchanged; eauto.
  - exists (VSome inner), inner. split; [reflexivity|]. split; [reflexivity|]. cbn [strip] in EU. eapply gupd_unchanged; eauto.
Qed.

(* a getter returns the content of the receiver's own cell; twice_f is two calls of inc_f on the same receiver *)
Theorem getter_reads_receiver : forall ct st o f, gmeth (impl false) ct st (VObj o) (MGet f) [] =
  match m_fread false st (VObj o) f with Ok v => Ok (st, Some v) | Fail e => Fail e end.
Proof. intros. unfold gmeth. cbn [i_fread impl]. destruct (m_fread false st (VObj o) f); reflexivity. Qed.

Theorem twice_calls_inc : forall ct st self f d, gmeth (impl false) ct st self (MTwice f) [d] =
  do r1 <- gmeth (impl false) ct st self (MInc f) [d]; gmeth (impl false) ct (fst r1) self (MInc f) [d].
Proof.
  intros. unfold gmeth. destruct (gupd (impl false) st self f Add d) as [[s1 r1]|]; cbn [bind fst snd]; [|reflexivity].
  destruct (gupd (impl false) s1 self f Add d) as [[s2 r2]|]; reflexivity.
Qed.

(* ---------------------------------------------------------------- C08: `is` *)

(* `a is b` prints true exactly when the two references have the same identity, and (in every reachable state)
   that is exactly when they are the same reference, i.e. denote the same cells *)
Theorem is_iff_same_object : forall ct reg st a b o1 o2,
  inv reg st -> gpath (impl false) st a = Ok (VObj o1) -> gpath (impl false) st b = Ok (VObj o2) ->
  step false ct st (IsTest a b) = Ok (st, [OBool (o_id o1 =? o_id o2)]) /\
  ((o_id o1 =? o_id o2) = true <-> o1 = o2).
Proof.
  intros ct reg st a b o1 o2 HI H1 H2. split.
  - unfold step, gstep. rewrite H1, H2. reflexivity.
  - split.
    + intros E. apply N.eqb_eq in E. eapply same_id_same_ref; eauto.
    + intros ->. apply N.eqb_refl.
Qed.

(* the same at the level of the specification: `is` compares identities of the abstract store *)
Theorem spec_is_identity : forall ct ss a b i j, gpath spec ss a = Ok (SObj i) -> gpath spec ss b = Ok (SObj j) ->
  sstep ct ss (IsTest a b) = Ok (ss, [OBool (i =? j)]).
Proof. intros ct ss a b i j H1 H2. unfold sstep, gstep. rewrite H1, H2. reflexivity. Qed.

(* ---------------------------------------------------------------- C08: the fields hold what the constructor stored *)

Lemma fwrite_fread_other : forall st o f0 x st' f, m_fwrite false st (VObj o) f0 x = Ok st' -> f <> f0 ->
  (forall f g c, aget (o_map o) f = Some c -> aget (o_map o) g = Some c -> f = g) ->
  m_fread false st' (VObj o) f = m_fread false st (VObj o) f.
Proof.
  intros st o f0 x st' f H NE HOWN. destruct (fwrite_inv _ _ _ _ _ H) as [c0 [Hc0 ->]].
  apply fread_frame. intros c Hc. cbn [set_cells cells]. rewrite aget_cons.
  destruct (N.eqb_spec c0 c) as [<-|NEc]; [|reflexivity]. exfalso. apply NE. eapply HOWN; eauto.
Qed.

Lemma gctor_stores : forall body args st o st' f,
  gctor (impl false) body args st (VObj o) = Ok st' ->
  (forall f g c, aget (o_map o) f = Some c -> aget (o_map o) g = Some c -> f = g) ->
  NoDup (map fst body) ->
  (~ In f (map fst body) -> m_fread false st' (VObj o) f = m_fread false st (VObj o) f) /\
  (forall j v, In (f, IParam j) body -> nth_error args j = Some v -> m_fread false st' (VObj o) f = Ok v) /\
  (forall l, In (f, IConst l) body -> m_fread false st' (VObj o) f = Ok (m_lit l)).
Proof.
  induction body as [|[f0 i0] body IH]; intros args st o st' f H HOWN HND; cbn [gctor] in H.
  - inversion H; subst. split; [reflexivity|]. split; intros; contradiction.
  - match type of H with bind ?X _ = _ => destruct X as [[s1 v1]|] eqn:E1 end; cbn [bind fst snd] in H; [|discriminate].
    cbn [i_fwrite impl] in H.
    destruct (m_fwrite false s1 (VObj o) f0 v1) as [s2|] eqn:E2; cbn [bind] in H; [|discriminate].
    cbn [map fst] in HND. inversion HND as [|? ? HNI HND']; subst.
    destruct (IH _ _ _ _ f H HOWN HND') as [IH1 [IH2 IH3]].
    assert (HS1 : forall g, m_fread false s1 (VObj o) g = m_fread false st (VObj o) g).
    { intros g. destruct i0; cbn [i_lit i_lnew impl] in E1.
      - destruct (nth_error args k); inversion E1; subst. reflexivity.
      - inversion E1; subst. reflexivity.
      - inversion E1; subst. reflexivity. }
    split; [|split].
    + intros HN. cbn [map fst In] in HN. rewrite IH1 by tauto.
      rewrite (fwrite_fread_other _ _ _ _ _ f E2); [apply HS1 | intros ->; tauto | exact HOWN].
    + intros j v [HIn|HIn] HNth; [|eauto]. inversion HIn; subst f0 i0.
      rewrite IH1 by exact HNI. rewrite (fwrite_fread_same _ _ _ _ _ E2).
      cbn in E1. rewrite HNth in E1. inversion E1; reflexivity.
    + intros l [HIn|HIn]; [|eauto]. inversion HIn; subst f0 i0.
      rewrite IH1 by exact HNI. rewrite (fwrite_fread_same _ _ _ _ _ E2).
      cbn in E1. inversion E1; reflexivity.
Qed.

(* after `C(args)`: a field the constructor assigned an argument holds that argument (for an object argument: the
   very reference), a field it assigned a literal holds the literal, a declared field it did not assign holds nil *)
Theorem constructor_stores : forall ct st k args st' o cd f,
  gnew (impl false) ct st k args = Ok (st', VObj o) ->
  nth_error ct (N.to_nat k) = Some cd -> NoDup (map fst (c_body cd)) ->
  (forall j v, In (f, IParam j) (c_body cd) -> nth_error args j = Some v -> m_fread false st' (VObj o) f = Ok v) /\
  (forall l, In (f, IConst l) (c_body cd) -> m_fread false st' (VObj o) f = Ok (m_lit l)) /\
  (existsb (N.eqb f) (c_fields cd) = true -> ~ In f (map fst (c_body cd)) -> m_fread false st' (VObj o) f = Ok VNil).
Proof.
  intros ct st k args st' o cd f H HCD HND. unfold gnew in H. rewrite HCD in H.
  destruct (negb (Nat.eqb (length args) (c_arity cd))); [discriminate|].
  cbn [i_new impl] in H. unfold m_new in H. destruct (negb (nodupb (c_fields cd))); cbn [bind] in H; [discriminate|].
  cbn [fst snd] in H.
  match type of H with bind (gctor (impl false) _ _ ?S (VObj ?O)) _ = _ => set (s1 := S) in *; set (o1 := O) in * end.
  destruct (gctor (impl false) (c_body cd) args s1 (VObj o1)) as [s2|] eqn:EC; cbn [bind] in H; inversion H; subst s2 o.
  assert (HOWN : forall f g c, aget (o_map o1) f = Some c -> aget (o_map o1) g = Some c -> f = g).
  { intros f1 g c. cbn [o_map o1]. apply alloc_inj. }
  destruct (gctor_stores _ _ _ _ _ f EC HOWN HND) as [G1 [G2 G3]].
  split; [exact G2|]. split; [exact G3|].
  intros HEX HN. rewrite (G1 HN). unfold m_fread, field_cell. cbn [o_map o1].
  destruct (aget (alloc_fields (c_fields cd) (ncell st)) f) as [c|] eqn:Ec.
  - cbn [bind]. unfold s1. cbn [cells]. rewrite alloc_cells. apply alloc_range in Ec.
    replace ((ncell st <=? c) && (c <? ncell st + N.of_nat (length (c_fields cd)))) with true; [reflexivity|].
    symmetry. apply andb_true_iff. split; [apply N.leb_le | apply N.ltb_lt]; lia.
  - apply alloc_none in Ec. congruence.
Qed.

(* ---------------------------------------------------------------- non-vacuity: a representation that shares cells is refuted *)

(* a variant of the class body that does NOT take fresh cells (every construction of a class gets the cells
   0, 1, ..): the refinement theorem must fail for it, and does *)
Definition m_new_shared (st : state) (k : cid) (fs : list fld) : res (state * val) :=
  if negb (nodupb fs) then Fail Stuck
  else
    let mp := alloc_fields fs 0 in
    let o := {| o_cls := k; o_map := mp; o_id := nid st |} in
    Ok ({| cells := map (fun p => (snd p, VNil)) mp ++ cells st;
           ncell := ncell st; lists := lists st; nlist := nlist st; nid := nid st + 1; env := env st |}, VObj o).

Definition impl_shared : iface state val :=
  {| i_get := m_get; i_set := m_set; i_lit := m_lit; i_scalar := m_scalar; i_recv := m_recv false; i_cls := m_cls false;
     i_fread := m_fread false; i_fwrite := m_fwrite false; i_new := m_new_shared; i_is := m_is false;
     i_unwrap := m_unwrap; i_wrap := m_wrap; i_lnew := m_lnew; i_lread := m_lread; i_lwrite := m_lwrite |}.

Lemma shared_cells_refuted : exists ct h, grun_from impl_shared ct st0 h <> spec_run ct h.
Proof.
  exists [{| c_fields := [0]; c_arity := 1%nat; c_body := [(0, IParam 0)] |}].
  exists [New 0 0 [OLit (LInt 1)]; New 1 0 [OLit (LInt 2)]; Print (PDot (PVar 0) 0)].
  vm_compute. discriminate.
Qed.

(* ---------------------------------------------------------------- wrapped references (findings) *)

(* repaired behaviour: a reference that went through a map (a present optional) is the object it holds, for
   `is` and for field access *)
Theorem wrapped_is_content : forall o1 o2,
  m_is false (VSome o1) (VObj o2) = Ok (o_id o1 =? o_id o2) /\
  m_is false (VObj o1) (VSome o2) = Ok (o_id o1 =? o_id o2) /\
  m_is false (VSome o1) (VSome o2) = Ok (o_id o1 =? o_id o2).
Proof. intros. repeat split. Qed.

Theorem wrapped_field_access : forall st o f x,
  m_fread false st (VSome o) f = m_fread false st (VObj o) f /\
  m_fwrite false st (VSome o) f x = m_fwrite false st (VObj o) f x.
Proof. intros. split; reflexivity. Qed.

Definition ct1 : ctab := [{| c_fields := [0]; c_arity := 1%nat; c_body := [(0, IParam 0)] |}].

(* FINDINGS: the faithful model of the tree before fixes/c08-*.diff (legacy = true) REFUTES the property *)
Lemma wrapped_is_legacy_refuted : exists h, run true ct1 h <> spec_run ct1 h.
Proof.
  exists [New 0 0 [OLit (LInt 1)]; ThroughMap 1 (PVar 0); IsTest (PVar 1) (PVar 0)].
  vm_compute. discriminate.
Qed.

Lemma wrapped_lookup_legacy_refuted : exists h, run true ct1 h <> spec_run ct1 h.
Proof.
  exists [New 0 0 [OLit (LInt 1)]; ThroughMap 1 (PVar 0); Print (PDot (PVar 1) 0)].
  vm_compute. discriminate.
Qed.

Lemma wrapped_legacy_witness :
  run true ct1 [New 0 0 [OLit (LInt 1)]; ThroughMap 1 (PVar 0); IsTest (PVar 1) (PVar 0); Print (PDot (PVar 1) 0)]
    = ([OBool false], Some Err) /\
  run false ct1 [New 0 0 [OLit (LInt 1)]; ThroughMap 1 (PVar 0); IsTest (PVar 1) (PVar 0); Print (PDot (PVar 1) 0)]
    = ([OBool true; OInt 1], None) /\
  spec_run ct1 [New 0 0 [OLit (LInt 1)]; ThroughMap 1 (PVar 0); IsTest (PVar 1) (PVar 0); Print (PDot (PVar 1) 0)]
    = ([OBool true; OInt 1], None).
Proof. vm_compute. repeat split. Qed.
