(* Abstract specification of objects (property C08).

   An object is an identity.  The store maps every identity to its class and to a finite map
   field -> value; a value is a scalar, nil, an object identity or a list identity.  A name of the
   program denotes a value, so assigning / passing / returning / storing an object copies the IDENTITY:
   there is one state per object, whatever the number of references to it.  A construction creates a new
   identity (never used before) whose fields hold what the constructor stored; a field read / write /
   method call on a reference reads / updates the fields of the identity it denotes; `is` compares identities.

   Shared with the impl-model (Model.v): the syntax of classes, operations and observations and the meaning of an
   operation in terms of heap primitives (`gstep`: e.g. inc_f = read f, add, write f, read f).  The heap primitives are
   defined here afresh over the abstract store. *)
From MS Require Export Objects.Model.

Inductive sval :=
| SInt (z : Z) | SStr (s : str) | SBool (b : bool) | SNil
| SObj (i : oid)
| SList (l : lid).

Record sstate := {
  s_objs : oid -> option (cid * (fld -> option sval));
  s_nobj : oid;
  s_lists : lid -> option (list sval);
  s_nlist : lid;
  s_env : var -> option sval }.

Definition ss0 : sstate :=
  {| s_objs := fun _ => None; s_nobj := 0; s_lists := fun _ => None; s_nlist := 0; s_env := fun _ => None |}.

Definition upd {A} (m : N -> option A) (k : N) (a : A) : N -> option A :=
  fun k' => if k =? k' then Some a else m k'.

Definition s_get (ss : sstate) (x : var) : res sval :=
  match s_env ss x with Some v => Ok v | None => Fail Stuck end.

Definition s_set (ss : sstate) (x : var) (v : sval) : sstate :=
  {| s_objs := s_objs ss; s_nobj := s_nobj ss; s_lists := s_lists ss; s_nlist := s_nlist ss;
     s_env := upd (s_env ss) x v |}.

Definition s_lit (l : lit) : sval :=
  match l with LInt z => SInt z | LStr s => SStr s | LBool b => SBool b | LNil => SNil end.

Definition s_scalar (v : sval) : option lit :=
  match v with
  | SInt z => Some (LInt z) | SStr s => Some (LStr s) | SBool b => Some (LBool b) | SNil => Some LNil
  | SObj _ | SList _ => None
  end.

Definition s_recv (v : sval) : res unit :=
  match v with SObj _ => Ok tt | SNil => Fail Err | _ => Fail Stuck end.

(* the fields of the object a value denotes; nil denotes no object: failure *)
Definition s_obj (ss : sstate) (v : sval) : res (oid * cid * (fld -> option sval)) :=
  match v with
  | SObj i => match s_objs ss i with Some (k, fm) => Ok (i, k, fm) | None => Fail Stuck end
  | SNil => Fail Err
  | _ => Fail Stuck
  end.

Definition s_cls (ss : sstate) (v : sval) : res cid :=
  do o <- s_obj ss v; Ok (snd (fst o)).

Definition s_fread (ss : sstate) (v : sval) (f : fld) : res sval :=
  do o <- s_obj ss v;
  match snd o f with Some x => Ok x | None => Fail Stuck end.

Definition s_fwrite (ss : sstate) (v : sval) (f : fld) (x : sval) : res sstate :=
  do o <- s_obj ss v;
  match snd o f with
  | Some _ =>
    Ok {| s_objs := upd (s_objs ss) (fst (fst o)) (snd (fst o), upd (snd o) f x);
          s_nobj := s_nobj ss; s_lists := s_lists ss; s_nlist := s_nlist ss; s_env := s_env ss |}
  | None => Fail Stuck
  end.

(* a new identity; every declared field exists and holds nil until the constructor stores into it *)
Definition s_new (ss : sstate) (k : cid) (fs : list fld) : res (sstate * sval) :=
  if negb (nodupb fs) then Fail Stuck
  else
    Ok ({| s_objs := upd (s_objs ss) (s_nobj ss) (k, fun f => if existsb (N.eqb f) fs then Some SNil else None);
           s_nobj := s_nobj ss + 1;
           s_lists := s_lists ss; s_nlist := s_nlist ss; s_env := s_env ss |}, SObj (s_nobj ss)).

(* `is`: the same identity *)
Definition s_is (a b : sval) : res bool :=
  match a, b with
  | SObj i, SObj j => Ok (i =? j)
  | SNil, SNil => Ok true
  | SNil, SObj _ | SObj _, SNil => Ok false
  | _, _ => Fail Stuck
  end.

(* `get e` of nil is a failure; of anything else, the value *)
Definition s_unwrap (v : sval) : res sval := match v with SNil => Fail Err | _ => Ok v end.

(* an object that went through a map is the same object *)
Definition s_wrap (v : sval) : res sval := match v with SObj _ => Ok v | _ => Fail Stuck end.

Definition s_lnew (ss : sstate) (xs : list sval) : sstate * sval :=
  ({| s_objs := s_objs ss; s_nobj := s_nobj ss; s_lists := upd (s_lists ss) (s_nlist ss) xs;
      s_nlist := s_nlist ss + 1; s_env := s_env ss |}, SList (s_nlist ss)).

Definition s_lread (ss : sstate) (v : sval) : res (list sval) :=
  match v with
  | SList l => match s_lists ss l with Some xs => Ok xs | None => Fail Stuck end
  | SNil => Fail Err
  | _ => Fail Stuck
  end.

Definition s_lwrite (ss : sstate) (v : sval) (xs : list sval) : res sstate :=
  match v with
  | SList l =>
    match s_lists ss l with
    | Some _ => Ok {| s_objs := s_objs ss; s_nobj := s_nobj ss; s_lists := upd (s_lists ss) l xs;
                      s_nlist := s_nlist ss; s_env := s_env ss |}
    | None => Fail Stuck
    end
  | SNil => Fail Err
  | _ => Fail Stuck
  end.

Definition spec : iface sstate sval :=
  {| i_get := s_get; i_set := s_set; i_lit := s_lit; i_scalar := s_scalar; i_recv := s_recv; i_cls := s_cls;
     i_fread := s_fread; i_fwrite := s_fwrite; i_new := s_new; i_is := s_is; i_unwrap := s_unwrap; i_wrap := s_wrap;
     i_lnew := s_lnew; i_lread := s_lread; i_lwrite := s_lwrite |}.

Definition sstep (ct : ctab) (ss : sstate) (c : oop) : res (sstate * list oval) := gstep spec ct ss c.

Definition spec_run (ct : ctab) (h : list oop) : list oval * option fail := grun_from spec ct ss0 h.
