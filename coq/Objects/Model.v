(* Executable impl-model of the object part of the mscript interpreter heap (property C08).

   class body     compiler/src/ast/class/{class_body,member_variable,member_function,constructor}.rs
                  `function C`: per field `reserve_primitive; store_fast f` (a FRESH cell holding nil in the frame of
                  this call), per method `make_function; store_fast C::m`, then `make_object`, then the constructor
                  `C::$constructor` is called with the object and the arguments and stores into the fields.
   make_object    bytecode/src/instruction.rs: clones the frame's name -> cell map (VariableMapping::clone copies the
                  HashMap, the Gc cells are shared) and allocates the identity token (Object::debug_lock, id_addr).
   references     Primitive::Object(Object) is a struct { name, object_variables, debug_lock }: EVERY copy of a
                  reference (assignment, argument, return value, list element, field content) carries its own copy
                  of the name -> cell map and the same token.  The model keeps exactly that: `oref`.
   lookup         instruction.rs lookup / primitive.rs Primitive::lookup: object -> its cell for the name
                  (HeapPrimitive::Lookup); nil -> "LOGIC ERROR IN CODE >> nil object" (exit 1); every consumer
                  (store, store_fast, bin_op, printn, arg) moves the value out of the cell.
   ptr_mut        HeapPrimitive::set: overwrites the cell.   bin_op_assign: update of the cell in place.
   is             Primitive::runtime_addr_check: id_addr() == id_addr() for two objects; nil is nil; nil is not an object.
   methods        dot_lookup.rs / ld_self: `lookup m` on the receiver, receiver pushed as argument 0 (`self`), fields
                  reached through `self` (lookup) or, for a bare field name, through the method's captured cells,
                  which are the class-body frame's cells, i.e. the cells of the object's own map.
   lists          Primitive::Vector(Gc<GcCell<Vec>>): a shared location; push through any alias.
   wrapped refs   GcMap replace / remove (function.rs MapReplace / MapRemove) hand out the previous value of a key as
                  Primitive::Optional(Some(Box(v))): an object that went through a map comes back WRAPPED (`VSome`).
                  `get e` (unwrap) takes the wrapper off; nothing else did before fixes/c08-*.diff: `is` compared a
                  wrapped with an unwrapped reference through Primitive::equals (objects are not comparable there ->
                  false) and Primitive::lookup answered "does not exist" (exit 1).  `legacy = true` is that behaviour,
                  `legacy = false` the repaired one (a present optional is the value it holds).

   The step function is written once, over an interface of heap primitives (`iface`), and instantiated twice:
   here with the implementation's representation (cells, maps copied into every reference, identity tokens),
   in Spec.v with the abstract store (object id -> field -> value).  Failures are explicit:
   Err = mscript run-time error (exit 1: nil receiver, unwrap of nil, index out of bounds);
   Stuck = the history is not a well-typed program (the compiler rejects it); Range = i32 overflow (property C05). *)
From MS Require Export Base.Str.
From Coq Require Export ZArith.

Definition var := N.
Definition fld := N.
Definition cid := N.
Definition oid := N.
Definition lid := N.
Definition cell := N.

Inductive fail := Err | Stuck | Range.

Inductive res (A : Type) := Ok (a : A) | Fail (f : fail).
Arguments Ok {A} a.
Arguments Fail {A} f.

Definition bind {A B} (r : res A) (k : A -> res B) : res B :=
  match r with Ok a => k a | Fail f => Fail f end.
Notation "'do' x <- r ; k" := (bind r (fun x => k)) (at level 200, x pattern, r at level 100, k at level 200).

(* ---------------------------------------------------------------- syntax shared by model and specification *)

(* scalar values: what a literal can denote and what print can show of a field *)
Inductive lit := LInt (z : Z) | LStr (s : str) | LBool (b : bool) | LNil.

Inductive binop := Add | Sub | Mul.

Definition i32_min : Z := (-2147483648)%Z.
Definition i32_max : Z := 2147483647%Z.
Definition in_i32 (z : Z) : bool := ((i32_min <=? z) && (z <=? i32_max))%Z.

(* ops.rs: int op int (i32), str + str.  Everything else is outside the histories considered. *)
Definition lit_binop (op : binop) (a b : lit) : res lit :=
  match op, a, b with
  | _, LInt x, LInt y =>
    let r := match op with Add => (x + y)%Z | Sub => (x - y)%Z | Mul => (x * y)%Z end in
    if in_i32 r then Ok (LInt r) else Fail Range
  | Add, LStr x, LStr y => Ok (LStr (x ++ y))
  | _, _, _ => Fail Stuck
  end.

(* read-only expressions over one field, as the bodies of the `neg_f / sum_f / pos_f / not_f / cat_f` methods *)
Inductive rokind := RNeg | RSum | RPos | RNot | RCat.
Definition lit_ro (k : rokind) (a : lit) : res lit :=
  match k, a with
  | RNeg, LInt x => if in_i32 (- x)%Z then Ok (LInt (- x)%Z) else Fail Range        (* -self.f *)
  | RSum, LInt x => if in_i32 (x + x)%Z then Ok (LInt (x + x)%Z) else Fail Range    (* self.f + self.f *)
  | RPos, LInt x => Ok (LBool (0 <? x)%Z)                                           (* self.f > 0 *)
  | RNot, LBool b => Ok (LBool (negb b))                                            (* !self.f *)
  | RCat, LStr x => Ok (LStr x)                                                     (* self.f + "" *)
  | _, _ => Fail Stuck
  end.

(* a class: its fields, the number of constructor arguments, and the constructor body, a sequence of
   `self.f = <argument k | literal | []>` *)
Inductive init := IParam (k : nat) | IConst (l : lit) | IEmpty.
Record cdecl := { c_fields : list fld; c_arity : nat; c_body : list (fld * init) }.
Definition ctab := list cdecl.

(* a path: a name of the history followed by field selections, `x`, `x.f`, `x.f.g` *)
Inductive path := PVar (x : var) | PDot (p : path) (f : fld).

Inductive operand := OLit (l : lit) | OPath (p : path).

(* the method family of every class (T = type of the field) *)
Inductive meth :=
| MGet (f : fld)        (* fn get_f(self) -> T { return self.f } *)
| MSet (f : fld)        (* fn set_f(self, v: T) { self.f = v } *)
| MInc (f : fld)        (* fn inc_f(self, d: T) -> T { self.f = self.f + d   return self.f } *)
| MTwice (f : fld)      (* fn twice_f(self, d: T) -> T { self.inc_f(d)   return self.inc_f(d) }   calls another method of self *)
| MWith (f : fld)       (* fn with_f(self, v: T) -> Self { self.f = v   return self } *)
| MMe                   (* fn me(self) -> Self { return self } *)
| MBump (f : fld)       (* fn bump_f(self, other: Self, d: T) { other.f = other.f + d }           mutates the ARGUMENT *)
| MGetBare (f : fld)    (* fn getb_f(self) -> T { return f }                                       captured cell *)
| MSetBare (f : fld)    (* fn setb_f(self, v: T) { modify f = v } *)
| MPush (f : fld)       (* fn push_f(self, x: E) { self.f.push(x) } *)
| MPoke (f g : fld)     (* fn poke_f_g(self, d: T) { self.f.g = self.f.g + d }                     object in a field *)
| MDup (fs : list fld)  (* fn dup(self) -> Self { return Self(self.fa, self.fb, ..) }             constructs inside a method *)
| MRo (k : rokind) (f : fld). (* fn neg_f(self) -> int { return -self.f } and the like: reads, computes, writes NOTHING *)

(* what is done with the result of a method call *)
Inductive rmode := RBind (dst : var) | RPrint | RDrop.

Inductive oop :=
| New (dst : var) (c : cid) (args : list operand)         (* dst = C(args) *)
| Bind (dst : var) (p : path) (unwrap : bool)             (* dst = p   |   dst = get p *)
| Write (p : path) (f : fld) (v : operand)                (* p.f = v *)
| OpAssign (p : path) (f : fld) (op : binop) (l : lit)    (* p.f op= l *)
| Print (p : path)                                        (* print p       (a scalar or a list of scalars) *)
| IsNil (p : path)                                        (* print p == nil *)
| Call (r : rmode) (p : path) (m : meth) (args : list operand)
                                                          (* dst = p.m(args) | print p.m(args) | p.m(args) *)
| ListNew (dst : var) (es : list operand)                 (* dst: [T...] = [es] *)
| ListPush (l : path) (v : operand)                       (* l.push(v) *)
| ListGet (dst : var) (l : path) (i : Z)                  (* dst = l[i] *)
| ListLen (l : path)                                      (* print l.len() *)
| PassAndMutate (p : path) (f : fld) (d : lit)            (* bump_C_f(p, d)   where bump_C_f = fn(o: C, d: T) { o.f = o.f + d } *)
| ReturnSame (dst : var) (p : path)                       (* dst = same_C(p)  where same_C = fn(o: C) -> C { return o } *)
| IsTest (a b : path)                                     (* print a is b *)
| ThroughMap (dst : var) (p : path).                      (* dst = thru_C(p)  where thru_C = fn(o: C) -> C? { m = map[str, C] { "k": o }   return m.replace("k", o) } *)

(* the operations the property names *)
Definition Alias (dst src : var) : oop := Bind dst (PVar src) false.
Definition FieldRead (x : var) (f : fld) : oop := Print (PDot (PVar x) f).
Definition FieldWrite (x : var) (f : fld) (v : operand) : oop := Write (PVar x) f v.
Definition FieldOpAssign (x : var) (f : fld) (op : binop) (l : lit) : oop := OpAssign (PVar x) f op l.
Definition CallMethod (r : rmode) (x : var) (m : meth) (args : list operand) : oop := Call r (PVar x) m args.
Definition SetNil (x : var) (f : fld) : oop := Write (PVar x) f (OLit LNil).

(* what print shows *)
Inductive oval := OInt (z : Z) | OStr (s : str) | OBool (b : bool) | ONil | OList (l : list oval).

Definition oval_of_lit (l : lit) : oval :=
  match l with LInt z => OInt z | LStr s => OStr s | LBool b => OBool b | LNil => ONil end.

(* ---------------------------------------------------------------- the heap interface *)

Record iface (S V : Type) := {
  i_get : S -> var -> res V;                    (* load x *)
  i_set : S -> var -> V -> S;                   (* store x *)
  i_lit : lit -> V;
  i_scalar : V -> option lit;                   (* None: an object or a list *)
  i_recv : V -> res unit;                       (* a method is looked up on it: object Ok, nil Err *)
  i_cls : S -> V -> res cid;                    (* the class whose body made the object (Object::name) *)
  i_fread : S -> V -> fld -> res V;             (* lookup f, value moved out of the cell *)
  i_fwrite : S -> V -> fld -> V -> res S;       (* lookup f; ptr_mut *)
  i_new : S -> cid -> list fld -> res (S * V);  (* class body up to make_object: fresh object, every field nil *)
  i_is : V -> V -> res bool;                    (* bin_op "is" *)
  i_unwrap : V -> res V;                        (* `get e`: nil is an error, a present optional is its content *)
  i_wrap : V -> res V;                          (* what map.replace returns for a key that held v: Optional(Some(v)) *)
  i_lnew : S -> list V -> S * V;                (* make_vector *)
  i_lread : S -> V -> res (list V);
  i_lwrite : S -> V -> list V -> res S
}.
Arguments i_get {S V}. Arguments i_set {S V}. Arguments i_lit {S V}. Arguments i_scalar {S V}.
Arguments i_recv {S V}. Arguments i_cls {S V}. Arguments i_fread {S V}. Arguments i_fwrite {S V}. Arguments i_new {S V}.
Arguments i_is {S V}. Arguments i_unwrap {S V}. Arguments i_wrap {S V}. Arguments i_lnew {S V}. Arguments i_lread {S V}. Arguments i_lwrite {S V}.

Section Generic.
Context {S V : Type} (I : iface S V).

(* `x`: load; `p.f`: lookup on the value of p, moved out of the cell by whatever consumes it *)
Fixpoint gpath (s : S) (p : path) : res V :=
  match p with
  | PVar x => i_get I s x
  | PDot p f => do o <- gpath s p; i_fread I s o f
  end.

Definition geval (s : S) (o : operand) : res V :=
  match o with OLit l => Ok (i_lit I l) | OPath p => gpath s p end.

Fixpoint gevals (s : S) (os : list operand) : res (list V) :=
  match os with
  | [] => Ok []
  | o :: os => do v <- geval s o; do vs <- gevals s os; Ok (v :: vs)
  end.

Definition gbinop (op : binop) (a b : V) : res V :=
  match i_scalar I a, i_scalar I b with
  | Some x, Some y => do r <- lit_binop op x y; Ok (i_lit I r)
  | _, _ => Fail Stuck
  end.

Fixpoint gscalars (xs : list V) : res (list oval) :=
  match xs with
  | [] => Ok []
  | x :: xs =>
    match i_scalar I x with
    | Some l => do os <- gscalars xs; Ok (oval_of_lit l :: os)
    | None => Fail Stuck            (* an object is never printed: its address varies *)
    end
  end.

(* what `print v` shows: a scalar, or a list of scalars *)
Definition gview (s : S) (v : V) : res oval :=
  match i_scalar I v with
  | Some l => Ok (oval_of_lit l)
  | None => do xs <- i_lread I s v; do os <- gscalars xs; Ok (OList os)
  end.

Definition gisnil (v : V) : bool :=
  match i_scalar I v with Some LNil => true | _ => false end.

(* o.f = o.f op d   (lookup, move out, bin_op, lookup, ptr_mut); yields the new content *)
Definition gupd (s : S) (o : V) (f : fld) (op : binop) (d : V) : res (S * V) :=
  do cur <- i_fread I s o f;
  do r <- gbinop op cur d;
  do s' <- i_fwrite I s o f r;
  Ok (s', r).

(* the constructor body: self.f = <init>, in order *)
Fixpoint gctor (body : list (fld * init)) (args : list V) (s : S) (o : V) : res S :=
  match body with
  | [] => Ok s
  | (f, i) :: body =>
    do sv <- match i with
             | IParam k => match nth_error args k with Some v => Ok (s, v) | None => Fail Stuck end
             | IConst l => Ok (s, i_lit I l)
             | IEmpty => Ok (i_lnew I s [])
             end;
    do s2 <- i_fwrite I (fst sv) o f (snd sv);
    gctor body args s2 o
  end.

(* C(args): the class body makes the object (fresh state), then the constructor stores into its fields *)
Definition gnew (ct : ctab) (s : S) (k : cid) (args : list V) : res (S * V) :=
  match nth_error ct (N.to_nat k) with
  | None => Fail Stuck
  | Some cd =>
    if negb (Nat.eqb (length args) (c_arity cd)) then Fail Stuck
    else
      do so <- i_new I s k (c_fields cd);
      do s2 <- gctor (c_body cd) args (fst so) (snd so);
      Ok (s2, snd so)
  end.

Fixpoint gfreads (s : S) (o : V) (fs : list fld) : res (list V) :=
  match fs with
  | [] => Ok []
  | f :: fs => do v <- i_fread I s o f; do vs <- gfreads s o fs; Ok (v :: vs)
  end.

(* a method body, run with `self` bound to the receiver and the arguments bound to the values passed *)
Definition gmeth (ct : ctab) (s : S) (self : V) (m : meth) (args : list V) : res (S * option V) :=
  match m, args with
  | MGet f, [] | MGetBare f, [] => do v <- i_fread I s self f; Ok (s, Some v)
  | MSet f, [v] | MSetBare f, [v] => do s' <- i_fwrite I s self f v; Ok (s', None)
  | MInc f, [d] => do r <- gupd s self f Add d; Ok (fst r, Some (snd r))
  | MTwice f, [d] =>
    do r1 <- gupd s self f Add d;
    do r2 <- gupd (fst r1) self f Add d;
    Ok (fst r2, Some (snd r2))
  | MWith f, [v] => do s' <- i_fwrite I s self f v; Ok (s', Some self)
  | MMe, [] => Ok (s, Some self)
  | MBump f, [other; d] => do r <- gupd s other f Add d; Ok (fst r, None)
  | MPush f, [x] =>
    do l <- i_fread I s self f;
    do xs <- i_lread I s l;
    do s' <- i_lwrite I s l (xs ++ [x]);
    Ok (s', None)
  | MPoke f g, [d] =>
    do o <- i_fread I s self f;
    do r <- gupd s o g Add d;
    Ok (fst r, None)
  | MRo k f, [] =>
    do v <- i_fread I s self f;
    match i_scalar I v with
    | Some x => do r <- lit_ro k x; Ok (s, Some (i_lit I r))
    | None => Fail Stuck
    end
  | MDup fs, [] =>
    do vs <- gfreads s self fs;
    do k <- i_cls I s self;
    do r <- gnew ct s k vs;
    Ok (fst r, Some (snd r))
  | _, _ => Fail Stuck
  end.


(* vec_op "[i]": `*int as usize`, then `if idx >= len { bail! }` *)
Definition gindex {A} (xs : list A) (i : Z) : res A :=
  if negb (in_i32 i) then Fail Stuck
  else if (i <? 0)%Z then Fail Err
  else match nth_error xs (Z.to_nat i) with Some x => Ok x | None => Fail Err end.

Definition gstep (ct : ctab) (s : S) (c : oop) : res (S * list oval) :=
  match c with
  | New dst k args =>
    do vs <- gevals s args;
    do r <- gnew ct s k vs;
    Ok (i_set I (fst r) dst (snd r), [])
  | Bind dst p unwrap =>
    do v <- gpath s p;
    (* `get e`: unwrap of nil is a run-time error *)
    if unwrap then do u <- i_unwrap I v; Ok (i_set I s dst u, []) else Ok (i_set I s dst v, [])
  | Write p f e =>
    do v <- geval s e; do o <- gpath s p; do s' <- i_fwrite I s o f v; Ok (s', [])
  | OpAssign p f op l =>
    do o <- gpath s p; do r <- gupd s o f op (i_lit I l); Ok (fst r, [])
  | Print p =>
    do v <- gpath s p; do w <- gview s v; Ok (s, [w])
  | IsNil p =>
    do v <- gpath s p; Ok (s, [OBool (gisnil v)])
  | Call rm p m args =>
    do self <- gpath s p;
    do _ <- i_recv I self;
    do vs <- gevals s args;
    do r <- gmeth ct s self m vs;
    match rm, snd r with
    | RBind d, Some v => Ok (i_set I (fst r) d v, [])
    | RPrint, Some v => do w <- gview (fst r) v; Ok (fst r, [w])
    | RDrop, _ => Ok (fst r, [])
    | _, None => Fail Stuck
    end
  | ListNew dst es =>
    do vs <- gevals s es;
    let sl := i_lnew I s vs in Ok (i_set I (fst sl) dst (snd sl), [])
  | ListPush l e =>
    do lv <- gpath s l; do v <- geval s e;
    do xs <- i_lread I s lv; do s' <- i_lwrite I s lv (xs ++ [v]); Ok (s', [])
  | ListGet dst l i =>
    do lv <- gpath s l; do xs <- i_lread I s lv; do v <- gindex xs i; Ok (i_set I s dst v, [])
  | ListLen l =>
    do lv <- gpath s l; do xs <- i_lread I s lv; Ok (s, [OInt (Z.of_nat (length xs))])
  | PassAndMutate p f d =>
    (* the callee's frame binds its name `o` to the value passed: a copy of the reference *)
    do o <- gpath s p; do _ <- i_recv I o; do r <- gupd s o f Add (i_lit I d); Ok (fst r, [])
  | ReturnSame dst p =>
    do o <- gpath s p; do _ <- i_recv I o; Ok (i_set I s dst o, [])
  | IsTest a b =>
    do x <- gpath s a; do y <- gpath s b; do r <- i_is I x y; Ok (s, [OBool r])
  | ThroughMap dst p =>
    (* the object is stored in a map and taken out again with replace: the same object, as a present optional *)
    do o <- gpath s p; do _ <- i_recv I o; do w <- i_wrap I o; Ok (i_set I s dst w, [])
  end.

(* a history runs until its first failure: the observations printed so far and how it ended *)
Fixpoint grun_from (ct : ctab) (s : S) (h : list oop) : list oval * option fail :=
  match h with
  | [] => ([], None)
  | c :: h =>
    match gstep ct s c with
    | Ok (s', o) => let (os, f) := grun_from ct s' h in (o ++ os, f)
    | Fail f => ([], Some f)
    end
  end.

End Generic.

(* ---------------------------------------------------------------- the implementation's representation *)

(* a reference: class, its own copy of the field-name -> cell map, the identity token *)
Record oref := { o_cls : cid; o_map : list (fld * cell); o_id : oid }.

Inductive val :=
| VInt (z : Z) | VStr (s : str) | VBool (b : bool) | VNil
| VObj (o : oref)
| VList (l : lid)
| VSome (o : oref).                   (* Primitive::Optional(Some(Box(Primitive::Object))) *)

Fixpoint aget {A} (h : list (N * A)) (k : N) : option A :=
  match h with
  | [] => None
  | (k', a) :: h => if k' =? k then Some a else aget h k
  end.

Record state := {
  cells : list (cell * val);         (* a write shadows the older binding *)
  ncell : cell;
  lists : list (lid * list val);
  nlist : lid;
  nid : oid;
  env : list (var * val) }.

Definition st0 : state := {| cells := []; ncell := 0; lists := []; nlist := 0; nid := 0; env := [] |}.

Definition set_cells (st : state) (h : list (cell * val)) : state :=
  {| cells := h; ncell := ncell st; lists := lists st; nlist := nlist st; nid := nid st; env := env st |}.
Definition set_lists (st : state) (h : list (lid * list val)) : state :=
  {| cells := cells st; ncell := ncell st; lists := h; nlist := nlist st; nid := nid st; env := env st |}.

Definition m_get (st : state) (x : var) : res val :=
  match aget (env st) x with Some v => Ok v | None => Fail Stuck end.

Definition m_set (st : state) (x : var) (v : val) : state :=
  {| cells := cells st; ncell := ncell st; lists := lists st; nlist := nlist st; nid := nid st;
     env := (x, v) :: env st |}.

Definition m_lit (l : lit) : val :=
  match l with LInt z => VInt z | LStr s => VStr s | LBool b => VBool b | LNil => VNil end.

Definition m_scalar (v : val) : option lit :=
  match v with
  | VInt z => Some (LInt z) | VStr s => Some (LStr s) | VBool b => Some (LBool b) | VNil => Some LNil
  | VObj _ | VList _ | VSome _ => None
  end.

Section Impl.
Context (legacy : bool).

(* `lookup m` on the receiver of a method call *)
Definition m_recv (v : val) : res unit :=
  match v with
  | VObj _ => Ok tt
  | VSome _ => if legacy then Fail Err else Ok tt
  | VNil => Fail Err
  | _ => Fail Stuck
  end.

Definition m_cls (st : state) (v : val) : res cid :=
  match v with
  | VObj o => Ok (o_cls o)
  | VSome o => if legacy then Fail Err else Ok (o_cls o)
  | VNil => Fail Err
  | _ => Fail Stuck
  end.

(* Primitive::lookup on an object: the cell its OWN map gives for the name *)
Definition field_cell (v : val) (f : fld) : res cell :=
  match v with
  | VObj o => match aget (o_map o) f with Some c => Ok c | None => Fail Stuck end
  | VSome o =>
    (* before the repair: `ret => Ok(Err(ret))`, "`f` does not exist on <class C>" *)
    if legacy then Fail Err
    else match aget (o_map o) f with Some c => Ok c | None => Fail Stuck end
  | VNil => Fail Err
  | _ => Fail Stuck
  end.

Definition m_fread (st : state) (v : val) (f : fld) : res val :=
  do c <- field_cell v f;
  match aget (cells st) c with Some x => Ok x | None => Fail Stuck end.

Definition m_fwrite (st : state) (v : val) (f : fld) (x : val) : res state :=
  do c <- field_cell v f;
  match aget (cells st) c with Some _ => Ok (set_cells st ((c, x) :: cells st)) | None => Fail Stuck end.

(* `reserve_primitive; store_fast f` per field: consecutive fresh cells *)
Fixpoint alloc_fields (fs : list fld) (n : cell) : list (fld * cell) :=
  match fs with [] => [] | f :: fs => (f, n) :: alloc_fields fs (n + 1) end.

Fixpoint nodupb (fs : list fld) : bool :=
  match fs with [] => true | f :: fs => negb (existsb (N.eqb f) fs) && nodupb fs end.

Definition m_new (st : state) (k : cid) (fs : list fld) : res (state * val) :=
  if negb (nodupb fs) then Fail Stuck
  else
    let mp := alloc_fields fs (ncell st) in
    let o := {| o_cls := k; o_map := mp; o_id := nid st |} in
    Ok ({| cells := map (fun p => (snd p, VNil)) mp ++ cells st;
           ncell := ncell st + N.of_nat (length fs);
           lists := lists st; nlist := nlist st;
           nid := nid st + 1;
           env := env st |}, VObj o).

(* runtime_addr_check on two objects / nil *)
Definition is0 (a b : val) : res bool :=
  match a, b with
  | VObj o1, VObj o2 => Ok (o_id o1 =? o_id o2)
  | VNil, VNil => Ok true
  | VNil, VObj _ | VObj _, VNil => Ok false
  | _, _ => Fail Stuck
  end.

Definition strip (v : val) : val := match v with VSome o => VObj o | _ => v end.

Definition is_ref (v : val) : bool := match v with VObj _ | VSome _ | VNil => true | _ => false end.

(* repaired: a present optional is the value it holds.  Before: a wrapped reference fell through to
   Primitive::equals, where two objects "cannot be compared" -> unwrap_or(false) *)
Definition m_is (a b : val) : res bool :=
  if legacy then
    match a, b with
    | VSome _, _ => if is_ref b then Ok false else Fail Stuck
    | _, VSome _ => if is_ref a then Ok false else Fail Stuck
    | _, _ => is0 a b
    end
  else is0 (strip a) (strip b).

(* the `unwrap` instruction *)
Definition m_unwrap (v : val) : res val :=
  match v with VNil => Fail Err | VSome o => Ok (VObj o) | _ => Ok v end.

(* (the argument of thru_C has the non-optional type C, so it is never itself a wrapped reference;
    for the untyped corner the model keeps a single wrapper) *)
Definition m_wrap (v : val) : res val :=
  match v with VObj o | VSome o => Ok (VSome o) | _ => Fail Stuck end.

Definition m_lnew (st : state) (xs : list val) : state * val :=
  ({| cells := cells st; ncell := ncell st; lists := (nlist st, xs) :: lists st; nlist := nlist st + 1;
      nid := nid st; env := env st |}, VList (nlist st)).

Definition m_lread (st : state) (v : val) : res (list val) :=
  match v with
  | VList l => match aget (lists st) l with Some xs => Ok xs | None => Fail Stuck end
  | VNil => Fail Err
  | _ => Fail Stuck
  end.

Definition m_lwrite (st : state) (v : val) (xs : list val) : res state :=
  match v with
  | VList l => match aget (lists st) l with Some _ => Ok (set_lists st ((l, xs) :: lists st)) | None => Fail Stuck end
  | VNil => Fail Err
  | _ => Fail Stuck
  end.

Definition impl : iface state val :=
  {| i_get := m_get; i_set := m_set; i_lit := m_lit; i_scalar := m_scalar; i_recv := m_recv; i_cls := m_cls;
     i_fread := m_fread; i_fwrite := m_fwrite; i_new := m_new; i_is := m_is; i_unwrap := m_unwrap; i_wrap := m_wrap;
     i_lnew := m_lnew; i_lread := m_lread; i_lwrite := m_lwrite |}.

End Impl.

Definition step (legacy : bool) (ct : ctab) (st : state) (c : oop) : res (state * list oval) := gstep (impl legacy) ct st c.

Definition run (legacy : bool) (ct : ctab) (h : list oop) : list oval * option fail := grun_from (impl legacy) ct st0 h.
