(* The byte-level loader and its connection to the scalar-level codec model.

   records_bytes / ld_step_bytes / load_bytes mirror MScriptFile::get_functions on what it really
   reads (bytes): read_until(0x00), the byte patterns, String::from_utf8 on the function name,
   String::from_utf8_lossy on the argument text, the opcode being ONE byte.  The writer writes a
   Rust String, i.e. `encode (emit_bin fs)`.  Theorems:

     records_bytes_encode   splitting the encoded file at zero bytes = encoding the records of
                            the scalar file split at U+0000
     ld_step_bytes_encode   on the encoding of a scalar record whose first character is ASCII the
                            byte-level step is the scalar-level step
     load_bytes_encode      hence load_bytes (encode f) = load f
     file_roundtrip_bytes   loader-on-bytes (UTF-8 (writer fs)) = fs

   The one extra side condition the byte level needs: opcodes are < 128 (the writer emits
   `id as char`, which is two bytes from 128 on, while the loader takes one byte). *)
From Coq Require Import ZArith ZifyBool.
From MS Require Import Codec.Model Codec.Proofs Codec.Utf8.

(* ---------------------------------------------------------------- records *)

(* BufRead::read_until(0x00): chunks including the terminating zero byte; a last chunk without
   terminator is returned as it is *)
Fixpoint records_bytes_aux (cur : list N) (l : list N) : list (list N) :=
  match l with
  | [] => if is_nil cur then [] else [cur]
  | b :: l => if b =? 0 then (cur ++ [b]) :: records_bytes_aux [] l
              else records_bytes_aux (cur ++ [b]) l
  end.
Definition records_bytes := records_bytes_aux [].

Lemma records_bytes_aux_skip r : ~ In 0 r -> forall cur rest,
  records_bytes_aux cur (r ++ rest) = records_bytes_aux (cur ++ r) rest.
Proof.
  induction r as [|b r IH]; intros H cur rest; cbn [app records_bytes_aux].
  - now rewrite app_nil_r.
  - destruct (N.eqb_spec b 0) as [->|Hb]; [exfalso; apply H; now left|].
    rewrite IH by (intros H'; apply H; now right). now rewrite <- app_assoc.
Qed.

Lemma encode_is_nil s : is_nil (encode s) = is_nil s.
Proof.
  destruct s as [|c s]; [reflexivity|]. rewrite encode_cons. cbn [is_nil].
  pose proof (encode_char_nonempty c). now destruct (encode_char c).
Qed.

Lemma records_bytes_aux_encode l : forall cur,
  records_bytes_aux (encode cur) (encode l) = map encode (records_aux cur l).
Proof.
  induction l as [|c l IH]; intros cur.
  - cbn [encode flat_map records_bytes_aux records_aux]. fold (encode cur).
    rewrite encode_is_nil. now destruct (is_nil cur).
  - rewrite encode_cons. cbn [records_aux]. destruct (N.eqb_spec c c_nul) as [->|Hc].
    + change (encode_char c_nul) with [0]. cbn [app records_bytes_aux N.eqb map].
      pose proof (IH []) as IH0. change (encode []) with (@nil N) in IH0.
      now rewrite IH0, encode_app.
    + rewrite records_bytes_aux_skip.
      * rewrite <- IH, encode_app. cbn [encode flat_map]. now rewrite app_nil_r.
      * intros H. apply (ascii_byte_char c 0) in H; [|lia]. now apply Hc.
Qed.

(* splitting the ENCODED file at zero bytes = encoding the records of the scalar file *)
Theorem records_bytes_encode : forall f, records_bytes (encode f) = map encode (records f).
Proof. intros f. exact (records_bytes_aux_encode f []). Qed.

(* ... and decoding each byte record gives back the scalar records *)
Corollary records_bytes_decode : forall f, scalars f ->
  map decode (records_bytes (encode f)) = map Some (records f).
Proof.
  intros f Hf. rewrite records_bytes_encode, map_map.
  assert (H : Forall scalars (records f)).
  { unfold records. assert (Hc : scalars []) by constructor. revert Hc. generalize (@nil N) as cur.
    induction Hf as [|c l Hc Hl IH]; intros cur Hcur; cbn [records_aux].
    - destruct (is_nil cur); repeat constructor; exact Hcur.
    - assert (scalars (cur ++ [c])) by (apply scalars_app; [exact Hcur|now constructor]).
      destruct (c =? c_nul); [constructor; [assumption|apply IH; constructor]|now apply IH]. }
  induction H as [|r rs Hr Hrs IH]; [reflexivity|]. cbn [map]. now rewrite decode_encode, IH.
Qed.

(* ---------------------------------------------------------------- the loader on bytes *)

Definition ld_step_bytes (s : ld) (rec : list N) : option ld :=
  match split_last rec with
  | None => None
  | Some (b, z) =>
    if negb (z =? 0) then None else
    match b with
    | c0 :: c1 :: name =>
      if (c0 =? 102) && (c1 =? 32) && negb (in_fn s) then        (* [b'f', b' ', name @ .., 0] *)
        match decode name with                                  (* String::from_utf8(name)? *)
        | Some n => Some {| in_fn := true; cur_name := Some n; ibuf := []; fns := fns s |}
        | None => None end
      else if (c0 =? 101) && in_fn s then                        (* [b'e', .., 0] *)
        match cur_name s with
        | Some n => Some {| in_fn := false; cur_name := None; ibuf := [];
                            fns := insert_fn {| fname := n; body := ibuf s |} (fns s) |}
        | None => None end
      else if (c1 =? 32) && in_fn s then                         (* [instruction, b' ', args @ .., 0] *)
        match split true (decode_lossy name) with               (* split_string(from_utf8_lossy(args))? *)
        | Some a => Some {| in_fn := true; cur_name := cur_name s;
                            ibuf := ibuf s ++ [{| op := c0; args := a |}]; fns := fns s |}
        | None => None end
      else None
    | [c0] =>
      if (c0 =? 101) && in_fn s then                             (* [b'e', 0] *)
        match cur_name s with
        | Some n => Some {| in_fn := false; cur_name := None; ibuf := [];
                            fns := insert_fn {| fname := n; body := ibuf s |} (fns s) |}
        | None => None end
      else if in_fn s then                                       (* [instruction, 0] *)
        Some {| in_fn := true; cur_name := cur_name s;
                ibuf := ibuf s ++ [{| op := c0; args := [] |}]; fns := fns s |}
      else None
    | [] => None
    end
  end.

Fixpoint ld_run_bytes (s : ld) (rs : list (list N)) : option ld :=
  match rs with
  | [] => Some s
  | r :: rs => match ld_step_bytes s r with Some s' => ld_run_bytes s' rs | None => None end
  end.

Definition load_bytes (file : list N) : option (list func) :=
  match ld_run_bytes ld0 (records_bytes file) with Some s => Some (fns s) | None => None end.

(* ---------------------------------------------------------------- step simulation *)

(* first character of a record is ASCII (`f`, `e`, or an opcode < 128) *)
Definition ascii_head (r : str) : Prop := match r with c :: _ => c < 128 | [] => True end.

Lemma split_last_nil l : split_last l = None -> l = [].
Proof.
  induction l as [|c l IH]; [reflexivity|]. cbn [split_last].
  destruct l as [|d l]; [discriminate|]. destruct (split_last (d :: l)) as [[i z]|]; [discriminate|].
  intros _. discriminate (IH eq_refl).
Qed.

Lemma split_last_some l b z : split_last l = Some (b, z) -> l = b ++ [z].
Proof.
  revert b; induction l as [|c l IH]; intros b; [discriminate|]. cbn [split_last].
  destruct l as [|d l]; [now intros [= <- <-]|].
  destruct (split_last (d :: l)) as [[i y]|]; [|discriminate]. intros [= <- <-].
  cbn [app]. f_equal. now apply IH.
Qed.

Lemma split_last_app a l c : split_last (a ++ l ++ [c]) = Some (a ++ l, c).
Proof. now rewrite app_assoc, split_last_snoc. Qed.

(* the last byte of the encoding of a nonzero scalar is nonzero *)
Lemma encode_char_last c : c <> 0 -> exists p z, encode_char c = p ++ [z] /\ z <> 0.
Proof.
  intros Hc. destruct (exists_last (encode_char_nonempty c)) as (p & z & E).
  exists p, z. split; [exact E|]. intros ->.
  assert (H : In 0 (encode_char c)) by (rewrite E; apply in_or_app; right; now left).
  apply ascii_byte_char in H; [|lia]. now apply Hc.
Qed.

Lemma encode_char_first c : 128 <= c -> exists b t, encode_char c = b :: t /\ 128 <= b.
Proof.
  intros Hc. pose proof (encode_char_high c Hc) as Hf. pose proof (encode_char_nonempty c) as Hn.
  destruct (encode_char c) as [|b t]; [congruence|]. exists b, t. split; [reflexivity|].
  now inversion Hf.
Qed.

Lemma ld_step_bytes_encode s r :
  scalars r -> ascii_head r -> ld_step_bytes s (encode r) = ld_step s r.
Proof.
  intros Hr Ha. unfold ld_step_bytes, ld_step.
  destruct (split_last r) as [[b z]|] eqn:E.
  2:{ apply split_last_nil in E. subst r. reflexivity. }
  apply split_last_some in E. subst r. rewrite encode_app. cbn [encode flat_map]. rewrite app_nil_r.
  apply scalars_app_inv in Hr as [Hb _].
  destruct (N.eqb_spec z c_nul) as [->|Hz].
  2:{ destruct (encode_char_last z Hz) as (p & y & Ep & Hy). rewrite Ep, split_last_app.
      now replace (y =? 0) with false by lia. }
  change (encode_char c_nul) with [0]. rewrite split_last_snoc. cbn [N.eqb negb].
  destruct b as [|c0 [|c1 name]].
  - reflexivity.
  - cbn [app ascii_head] in Ha. cbn [encode flat_map]. rewrite encode_char_ascii by exact Ha.
    reflexivity.
  - cbn [app ascii_head] in Ha. rewrite !encode_cons, (encode_char_ascii c0 Ha). cbn [app].
    inversion Hb as [|? ? _ Hb1]; subst. inversion Hb1 as [|? ? _ Hn]; subst.
    destruct (N.lt_ge_cases c1 128) as [H1|H1].
    + rewrite (encode_char_ascii c1 H1). cbn [app].
      rewrite (decode_encode name Hn), (decode_lossy_encode name Hn). reflexivity.
    + destruct (encode_char_first c1 H1) as (b1 & t & E1 & Hb1'). rewrite E1. cbn [app].
      replace (b1 =? 32) with false by lia. replace (c1 =? c_sp) with false by (unfold c_sp; lia).
      rewrite !Bool.andb_false_r. cbn [andb]. reflexivity.
Qed.

Lemma ld_run_bytes_encode rs : forall s,
  Forall scalars rs -> Forall ascii_head rs -> ld_run_bytes s (map encode rs) = ld_run s rs.
Proof.
  induction rs as [|r rs IH]; intros s Hs Ha; [reflexivity|].
  inversion Hs; inversion Ha; subst. cbn [map ld_run_bytes ld_run].
  rewrite ld_step_bytes_encode by assumption. destruct (ld_step s r); [now apply IH|reflexivity].
Qed.

(* the byte-level loader on an encoded file is the scalar-level loader on the file *)
Theorem load_bytes_encode : forall f,
  Forall scalars (records f) -> Forall ascii_head (records f) -> load_bytes (encode f) = load f.
Proof.
  intros f Hs Ha. unfold load_bytes, load. now rewrite records_bytes_encode, ld_run_bytes_encode.
Qed.

(* ---------------------------------------------------------------- the records of a written file *)

Definition fn_records (f : func) : list str :=
  ([c_f; c_sp] ++ fname f ++ [c_nul])
  :: map (fun i => emit_instr_rec i ++ [c_nul]) (body f) ++ [[c_e; c_nul]].

Lemma records_body l rest :
  Forall wf_instr l ->
  records (flat_map emit_instr l ++ rest) = map (fun i => emit_instr_rec i ++ [c_nul]) l ++ records rest.
Proof.
  induction 1 as [|i l Hi Hl IH]; [reflexivity|]. cbn [flat_map map].
  unfold emit_instr at 1.
  change (op i :: emit_args (args i) ++ [c_nul]) with (emit_instr_rec i ++ [c_nul]).
  rewrite <- !app_assoc. cbn [app]. rewrite records_chunk by now apply instr_rec_nul_free.
  now rewrite IH.
Qed.

Lemma records_emit_fn f rest :
  wf_func f -> records (emit_fn f ++ rest) = fn_records f ++ records rest.
Proof.
  intros [Hn Hb]. unfold emit_fn, fn_records. rewrite <- !app_assoc.
  change ([c_f; c_sp] ++ fname f ++ [c_nul] ++ ?x) with (([c_f; c_sp] ++ fname f) ++ c_nul :: x).
  rewrite records_chunk by (apply nul_free_cons; [discriminate|apply nul_free_cons; [discriminate|exact Hn]]).
  rewrite records_body by exact Hb.
  change ([c_e; c_nul] ++ rest) with ([c_e] ++ c_nul :: rest).
  rewrite records_chunk by (apply nul_free_cons; [discriminate|intros []]).
  cbn [app]. rewrite <- !app_assoc. reflexivity.
Qed.

Lemma records_emit_bin fs : Forall wf_func fs -> records (emit_bin fs) = flat_map fn_records fs.
Proof.
  induction 1 as [|f fs Hf Hfs IH]; [reflexivity|]. cbn [emit_bin flat_map].
  rewrite records_emit_fn by exact Hf. fold (emit_bin fs). now rewrite IH.
Qed.

(* what the byte level adds to wf_func: names and arguments are Rust Strings (scalar sequences),
   and the opcode is written as ONE byte *)
Definition wf_instr_b (i : instr) : Prop := op i < 128 /\ Forall scalars (args i).
Definition wf_func_b (f : func) : Prop := scalars (fname f) /\ Forall wf_instr_b (body f).

Lemma scalar_ascii c : c < 128 -> scalar c = true.
Proof. intros H. unfold scalar. lia. Qed.

Lemma scalars_esc_char c : scalar c = true -> scalars (esc_char c).
Proof.
  intros H. unfold esc_char.
  repeat match goal with |- context [N.eqb ?a ?b] => destruct (N.eqb a b) end;
    repeat (apply scalars_cons; [reflexivity || exact H|]); constructor.
Qed.

Lemma scalars_escape s : scalars s -> scalars (escape s).
Proof.
  induction 1 as [|c s Hc Hs IH]; [constructor|]. cbn [escape flat_map].
  apply scalars_app; [now apply scalars_esc_char|exact IH].
Qed.

Lemma scalars_emit_args l : Forall scalars l -> scalars (emit_args l).
Proof.
  induction 1 as [|a l Ha Hl IH]; [constructor|]. cbn [emit_args flat_map]. cbn [app].
  apply scalars_cons; [reflexivity|]. apply scalars_app; [|exact IH].
  unfold quote. apply scalars_cons; [reflexivity|].
  apply scalars_app; [now apply scalars_escape|]. now repeat constructor.
Qed.

Lemma fn_records_ok f : wf_func_b f ->
  Forall scalars (fn_records f) /\ Forall ascii_head (fn_records f).
Proof.
  intros [Hn Hb]. unfold fn_records. split.
  - constructor.
    + cbn [app]. repeat (apply scalars_cons; [reflexivity|]).
      apply scalars_app; [exact Hn|now repeat constructor].
    + apply Forall_app. split; [|now repeat constructor].
      apply Forall_map. eapply Forall_impl; [|exact Hb]. intros i [Ho Ha].
      unfold emit_instr_rec. cbn [app]. apply scalars_cons; [now apply scalar_ascii|].
      apply scalars_app; [now apply scalars_emit_args|now repeat constructor].
  - constructor; [cbn [app ascii_head]; unfold c_f; lia|].
    apply Forall_app. split; [|repeat constructor; cbn [ascii_head]; unfold c_e; lia].
    apply Forall_map. eapply Forall_impl; [|exact Hb]. intros i [Ho Ha].
    unfold emit_instr_rec. cbn [app ascii_head]. exact Ho.
Qed.

Lemma flat_fn_records_ok fs : Forall wf_func_b fs ->
  Forall scalars (flat_map fn_records fs) /\ Forall ascii_head (flat_map fn_records fs).
Proof.
  induction 1 as [|f fs Hf Hfs [IH1 IH2]]; [split; constructor|]. cbn [flat_map].
  destruct (fn_records_ok f Hf) as [H1 H2]. split; apply Forall_app; now split.
Qed.

(* loader-on-BYTES (UTF-8 (writer (functions))) = functions *)
Theorem file_roundtrip_bytes : forall fs : list func,
  Forall wf_func fs -> Forall wf_func_b fs -> NoDup (names fs) ->
  load_bytes (encode (emit_bin fs)) = Some fs.
Proof.
  intros fs Hwf Hb Hnd.
  destruct (flat_fn_records_ok fs Hb) as [H1 H2].
  rewrite load_bytes_encode by (rewrite records_emit_bin by exact Hwf; assumption).
  now apply file_roundtrip.
Qed.

(* the written file is valid UTF-8 made of bytes, and decodes to the scalar-level file *)
Theorem emit_bin_scalars : forall fs, Forall wf_func_b fs -> scalars (emit_bin fs).
Proof.
  induction 1 as [|f fs [Hn Hb] Hfs IH]; [constructor|]. cbn [emit_bin flat_map].
  apply scalars_app; [|exact IH]. unfold emit_fn.
  apply scalars_app; [now repeat constructor|]. apply scalars_app; [exact Hn|].
  apply scalars_app; [now repeat constructor|]. apply scalars_app; [|now repeat constructor].
  clear Hn. induction Hb as [|i l [Ho Ha] Hl IHl]; [constructor|]. cbn [flat_map].
  apply scalars_app; [|exact IHl]. unfold emit_instr.
  apply scalars_cons; [now apply scalar_ascii|].
  apply scalars_app; [now apply scalars_emit_args|now repeat constructor].
Qed.

(* why `op < 128` is needed: an opcode from 128 on is written as two bytes and the byte-level
   loader no longer reads the record the scalar-level model reads *)
Example op_128_differs :
  let s := {| in_fn := true; cur_name := Some [97]; ibuf := []; fns := [] |} in
  ld_step s [200; c_nul] <> ld_step_bytes s (encode [200; c_nul]).
Proof. vm_compute. discriminate. Qed.
