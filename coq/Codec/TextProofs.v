(* text writer -> transpiler -> loader = identity (C18) *)
From MS Require Import Codec.Model Codec.Proofs Codec.Text.

Definition nonws (c : N) : bool := negb (is_ws c).

Definition op_ok (o : N) : bool :=
  match name_of o with
  | Some n => negb (is_nil n) && forallb nonws n && negb (deprecated n) && negb (str_eqb s_end n)
              && (match op_of n with Some o' => o' =? o | None => false end)
              && negb (o =? c_nul) && negb (o =? c_e)
  | None => false
  end.

Definition wf_instr_t (i : instr) : Prop := op_ok (op i) = true /\ Forall nul_free (args i).
Definition wf_func_t (f : func) : Prop :=
  nul_free (fname f) /\ ~ In c_lf (fname f) /\ trim_end (fname f) = fname f /\ Forall wf_instr_t (body f).

(* ---- small facts *)
Lemma nonws_not_in c n : is_ws c = true -> forallb nonws n = true -> ~ In c n.
Proof.
  intros Hc H Hin. rewrite forallb_forall in H. apply H in Hin. unfold nonws in Hin.
  rewrite Hc in Hin. discriminate.
Qed.

Lemma esc_char_lf_free c : ~ In c_lf (esc_char c).
Proof.
  unfold esc_char.
  repeat match goal with |- context [N.eqb ?a ?b] => destruct (N.eqb_spec a b) end;
    cbn; intros H; repeat (destruct H as [H|H]; [try discriminate; auto|]); auto.
Qed.

Lemma not_in_app {A} (x : A) a b : ~ In x a -> ~ In x b -> ~ In x (a ++ b).
Proof. intros Ha Hb H; apply in_app_or in H; tauto. Qed.

Lemma escape_lf_free s : ~ In c_lf (escape s).
Proof. induction s as [|c s IH]; cbn [escape flat_map]; [intros []|]. apply not_in_app; [apply esc_char_lf_free|exact IH]. Qed.

Lemma emit_args_lf_free l : ~ In c_lf (emit_args l).
Proof.
  induction l as [|s l IH]; cbn [emit_args flat_map]; [intros []|].
  cbn [app]. intros [H|H]; [discriminate|]. revert H. apply not_in_app; [|exact IH].
  unfold quote. intros [H|H]; [discriminate|]. revert H. apply not_in_app; [apply escape_lf_free|].
  intros [H|[]]; discriminate.
Qed.

Lemma lines_aux_chunk cur r rest :
  ~ In c_lf r -> lines_aux cur (r ++ c_lf :: rest) = (cur ++ r ++ [c_lf]) :: lines rest.
Proof.
  revert cur; induction r as [|c r IH]; intros cur H; cbn [app lines_aux].
  - reflexivity.
  - destruct (N.eqb_spec c c_lf) as [->|Hc]; [exfalso; apply H; now left|].
    rewrite IH; [now rewrite <- app_assoc|]. intros H'. apply H. now right.
Qed.
Lemma lines_chunk r rest : ~ In c_lf r -> lines (r ++ c_lf :: rest) = (r ++ [c_lf]) :: lines rest.
Proof. intros H. unfold lines at 1. now rewrite lines_aux_chunk. Qed.

Lemma trim_end_ws t : forallb is_ws t = true -> trim_end t = [].
Proof.
  induction t as [|c t IH]; [reflexivity|]. cbn [forallb trim_end]. intros H.
  apply Bool.andb_true_iff in H as [Hc Ht]. rewrite (IH Ht), Hc. reflexivity.
Qed.

Lemma trim_end_fixed_app l t : trim_end l = l -> forallb is_ws t = true -> trim_end (l ++ t) = l.
Proof.
  induction l as [|c l IH]; intros Hl Ht; cbn [app]; [now apply trim_end_ws|].
  cbn [trim_end] in *.
  destruct (is_nil (trim_end l) && is_ws c) eqn:E; [discriminate|].
  injection Hl as Hl. rewrite (IH Hl Ht). rewrite Hl in E. rewrite E. reflexivity.
Qed.

Lemma trim_end_last l c : is_ws c = false -> trim_end (l ++ [c]) = l ++ [c].
Proof.
  intros Hc. induction l as [|x l IH]; cbn [app trim_end].
  - rewrite Hc. reflexivity.
  - rewrite IH. destruct l; reflexivity.
Qed.

Lemma trim_end_nonws n : forallb nonws n = true -> trim_end n = n.
Proof.
  intros H. destruct n as [|x n] using rev_ind; [reflexivity|].
  apply trim_end_last. rewrite forallb_app in H. apply Bool.andb_true_iff in H as [_ H].
  cbn in H. unfold nonws in H. destruct (is_ws x); [discriminate|reflexivity].
Qed.

(* a line  TAB w LF  with w trimmed already *)
Lemma trim_line x w :
  is_ws x = false -> trim_end (x :: w) = x :: w -> trim (c_tab :: (x :: w) ++ [c_lf]) = x :: w.
Proof.
  intros Hx Hw. unfold trim.
  change (c_tab :: (x :: w) ++ [c_lf]) with ([c_tab] ++ ((x :: w) ++ [c_lf])).
  cbn [app]. cbn [trim_end]. fold (trim_end (w ++ [c_lf])).
  assert (H := trim_end_fixed_app (x :: w) [c_lf] Hw eq_refl). cbn [app trim_end] in H.
  rewrite H. cbn [is_nil andb trim_start]. change (is_ws c_tab) with true. cbn [trim_start].
  rewrite Hx. reflexivity.
Qed.

Lemma split_once_sp_at p q : ~ In c_sp p -> split_once_sp (p ++ c_sp :: q) = Some (p, q).
Proof.
  induction p as [|c p IH]; intros H; cbn [app split_once_sp]; [reflexivity|].
  destruct (N.eqb_spec c c_sp) as [->|Hc]; [exfalso; apply H; now left|].
  rewrite IH; [reflexivity|]. intros H'; apply H; now right.
Qed.
Lemma split_once_sp_none l : ~ In c_sp l -> split_once_sp l = None.
Proof.
  induction l as [|c l IH]; intros H; cbn [split_once_sp]; [reflexivity|].
  destruct (N.eqb_spec c c_sp) as [->|Hc]; [exfalso; apply H; now left|].
  rewrite IH; [reflexivity|]. intros H'; apply H; now right.
Qed.

Lemma split_args_line l : l <> [] -> split true (tl (emit_args l) ++ [c_lf]) = Some l.
Proof.
  intros H. destruct l as [|s l]; [contradiction|]. cbn [emit_args flat_map app tl].
  unfold split. change tk0 with (st_o []). fold (emit_args l).
  rewrite <- app_assoc, tk_run_app, quote_read, tk_run_app, emit_args_read. reflexivity.
Qed.

Lemma str_eqb_false_in a b c : In c b -> ~ In c a -> str_eqb a b = false.
Proof.
  intros Hb Ha. destruct (str_eqb a b) eqn:E; [|reflexivity].
  apply str_eqb_eq in E. subst. contradiction.
Qed.

Lemma emit_args_last l : l <> [] -> exists pre, emit_args l = pre ++ [c_dq].
Proof.
  induction l as [|a l IH]; intros H; [contradiction|]. cbn [emit_args flat_map]. fold (emit_args l).
  destruct l as [|a1 l].
  - exists (c_sp :: c_dq :: escape a). cbn [emit_args flat_map]. rewrite app_nil_r. unfold quote.
    cbn [app]. reflexivity.
  - destruct (IH ltac:(discriminate)) as [pre Hpre]. rewrite Hpre.
    exists ((c_sp :: quote a) ++ pre). now rewrite <- app_assoc.
Qed.

Definition push_i (s : tp) (i : instr) : tp :=
  {| t_name := t_name s; t_ibuf := t_ibuf s ++ [i]; t_out := t_out s |}.

Lemma instr_line s i :
  wf_instr_t i ->
  exists r, emit_instr_text i = Some (r ++ [c_lf]) /\ ~ In c_lf r /\ tp_step s (r ++ [c_lf]) = Some (push_i s i).
Proof.
  intros [Hop Ha]. unfold op_ok in Hop. destruct (name_of (op i)) as [n|] eqn:En; [|discriminate].
  repeat (apply Bool.andb_true_iff in Hop as [Hop ?]).
  destruct n as [|x n]; [discriminate|].
  assert (Hnw : forallb nonws (x :: n) = true) by assumption.
  assert (Hx : is_ws x = false).
  { cbn [forallb] in Hnw. apply Bool.andb_true_iff in Hnw as [Hx' _]. unfold nonws in Hx'. now destruct (is_ws x). }
  assert (Hnsp : ~ In c_sp (x :: n)) by (apply nonws_not_in; auto).
  assert (Hnlf : ~ In c_lf (x :: n)) by (apply nonws_not_in; auto).
  assert (Hdep : deprecated (x :: n) = false) by (match goal with H : negb (deprecated _) = true |- _ => now destruct (deprecated (x :: n)) end).
  assert (Hend : str_eqb s_end (x :: n) = false) by (match goal with H : negb (str_eqb s_end _) = true |- _ => now destruct (str_eqb s_end (x :: n)) end).
  assert (Hopof : op_of (x :: n) = Some (op i)).
  { destruct (op_of (x :: n)) as [o'|]; [|discriminate].
    match goal with H : (o' =? op i) = true |- _ => apply N.eqb_eq in H; now subst end. }
  exists (c_tab :: (x :: n) ++ emit_args (args i)).
  split; [|split].
  - unfold emit_instr_text. rewrite En. cbn [app]. now rewrite <- app_assoc.
  - intros [H'|H']; [discriminate|]. revert H'. apply not_in_app; [exact Hnlf|apply emit_args_lf_free].
  - destruct i as [o a]; cbn [op args] in *. unfold tp_step.
    destruct a as [|a0 a].
    + (* no arguments *)
      cbn [emit_args flat_map]. rewrite app_nil_r.
      change ((c_tab :: x :: n) ++ [c_lf]) with (c_tab :: (x :: n) ++ [c_lf]).
      rewrite trim_line by (auto using trim_end_nonws).
      cbn [is_nil]. cbn [strip_prefix s_function_sp app]. change (102 =? c_tab) with false. cbv iota.
      rewrite Hend.
      rewrite split_once_sp_none.
      2:{ intros [H'|H']; [discriminate|]. change (In c_sp ((x :: n) ++ [c_lf])) in H'.
          apply in_app_or in H'. destruct H' as [H'|[H'|[]]]; [now apply Hnsp|discriminate]. }
      unfold tp_push. rewrite Hdep, Hopof. reflexivity.
    + (* with arguments *)
      pose (w' := n ++ emit_args (a0 :: a)).
      assert (Htrim : trim_end (x :: w') = x :: w').
      { destruct (emit_args_last (a0 :: a) ltac:(discriminate)) as [pre Hpre].
        unfold w'. rewrite Hpre. change (x :: n ++ pre ++ [c_dq]) with ((x :: n) ++ pre ++ [c_dq]).
        rewrite app_assoc. now apply trim_end_last. }
      change ((c_tab :: (x :: n) ++ emit_args (a0 :: a)) ++ [c_lf]) with (c_tab :: (x :: w') ++ [c_lf]).
      rewrite trim_line by auto.
      cbn [is_nil].
      replace (strip_prefix s_function_sp (c_tab :: (x :: w') ++ [c_lf])) with (@None str) by reflexivity.
      rewrite (str_eqb_false_in s_end (x :: w') c_sp).
      2:{ right. unfold w'. apply in_or_app. right. cbn [emit_args flat_map app]. now left. }
      2:{ cbn. intros [H'|[H'|[H'|[]]]]; discriminate. }
      replace (c_tab :: (x :: w') ++ [c_lf])
        with ((c_tab :: x :: n) ++ c_sp :: (tl (emit_args (a0 :: a)) ++ [c_lf])).
      2:{ unfold w'. cbn [emit_args flat_map app tl]. fold (emit_args a).
          do 2 f_equal. rewrite <- !app_assoc. cbn [app]. rewrite <- !app_assoc. reflexivity. }
      rewrite split_once_sp_at by (intros [H'|H']; [discriminate|auto]).
      rewrite split_args_line by discriminate.
      cbn [trim_start]. change (is_ws c_tab) with true. cbn [trim_start]. rewrite Hx.
      unfold tp_push. rewrite Hdep, Hopof. reflexivity.
Qed.

Lemma body_lines s l rest :
  Forall wf_instr_t l ->
  exists txt, emit_body_text l = Some txt /\
    tp_run s (lines (txt ++ rest)) =
    tp_run {| t_name := t_name s; t_ibuf := t_ibuf s ++ l; t_out := t_out s |} (lines rest).
Proof.
  revert s; induction l as [|i l IH]; intros s Hwf.
  - exists []. split; [reflexivity|]. cbn [app]. rewrite app_nil_r. now destruct s.
  - inversion Hwf as [|? ? Hi Hl]; subst.
    destruct (instr_line s i Hi) as (r & Er & Hlf & Hstep).
    destruct (IH (push_i s i) Hl) as (txt & Et & Hrun).
    exists ((r ++ [c_lf]) ++ txt). split.
    + cbn [emit_body_text]. now rewrite Er, Et.
    + rewrite <- !app_assoc. cbn [app]. rewrite lines_chunk by exact Hlf.
      cbn [tp_run]. rewrite Hstep, Hrun. cbn [push_i t_name t_ibuf t_out]. now rewrite <- app_assoc.
Qed.

Lemma in_trim_end c l : In c l -> is_ws c = false -> In c (trim_end l).
Proof.
  intros Hin Hc. induction l as [|x l IH]; [contradiction|]. cbn [trim_end].
  destruct Hin as [->|Hin].
  - rewrite Hc, Bool.andb_false_r. now left.
  - specialize (IH Hin). destruct (trim_end l) eqn:E; [contradiction|]. cbn [is_nil andb]. now right.
Qed.
Lemma in_trim_start c l : In c l -> is_ws c = false -> In c (trim_start l).
Proof.
  intros Hin Hc. induction l as [|x l IH]; [contradiction|]. cbn [trim_start].
  destruct (is_ws x) eqn:Ex; [|exact Hin].
  destruct Hin as [->|Hin]; [congruence|auto].
Qed.
Lemma trim_nonempty c l : In c l -> is_ws c = false -> is_nil (trim l) = false.
Proof.
  intros Hin Hc. assert (H : In c (trim l)) by (apply in_trim_start; auto using in_trim_end).
  destruct (trim l); [contradiction|reflexivity].
Qed.

Lemma strip_prefix_app p l : strip_prefix p (p ++ l) = Some l.
Proof. induction p as [|x p IH]; [reflexivity|]. cbn [app strip_prefix]. now rewrite N.eqb_refl. Qed.

Lemma fn_lines out f rest :
  wf_func_t f ->
  exists txt, emit_fn_text f = Some txt /\
    tp_run {| t_name := None; t_ibuf := []; t_out := out |} (lines (txt ++ rest)) =
    tp_run {| t_name := None; t_ibuf := []; t_out := out ++ emit_fn f |} (lines rest).
Proof.
  intros (Hnul & Hlf & Htrim & Hb).
  destruct (body_lines {| t_name := Some (fname f); t_ibuf := []; t_out := out |} (body f) (s_end ++ [c_lf] ++ rest) Hb)
    as (b & Eb & Hrun).
  exists (s_function_sp ++ fname f ++ [c_lf] ++ b ++ s_end ++ [c_lf]). split.
  - unfold emit_fn_text. now rewrite Eb.
  - rewrite <- !app_assoc.
    change (s_function_sp ++ fname f ++ [c_lf] ++ ?x) with ((s_function_sp ++ fname f) ++ c_lf :: x).
    rewrite lines_chunk.
    2:{ apply not_in_app; [|exact Hlf]. cbn. intuition discriminate. }
    cbn [tp_run]. unfold tp_step at 1.
    rewrite (trim_nonempty 102) by (reflexivity || (cbn; auto)).
    rewrite <- app_assoc, strip_prefix_app.
    rewrite (trim_end_fixed_app (fname f) [c_lf] Htrim eq_refl).
    cbn [t_ibuf t_out]. cbn [app t_name t_ibuf t_out] in Hrun.
    change (b ++ s_end ++ [c_lf] ++ rest) with (b ++ s_end ++ c_lf :: rest). rewrite Hrun. cbn [t_name t_ibuf t_out app].
    change (s_end ++ c_lf :: rest) with (s_end ++ c_lf :: rest).
    rewrite lines_chunk by (cbn; intuition discriminate).
    cbn [tp_run]. unfold tp_step at 1.
    replace (trim (s_end ++ [c_lf])) with s_end by reflexivity.
    cbn [is_nil s_end]. replace (strip_prefix s_function_sp ([101; 110; 100] ++ [c_lf])) with (@None str) by reflexivity.
    replace (str_eqb [101; 110; 100] [101; 110; 100]) with true by reflexivity.
    cbn [t_name t_ibuf t_out]. unfold emit_instr_t, emit_fn. reflexivity.
Qed.

Lemma all_lines out fs :
  Forall wf_func_t fs ->
  exists txt, emit_text fs = Some txt /\
    tp_run {| t_name := None; t_ibuf := []; t_out := out |} (lines txt) =
    Some {| t_name := None; t_ibuf := []; t_out := out ++ emit_bin fs |}.
Proof.
  revert out; induction fs as [|f fs IH]; intros out Hwf.
  - exists []. split; [reflexivity|]. cbn. now rewrite app_nil_r.
  - inversion Hwf as [|? ? Hf Hfs]; subst.
    destruct (IH (out ++ emit_fn f) Hfs) as (t2 & E2 & R2).
    destruct (fn_lines out f t2 Hf) as (t1 & E1 & R1).
    exists (t1 ++ t2). split.
    + cbn [emit_text]. now rewrite E1, E2.
    + rewrite R1, R2. cbn [emit_bin flat_map]. now rewrite <- app_assoc.
Qed.

Theorem transpile_emits_binary : forall fs, Forall wf_func_t fs ->
  exists txt, emit_text fs = Some txt /\ transpile txt = Some (emit_bin fs).
Proof.
  intros fs Hwf. destruct (all_lines [] fs Hwf) as (txt & E & R).
  exists txt. split; [exact E|]. unfold transpile. change tp0 with {| t_name := None; t_ibuf := []; t_out := [] |}.
  now rewrite R.
Qed.

Lemma wf_t_wf f : wf_func_t f -> wf_func f.
Proof.
  intros (Hn & _ & _ & Hb). split; [exact Hn|].
  eapply Forall_impl; [|exact Hb]. intros i [Hop Ha]. split; [|exact Ha].
  unfold op_ok in Hop. destruct (name_of (op i)); [|discriminate].
  repeat (apply Bool.andb_true_iff in Hop as [Hop ?]).
  split; apply N.eqb_neq; match goal with H : negb (op i =? ?c) = true |- (op i =? ?c) = false => now destruct (op i =? c) end.
Qed.

Theorem text_roundtrip : forall fs, Forall wf_func_t fs -> NoDup (names fs) ->
  exists txt bin, emit_text fs = Some txt /\ transpile txt = Some bin /\ load bin = Some fs.
Proof.
  intros fs Hwf Hnd. destruct (transpile_emits_binary fs Hwf) as (txt & E & T).
  exists txt, (emit_bin fs). repeat split; auto.
  apply file_roundtrip; [|exact Hnd]. eapply Forall_impl; [|exact Hwf]. exact wf_t_wf.
Qed.

(* the generated opcode table: every opcode but the deprecated `nop` has a usable name *)
Definition all_ops : list N := map fst opnames.
Theorem table_ok : forallb (fun o => (o =? 0) || op_ok o) all_ops = true.
Proof. vm_compute. reflexivity. Qed.
Theorem table_dense : map fst opnames = map N.of_nat (seq 0 (length opnames)).
Proof. vm_compute. reflexivity. Qed.
