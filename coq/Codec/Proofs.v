(* writer o reader = identity, for all argument lists and all files (C04) *)
From MS Require Import Codec.Model.

Local Ltac neq_ws := unfold is_ws; cbn; reflexivity.

Definition st_q (b : str) (a : list str) : tk := {| inq := true; esc := false; buf := b; acc := a |}.
Definition st_o (a : list str) : tk := {| inq := false; esc := false; buf := []; acc := a |}.

Lemma tk_run_app multi s l1 l2 :
  tk_run multi s (l1 ++ l2) =
  match tk_run multi s l1 with Some s' => tk_run multi s' l2 | None => None end.
Proof.
  revert s; induction l1 as [|c l1 IH]; intros s; cbn [tk_run app]; [reflexivity|].
  destruct (tk_step multi s c); [apply IH|reflexivity].
Qed.

(* one source character, escaped, read inside quotes: appended to the buffer *)
Lemma esc_char_read multi b a c :
  tk_run multi (st_q b a) (esc_char c) = Some (st_q (b ++ [c]) a).
Proof.
  unfold esc_char.
  destruct (N.eqb_spec c c_bs) as [->|Hbs]; [reflexivity|].
  destruct (N.eqb_spec c c_dq) as [->|Hdq]; [reflexivity|].
  destruct (N.eqb_spec c c_lf) as [->|Hlf]; [reflexivity|].
  destruct (N.eqb_spec c c_cr) as [->|Hcr]; [reflexivity|].
  destruct (N.eqb_spec c c_tab) as [->|Htab]; [reflexivity|].
  cbn [tk_run tk_step st_q inq esc buf acc negb andb].
  destruct (N.eqb_spec c c_bs); [contradiction|].
  destruct (N.eqb_spec c c_dq); [contradiction|]. reflexivity.
Qed.

Lemma escape_read multi b a s :
  tk_run multi (st_q b a) (escape s) = Some (st_q (b ++ s) a).
Proof.
  revert b; induction s as [|c s IH]; intros b; cbn [escape flat_map].
  - now rewrite app_nil_r.
  - rewrite tk_run_app, esc_char_read. fold (escape s). rewrite IH.
    now rewrite <- app_assoc.
Qed.

Lemma quote_read a s : tk_run true (st_o a) (quote s) = Some (st_o (a ++ [s])).
Proof.
  unfold quote. cbn [tk_run].
  replace (tk_step true (st_o a) c_dq) with (Some (st_q [] a)) by reflexivity.
  rewrite tk_run_app, escape_read. reflexivity.
Qed.

Lemma emit_args_read a l : tk_run true (st_o a) (emit_args l) = Some (st_o (a ++ l)).
Proof.
  revert a; induction l as [|s l IH]; intros a; cbn [emit_args flat_map].
  - now rewrite app_nil_r.
  - cbn [app tk_run]. replace (tk_step true (st_o a) c_sp) with (Some (st_o a)) by reflexivity.
    rewrite tk_run_app, quote_read. fold (emit_args l). rewrite IH.
    now rewrite <- app_assoc.
Qed.

(* the loader hands the tokenizer everything after the opcode and ONE space *)
Theorem args_roundtrip : forall l : list str, l <> [] -> split true (tl (emit_args l)) = Some l.
Proof.
  intros [|s l] H; [contradiction|]. cbn [emit_args flat_map app tl].
  unfold split. change tk0 with (st_o []).
  rewrite tk_run_app, quote_read. fold (emit_args l). rewrite emit_args_read.
  reflexivity.
Qed.

(* a string literal decoded by the compiler (split ... false of the quoted source text)
   is decoded again to the same thing after being written: the single-target mode too *)
Theorem quote_roundtrip_single : forall s : str, split false (quote s) = Some [s] \/ s = [].
Proof.
  intros s. destruct s as [|c s]; [now right|left].
  unfold split, quote. cbn [tk_run].
  replace (tk_step false tk0 c_dq) with (Some (st_q [] [])) by reflexivity.
  rewrite tk_run_app, escape_read. reflexivity.
Qed.

(* ---------------------------------------------------------------- files *)

Definition nul_free (s : str) : Prop := ~ In c_nul s.

Lemma esc_char_nul_free c : c <> c_nul -> nul_free (esc_char c).
Proof.
  intros Hc. unfold esc_char, nul_free.
  repeat match goal with |- context [N.eqb ?a ?b] => destruct (N.eqb_spec a b) end;
    cbn; intros H; repeat (destruct H as [H|H]; [try discriminate; auto|]); auto.
Qed.

Lemma nul_free_app a b : nul_free a -> nul_free b -> nul_free (a ++ b).
Proof. unfold nul_free; intros Ha Hb H; apply in_app_or in H; tauto. Qed.

Lemma nul_free_cons c a : c <> c_nul -> nul_free a -> nul_free (c :: a).
Proof. unfold nul_free; intros Hc Ha [H|H]; auto. Qed.

Lemma escape_nul_free s : nul_free s -> nul_free (escape s).
Proof.
  induction s as [|c s IH]; intros H; cbn [escape flat_map]; [exact H|].
  apply nul_free_app.
  - apply esc_char_nul_free. intros ->. apply H. now left.
  - apply IH. intros H'. apply H. now right.
Qed.

Lemma emit_args_nul_free l : Forall nul_free l -> nul_free (emit_args l).
Proof.
  induction 1 as [|s l Hs Hl IH]; cbn [emit_args flat_map]; [intros []|].
  cbn [app]. apply nul_free_cons; [discriminate|].
  apply nul_free_app; [|exact IH].
  unfold quote. apply nul_free_cons; [discriminate|].
  apply nul_free_app; [now apply escape_nul_free|].
  apply nul_free_cons; [discriminate|intros []].
Qed.

Lemma records_aux_chunk cur r rest :
  nul_free r -> records_aux cur (r ++ c_nul :: rest) = (cur ++ r ++ [c_nul]) :: records rest.
Proof.
  revert cur; induction r as [|c r IH]; intros cur H; cbn [app records_aux].
  - reflexivity.
  - destruct (N.eqb_spec c c_nul) as [->|Hc]; [exfalso; apply H; now left|].
    rewrite IH; [now rewrite <- app_assoc|]. intros H'. apply H. now right.
Qed.

Lemma records_chunk r rest :
  nul_free r -> records (r ++ c_nul :: rest) = (r ++ [c_nul]) :: records rest.
Proof. intros H. unfold records at 1. now rewrite records_aux_chunk. Qed.

Lemma split_last_snoc l c : split_last (l ++ [c]) = Some (l, c).
Proof.
  induction l as [|x l IH]; [reflexivity|].
  cbn [app split_last]. rewrite IH. destruct (l ++ [c]) eqn:E; [now destruct l|reflexivity].
Qed.

(* well-formed functions: what the compiler can emit and the format can carry *)
(* the format reserves two opcode characters: NUL terminates a record, `e` ends a function *)
Definition wf_op (o : N) : Prop := o <> c_nul /\ o <> c_e.
Definition wf_instr (i : instr) : Prop := wf_op (op i) /\ Forall nul_free (args i).
Definition wf_func (f : func) : Prop := nul_free (fname f) /\ Forall wf_instr (body f).

Definition emit_instr_rec (i : instr) : str := op i :: emit_args (args i).

Lemma instr_rec_nul_free i : wf_instr i -> nul_free (emit_instr_rec i).
Proof.
  intros [[Ho _] Ha]. unfold emit_instr_rec. apply nul_free_cons; [exact Ho|].
  now apply emit_args_nul_free.
Qed.

Lemma ld_instr s i :
  wf_instr i -> in_fn s = true ->
  ld_step s (emit_instr_rec i ++ [c_nul]) =
  Some {| in_fn := true; cur_name := cur_name s; ibuf := ibuf s ++ [i]; fns := fns s |}.
Proof.
  intros [[Ho1 Ho2] Ha] Hin. unfold ld_step. rewrite split_last_snoc.
  cbn [N.eqb negb c_nul]. unfold emit_instr_rec. destruct i as [o a]; cbn [op args] in *.
  assert (He : (o =? c_e) = false) by (now apply N.eqb_neq).
  destruct a as [|x a].
  - cbn [emit_args flat_map]. rewrite He, Hin. reflexivity.
  - assert (Hx := args_roundtrip (x :: a) ltac:(discriminate)).
    cbn [emit_args flat_map app tl] in *. rewrite Hin, He.
    cbn [negb andb]. rewrite Bool.andb_false_r. cbn [N.eqb c_sp andb].
    change (N.eqb 32 32) with true. cbn [andb].
    fold (emit_args a). fold (emit_args a) in Hx. rewrite Hx. reflexivity.
Qed.

Lemma ld_body s l rest :
  Forall wf_instr l -> in_fn s = true ->
  ld_run s (records (flat_map emit_instr l ++ rest)) =
  ld_run {| in_fn := true; cur_name := cur_name s; ibuf := ibuf s ++ l; fns := fns s |} (records rest).
Proof.
  revert s; induction l as [|i l IH]; intros s Hwf Hin.
  - cbn [flat_map app]. rewrite app_nil_r. destruct s; cbn in *; now subst.
  - inversion Hwf as [|? ? Hi Hl]; subst. cbn [flat_map].
    unfold emit_instr at 1. change (op i :: emit_args (args i) ++ [c_nul]) with (emit_instr_rec i ++ [c_nul]).
    rewrite <- !app_assoc. cbn [app].
    rewrite records_chunk by now apply instr_rec_nul_free.
    cbn [ld_run]. rewrite ld_instr by assumption.
    rewrite IH by (auto). cbn [cur_name ibuf fns]. now rewrite <- app_assoc.
Qed.

Definition names (fs : list func) := map fname fs.

Lemma str_eqb_eq a b : str_eqb a b = true <-> a = b.
Proof.
  revert b; induction a as [|x a IH]; intros [|y b]; cbn; split; intros H; try discriminate; auto.
  - apply Bool.andb_true_iff in H as [H1 H2]. apply N.eqb_eq in H1. apply IH in H2. congruence.
  - inversion H; subst. rewrite N.eqb_refl. cbn. now apply IH.
Qed.

Lemma insert_fresh f fs : ~ In (fname f) (names fs) -> insert_fn f fs = fs ++ [f].
Proof.
  intros H. unfold insert_fn. f_equal. induction fs as [|g fs IH]; [reflexivity|].
  cbn [filter]. destruct (str_eqb (fname g) (fname f)) eqn:E.
  - apply str_eqb_eq in E. exfalso. apply H. left. exact E.
  - cbn [negb]. f_equal. apply IH. intros H'. apply H. now right.
Qed.

Lemma ld_fn done f rest :
  wf_func f -> ~ In (fname f) (names done) ->
  ld_run {| in_fn := false; cur_name := None; ibuf := []; fns := done |} (records (emit_fn f ++ rest)) =
  ld_run {| in_fn := false; cur_name := None; ibuf := []; fns := done ++ [f] |} (records rest).
Proof.
  intros [Hn Hb] Hfresh. unfold emit_fn. rewrite <- !app_assoc.
  change ([c_f; c_sp] ++ fname f ++ [c_nul] ++ ?x) with (([c_f; c_sp] ++ fname f) ++ c_nul :: x).
  rewrite records_chunk by (apply nul_free_cons; [discriminate|apply nul_free_cons; [discriminate|exact Hn]]).
  cbn [ld_run]. unfold ld_step at 1. rewrite split_last_snoc. cbn [N.eqb c_nul negb app in_fn].
  change (c_f =? c_f) with true. change (c_sp =? c_sp) with true. cbn [andb negb].
  rewrite ld_body by (auto).
  cbn [cur_name ibuf fns app].
  change (c_e :: c_nul :: rest) with ([c_e] ++ c_nul :: rest).
  rewrite records_chunk by (apply nul_free_cons; [discriminate|intros []]).
  cbn [ld_run app]. unfold ld_step at 1. cbn [split_last app c_nul N.eqb negb in_fn cur_name ibuf fns].
  change (c_e =? c_e) with true. cbn [andb].
  rewrite insert_fresh by exact Hfresh. destruct f; reflexivity.
Qed.

Lemma ld_all done fs :
  Forall wf_func fs -> NoDup (names (done ++ fs)) ->
  ld_run {| in_fn := false; cur_name := None; ibuf := []; fns := done |} (records (emit_bin fs)) =
  Some {| in_fn := false; cur_name := None; ibuf := []; fns := done ++ fs |}.
Proof.
  revert done; induction fs as [|f fs IH]; intros done Hwf Hnd.
  - cbn. now rewrite app_nil_r.
  - inversion Hwf as [|? ? Hf Hfs]; subst. cbn [emit_bin flat_map].
    rewrite ld_fn; [| exact Hf |].
    + fold (emit_bin fs). rewrite IH; [now rewrite <- app_assoc| exact Hfs |].
      now rewrite <- app_assoc.
    + unfold names in *. rewrite map_app in Hnd. cbn [map] in Hnd.
      apply NoDup_remove_2 in Hnd. intros H. apply Hnd. apply in_or_app. now left.
Qed.

Theorem file_roundtrip : forall fs : list func,
  Forall wf_func fs -> NoDup (names fs) -> load (emit_bin fs) = Some fs.
Proof.
  intros fs Hwf Hnd. unfold load. change ld0 with {| in_fn := false; cur_name := None; ibuf := []; fns := [] |}.
  now rewrite (ld_all [] fs Hwf Hnd).
Qed.
