(* UTF-8 as a THEOREM instead of an assumption.

   The codec models (Codec/Model.v) treat a file as a list of Unicode scalar values with U+0000 as
   record separator; the real loader (bytecode/src/file.rs get_functions) works on BYTES
   (read_until(0x00), byte patterns, then String::from_utf8 / from_utf8_lossy) and the writer
   writes a Rust String, i.e. the UTF-8 encoding of its scalars.  This file defines

     scalar       char's domain (Rust `char`: 0..=0xD7FF, 0xE000..=0x10FFFF)
     encode_char  core::char::encode_utf8           (1-4 bytes)
     encode       the bytes of a String
     decode       String::from_utf8 (STRICT: overlong forms, surrogates, > 0x10FFFF, truncated
                  sequences, stray/bad continuation bytes are errors)
     decode_lossy String::from_utf8_lossy (maximal invalid prefix -> U+FFFD)

   and proves that encode/decode are mutually inverse bijections between scalar strings and the
   byte strings `decode` accepts, that a byte < 0x80 (in particular the zero byte) occurs in an
   encoding exactly where the same ASCII scalar occurs in the string, and that splitting at zero
   bytes commutes with encoding.  Bytes are N (the theorems show they are < 256). *)
From Coq Require Import ZArith ZifyBool.
From MS Require Export Base.Str Codec.Model.

Local Ltac Zify.zify_post_hook ::= Z.to_euclidean_division_equations.

(* ---------------------------------------------------------------- definitions *)

Definition scalar (c : N) : bool := (c <? 0xD800) || ((0xE000 <=? c) && (c <=? 0x10FFFF)).

(* core::char::encode_utf8_raw; `/ 64` is `>> 6`, `mod 64` is `& 0x3F`, `0xC0 + x` is `0xC0 | x`
   (see encode_char_bits below) *)
Definition encode_char (c : N) : list N :=
  if c <? 0x80 then [c]
  else if c <? 0x800 then [0xC0 + c / 64; 0x80 + c mod 64]
  else if c <? 0x10000 then [0xE0 + c / 4096; 0x80 + (c / 64) mod 64; 0x80 + c mod 64]
  else [0xF0 + c / 262144; 0x80 + (c / 4096) mod 64; 0x80 + (c / 64) mod 64; 0x80 + c mod 64].

Definition encode (s : list N) : list N := flat_map encode_char s.

(* a Rust `String` / `&str` seen as its sequence of `char`s *)
Definition scalars (s : list N) : Prop := Forall (fun c => scalar c = true) s.

(* continuation byte 10xxxxxx *)
Definition cont (b : N) : bool := (0x80 <=? b) && (b <? 0xC0).

Definition dec2 (b0 b1 : N) : N := (b0 - 0xC0) * 64 + (b1 - 0x80).
Definition dec3 (b0 b1 b2 : N) : N := (b0 - 0xE0) * 4096 + (b1 - 0x80) * 64 + (b2 - 0x80).
Definition dec4 (b0 b1 b2 b3 : N) : N :=
  (b0 - 0xF0) * 262144 + (b1 - 0x80) * 4096 + (b2 - 0x80) * 64 + (b3 - 0x80).

(* a three byte sequence must not be overlong (< 0x800) nor a surrogate *)
Definition ok3 (c : N) : bool := (0x800 <=? c) && scalar c.
(* a four byte sequence must not be overlong (< 0x10000) nor exceed 0x10FFFF *)
Definition ok4 (c : N) : bool := (0x10000 <=? c) && (c <=? 0x10FFFF).

(* one character off the front; None = invalid UTF-8 at this position.
   lead bytes: 00..7F one byte; 80..BF stray continuation; C0,C1 overlong two byte forms;
   C2..DF two; E0..EF three; F0..F4 four; F5.. invalid (also rejects "bytes" >= 256) *)
Definition decode1 (l : list N) : option (N * list N) :=
  match l with
  | [] => None
  | b0 :: r0 =>
    if b0 <? 0x80 then Some (b0, r0)
    else if b0 <? 0xC2 then None
    else if b0 <? 0xE0 then
      match r0 with
      | b1 :: r1 => if cont b1 then Some (dec2 b0 b1, r1) else None
      | _ => None
      end
    else if b0 <? 0xF0 then
      match r0 with
      | b1 :: b2 :: r2 =>
        if cont b1 && cont b2 && ok3 (dec3 b0 b1 b2) then Some (dec3 b0 b1 b2, r2) else None
      | _ => None
      end
    else if b0 <? 0xF5 then
      match r0 with
      | b1 :: b2 :: b3 :: r3 =>
        if cont b1 && cont b2 && cont b3 && ok4 (dec4 b0 b1 b2 b3)
        then Some (dec4 b0 b1 b2 b3, r3) else None
      | _ => None
      end
    else None
  end.

Definition ocons (c : N) (o : option (list N)) : option (list N) :=
  match o with Some s => Some (c :: s) | None => None end.

(* String::from_utf8: all of the input or an error.  Structural recursion; `decode_unfold`
   below shows it is `decode1` iterated. *)
Fixpoint decode (l : list N) : option (list N) :=
  match l with
  | [] => Some []
  | b0 :: r0 =>
    if b0 <? 0x80 then ocons b0 (decode r0)
    else if b0 <? 0xC2 then None
    else if b0 <? 0xE0 then
      match r0 with
      | b1 :: r1 => if cont b1 then ocons (dec2 b0 b1) (decode r1) else None
      | _ => None
      end
    else if b0 <? 0xF0 then
      match r0 with
      | b1 :: b2 :: r2 =>
        if cont b1 && cont b2 && ok3 (dec3 b0 b1 b2) then ocons (dec3 b0 b1 b2) (decode r2) else None
      | _ => None
      end
    else if b0 <? 0xF5 then
      match r0 with
      | b1 :: b2 :: b3 :: r3 =>
        if cont b1 && cont b2 && cont b3 && ok4 (dec4 b0 b1 b2 b3)
        then ocons (dec4 b0 b1 b2 b3) (decode r3) else None
      | _ => None
      end
    else None
  end.

Lemma decode_unfold l :
  decode l = match l with
             | [] => Some []
             | _ => match decode1 l with Some (c, r) => ocons c (decode r) | None => None end
             end.
Proof.
  destruct l as [|b0 r0]; [reflexivity|]. cbn [decode decode1].
  destruct (b0 <? 0x80); [reflexivity|].
  destruct (b0 <? 0xC2); [reflexivity|].
  destruct (b0 <? 0xE0).
  { destruct r0 as [|b1 r1]; [reflexivity|]. now destruct (cont b1). }
  destruct (b0 <? 0xF0).
  { destruct r0 as [|b1 [|b2 r2]]; try reflexivity.
    now destruct (cont b1 && cont b2 && ok3 (dec3 b0 b1 b2)). }
  destruct (b0 <? 0xF5); [|reflexivity].
  destruct r0 as [|b1 [|b2 [|b3 r3]]]; try reflexivity.
  now destruct (cont b1 && cont b2 && cont b3 && ok4 (dec4 b0 b1 b2 b3)).
Qed.

(* ---------------------------------------------------------------- structure of encodings *)

Lemma encode_app a b : encode (a ++ b) = encode a ++ encode b.
Proof. apply flat_map_app. Qed.

Lemma encode_cons c s : encode (c :: s) = encode_char c ++ encode s.
Proof. reflexivity. Qed.

Lemma encode_char_ascii c : c < 0x80 -> encode_char c = [c].
Proof. intros H. unfold encode_char. now replace (c <? 0x80) with true by lia. Qed.

(* every byte of a multi-byte sequence has its top bit set *)
Lemma encode_char_high c : 0x80 <= c -> Forall (fun b => 0x80 <= b) (encode_char c).
Proof.
  intros H. unfold encode_char. replace (c <? 0x80) with false by lia.
  destruct (c <? 0x800); [|destruct (c <? 0x10000)]; repeat constructor; lia.
Qed.

Lemma encode_char_nonempty c : encode_char c <> [].
Proof.
  unfold encode_char.
  destruct (c <? 0x80); [|destruct (c <? 0x800); [|destruct (c <? 0x10000)]]; discriminate.
Qed.

Lemma encode_char_bytes c : scalar c = true -> Forall (fun b => b < 256) (encode_char c).
Proof.
  unfold scalar, encode_char. intros H.
  destruct (N.ltb_spec c 0x80); [|destruct (N.ltb_spec c 0x800); [|destruct (N.ltb_spec c 0x10000)]];
    repeat constructor; lia.
Qed.

Theorem encode_bytes : forall s, scalars s -> Forall (fun b => b < 256) (encode s).
Proof.
  induction 1 as [|c s Hc Hs IH]; [constructor|].
  rewrite encode_cons. apply Forall_app. split; [now apply encode_char_bytes|exact IH].
Qed.

(* an ASCII byte in an encoding is an ASCII scalar of the string (no scalar hypothesis needed) *)
Lemma ascii_byte_char c b : b < 0x80 -> (In b (encode_char c) <-> b = c).
Proof.
  intros Hb. destruct (N.lt_ge_cases c 0x80) as [Hc|Hc].
  - rewrite encode_char_ascii by exact Hc. cbn [In]. intuition congruence.
  - split.
    + intros Hin. pose proof (encode_char_high c Hc) as Hf. rewrite Forall_forall in Hf.
      apply Hf in Hin. lia.
    + intros ->. lia.
Qed.

Theorem ascii_byte_iff : forall s b, b < 128 -> (In b (encode s) <-> In b s).
Proof.
  intros s b Hb. induction s as [|c s IH]; [reflexivity|].
  rewrite encode_cons, in_app_iff, IH, (ascii_byte_char c b Hb). cbn [In]. intuition congruence.
Qed.

(* the separator lemma: a zero BYTE occurs only as the encoding of U+0000 *)
Theorem zero_byte_iff : forall s, In 0 (encode s) <-> In 0 s.
Proof. intros s. apply ascii_byte_iff. lia. Qed.

(* ---------------------------------------------------------------- round trips *)

Ltac tests :=
  repeat match goal with
  | |- context [N.ltb ?a ?b] =>
    first [replace (N.ltb a b) with true by lia | replace (N.ltb a b) with false by lia]
  | |- context [N.leb ?a ?b] =>
    first [replace (N.leb a b) with true by lia | replace (N.leb a b) with false by lia]
  end.

Lemma decode1_encode c r : scalar c = true -> decode1 (encode_char c ++ r) = Some (c, r).
Proof.
  intros Hs. pose proof Hs as H. unfold scalar in H. unfold encode_char.
  destruct (N.ltb_spec c 0x80) as [H1|H1].
  { cbn [app decode1]. now replace (c <? 0x80) with true by lia. }
  destruct (N.ltb_spec c 0x800) as [H2|H2].
  { cbn [app decode1]. unfold cont, dec2. tests. cbn [andb]. f_equal. f_equal. lia. }
  destruct (N.ltb_spec c 0x10000) as [H3|H3].
  { cbn [app decode1]. unfold cont, ok3.
    assert (E : dec3 (0xE0 + c / 4096) (0x80 + (c / 64) mod 64) (0x80 + c mod 64) = c)
      by (unfold dec3; lia).
    rewrite E, Hs. tests. reflexivity. }
  cbn [app decode1]. unfold cont, ok4.
  assert (E : dec4 (0xF0 + c / 262144) (0x80 + (c / 4096) mod 64) (0x80 + (c / 64) mod 64)
                   (0x80 + c mod 64) = c) by (unfold dec4; lia).
  rewrite E. tests. reflexivity.
Qed.

Lemma decode1_sound l c r :
  decode1 l = Some (c, r) -> scalar c = true /\ l = encode_char c ++ r.
Proof.
  destruct l as [|b0 r0]; [discriminate|]. cbn [decode1].
  destruct (N.ltb_spec b0 0x80) as [H1|H1].
  { intros [= <- <-]. split; [unfold scalar; lia|]. now rewrite encode_char_ascii. }
  destruct (N.ltb_spec b0 0xC2) as [H2|H2]; [discriminate|].
  destruct (N.ltb_spec b0 0xE0) as [H3|H3].
  { destruct r0 as [|b1 r1]; [discriminate|].
    destruct (cont b1) eqn:C1; [|discriminate]. intros [= <- <-].
    unfold cont in C1. unfold scalar, encode_char, dec2. split; [lia|].
    tests. cbn [app]. f_equal; [lia|]. f_equal. lia. }
  destruct (N.ltb_spec b0 0xF0) as [H4|H4].
  { destruct r0 as [|b1 [|b2 r2]]; try discriminate.
    destruct (cont b1 && cont b2 && ok3 (dec3 b0 b1 b2)) eqn:C; [|discriminate].
    intros [= <- <-]. apply andb_prop in C as [C K]. apply andb_prop in C as [C1 C2].
    unfold ok3 in K. apply andb_prop in K as [K1 K2]. split; [exact K2|].
    unfold cont in C1, C2. unfold encode_char.
    assert (B : dec3 b0 b1 b2 < 0x10000) by (unfold dec3; lia).
    replace (dec3 b0 b1 b2 <? 0x80) with false by lia.
    replace (dec3 b0 b1 b2 <? 0x800) with false by lia.
    replace (dec3 b0 b1 b2 <? 0x10000) with true by lia.
    unfold dec3. cbn [app]. f_equal; [lia|]. f_equal; [lia|]. f_equal. lia. }
  destruct (N.ltb_spec b0 0xF5) as [H5|H5]; [|discriminate].
  destruct r0 as [|b1 [|b2 [|b3 r3]]]; try discriminate.
  destruct (cont b1 && cont b2 && cont b3 && ok4 (dec4 b0 b1 b2 b3)) eqn:C; [|discriminate].
  intros [= <- <-]. apply andb_prop in C as [C K]. apply andb_prop in C as [C C3].
  apply andb_prop in C as [C1 C2]. unfold ok4 in K.
  split; [unfold scalar; lia|].
  unfold cont in C1, C2, C3. unfold encode_char.
  replace (dec4 b0 b1 b2 b3 <? 0x80) with false by lia.
  replace (dec4 b0 b1 b2 b3 <? 0x800) with false by lia.
  replace (dec4 b0 b1 b2 b3 <? 0x10000) with false by lia.
  unfold dec4. cbn [app]. f_equal; [lia|]. f_equal; [lia|]. f_equal; [lia|]. f_equal. lia.
Qed.

Lemma decode_encode_char c r : scalar c = true -> decode (encode_char c ++ r) = ocons c (decode r).
Proof.
  intros H. rewrite decode_unfold, decode1_encode by exact H.
  destruct (encode_char c ++ r) eqn:E; [|reflexivity].
  apply app_eq_nil in E as [E _]. now apply encode_char_nonempty in E.
Qed.

(* round trip, ALL scalar strings *)
Theorem decode_encode : forall s, scalars s -> decode (encode s) = Some s.
Proof.
  induction 1 as [|c s Hc Hs IH]; [reflexivity|].
  now rewrite encode_cons, decode_encode_char, IH.
Qed.

Theorem encode_injective : forall s t, scalars s -> scalars t -> encode s = encode t -> s = t.
Proof.
  intros s t Hs Ht E. apply decode_encode in Hs, Ht. rewrite E in Hs. congruence.
Qed.

(* the decoder accepts ONLY canonical encodings of scalar strings: it is the inverse on its domain *)
Lemma decode_sound_len n : forall b s, (length b <= n)%nat -> decode b = Some s ->
  encode s = b /\ scalars s.
Proof.
  induction n as [|n IH]; intros b s Hn.
  - destruct b; [|cbn in Hn; lia]. intros [= <-]. split; constructor.
  - rewrite decode_unfold. destruct b as [|b0 r0]; [intros [= <-]; split; constructor|].
    destruct (decode1 (b0 :: r0)) as [[c r]|] eqn:D; [|discriminate].
    apply decode1_sound in D as [Hc E].
    destruct (decode r) as [s'|] eqn:Dr; [|discriminate]. cbn [ocons]. intros [= <-].
    assert (Hl : (length r <= n)%nat).
    { apply (f_equal (@length N)) in E. rewrite app_length in E. cbn [length] in *.
      pose proof (encode_char_nonempty c). destruct (encode_char c); [congruence|cbn [length] in E; lia]. }
    destruct (IH r s' Hl Dr) as [E' F']. split; [|now constructor].
    rewrite encode_cons, E', E. reflexivity.
Qed.

Theorem encode_decode : forall b s, decode b = Some s -> encode s = b.
Proof. intros b s H. exact (proj1 (decode_sound_len (length b) b s (le_n _) H)). Qed.

Theorem decode_scalar : forall b s, decode b = Some s -> scalars s.
Proof. intros b s H. exact (proj2 (decode_sound_len (length b) b s (le_n _) H)). Qed.

(* hence: decode b = Some s  <->  s is a scalar string and b is its encoding *)
Theorem decode_spec : forall b s,
  decode b = Some s <-> (scalars s /\ encode s = b).
Proof.
  intros b s. split.
  - intros H. split; [now apply decode_scalar in H|now apply encode_decode].
  - intros [H <-]. now apply decode_encode.
Qed.

Lemma scalars_app a b : scalars a -> scalars b -> scalars (a ++ b).
Proof. intros Ha Hb. apply Forall_app. now split. Qed.

Lemma scalars_cons c s : scalar c = true -> scalars s -> scalars (c :: s).
Proof. intros. now constructor. Qed.

Lemma scalars_app_inv a b : scalars (a ++ b) -> scalars a /\ scalars b.
Proof. intros H. now apply Forall_app in H. Qed.

(* ---------------------------------------------------------------- String::from_utf8_lossy *)

(* core::str::lossy::Utf8Chunks::next: the valid second-byte ranges per lead byte *)
Definition snd3 (b0 b1 : N) : bool :=
  if b0 =? 0xE0 then (0xA0 <=? b1) && (b1 <? 0xC0)
  else if b0 =? 0xED then (0x80 <=? b1) && (b1 <? 0xA0)
  else cont b1.
Definition snd4 (b0 b1 : N) : bool :=
  if b0 =? 0xF0 then (0x90 <=? b1) && (b1 <? 0xC0)
  else if b0 =? 0xF4 then (0x80 <=? b1) && (b1 <? 0x90)
  else cont b1.

Definition c_repl : N := 0xFFFD.

(* each maximal invalid prefix of a sequence (lead byte + the continuation bytes accepted so far)
   becomes one U+FFFD and decoding resumes right after it *)
Fixpoint decode_lossy (l : list N) : list N :=
  match l with
  | [] => []
  | b0 :: r0 =>
    if b0 <? 0x80 then b0 :: decode_lossy r0
    else if b0 <? 0xC2 then c_repl :: decode_lossy r0
    else if b0 <? 0xE0 then
      match r0 with
      | b1 :: r1 => if cont b1 then dec2 b0 b1 :: decode_lossy r1 else c_repl :: decode_lossy r0
      | [] => [c_repl]
      end
    else if b0 <? 0xF0 then
      match r0 with
      | b1 :: r1 =>
        if snd3 b0 b1 then
          match r1 with
          | b2 :: r2 => if cont b2 then dec3 b0 b1 b2 :: decode_lossy r2 else c_repl :: decode_lossy r1
          | [] => [c_repl]
          end
        else c_repl :: decode_lossy r0
      | [] => [c_repl]
      end
    else if b0 <? 0xF5 then
      match r0 with
      | b1 :: r1 =>
        if snd4 b0 b1 then
          match r1 with
          | b2 :: r2 =>
            if cont b2 then
              match r2 with
              | b3 :: r3 =>
                if cont b3 then dec4 b0 b1 b2 b3 :: decode_lossy r3 else c_repl :: decode_lossy r2
              | [] => [c_repl]
              end
            else c_repl :: decode_lossy r1
          | [] => [c_repl]
          end
        else c_repl :: decode_lossy r0
      | [] => [c_repl]
      end
    else c_repl :: decode_lossy r0
  end.

Ltac eqcases :=
  repeat match goal with |- context [N.eqb ?a ?b] => destruct (N.eqb_spec a b) end.

Lemma decode_lossy_encode_char c r :
  scalar c = true -> decode_lossy (encode_char c ++ r) = c :: decode_lossy r.
Proof.
  intros Hs. pose proof Hs as H. unfold scalar in H. unfold encode_char.
  destruct (N.ltb_spec c 0x80) as [H1|H1].
  { cbn [app decode_lossy]. now replace (c <? 0x80) with true by lia. }
  destruct (N.ltb_spec c 0x800) as [H2|H2].
  { cbn [app decode_lossy]. unfold cont, dec2. tests. cbn [andb]. f_equal. lia. }
  destruct (N.ltb_spec c 0x10000) as [H3|H3].
  { cbn [app decode_lossy].
    assert (E : dec3 (0xE0 + c / 4096) (0x80 + (c / 64) mod 64) (0x80 + c mod 64) = c)
      by (unfold dec3; lia).
    rewrite E.
    replace (snd3 (0xE0 + c / 4096) (0x80 + (c / 64) mod 64)) with true
      by (unfold snd3, cont; eqcases; lia).
    unfold cont. tests. reflexivity. }
  cbn [app decode_lossy].
  assert (E : dec4 (0xF0 + c / 262144) (0x80 + (c / 4096) mod 64) (0x80 + (c / 64) mod 64)
                   (0x80 + c mod 64) = c) by (unfold dec4; lia).
  rewrite E.
  replace (snd4 (0xF0 + c / 262144) (0x80 + (c / 4096) mod 64)) with true
    by (unfold snd4, cont; eqcases; lia).
  unfold cont. tests. reflexivity.
Qed.

Theorem decode_lossy_encode : forall s, scalars s -> decode_lossy (encode s) = s.
Proof.
  induction 1 as [|c s Hc Hs IH]; [reflexivity|].
  now rewrite encode_cons, decode_lossy_encode_char, IH.
Qed.

(* on valid UTF-8 the lossy decoder is the strict one *)
Theorem decode_lossy_valid : forall b s, decode b = Some s -> decode_lossy b = s.
Proof.
  intros b s H. apply decode_spec in H as [Hs <-]. now apply decode_lossy_encode.
Qed.

(* ---------------------------------------------------------------- the shift/mask form *)

(* core::char::methods::encode_utf8_raw, literally *)
Definition encode_char_bits (c : N) : list N :=
  if c <? 0x80 then [c]
  else if c <? 0x800 then
    [N.lor (N.land (N.shiftr c 6) 0x1F) 0xC0; N.lor (N.land c 0x3F) 0x80]
  else if c <? 0x10000 then
    [N.lor (N.land (N.shiftr c 12) 0x0F) 0xE0; N.lor (N.land (N.shiftr c 6) 0x3F) 0x80;
     N.lor (N.land c 0x3F) 0x80]
  else
    [N.lor (N.land (N.shiftr c 18) 0x07) 0xF0; N.lor (N.land (N.shiftr c 12) 0x3F) 0x80;
     N.lor (N.land (N.shiftr c 6) 0x3F) 0x80; N.lor (N.land c 0x3F) 0x80].

Lemma below_forallb (P : N -> bool) n :
  forallb P (map N.of_nat (seq 0 (N.to_nat n))) = true -> forall x, x < n -> P x = true.
Proof.
  intros H x Hx. rewrite forallb_forall in H. apply H.
  apply in_map_iff. exists (N.to_nat x). split; [apply N2Nat.id|]. apply in_seq. lia.
Qed.

Lemma lor_cont x : x < 64 -> N.lor x 0x80 = 0x80 + x.
Proof.
  intros H. apply N.eqb_eq.
  revert x H. apply (below_forallb (fun x => N.lor x 0x80 =? 0x80 + x)). vm_compute. reflexivity.
Qed.
Lemma lor_c0 x : x < 32 -> N.lor x 0xC0 = 0xC0 + x.
Proof.
  intros H. apply N.eqb_eq.
  revert x H. apply (below_forallb (fun x => N.lor x 0xC0 =? 0xC0 + x)). vm_compute. reflexivity.
Qed.
Lemma lor_e0 x : x < 16 -> N.lor x 0xE0 = 0xE0 + x.
Proof.
  intros H. apply N.eqb_eq.
  revert x H. apply (below_forallb (fun x => N.lor x 0xE0 =? 0xE0 + x)). vm_compute. reflexivity.
Qed.
Lemma lor_f0 x : x < 8 -> N.lor x 0xF0 = 0xF0 + x.
Proof.
  intros H. apply N.eqb_eq.
  revert x H. apply (below_forallb (fun x => N.lor x 0xF0 =? 0xF0 + x)). vm_compute. reflexivity.
Qed.

Lemma shiftr6 c : N.shiftr c 6 = c / 64.
Proof. now rewrite N.shiftr_div_pow2. Qed.
Lemma shiftr12 c : N.shiftr c 12 = c / 4096.
Proof. now rewrite N.shiftr_div_pow2. Qed.
Lemma shiftr18 c : N.shiftr c 18 = c / 262144.
Proof. now rewrite N.shiftr_div_pow2. Qed.
Lemma land3f x : N.land x 0x3F = x mod 64.
Proof. change 0x3F with (N.ones 6). now rewrite N.land_ones. Qed.
Lemma land1f x : N.land x 0x1F = x mod 32.
Proof. change 0x1F with (N.ones 5). now rewrite N.land_ones. Qed.
Lemma land0f x : N.land x 0x0F = x mod 16.
Proof. change 0x0F with (N.ones 4). now rewrite N.land_ones. Qed.
Lemma land07 x : N.land x 0x07 = x mod 8.
Proof. change 0x07 with (N.ones 3). now rewrite N.land_ones. Qed.

(* the arithmetic definition used above is the bit-level one of the standard library,
   on every code point a `char` can hold *)
Theorem encode_char_bits_eq : forall c, c <= 0x10FFFF -> encode_char_bits c = encode_char c.
Proof.
  intros c Hc. unfold encode_char_bits, encode_char.
  rewrite shiftr6, shiftr12, shiftr18, !land3f, land1f, land0f, land07.
  destruct (N.ltb_spec c 0x80) as [H1|H1]; [reflexivity|].
  destruct (N.ltb_spec c 0x800) as [H2|H2].
  { rewrite lor_c0, lor_cont by lia. repeat (f_equal; try lia). }
  destruct (N.ltb_spec c 0x10000) as [H3|H3].
  { rewrite lor_e0, !lor_cont by lia. repeat (f_equal; try lia). }
  rewrite lor_f0, !lor_cont by lia. repeat (f_equal; try lia).
Qed.
