(* Human-readable bytecode: the compiler's text writer (CompiledItem::repr true) and
   bytecode_dev_transpiler::transpile_file.  The opcode table comes from Gen/OpcodeTable.v,
   which is regenerated from instruction_constants.rs on every run. *)
From MS Require Export Codec.Model Gen.OpcodeTable.

Fixpoint lookup_name (t : list (N * str)) (o : N) : option str :=
  match t with [] => None | (i, n) :: t => if i =? o then Some n else lookup_name t o end.
Fixpoint lookup_op (t : list (N * str)) (s : str) : option N :=
  match t with [] => None | (i, n) :: t => if str_eqb n s then Some i else lookup_op t s end.
Definition name_of := lookup_name opnames.
Definition op_of := lookup_op opnames.
Definition deprecated (s : str) : bool := existsb (str_eqb s) deprecated_names.

Definition s_function_sp : str := [102; 117; 110; 99; 116; 105; 111; 110; 32].
Definition s_end : str := [101; 110; 100].

(* ---- writer, text form *)
Definition emit_instr_text (i : instr) : option str :=
  match name_of (op i) with
  | Some n => Some (c_tab :: n ++ emit_args (args i) ++ [c_lf])
  | None => None                                   (* raw_byte_instruction_to_string_representation(..).unwrap() *)
  end.
Fixpoint emit_body_text (l : list instr) : option str :=
  match l with
  | [] => Some []
  | i :: l => match emit_instr_text i, emit_body_text l with
              | Some a, Some b => Some (a ++ b) | _, _ => None end
  end.
Definition emit_fn_text (f : func) : option str :=
  match emit_body_text (body f) with
  | Some b => Some (s_function_sp ++ fname f ++ [c_lf] ++ b ++ s_end ++ [c_lf])
  | None => None end.
Fixpoint emit_text (fs : list func) : option str :=
  match fs with
  | [] => Some []
  | f :: fs => match emit_fn_text f, emit_text fs with
               | Some a, Some b => Some (a ++ b) | _, _ => None end
  end.

(* ---- transpiler *)
Fixpoint lines_aux (cur : str) (l : str) : list str :=
  match l with
  | [] => if is_nil cur then [] else [cur]
  | c :: l => if c =? c_lf then (cur ++ [c]) :: lines_aux [] l else lines_aux (cur ++ [c]) l
  end.
Definition lines := lines_aux [].

Fixpoint trim_start (l : str) : str :=
  match l with [] => [] | c :: l' => if is_ws c then trim_start l' else l end.
Fixpoint trim_end (l : str) : str :=
  match l with
  | [] => []
  | c :: l' => let r := trim_end l' in if is_nil r && is_ws c then [] else c :: r
  end.
Definition trim (l : str) : str := trim_start (trim_end l).

Fixpoint strip_prefix (p l : str) : option str :=
  match p, l with
  | [], _ => Some l
  | x :: p, y :: l => if x =? y then strip_prefix p l else None
  | _, [] => None
  end.

Fixpoint split_once_sp (l : str) : option (str * str) :=
  match l with
  | [] => None
  | c :: l => if c =? c_sp then Some ([], l)
              else match split_once_sp l with Some (a, b) => Some (c :: a, b) | None => None end
  end.

Record tp := { t_name : option str; t_ibuf : list instr; t_out : str }.
Definition tp0 : tp := {| t_name := None; t_ibuf := []; t_out := [] |}.

(* the transpiler's own binary writer (Instruction::repr in bytecode_dev_transpiler): after the
   fix it quotes and escapes exactly like the compiler's, so it is the same function here *)
Definition emit_instr_t : instr -> str := emit_instr.

Definition tp_push (s : tp) (nm : str) (a : list str) : option tp :=
  if deprecated nm then None else
  match op_of nm with
  | Some o => Some {| t_name := t_name s; t_ibuf := t_ibuf s ++ [{| op := o; args := a |}]; t_out := t_out s |}
  | None => None end.

Definition tp_step (s : tp) (line : str) : option tp :=
  let t := trim line in
  if is_nil t then Some s else
  match strip_prefix s_function_sp line with
  | Some name => Some {| t_name := Some (trim_end name); t_ibuf := t_ibuf s; t_out := t_out s |}
  | None =>
    if str_eqb s_end t then
      match t_name s with
      | None => None
      | Some n => Some {| t_name := None; t_ibuf := [];
                          t_out := t_out s ++ [c_f; c_sp] ++ n ++ [c_nul]
                                   ++ flat_map emit_instr_t (t_ibuf s) ++ [c_e; c_nul] |}
      end
    else match split_once_sp line with
         | Some (nm, a) => match split true a with
                           | Some a => tp_push s (trim_start nm) a
                           | None => None end
         | None => tp_push s t []
         end
  end.

Fixpoint tp_run (s : tp) (ls : list str) : option tp :=
  match ls with
  | [] => Some s
  | l :: ls => match tp_step s l with Some s' => tp_run s' ls | None => None end
  end.

Definition transpile (text : str) : option str :=
  match tp_run tp0 (lines text) with Some s => Some (t_out s) | None => None end.
