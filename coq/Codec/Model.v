(* Executable models of the four bytecode codecs.

   writer      compiler/src/ast.rs           CompiledItem::repr            (emit_instr / emit_fn)
   tokenizer   bytecode/src/instruction.rs   split_string_v2               (split)
   loader      bytecode/src/file.rs          MScriptFile::get_functions    (load)
   transpiler  bytecode_dev_transpiler/src/lib.rs transpile_file           (transpile)

   Files are lists of Unicode scalars; U+0000 is the record separator of the binary format
   (that UTF-8 is a bijection mapping only U+0000 to a zero byte is proved in Codec/Utf8Proofs.v:
   decode_spec, zero_byte_iff; the byte-level statements are C04_file_roundtrip_bytes etc.). *)
From MS Require Export Base.Str.

(* ---------------------------------------------------------------- tokenizer: split_string_v2 *)

Record tk := { inq : bool; esc : bool; buf : str; acc : list str }.

Definition tk0 : tk := {| inq := false; esc := false; buf := []; acc := [] |}.

Definition tk_step (multi : bool) (s : tk) (c : N) : option tk :=
  if negb (inq s) && is_ws c then
    if multi then
      if is_nil (buf s) then Some s
      else Some {| inq := inq s; esc := esc s; buf := []; acc := acc s ++ [buf s] |}
    else Some {| inq := inq s; esc := esc s; buf := buf s ++ [c]; acc := acc s |}
  else if c =? c_bs then
    Some {| inq := inq s; esc := negb (esc s);
            buf := (if esc s then buf s ++ [c] else buf s); acc := acc s |}
  else if c =? c_dq then
    if esc s then Some {| inq := inq s; esc := false; buf := buf s ++ [c]; acc := acc s |}
    else if multi && inq s then
      Some {| inq := false; esc := false; buf := []; acc := acc s ++ [buf s] |}
    else Some {| inq := negb (inq s); esc := false; buf := buf s; acc := acc s |}
  else if esc s then
    if c =? c_n then Some {| inq := inq s; esc := false; buf := buf s ++ [c_lf]; acc := acc s |}
    else if c =? c_r then Some {| inq := inq s; esc := false; buf := buf s ++ [c_cr]; acc := acc s |}
    else if c =? c_t then Some {| inq := inq s; esc := false; buf := buf s ++ [c_tab]; acc := acc s |}
    else None                                        (* "Unknown escape sequence" *)
  else Some {| inq := inq s; esc := false; buf := buf s ++ [c]; acc := acc s |}.

Fixpoint tk_run (multi : bool) (s : tk) (l : str) : option tk :=
  match l with
  | [] => Some s
  | c :: l => match tk_step multi s c with Some s' => tk_run multi s' l | None => None end
  end.

Definition tk_finish (s : tk) : option (list str) :=
  if inq s then None                                 (* "found EOL while parsing string" *)
  else let r := if is_nil (buf s) then acc s else acc s ++ [buf s] in
       Some (if is_nil r then [[]] else r).

Definition split (multi : bool) (l : str) : option (list str) :=
  match tk_run multi tk0 l with Some s => tk_finish s | None => None end.

(* ---------------------------------------------------------------- writer: CompiledItem::repr *)

(* escaping applied to every argument by the compiler's writer (both output formats) *)
Definition esc_char (c : N) : str :=
  if c =? c_bs then [c_bs; c_bs]
  else if c =? c_dq then [c_bs; c_dq]
  else if c =? c_lf then [c_bs; c_n]
  else if c =? c_cr then [c_bs; c_r]
  else if c =? c_tab then [c_bs; c_t]
  else [c].

Definition escape (a : str) : str := flat_map esc_char a.
Definition quote (a : str) : str := c_dq :: escape a ++ [c_dq].

(* " a1" ++ " a2" ++ ...  (each argument preceded by one space) *)
Definition emit_args (args : list str) : str := flat_map (fun a => c_sp :: quote a) args.

Record instr := { op : N; args : list str }.
Record func := { fname : str; body : list instr }.

Definition emit_instr (i : instr) : str := op i :: emit_args (args i) ++ [c_nul].
Definition emit_fn (f : func) : str :=
  [c_f; c_sp] ++ fname f ++ [c_nul] ++ flat_map emit_instr (body f) ++ [c_e; c_nul].
Definition emit_bin (fs : list func) : str := flat_map emit_fn fs.

(* ---------------------------------------------------------------- loader: get_functions *)

(* read_until(0): records including their terminator; a trailing record without terminator is
   returned as it is (and then matches no pattern) *)
Fixpoint records_aux (cur : str) (l : str) : list str :=
  match l with
  | [] => if is_nil cur then [] else [cur]
  | c :: l => if c =? c_nul then (cur ++ [c]) :: records_aux [] l else records_aux (cur ++ [c]) l
  end.
Definition records := records_aux [].

Record ld := { in_fn : bool; cur_name : option str; ibuf : list instr; fns : list func }.
Definition ld0 : ld := {| in_fn := false; cur_name := None; ibuf := []; fns := [] |}.

Fixpoint split_last (l : str) : option (str * N) :=
  match l with
  | [] => None
  | [c] => Some ([], c)
  | c :: l => match split_last l with Some (i, z) => Some (c :: i, z) | None => None end
  end.

(* later insertion under an existing name replaces it (HashMap::insert) *)
Definition insert_fn (f : func) (fs : list func) : list func :=
  filter (fun g => negb (str_eqb (fname g) (fname f))) fs ++ [f].

(* one record; None = the loader panics / returns an error *)
Definition ld_step (s : ld) (rec : str) : option ld :=
  match split_last rec with
  | None => None
  | Some (b, z) =>
    if negb (z =? c_nul) then None else
    match b with
    | c0 :: c1 :: name =>
      if (c0 =? c_f) && (c1 =? c_sp) && negb (in_fn s) then
        Some {| in_fn := true; cur_name := Some name; ibuf := []; fns := fns s |}
      else if (c0 =? c_e) && in_fn s then
        match cur_name s with
        | Some n => Some {| in_fn := false; cur_name := None; ibuf := [];
                            fns := insert_fn {| fname := n; body := ibuf s |} (fns s) |}
        | None => None end
      else if (c1 =? c_sp) && in_fn s then
        match split true name with
        | Some a => Some {| in_fn := true; cur_name := cur_name s;
                            ibuf := ibuf s ++ [{| op := c0; args := a |}]; fns := fns s |}
        | None => None end
      else None
    | [c0] =>
      if (c0 =? c_e) && in_fn s then
        match cur_name s with
        | Some n => Some {| in_fn := false; cur_name := None; ibuf := [];
                            fns := insert_fn {| fname := n; body := ibuf s |} (fns s) |}
        | None => None end
      else if in_fn s then
        Some {| in_fn := true; cur_name := cur_name s;
                ibuf := ibuf s ++ [{| op := c0; args := [] |}]; fns := fns s |}
      else None
    | [] => None
    end
  end.

Fixpoint ld_run (s : ld) (rs : list str) : option ld :=
  match rs with
  | [] => Some s
  | r :: rs => match ld_step s r with Some s' => ld_run s' rs | None => None end
  end.

Definition load (file : str) : option (list func) :=
  match ld_run ld0 (records file) with Some s => Some (fns s) | None => None end.
