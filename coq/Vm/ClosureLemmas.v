(* VM-level facts behind C07: make_function shares cells, store updates in place, modify writes the
   captured cell, a callee-local binding is a fresh cell.  For all states of the model. *)
From MS Require Import Vm.Model Codec.Proofs.

Lemma str_eqb_refl x : str_eqb x x = true.
Proof. now apply str_eqb_eq. Qed.
Lemma str_eqb_neq x y : x <> y -> str_eqb x y = false.
Proof. intros H. destruct (str_eqb x y) eqn:E; [|reflexivity]. apply str_eqb_eq in E. contradiction. Qed.

Lemma assoc_set_same {A} k (v : A) l : assoc k (assoc_set k v l) = Some v.
Proof.
  induction l as [|[k' v'] l IH]; cbn [assoc_set assoc].
  - now rewrite str_eqb_refl.
  - destruct (str_eqb k' k) eqn:E; cbn [assoc]; [now rewrite str_eqb_refl|]. now rewrite E.
Qed.
Lemma assoc_set_other {A} k k2 (v : A) l : k <> k2 -> assoc k2 (assoc_set k v l) = assoc k2 l.
Proof.
  intros Hne. induction l as [|[k' v'] l IH]; cbn [assoc_set assoc].
  - now rewrite (str_eqb_neq k k2 Hne).
  - destruct (str_eqb k' k) eqn:E; cbn [assoc].
    + apply str_eqb_eq in E. subst k'. now rewrite (str_eqb_neq k k2 Hne).
    + destruct (str_eqb k' k2); [reflexivity|exact IH].
Qed.

(* make_function copies cell REFERENCES: each captured name maps to the very cell the creator resolves it to *)
Theorem capture_shares : forall a g ns m, capture a g ns = Some m ->
  forall n, In n ns -> assoc n m = lookup_var a g n.
Proof.
  intros a g ns. induction ns as [|x ns IH]; intros m H n Hin; [contradiction|].
  cbn [capture] in H.
  destruct (lookup_var a g x) as [cx|] eqn:Ex; [|discriminate].
  destruct (capture a g ns) as [r|] eqn:Er; [|discriminate].
  inversion H; subst; clear H.
  destruct (list_eq_dec N.eq_dec x n) as [->|Hne].
  - now rewrite assoc_set_same.
  - rewrite assoc_set_other by exact Hne. destruct Hin as [->|Hin]; [contradiction|]. now apply IH.
Qed.

Theorem make_function_shares : forall a g loc ns m, ns <> [] -> capture a g ns = Some m ->
  exec_d (DMakeFunction loc ns) a g = SNext (set_ops a (a_ops a ++ [VFun loc (Some m)])) g.
Proof. intros a g loc ns m Hne H. destruct ns; [contradiction|]. cbn [exec_d]. now rewrite H. Qed.

Theorem store_updates_in_place : forall g n v c,
  find_in_function n (frames g) = Some c -> store_var g n v = Some (cell_set g c v).
Proof. intros g n v c H. unfold store_var. now rewrite H. Qed.

Theorem modify_writes_captured_cell : forall a g n v c,
  a_ops a = [v] -> load_cb a g n = Some c ->
  exec_d (DStoreObject n) a g = SNext (set_ops a []) (cell_set g c v)
  /\ frames (cell_set g c v) = frames g.
Proof. intros a g n v c Ho H. split; [|reflexivity]. cbn [exec_d]. now rewrite Ho, H. Qed.

Theorem bind_local_fresh : forall g n v g', bind_local g n v = Some g' ->
  forall c x, cell_get g c = Some x -> cell_get g' c = Some x.
Proof.
  intros g n v g' H c x Hc. unfold bind_local in H. destruct (frames g) as [|f fs]; [discriminate|].
  cbn in H. inversion H; subst; clear H. unfold cell_get in *. cbn [cells with_frames].
  rewrite nth_error_app1; [exact Hc|]. apply nth_error_Some. congruence.
Qed.

(* a function value created without captures is not a closure *)
Theorem no_captures_not_closure : forall a g loc,
  exec_d (DMakeFunction loc []) a g = SNext (set_ops a (a_ops a ++ [VFun loc None])) g.
Proof. reflexivity. Qed.
