(* Executable model of the bytecode interpreter for the core opcodes:
     bytecode/src/function.rs   Function::run          (run_fn)
     bytecode/src/instruction.rs implementations::*    (exec)
     bytecode/src/stack.rs      Stack                  (frames, find / register)
     bytecode/src/context.rs    Ctx                    (act)
     bytecode/src/interpreter.rs Program::execute      (execute)
   Debug build: integer overflow and usize underflow are panics.
   Instructions and programs are exactly what the loader produces (Codec.Model.instr). *)
From Coq Require Export ZArith.
From MS Require Export Base.Str Codec.Model Gen.OpcodeTable.
Open Scope Z_scope.

Inductive value :=
| VInt (z : Z) | VBool (b : bool) | VStr (s : str) | VNil | VSome (v : value)
| VFun (loc : str) (cap : option (list (str * N)))        (* PrimitiveFunction: location + captured cells *)
| VModule.

Inductive flabel := LFun (n : str) | LIf | LElse | LWhile.
Definition special (l : flabel) : bool := match l with LFun _ => false | _ => true end.
Record frame := { lab : flabel; vars : list (str * N) }.

(* one trace record per executed instruction: function, ip, opcode, call-stack depth, operand length *)
Definition tev := (str * N * N * N * N)%type.

Record gstate := { cells : list value; frames : list frame; out : list str; trace : list tev }.

Inductive err :=
| E_assert (span : str) | E_unwrap_nil (span : str) | E_div_zero | E_invalid_op | E_not_bool
| E_load_before_store (n : str) | E_goto_range | E_stack_shape (o : N) | E_bad_arg (o : N)
| E_not_callable | E_no_function (n : str) | E_cb (n : str) | E_unsupported (o : N)
| E_overflow (o : N)                                        (* integer overflow: a Rust panic in a debug build *)
| E_arity                                                   (* instrumentation only: see run_fn_gen *)
| E_panic (o : N).                                          (* a Rust panic, not an anyhow error *)

(* ---------------------------------------------------------------- helpers *)
Fixpoint assoc {A} (k : str) (l : list (str * A)) : option A :=
  match l with [] => None | (k', v) :: l => if str_eqb k' k then Some v else assoc k l end.
Fixpoint assoc_set {A} (k : str) (v : A) (l : list (str * A)) : list (str * A) :=
  match l with
  | [] => [(k, v)]
  | (k', v') :: l => if str_eqb k' k then (k, v) :: l else (k', v') :: assoc_set k v l
  end.
Fixpoint assoc_del {A} (k : str) (l : list (str * A)) : list (str * A) :=
  match l with [] => [] | (k', v) :: l => if str_eqb k' k then l else (k', v) :: assoc_del k l end.

Fixpoint set_nth {A} (n : nat) (v : A) (l : list A) : list A :=
  match n, l with
  | _, [] => []
  | O, _ :: l => v :: l
  | S n, x :: l => x :: set_nth n v l
  end.

Definition cell_get (g : gstate) (c : N) : option value := nth_error (cells g) (N.to_nat c).
Definition cell_set (g : gstate) (c : N) (v : value) : gstate :=
  {| cells := set_nth (N.to_nat c) v (cells g); frames := frames g; out := out g; trace := trace g |}.
Definition cell_new (g : gstate) (v : value) : gstate * N :=
  ({| cells := cells g ++ [v]; frames := frames g; out := out g; trace := trace g |},
   N.of_nat (length (cells g))).
Definition with_frames (g : gstate) (fs : list frame) : gstate :=
  {| cells := cells g; frames := fs; out := out g; trace := trace g |}.
Definition emit_line (g : gstate) (l : str) : gstate :=
  {| cells := cells g; frames := frames g; out := out g ++ [l]; trace := trace g |}.
Definition add_trace (g : gstate) (e : tev) : gstate :=
  {| cells := cells g; frames := frames g; out := out g; trace := e :: trace g |}.

(* Stack::find_name_in_function : top frame downwards, stop after the function's own frame *)
Fixpoint find_in_function (n : str) (fs : list frame) : option N :=
  match fs with
  | [] => None
  | f :: fs => match assoc n (vars f) with
               | Some c => Some c
               | None => if special (lab f) then find_in_function n fs else None
               end
  end.

(* Stack::register_variable_local : (re)bind in the top frame with a FRESH cell *)
Definition bind_local (g : gstate) (n : str) (v : value) : option gstate :=
  match frames g with
  | [] => None
  | f :: fs => let '(g1, c) := cell_new g v in
               Some (with_frames g1 ({| lab := lab f; vars := assoc_set n c (vars f) |} :: fs))
  end.

(* Stack::register_variable : update the nearest binding inside the function, else bind locally *)
Definition store_var (g : gstate) (n : str) (v : value) : option gstate :=
  match find_in_function n (frames g) with
  | Some c => Some (cell_set g c v)
  | None => bind_local g n v
  end.

Definition push_frame (g : gstate) (l : flabel) : gstate :=
  with_frames g ({| lab := l; vars := [] |} :: frames g).
Definition pop_frame (g : gstate) : option gstate :=
  match frames g with [] => None | _ :: fs => Some (with_frames g fs) end.
Fixpoint pop_frames (n : nat) (g : gstate) : option gstate :=
  match n with O => Some g | S n => match pop_frame g with Some g => pop_frames n g | None => None end end.
(* Stack::pop_until_function *)
Fixpoint drop_to_function (fs : list frame) : list frame :=
  match fs with [] => [] | f :: fs => if special (lab f) then drop_to_function fs else fs end.

(* ---------------------------------------------------------------- text <-> numbers *)
Definition digit_of (c : N) : option Z :=
  if ((48 <=? c) && (c <=? 57))%N then Some (Z.of_N c - 48) else None.
Fixpoint parse_digits (acc : Z) (l : str) : option Z :=
  match l with
  | [] => Some acc
  | c :: l => match digit_of c with Some d => parse_digits (acc * 10 + d) l | None => None end
  end.
Definition parse_Z (s : str) : option Z :=
  match s with
  | [] => None
  | 45%N :: (_ :: _) as r => option_map Z.opp (parse_digits 0 r)
  | 43%N :: (_ :: _) as r => parse_digits 0 r
  | _ => parse_digits 0 s
  end.
Definition parse_nat (s : str) : option nat :=
  match parse_Z s with Some z => if z <? 0 then None else Some (Z.to_nat z) | None => None end.

Fixpoint show_pos_fuel (fuel : nat) (z : Z) (acc : str) : str :=
  match fuel with
  | O => acc
  | S fuel => let acc := Z.to_N (48 + z mod 10) :: acc in
              if z <? 10 then acc else show_pos_fuel fuel (z / 10) acc
  end.
Definition show_Z (z : Z) : str :=
  if z <? 0 then 45%N :: show_pos_fuel 50 (- z) [] else show_pos_fuel 50 z [].

Definition s_true : str := [116; 114; 117; 101]%N.
Definition s_false : str := [102; 97; 108; 115; 101]%N.
Definition s_nil : str := [110; 105; 108]%N.
Definition s_star : str := [42]%N.
Definition s_module : str := [95; 95; 109; 111; 100; 117; 108; 101; 95; 95]%N.

Definition i32_ok (z : Z) : bool := (-2147483648 <=? z) && (z <=? 2147483647).

(* Display; None = a value the model does not render (functions, modules) *)
Fixpoint show (v : value) : option str :=
  match v with
  | VInt z => Some (show_Z z)
  | VBool true => Some s_true
  | VBool false => Some s_false
  | VStr s => Some s
  | VNil => Some s_nil
  | VSome v => show v
  | _ => None
  end.

(* ---------------------------------------------------------------- operators (int / bool / str) *)
Inductive ores := OV (v : value) | OE (e : err).

Fixpoint val_equals (fuel : nat) (a b : value) : option bool :=
  match fuel with O => None | S fuel =>
  match a, b with
  | x, VNil => Some (match x with VNil => true | _ => false end)
  | VNil, x => Some (match x with VNil => true | _ => false end)
  | VSome m, y => val_equals fuel m y
  | y, VSome m => val_equals fuel m y
  | VInt x, VInt y => Some (x =? y)
  | VStr x, VStr y => Some (str_eqb x y)
  | VBool x, VBool y => Some (Bool.eqb x y)
  | _, _ => None
  end end.

Definition s_eq (a b : str) := str_eqb a b.
Definition op_plus : str := [43]%N.   Definition op_minus : str := [45]%N.
Definition op_times : str := [42]%N.  Definition op_div : str := [47]%N.
Definition op_mod : str := [37]%N.    Definition op_gt : str := [62]%N.
Definition op_lt : str := [60]%N.     Definition op_ge : str := [62; 61]%N.
Definition op_le : str := [60; 61]%N. Definition op_eq : str := [61]%N.
Definition op_and : str := [38; 38]%N. Definition op_or : str := [124; 124]%N.
Definition op_xor : str := [94]%N.

Definition arith (o : N) (r : Z) : ores := if i32_ok r then OV (VInt r) else OE (E_overflow o).

Definition bin_op_sem (sym : str) (l r : value) : ores :=
  match l, r with
  | VInt x, VInt y =>
    if s_eq sym op_plus then arith OP_BIN_OP (x + y)
    else if s_eq sym op_minus then arith OP_BIN_OP (x - y)
    else if s_eq sym op_times then arith OP_BIN_OP (x * y)
    else if s_eq sym op_div then (if y =? 0 then OE E_div_zero else arith OP_BIN_OP (Z.quot x y))
    else if s_eq sym op_mod then (if y =? 0 then OE E_div_zero else arith OP_BIN_OP (Z.rem x y))
    else if s_eq sym op_gt then OV (VBool (y <? x))
    else if s_eq sym op_lt then OV (VBool (x <? y))
    else if s_eq sym op_ge then OV (VBool (y <=? x))
    else if s_eq sym op_le then OV (VBool (x <=? y))
    else if s_eq sym op_eq then OV (VBool (x =? y))
    else OE (E_unsupported OP_BIN_OP)
  | VBool x, VBool y =>
    if s_eq sym op_and then OV (VBool (x && y))
    else if s_eq sym op_or then OV (VBool (x || y))
    else if s_eq sym op_xor then OV (VBool (xorb x y))
    else if s_eq sym op_eq then OV (VBool (Bool.eqb x y))
    else OE (E_unsupported OP_BIN_OP)
  | VStr x, VStr y =>
    if s_eq sym op_plus then OV (VStr (x ++ y))
    else if s_eq sym op_eq then OV (VBool (str_eqb x y))
    else OE (E_unsupported OP_BIN_OP)
  | VStr x, (VInt _ | VBool _ | VNil) =>
    if s_eq sym op_plus then match show r with Some t => OV (VStr (x ++ t)) | None => OE (E_unsupported OP_BIN_OP) end
    else OE (E_unsupported OP_BIN_OP)
  | (VInt _ | VBool _ | VNil), VStr y =>
    if s_eq sym op_plus then match show l with Some t => OV (VStr (t ++ y)) | None => OE (E_unsupported OP_BIN_OP) end
    else OE (E_unsupported OP_BIN_OP)
  | _, _ => OE (E_unsupported OP_BIN_OP)
  end.

(* ---------------------------------------------------------------- activations and steps *)
Record act := { a_fn : str; a_ip : nat; a_ops : list value (* Vec order: index 0 first *);
                a_args : list value; a_cb : option (list (str * N)); a_ss : nat (* special_scopes.len() *) }.

Definition set_ops (a : act) (o : list value) : act :=
  {| a_fn := a_fn a; a_ip := a_ip a; a_ops := o; a_args := a_args a; a_cb := a_cb a; a_ss := a_ss a |}.
Definition set_ip (a : act) (i : nat) : act :=
  {| a_fn := a_fn a; a_ip := i; a_ops := a_ops a; a_args := a_args a; a_cb := a_cb a; a_ss := a_ss a |}.
Definition set_ss (a : act) (n : nat) : act :=
  {| a_fn := a_fn a; a_ip := a_ip a; a_ops := a_ops a; a_args := a_args a; a_cb := a_cb a; a_ss := n |}.

Fixpoint unsnoc {A} (l : list A) : option (list A * A) :=
  match l with
  | [] => None
  | [x] => Some ([], x)
  | x :: l => match unsnoc l with Some (i, z) => Some (x :: i, z) | None => None end
  end.

Inductive sres :=
| SNext (a : act) (g : gstate)
| SGoto (off : Z) (a : act) (g : gstate)
| SPush (l : flabel) (a : act) (g : gstate)
| SGotoPop (off : Z) (n : nat) (a : act) (g : gstate)
| SPopScope (a : act) (g : gstate)
| SRet (rv : option value) (a : act) (g : gstate)
| SCall (dest : str) (cb : option (list (str * N))) (args : list value) (a : act) (g : gstate)
| SFail (e : err).

Definition arg1 (i : instr) : option str := match args i with x :: _ => Some x | [] => None end.

Definition load_cb (a : act) (g : gstate) (n : str) : option N :=
  match a_cb a with Some m => assoc n m | None => None end.

(* load / make_function / bin_op_assign lookup: own function's frames, then captured variables *)
Definition lookup_var (a : act) (g : gstate) (n : str) : option N :=
  match find_in_function n (frames g) with Some c => Some c | None => load_cb a g n end.

Fixpoint capture (a : act) (g : gstate) (ns : list str) : option (list (str * N)) :=
  match ns with
  | [] => Some []
  | n :: ns => match lookup_var a g n, capture a g ns with
               | Some c, Some r => Some (assoc_set n c r)
               | _, _ => None end
  end.

Fixpoint join_show (vs : list value) : option str :=
  match vs with
  | [] => Some []
  | [v] => show v
  | v :: vs => match show v, join_show vs with
               | Some a, Some b => Some (a ++ [44; 32]%N ++ b) | _, _ => None end
  end.

(* decoded instructions: opcode + parsed arguments.  `decode` fails on an opcode outside the modelled
   set (E_unsupported) or on arguments the Rust code would reject (E_bad_arg) *)
Inductive dinstr :=
| DMakeInt (z : Z) | DMakeBool (b : bool) | DMakeStr (s : str) | DReserve | DVoid | DPop | DPrint
| DBinOp (sym : str) | DNeg | DNot | DEqu | DNeq | DRev2
| DStore (n : str) | DStoreFast (n : str) | DStoreObject (n : str)
| DLoad (n : str) | DLoadFast (n : str) | DLoadCallback (n : str)
| DDelete (ns : list str) | DDeleteRef (n : str) | DArg (k : nat)
| DIf (off : Z) | DWhile (off : Z) | DElse | DDone | DJmp (off : Z) | DJmpPop (off : Z) (n : nat)
| DStoreSkip (n : str) (pred : bool) (off : Z)
| DAssert (span : option str) | DUnwrap (span : str) | DUnwrapInto (n : str) | DJmpNotNil (off : Z)
| DMakeFunction (loc : str) (ns : list str) | DCall (dest : option str) | DCallSelf | DRet | DRetMod
| DBinOpAssign (sym : str) (n : str).

Inductive dres := DOk (d : dinstr) | DErr (e : err).

Definition dec_name (i : instr) (k : str -> dinstr) : dres :=
  match arg1 i with Some n => DOk (k n) | None => DErr (E_bad_arg (op i)) end.
Definition dec_off (i : instr) (k : Z -> dinstr) : dres :=
  match arg1 i with
  | Some s => match parse_Z s with Some z => DOk (k z) | None => DErr (E_bad_arg (op i)) end
  | None => DErr (E_bad_arg (op i)) end.

Definition decode (i : instr) : dres :=
  let o := op i in
  if (o =? OP_MAKE_INT)%N then
    match args i with
    | [s] => match parse_Z s with
             | Some z => if i32_ok z then DOk (DMakeInt z) else DErr (E_bad_arg o)
             | None => DErr (E_bad_arg o) end
    | _ => DErr (E_bad_arg o) end
  else if (o =? OP_MAKE_BOOL)%N then
    match args i with
    | [s] => if str_eqb s s_true then DOk (DMakeBool true)
             else if str_eqb s s_false then DOk (DMakeBool false) else DErr (E_bad_arg o)
    | _ => DErr (E_bad_arg o) end
  else if (o =? OP_MAKE_STR)%N then
    match args i with [] => DOk (DMakeStr []) | [s] => DOk (DMakeStr s) | _ => DErr (E_bad_arg o) end
  else if (o =? OP_RESERVE_PRIMITIVE)%N then DOk DReserve
  else if (o =? OP_VOID)%N then DOk DVoid
  else if (o =? OP_POP)%N then match args i with [] => DOk DPop | _ => DErr (E_bad_arg o) end
  else if (o =? OP_PRINTN)%N then
    match arg1 i with
    | Some s => if str_eqb s s_star then DOk DPrint else DErr (E_unsupported o)
    | None => DErr (E_bad_arg o) end
  else if (o =? OP_BIN_OP)%N then dec_name i DBinOp
  else if (o =? OP_NEG)%N then DOk DNeg
  else if (o =? OP_NOT)%N then DOk DNot
  else if (o =? OP_EQU)%N then DOk DEqu
  else if (o =? OP_NEQ)%N then DOk DNeq
  else if (o =? OP_FAST_REV2)%N then DOk DRev2
  else if (o =? OP_STORE)%N then dec_name i DStore
  else if (o =? OP_STORE_FAST)%N then dec_name i DStoreFast
  else if (o =? OP_STORE_OBJECT)%N then dec_name i DStoreObject
  else if (o =? OP_LOAD)%N then dec_name i DLoad
  else if (o =? OP_LOAD_FAST)%N then dec_name i DLoadFast
  else if (o =? OP_LOAD_CALLBACK)%N then dec_name i DLoadCallback
  else if (o =? OP_DELETE_NAME_SCOPED)%N then
    match args i with [] => DErr (E_bad_arg o) | ns => DOk (DDelete ns) end
  else if (o =? OP_DELETE_NAME_REFERENCE_SCOPED)%N then
    match args i with [n] => DOk (DDeleteRef n) | _ => DErr (E_bad_arg o) end
  else if (o =? OP_ARG)%N then
    match arg1 i with
    | Some s => match parse_nat s with Some n => DOk (DArg n) | None => DErr (E_bad_arg o) end
    | None => DErr (E_bad_arg o) end
  else if (o =? OP_IF_STMT)%N then dec_off i DIf
  else if (o =? OP_WHILE_LOOP)%N then dec_off i DWhile
  else if (o =? OP_ELSE_STMT)%N then DOk DElse
  else if (o =? OP_DONE)%N then DOk DDone
  else if (o =? OP_JMP)%N then dec_off i DJmp
  else if (o =? OP_JMP_POP)%N then
    match args i with
    | [s] => match parse_Z s with Some off => DOk (DJmpPop off 1) | None => DErr (E_bad_arg o) end
    | s :: t :: _ => match parse_Z s, parse_nat t with
                     | Some off, Some n => DOk (DJmpPop off n) | _, _ => DErr (E_bad_arg o) end
    | [] => DErr (E_bad_arg o) end
  else if (o =? OP_STORE_SKIP)%N then
    match args i with
    | n :: p :: l :: _ =>
      match parse_nat p, parse_Z l with
      | Some pred, Some off => if off <? 0 then DErr (E_bad_arg o) else DOk (DStoreSkip n (Nat.eqb pred 1) off)
      | _, _ => DErr (E_bad_arg o) end
    | _ => DErr (E_bad_arg o) end
  else if (o =? OP_ASSERT)%N then DOk (DAssert (arg1 i))
  else if (o =? OP_UNWRAP)%N then DOk (DUnwrap (match arg1 i with Some s => s | None => [] end))
  else if (o =? OP_UNWRAP_INTO)%N then dec_name i DUnwrapInto
  else if (o =? OP_JMP_NOT_NIL)%N then dec_off i DJmpNotNil
  else if (o =? OP_MAKE_FUNCTION)%N then
    match args i with [] => DErr (E_bad_arg o) | loc :: ns => DOk (DMakeFunction loc ns) end
  else if (o =? OP_CALL)%N then DOk (DCall (arg1 i))
  else if (o =? OP_CALL_SELF)%N then DOk DCallSelf
  else if (o =? OP_RET)%N then DOk DRet
  else if (o =? OP_RET_MOD)%N then DOk DRetMod
  else if (o =? OP_BIN_OP_ASSIGN)%N then
    match args i with [sym; n] => DOk (DBinOpAssign sym n) | _ => DErr (E_unsupported o) end
  else DErr (E_unsupported o).

Fixpoint current_function (fs : list frame) : option str :=
  match fs with [] => None | x :: fs => match lab x with LFun n => Some n | _ => current_function fs end end.

Fixpoint delete_names (ns : list str) (vs : list (str * N)) : option (list (str * N)) + str :=
  match ns with
  | [] => inl (Some vs)
  | n :: ns => match assoc n vs with Some _ => delete_names ns (assoc_del n vs) | None => inr n end
  end.

Definition exec_d (d : dinstr) (a : act) (g : gstate) : sres :=
  let ops := a_ops a in
  match d with
  | DMakeInt z => SNext (set_ops a (ops ++ [VInt z])) g
  | DMakeBool b => SNext (set_ops a (ops ++ [VBool b])) g
  | DMakeStr s => SNext (set_ops a (ops ++ [VStr s])) g
  | DReserve => SNext (set_ops a (ops ++ [VNil])) g
  | DVoid => SNext (set_ops a []) g
  | DPop => SNext (set_ops a (match unsnoc ops with Some (r, _) => r | None => [] end)) g
  | DPrint => match join_show ops with
              | Some l => SNext a (emit_line g l) | None => SFail (E_unsupported OP_PRINTN) end
  | DBinOp sym =>
    match unsnoc ops with
    | Some (r1, rgt) =>
      match unsnoc r1 with
      | Some (_, lft) => match bin_op_sem sym lft rgt with
                         | OV v => SNext (set_ops a [v]) g | OE e => SFail e end
      | None => SFail (E_stack_shape OP_BIN_OP) end
    | None => SFail (E_stack_shape OP_BIN_OP) end
  | DNeg =>
    match unsnoc ops with
    | Some (r, VInt z) => if i32_ok (- z) then SNext (set_ops a (r ++ [VInt (- z)])) g else SFail (E_overflow OP_NEG)
    | Some _ => SFail E_invalid_op
    | None => SFail (E_panic OP_NEG) end
  | DNot =>
    match unsnoc ops with
    | Some (r, VBool b) => SNext (set_ops a (r ++ [VBool (negb b)])) g
    | Some _ => SFail E_not_bool
    | None => SFail (E_panic OP_NOT) end
  | DEqu | DNeq =>
    match ops with
    | [second; first] =>
      match val_equals 100 first second with
      | Some b => SNext (set_ops a [VBool (match d with DEqu => b | _ => negb b end)]) g
      | None => SFail E_invalid_op end
    | _ => SFail (E_stack_shape OP_EQU) end
  | DRev2 => match ops with [x; y] => SNext (set_ops a [y; x]) g | _ => SFail (E_stack_shape OP_FAST_REV2) end
  | DStore n =>
    match ops with
    | [v] => match store_var g n v with Some g' => SNext (set_ops a []) g' | None => SFail (E_panic OP_STORE) end
    | _ => SFail (E_stack_shape OP_STORE) end
  | DStoreFast n =>
    match ops with
    | [v] => match bind_local g n v with Some g' => SNext (set_ops a []) g' | None => SFail (E_panic OP_STORE_FAST) end
    | _ => SFail (E_stack_shape OP_STORE_FAST) end
  | DStoreObject n =>
    match ops with
    | [v] => match load_cb a g n with Some c => SNext (set_ops a []) (cell_set g c v) | None => SFail (E_cb n) end
    | _ => SFail (E_stack_shape OP_STORE_OBJECT) end
  | DLoad n =>
    match lookup_var a g n with
    | Some c => match cell_get g c with
                | Some v => SNext (set_ops a (ops ++ [v])) g | None => SFail (E_panic OP_LOAD) end
    | None => SFail (E_load_before_store n) end
  | DLoadFast n =>
    match find_in_function n (frames g) with
    | Some c => match cell_get g c with
                | Some v => SNext (set_ops a (ops ++ [v])) g | None => SFail (E_panic OP_LOAD_FAST) end
    | None => SFail (E_load_before_store n) end
  | DLoadCallback n =>
    match load_cb a g n with
    | Some c => match cell_get g c with
                | Some v => SNext (set_ops a (ops ++ [v])) g | None => SFail (E_panic OP_LOAD_CALLBACK) end
    | None => SFail (E_cb n) end
  | DDelete ns =>
    match frames g with
    | f :: fs => match delete_names ns (vars f) with
                 | inl (Some vs) => SNext a (with_frames g ({| lab := lab f; vars := vs |} :: fs))
                 | inl None => SFail (E_panic OP_DELETE_NAME_SCOPED)
                 | inr n => SFail (E_load_before_store n) end
    | [] => SFail (E_panic OP_DELETE_NAME_SCOPED) end
  | DDeleteRef n =>
    match frames g with
    | f :: fs => match assoc n (vars f) with
                 | Some c => match cell_get g c with
                             | Some v => SNext (set_ops a (ops ++ [v]))
                                           (with_frames g ({| lab := lab f; vars := assoc_del n (vars f) |} :: fs))
                             | None => SFail (E_panic OP_DELETE_NAME_REFERENCE_SCOPED) end
                 | None => SFail (E_load_before_store n) end
    | [] => SFail (E_panic OP_DELETE_NAME_REFERENCE_SCOPED) end
  | DArg k => match nth_error (a_args a) k with
              | Some v => SNext (set_ops a (ops ++ [v])) g | None => SFail (E_bad_arg OP_ARG) end
  | DIf off | DWhile off =>
    match unsnoc ops with
    | None => SFail (E_stack_shape OP_IF_STMT)
    | Some (_, VBool b) =>
      if b then SPush (match d with DIf _ => LIf | _ => LWhile end) (set_ops a []) g
      else SGoto off (set_ops a []) g
    | Some _ => SFail E_not_bool end
  | DElse => SPush LElse a g
  | DDone => SPopScope a g
  | DJmp off => SGoto off a g
  | DJmpPop off n => SGotoPop off n a g
  | DStoreSkip n pred off =>
    match ops with
    | [VBool b] =>
      if (if pred then b else negb b) then SGoto off a g
      else match bind_local g n (VBool b) with
           | Some g' => SNext (set_ops a []) g' | None => SFail (E_panic OP_STORE_SKIP) end
    | [_] => SFail E_not_bool
    | _ => SFail (E_stack_shape OP_STORE_SKIP) end
  | DAssert span =>
    match ops with
    | [v] => match val_equals 100 v (VBool true) with
             | Some true => SNext (set_ops a []) g
             | Some false => match span with Some sp => SFail (E_assert sp) | None => SFail (E_panic OP_ASSERT) end
             | None => SFail E_invalid_op end
    | _ => SFail (E_stack_shape OP_ASSERT) end
  | DUnwrap span =>
    match unsnoc ops with
    | None => SFail (E_panic OP_UNWRAP)
    | Some (r, VSome v) => SNext (set_ops a (r ++ [v])) g
    | Some (r, VNil) => SFail (E_unwrap_nil span)
    | Some _ => SNext a g end
  | DUnwrapInto n =>
    match unsnoc ops with
    | None => SFail (E_stack_shape OP_UNWRAP_INTO)
    | Some (r, v) =>
      let '(stored, status) := match v with VSome w => (w, true) | VNil => (VNil, false) | w => (w, true) end in
      (* since /repo 2ade5a8 `a ?= e` goes through Stack::register_variable like `store` (it used to bind in the top frame) *)
      match store_var g n stored with
      | Some g' => SNext (set_ops a (r ++ [VBool status])) g' | None => SFail (E_panic OP_UNWRAP_INTO) end
    end
  | DJmpNotNil off =>
    match unsnoc ops with
    | None => SFail (E_panic OP_JMP_NOT_NIL)
    | Some (r, VNil) => SNext (set_ops a r) g
    | Some _ => SGoto off a g end
  | DMakeFunction loc ns =>
    match ns with
    | [] => SNext (set_ops a (ops ++ [VFun loc None])) g
    | _ => match capture a g ns with
           | Some m => SNext (set_ops a (ops ++ [VFun loc (Some m)])) g
           | None => SFail (E_load_before_store loc) end
    end
  | DCall (Some dest) => SCall dest None ops (set_ops a []) g
  | DCall None =>
    match unsnoc ops with
    | Some (r, VFun loc cb) => SCall loc cb r (set_ops a []) g
    | Some _ => SFail E_not_callable
    | None => SFail (E_stack_shape OP_CALL) end
  | DCallSelf =>
    match current_function (frames g) with
    | Some n => SCall n (a_cb a) ops (set_ops a []) g
    | None => SFail (E_panic OP_CALL_SELF) end
  | DRet =>
    match ops with
    | [] => SRet None a g
    | [v] => SRet (Some v) (set_ops a []) g
    | _ => SFail (E_stack_shape OP_RET) end
  | DRetMod => match ops with [] => SRet (Some VModule) a g | _ => SFail (E_stack_shape OP_RET_MOD) end
  | DBinOpAssign sym n =>
    match lookup_var a g n, unsnoc ops with
    | None, _ => SFail (E_load_before_store n)
    | Some c, None => SFail (E_panic OP_BIN_OP_ASSIGN)
    | Some c, Some (r, v) =>
      match cell_get g c with
      | None => SFail (E_panic OP_BIN_OP_ASSIGN)
      | Some cur =>
        let base := match sym with [x; 61%N] => [x] | _ => [] end in
        match bin_op_sem base cur v with
        | OV (VBool _) => SFail (E_unsupported OP_BIN_OP_ASSIGN)
        | OV res => SNext (set_ops a (r ++ [res])) (cell_set g c res)
        | OE e => SFail e end
      end
    end
  end.

Definition exec (i : instr) (a : act) (g : gstate) : sres :=
  match decode i with DOk d => exec_d d a g | DErr e => SFail e end.

(* ---------------------------------------------------------------- Function::run *)
Definition program := list (str * list instr).          (* qualified name -> code *)

Inductive rres :=
| RDone (rv : option value) (g : gstate)
| RFail (e : err) (g : gstate)                          (* frames of g = the stack at the failure *)
| RFuel.

Definition goto (len : nat) (ip : nat) (off : Z) : option nat :=
  let t := Z.of_nat ip + off in
  if (t <? 0) || (Z.of_nat len <=? t) then None else Some (Z.to_nat t).

(* `rc caller ip returned_a_value` is an instrumentation hook consulted when a callee returns:
   the interpreter is `run_fn` = `run_fn_gen` with the hook that always says yes.  The hook lets the
   operand-shape theorem of C09 say "provided every call delivers the arity its site expects". *)
Fixpoint run_fn_gen (rc : str -> nat -> bool -> bool) (fuel : nat) (p : program) (name : str) (argv : list value)
         (cb : option (list (str * N))) (g : gstate) : rres :=
  match fuel with O => RFuel | S fuel0 =>
  match assoc name p with
  | None => RFail (E_no_function name) g
  | Some code =>
    let len := length code in
    (fix loop (fuel : nat) (a : act) (g : gstate) {struct fuel} : rres :=
       match fuel with O => RFuel | S fuel =>
       match nth_error code (a_ip a) with
       | None => (* fell off the end: pop ONE frame, no value *)
                 match pop_frame g with Some g' => RDone None g' | None => RFail (E_panic 0%N) g end
       | Some i =>
         let g := add_trace g (name, N.of_nat (a_ip a), op i, N.of_nat (length (frames g)), N.of_nat (length (a_ops a))) in
         match exec i a g with
         | SFail e => RFail e g
         | SNext a g => loop fuel (set_ip a (S (a_ip a))) g
         | SGoto off a g => match goto len (a_ip a) off with
                            | Some t => loop fuel (set_ip a t) g | None => RFail E_goto_range g end
         | SPush l a g => loop fuel (set_ip (set_ss a (S (a_ss a))) (S (a_ip a))) (push_frame g l)
         | SGotoPop off n a g =>
           match goto len (a_ip a) off with
           | None => RFail E_goto_range g
           | Some t => match pop_frames n g with
                       | Some g' => loop fuel (set_ip a t) g' | None => RFail (E_panic OP_JMP_POP) g end
           end
         | SPopScope a g =>
           match a_ss a with
           | O => loop fuel (set_ip a (S (a_ip a))) g
           | S k => match pop_frame g with
                    | Some g' => loop fuel (set_ip (set_ss a k) (S (a_ip a))) g'
                    | None => RFail (E_panic OP_DONE) g end
           end
         | SRet rv a g => RDone rv (with_frames g (drop_to_function (frames g)))
         | SCall dest cb' argv' a g =>
           match run_fn_gen rc fuel0 p dest argv' cb' g with
           | RDone rv g' =>
             if negb (rc name (a_ip a) (match rv with Some _ => true | None => false end)) then RFail E_arity g' else
             loop fuel (set_ip (match rv with Some v => set_ops a (a_ops a ++ [v]) | None => a end) (S (a_ip a))) g'
           | RFail e g' => RFail e g'
           | RFuel => RFuel end
         end
       end end) fuel0
      {| a_fn := name; a_ip := 0; a_ops := []; a_args := argv; a_cb := cb; a_ss := 0 |}
      (push_frame g (LFun name))
  end end.

Definition run_fn := run_fn_gen (fun _ _ _ => true).

(* Program::execute : run <entry>#__module__; afterwards the call stack must be empty *)
Inductive outcome := Done | StackMismatch (n : N) | RuntimeErr (e : err) (stack : list flabel) | OutOfFuel.

Definition g0 : gstate := {| cells := []; frames := []; out := []; trace := [] |}.

Definition execute (fuel : nat) (p : program) (entry : str) : list str * outcome * list tev :=
  match run_fn fuel p entry [] None g0 with
  | RDone _ g => (out g, match frames g with [] => Done | fs => StackMismatch (N.of_nat (length fs)) end, rev (trace g))
  | RFail e g => (out g, RuntimeErr e (map lab (frames g)), rev (trace g))
  | RFuel => ([], OutOfFuel, [])
  end.
