(* VM-level code lemmas behind C12 (for all states): jmp_not_nil, unwrap, unwrap_into, nil-aware equality *)
From MS Require Import Vm.Model.

(* `(x) or y`: jmp_not_nil pops a nil and falls through into the fallback code; anything else jumps over it
   with the value left on the operand stack *)
Theorem jmp_not_nil_nil : forall a g off r, a_ops a = r ++ [VNil] ->
  exec_d (DJmpNotNil off) a g = SNext (set_ops a r) g.
Proof.
  intros a g off r H. cbn [exec_d]. rewrite H.
  assert (E : unsnoc (r ++ [VNil]) = Some (r, VNil)).
  { clear. induction r as [|x r IH]; [reflexivity|]. cbn [app unsnoc]. rewrite IH. destruct (r ++ [VNil]) eqn:E; [now destruct r|reflexivity]. }
  now rewrite E.
Qed.
Lemma unsnoc_snoc {A} (r : list A) x : unsnoc (r ++ [x]) = Some (r, x).
Proof. induction r as [|y r IH]; [reflexivity|]. cbn [app unsnoc]. rewrite IH. destruct (r ++ [x]) eqn:E; [now destruct r|reflexivity]. Qed.
Theorem jmp_not_nil_present : forall a g off r v, a_ops a = r ++ [v] -> v <> VNil ->
  exec_d (DJmpNotNil off) a g = SGoto off a g.
Proof. intros a g off r v H Hv. cbn [exec_d]. rewrite H, unsnoc_snoc. destruct v; try reflexivity. contradiction. Qed.

(* `get x`: nil stops the program with the span the compiler put in the instruction; a present value is left as is *)
Theorem unwrap_nil_fails_with_span : forall a g span r, a_ops a = r ++ [VNil] ->
  exec_d (DUnwrap span) a g = SFail (E_unwrap_nil span).
Proof. intros a g span r H. cbn [exec_d]. now rewrite H, unsnoc_snoc. Qed.
Theorem unwrap_present : forall a g span r v, a_ops a = r ++ [v] -> v <> VNil -> (forall w, v <> VSome w) ->
  exec_d (DUnwrap span) a g = SNext a g.
Proof. intros a g span r v H Hv Hs. cbn [exec_d]. rewrite H, unsnoc_snoc. destruct v; try reflexivity; [contradiction|exfalso; eapply Hs; reflexivity]. Qed.

(* `a ?= e`: the value is stored into a exactly as `a = ...` would (nil included) and the presence flag is pushed *)
Theorem unwrap_into_flag : forall a g n r v g', a_ops a = r ++ [v] -> (forall w, v <> VSome w) ->
  store_var g n v = Some g' ->
  exec_d (DUnwrapInto n) a g = SNext (set_ops a (r ++ [VBool (match v with VNil => false | _ => true end)])) g'.
Proof.
  intros a g n r v g' H Hs Hb. cbn [exec_d]. rewrite H, unsnoc_snoc.
  destruct v; cbn; rewrite ?Hb; try reflexivity. exfalso; eapply Hs; reflexivity.
Qed.

(* nil-aware equality: nil equals only nil; a present optional holding v equals the plain v *)
Theorem equals_nil_iff : forall v, val_equals 100 v VNil = Some (match v with VNil => true | _ => false end).
Proof. intros v. destruct v; reflexivity. Qed.
Theorem present_equals_plain : forall z, val_equals 100 (VSome (VInt z)) (VInt z) = Some true.
Proof. intros z. cbn. now rewrite Z.eqb_refl. Qed.
